//! C12, the runtime half: "queries, launch reports and checks from any thread complete promptly even
//! while an update is stuck on a hung connection; a second update requested while one is running
//! returns immediately with an 'already in progress' error".
//!
//! One scenario per network stage of an update (event report, patch check, download): the update runs
//! on its own thread and its callback at that stage blocks until released; meanwhile every other
//! exported call is issued from the main thread and must return within `LIMIT`. Output lines:
//!   HUNG stage=<event|check|download> call=<name> ms=<elapsed> ret=<token> verdict=<ok|BLOCKED|NOT-BUSY|WRONG>
use crate::exec::*;
use crate::proto::*;
use std::sync::atomic::{AtomicBool, AtomicUsize, Ordering};
use std::sync::{Condvar, Mutex};
use std::time::{Duration, Instant};

pub const LIMIT: Duration = Duration::from_millis(10000);

/// 0 = none, 1 = event report, 2 = patch check, 3 = download
pub static HANG_STAGE: AtomicUsize = AtomicUsize::new(0);
pub static HANGING: AtomicBool = AtomicBool::new(false);
pub static RELEASE: Mutex<bool> = Mutex::new(false);
pub static RELEASE_CV: Condvar = Condvar::new();

/// Called by the scripted HTTP server (real-HTTP transport) before it answers a request of that stage: the
/// connection of the update — the first request of that stage — stays open and silent: a hung connection.
pub fn maybe_hang_http(stage: usize) {
    if HANG_STAGE.load(Ordering::SeqCst) != stage {
        return;
    }
    hang_here();
}

/// Called by the network callbacks: blocks the update thread (role 0) at the configured stage.
pub fn maybe_hang(stage: usize) {
    if HANG_STAGE.load(Ordering::SeqCst) != stage || ROLE.with(|r| r.get()) != Some(0) {
        return;
    }
    hang_here();
}

fn hang_here() {
    if HANGING.swap(true, Ordering::SeqCst) {
        return; // only the first callback of that stage hangs
    }
    let mut rel = RELEASE.lock().unwrap();
    let deadline = Instant::now() + Duration::from_secs(120);
    while !*rel && Instant::now() < deadline {
        let (g, _) = RELEASE_CV.wait_timeout(rel, Duration::from_millis(100)).unwrap();
        rel = g;
    }
}

fn timed<F: FnOnce() -> String + Send + 'static>(f: F) -> (Option<String>, u128) {
    crate::tick();
    let t0 = Instant::now();
    let (tx, rx) = std::sync::mpsc::channel();
    std::thread::spawn(move || {
        let r = f();
        let _ = tx.send(r);
    });
    match rx.recv_timeout(LIMIT) {
        Ok(r) => (Some(r), t0.elapsed().as_millis()),
        Err(_) => (None, t0.elapsed().as_millis()),
    }
}

/// Runs the three scenarios; returns the report lines and the number of violations.
pub fn run_hung(fixture_base: &[u8], target: &[u8], patch: &[u8]) -> (Vec<String>, usize) {
    let mut lines = Vec::new();
    let mut bad = 0usize;
    for (stage, name) in [(1usize, "event"), (2, "check"), (3, "download")] {
        let mut runner = Runner::new();
        runner.write_lib("libapp.so", fixture_base);
        let yaml = Yaml { app_id: "app-hung".into(), channel: None, base_url: None, auto_update: Some(false), key: None };
        let init = Op::Init { version: "1.0.0+1".into(), dirs: 0, libs: vec!["libapp.so".into()], yaml: Ok(yaml), count: None };
        runner.exec(&init);
        let offer = Offer { number: 1, hash: sha256_hex(target), url: "https://cdn.example/patch/1".into(), sig: None };
        let resp = Resp { available: true, patch: Some(offer.clone()), rolled_back: None };
        // queue an event so that the event stage exists: install 1, start, failure
        runner.exec(&Op::Update { chan: None, resp: Some(resp.clone()), dl: Some(patch.to_vec()), evf: 0 });
        runner.exec(&Op::Start);
        runner.exec(&Op::Failure);
        // the update that will hang offers patch 2
        let offer2 = Offer { number: 2, ..offer.clone() };
        let resp2 = Resp { available: true, patch: Some(offer2), rolled_back: None };
        *RELEASE.lock().unwrap() = false;
        HANGING.store(false, Ordering::SeqCst);
        HANG_STAGE.store(stage, Ordering::SeqCst);
        let storage = runner.storage();
        let upd = Op::Update { chan: None, resp: Some(resp2.clone()), dl: Some(patch.to_vec()), evf: 0 };
        let st2 = storage.clone();
        let a = std::thread::spawn(move || {
            ROLE.with(|r| r.set(Some(0)));
            exec_call(&upd, &st2)
        });
        let t0 = Instant::now();
        while !HANGING.load(Ordering::SeqCst) && t0.elapsed() < Duration::from_secs(10) {
            std::thread::sleep(Duration::from_millis(1));
        }
        if !HANGING.load(Ordering::SeqCst) {
            lines.push(format!("HUNG stage={} call=setup ms={} ret=~ verdict=WRONG (the update never reached the {} callback)", name, t0.elapsed().as_millis(), name));
            bad += 1;
        } else {
            // every other exported call, from this (another) thread
            let calls: Vec<(&str, Op)> = vec![
                ("next_boot_patch_number", Op::NextN),
                ("next_boot_patch_path", Op::NextP),
                ("current_boot_patch_number", Op::CurN),
                ("should_auto_update", Op::Auto),
                ("report_launch_start", Op::Start),
                ("report_launch_success", Op::Success),
                ("report_launch_failure", Op::Failure),
                ("check_for_downloadable_update", Op::Check { chan: None, resp: Some(resp2.clone()) }),
                ("update_with_result (second update)", Op::Update { chan: None, resp: Some(resp2.clone()), dl: Some(patch.to_vec()), evf: 0 }),
            ];
            for (cname, op) in calls {
                let st = storage.clone();
                let is_update = matches!(op, Op::Update { .. });
                let (ret, ms) = timed(move || {
                    ROLE.with(|r| r.set(Some(1)));
                    exec_call(&op, &st)
                });
                let verdict = match &ret {
                    None => { bad += 1; "BLOCKED" }
                    Some(r) if is_update && r != "s-1:busy" => { bad += 1; "NOT-BUSY" }
                    Some(_) => "ok",
                };
                lines.push(format!("HUNG stage={} call={} ms={} ret={} verdict={}", name, enc_tok(cname), ms, ret.unwrap_or("~".into()), verdict));
            }
        }
        // updates requested through the background entry point while one is stuck must not queue up behind it:
        // once the stuck update is released, exactly ONE patch check may have been made in this scenario
        let started = if HANGING.load(Ordering::SeqCst) {
            for _ in 0..2 {
                std::thread::spawn(|| { ROLE.with(|r| r.set(Some(1))); updater::c_api::shorebird_start_update_thread(); }).join().ok();
            }
            std::thread::sleep(Duration::from_millis(200));
            true
        } else { false };
        *RELEASE.lock().unwrap() = true;
        RELEASE_CV.notify_all();
        let ret = a.join().unwrap_or_else(|_| "panic".into());
        if started {
            drain_bg_threads();
            // patch checks seen since the stuck update began: its own and the one explicit check call above; every
            // further one comes from an update that had queued up behind the stuck one
            let checks = NET.lock().unwrap().log.iter().filter(|a| matches!(a, NetAct::Check { .. })).count();
            let verdict = if checks <= 2 { "ok" } else { bad += 1; "QUEUED" };
            lines.push(format!("HUNG stage={} call=start_update_thread%20x2 ms=0 ret=patch-checks:{} verdict={}", name, checks, verdict));
        }
        HANG_STAGE.store(0, Ordering::SeqCst);
        drain_bg_threads();
        lines.push(format!("HUNG stage={} call=the-hung-update ms=0 ret={} verdict=ok", name, ret));
    }
    (lines, bad)
}
