//! Real-HTTP transport (`drive --http`): the same histories, but the library keeps its DEFAULT network hooks
//! (`reqwest`, `handle_network_result`, its own JSON (de)serialisation) and talks to a scripted HTTP/1.1 server on
//! 127.0.0.1. What the hook-mode callbacks decide from the op's script — the check answers / fails, the download
//! delivers these bytes / fails, the i-th event post succeeds / fails — the server enacts on the wire, choosing among
//! several *flavours* of each outcome (status codes, connection resets, truncated and malformed bodies, stalls,
//! length-delimited vs close-delimited bodies) as a function of the op, so that a replay reproduces them. The
//! network log is what the server RECEIVED: the request fields are read from the real JSON on the wire.
use crate::exec::*;
use crate::proto::*;
use std::io::{Read, Write};
use std::net::{TcpListener, TcpStream};
use std::sync::atomic::{AtomicBool, AtomicU64, AtomicUsize, Ordering};
use std::sync::OnceLock;

pub static HTTP_MODE: AtomicBool = AtomicBool::new(false);
/// Hash of the op being executed: selects the flavour of every outcome of this op.
pub static OP_NONCE: AtomicU64 = AtomicU64::new(0);
/// Which stages of the current op the server made fail (for the classification of the update's error).
pub static CHECK_FAULTED: AtomicBool = AtomicBool::new(false);
pub static DL_FAULTED: AtomicBool = AtomicBool::new(false);
/// Requests the server could not make sense of (never expected).
pub static BAD_REQUESTS: AtomicUsize = AtomicUsize::new(0);
static PORT: OnceLock<u16> = OnceLock::new();

pub fn nonce_of(line: &str) -> u64 {
    let mut h: u64 = 0xcbf29ce484222325;
    for b in line.as_bytes() {
        h ^= *b as u64;
        h = h.wrapping_mul(0x100000001b3);
    }
    h
}

pub fn base_url() -> String {
    format!("http://127.0.0.1:{}", ensure_server())
}

pub fn ensure_server() -> u16 {
    *PORT.get_or_init(|| {
        let l = TcpListener::bind("127.0.0.1:0").expect("bind 127.0.0.1");
        let port = l.local_addr().unwrap().port();
        std::thread::spawn(move || {
            for s in l.incoming() {
                if let Ok(s) = s {
                    std::thread::spawn(move || handle(s));
                }
            }
        });
        port
    })
}

fn read_request(s: &mut TcpStream) -> Option<(String, String, Vec<u8>)> {
    let mut buf: Vec<u8> = Vec::new();
    let mut tmp = [0u8; 4096];
    let head_end;
    loop {
        if let Some(p) = buf.windows(4).position(|w| w == b"\r\n\r\n") {
            head_end = p + 4;
            break;
        }
        let n = s.read(&mut tmp).ok()?;
        if n == 0 {
            return None;
        }
        buf.extend_from_slice(&tmp[..n]);
        if buf.len() > 1 << 20 {
            return None;
        }
    }
    let head = String::from_utf8_lossy(&buf[..head_end]).to_string();
    let mut lines = head.split("\r\n");
    let first = lines.next()?;
    let mut parts = first.split(' ');
    let method = parts.next()?.to_string();
    let path = parts.next()?.to_string();
    let mut len = 0usize;
    for l in lines {
        if let Some((k, v)) = l.split_once(':') {
            if k.eq_ignore_ascii_case("content-length") {
                len = v.trim().parse().ok()?;
            }
        }
    }
    let mut body = buf[head_end..].to_vec();
    while body.len() < len {
        let n = s.read(&mut tmp).ok()?;
        if n == 0 {
            return None;
        }
        body.extend_from_slice(&tmp[..n]);
    }
    Some((method, path, body))
}

fn respond(s: &mut TcpStream, status: &str, ctype: &str, body: &[u8], with_length: bool) {
    let mut head = format!("HTTP/1.1 {}\r\nContent-Type: {}\r\nConnection: close\r\n", status, ctype);
    if with_length {
        head.push_str(&format!("Content-Length: {}\r\n", body.len()));
    }
    head.push_str("\r\n");
    let _ = s.write_all(head.as_bytes());
    let _ = s.write_all(body);
    let _ = s.flush();
}

/// A response that announces `announced` bytes and delivers fewer, then closes.
fn respond_short(s: &mut TcpStream, body: &[u8], announced: usize) {
    let head = format!("HTTP/1.1 200 OK\r\nContent-Type: application/octet-stream\r\nConnection: close\r\nContent-Length: {}\r\n\r\n", announced);
    let _ = s.write_all(head.as_bytes());
    let _ = s.write_all(body);
    let _ = s.flush();
}

fn pct_decode(s: &str) -> String {
    let b = s.as_bytes();
    let mut out = Vec::new();
    let mut i = 0;
    while i < b.len() {
        if b[i] == b'%' && i + 3 <= b.len() {
            if let Ok(v) = u8::from_str_radix(&s[i + 1..i + 3], 16) {
                out.push(v);
                i += 3;
                continue;
            }
        }
        out.push(b[i]);
        i += 1;
    }
    String::from_utf8_lossy(&out).to_string()
}

fn pct_encode(s: &str) -> String {
    let mut out = String::new();
    for &b in s.as_bytes() {
        if b.is_ascii_alphanumeric() || b == b'-' || b == b'_' || b == b'.' {
            out.push(b as char);
        } else {
            out.push_str(&format!("%{:02X}", b));
        }
    }
    out
}

fn handle(mut s: TcpStream) {
    let _ = s.set_read_timeout(Some(std::time::Duration::from_secs(20)));
    let (method, path, body) = match read_request(&mut s) {
        Some(r) => r,
        None => {
            BAD_REQUESTS.fetch_add(1, Ordering::SeqCst);
            return;
        }
    };
    let nonce = OP_NONCE.load(Ordering::SeqCst);
    if method == "POST" && path == "/api/v1/patches/check" {
        let v: serde_json::Value = serde_json::from_slice(&body).unwrap_or(serde_json::Value::Null);
        let g = |k: &str| v[k].as_str().unwrap_or("?").to_string();
        let resp = {
            let mut st = NET.lock().unwrap();
            st.log.push(NetAct::Check { app_id: g("app_id"), channel: g("channel"), version: g("release_version"), platform: g("platform"), arch: g("arch") });
            st.resp.clone()
        };
        note_net_call_http();
        crate::hung::maybe_hang_http(2);
        match resp {
            None => {
                CHECK_FAULTED.store(true, Ordering::SeqCst);
                match nonce % 8 {
                    0 => respond(&mut s, "500 Internal Server Error", "text/plain", b"oops", true),
                    1 => {
                        // an error status carrying a well-formed, positive answer: it must not be believed
                        let decoy = serde_json::json!({ "patch_available": true, "patch": { "number": 4242, "hash": "00",
                            "download_url": format!("http://127.0.0.1:{}/dl/decoy", ensure_server()), "hash_signature": null } });
                        respond(&mut s, "404 Not Found", "application/json", &serde_json::to_vec(&decoy).unwrap(), true)
                    }
                    2 => {}                                                             // closed without an answer
                    3 => { let _ = s.write_all(b"\x00\x01 this is not HTTP\r\n\r\n"); }
                    4 => respond(&mut s, "200 OK", "application/json", b"{\"patch_available\": tr", true),
                    5 => respond(&mut s, "200 OK", "application/json", b"[1, 2, 3]", true),
                    6 => { std::thread::sleep(std::time::Duration::from_millis(150)); }   // stalled, then closed
                    _ => respond(&mut s, "200 OK", "application/json", b"{\"patch_available\": \"yes\", \"patch\": 7}", false),
                }
            }
            Some(r) => {
                let port = ensure_server();
                let patch = match &r.patch {
                    None => serde_json::Value::Null,
                    Some(o) => {
                        let mut p = serde_json::json!({
                            "number": o.number, "hash": o.hash,
                            "download_url": format!("http://127.0.0.1:{}/dl/{}", port, pct_encode(&o.url)),
                        });
                        // an absent signature is sent as null or left out, by flavour
                        match &o.sig {
                            Some(sg) => { p["hash_signature"] = serde_json::Value::String(sg.clone()); }
                            None => if nonce % 2 == 0 { p["hash_signature"] = serde_json::Value::Null; },
                        }
                        p
                    }
                };
                let mut j = serde_json::json!({ "patch_available": r.available });
                if r.patch.is_some() || nonce % 3 == 0 { j["patch"] = patch; }
                match &r.rolled_back {
                    Some(v) => { j["rolled_back_patch_numbers"] = serde_json::json!(v); }
                    None => if nonce % 5 == 0 { j["rolled_back_patch_numbers"] = serde_json::Value::Null; },
                }
                // servers add fields over time: unknown ones must be ignored
                if nonce % 7 == 0 { j["served_by"] = serde_json::json!("verif"); }
                let text = serde_json::to_vec(&j).unwrap();
                respond(&mut s, "200 OK", "application/json", &text, nonce % 4 != 1);
            }
        }
    } else if method == "GET" && path.starts_with("/dl/") {
        let url = pct_decode(&path[4..]);
        let dl = {
            let mut st = NET.lock().unwrap();
            st.log.push(NetAct::Download(url));
            st.dl.clone()
        };
        note_net_call_http();
        crate::hung::maybe_hang_http(3);
        match dl {
            None => {
                DL_FAULTED.store(true, Ordering::SeqCst);
                match (nonce / 8) % 5 {
                    0 => respond(&mut s, "404 Not Found", "text/html", b"<html>not here</html>", true),
                    1 => respond(&mut s, "503 Service Unavailable", "text/plain", b"", true),
                    2 => {}
                    3 => respond_short(&mut s, b"\x28\xb5\x2f\xfd partial", 4096),          // announced length never delivered
                    _ => { std::thread::sleep(std::time::Duration::from_millis(150)); }
                }
            }
            Some(b) => respond(&mut s, "200 OK", "application/octet-stream", &b, (nonce / 8) % 3 != 1),
        }
    } else if method == "POST" && path == "/api/v1/patches/events" {
        let v: serde_json::Value = serde_json::from_slice(&body).unwrap_or(serde_json::Value::Null);
        let e = &v["event"];
        let kind = match e["type"].as_str().unwrap_or("") {
            "__patch_install__" => 'I',
            "__patch_install_failure__" => 'F',
            "__patch_download__" => 'D',
            _ => '?',
        };
        let ev = Event {
            kind,
            number: e["patch_number"].as_u64().unwrap_or(u64::MAX) as usize,
            app_id: e["app_id"].as_str().unwrap_or("?").to_string(),
            version: e["release_version"].as_str().unwrap_or("?").to_string(),
            platform: e["platform"].as_str().unwrap_or("?").to_string(),
            arch: e["arch"].as_str().unwrap_or("?").to_string(),
            msg: e["message"].as_str().map(|s| s.to_string()),
        };
        let ok = {
            let mut st = NET.lock().unwrap();
            st.log.push(NetAct::Event(ev));
            let i = st.events_seen;
            st.events_seen += 1;
            st.event_results.get(i).copied().unwrap_or(true)
        };
        note_net_call_http();
        crate::hung::maybe_hang_http(1);
        if ok {
            match (nonce / 64) % 3 {
                0 => respond(&mut s, "200 OK", "application/json", b"{}", true),
                1 => respond(&mut s, "201 Created", "application/json", b"", true),
                _ => respond(&mut s, "204 No Content", "text/plain", b"", true),
            }
        } else {
            match (nonce / 64) % 3 {
                0 => respond(&mut s, "500 Internal Server Error", "text/plain", b"no", true),
                1 => {}
                _ => respond(&mut s, "400 Bad Request", "application/json", b"{\"error\":\"x\"}", true),
            }
        }
    } else {
        BAD_REQUESTS.fetch_add(1, Ordering::SeqCst);
        respond(&mut s, "404 Not Found", "text/plain", b"?", true);
    }
    let _ = s.shutdown(std::net::Shutdown::Both);
}
