//! crash run --root DIR --ops FILE      execute the `O` lines of FILE against the storage under DIR, one `R` line per op
//! crash observe --root DIR             print one `R` line: the storage directory as it is now
//!
//! Used by tools/crash.py: the process that executes the interrupted call runs under the
//! LD_PRELOAD interposer and is killed at its k-th mutating file-system call; recovery and
//! observation run in fresh processes.
use verif_harness::exec::*;
use verif_harness::proto::*;

fn main() {
    verif_harness::silence_logs();
    verif_harness::start_watchdog(std::env::var("VERIF_WATCHDOG_SECS").ok().and_then(|s| s.parse().ok()).unwrap_or(60));
    let args: Vec<String> = std::env::args().collect();
    let get = |k: &str| -> Option<String> { args.iter().position(|a| a == k).and_then(|i| args.get(i + 1)).cloned() };
    let root = std::path::PathBuf::from(get("--root").expect("--root"));
    let mode = args.get(1).map(|s| s.as_str()).unwrap_or("");
    std::panic::set_hook(Box::new(|info| {
        eprintln!("PANIC {}", info);
    }));
    let mut runner = Runner::at(root);
    match mode {
        "observe" => {
            let o = runner.observe("u".to_string());
            println!("R {}", render_obs(&o));
        }
        "run" => {
            let text = std::fs::read_to_string(get("--ops").expect("--ops")).unwrap();
            for line in text.lines() {
                let line = line.trim();
                if let Some(rest) = line.strip_prefix("L ") {
                    let p: Vec<&str> = rest.split_whitespace().collect();
                    if p.len() == 2 {
                        if let (Some(name), Some(bytes)) = (dec_tok(p[0]), dec_hex(p[1])) { runner.write_lib(&name, &bytes); }
                    }
                } else if let Some(rest) = line.strip_prefix("O ") {
                    match parse_op(rest, &|s| zstd_compress(s)) {
                        Some(op) => {
                            let ret = runner.exec(&op);
                            let o = runner.observe(ret);
                            println!("R {}", render_obs(&o));
                        }
                        None => { eprintln!("crash: unparsable op {}", rest); std::process::exit(3); }
                    }
                }
            }
        }
        _ => { eprintln!("usage: crash run|observe --root DIR [--ops FILE]"); std::process::exit(2); }
    }
}
