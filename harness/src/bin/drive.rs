//! drive --seed S --count N --profile P [--out FILE] [--stats FILE]
use std::io::Write;

fn main() {
    verif_harness::silence_logs();
    verif_harness::start_watchdog(std::env::var("VERIF_WATCHDOG_SECS").ok().and_then(|s| s.parse().ok()).unwrap_or(60));
    let args: Vec<String> = std::env::args().collect();
    let get = |k: &str, d: &str| -> String {
        args.iter().position(|a| a == k).and_then(|i| args.get(i + 1)).cloned().unwrap_or(d.to_string())
    };
    if args.iter().any(|a| a == "--http") {
        verif_harness::http::HTTP_MODE.store(true, std::sync::atomic::Ordering::SeqCst);
        verif_harness::http::ensure_server();
    }
    if args.iter().any(|a| a == "--hung") {
        // C12, runtime half: every other call returns promptly while an update hangs in a network callback
        let base: Vec<u8> = (0..4096u32).map(|i| (i * 7 % 251) as u8).collect();
        let mut target = base.clone();
        for i in (0..target.len()).step_by(97) { target[i] ^= 0x5a; }
        let patch = verif_harness::gen::make_patch_fast(&base, &target);
        let (lines, bad) = verif_harness::hung::run_hung(&base, &target, &patch);
        for l in &lines { println!("{}", l); }
        println!("HUNG-SUMMARY lines={} violations={}", lines.len(), bad);
        std::process::exit(if bad == 0 { 0 } else { 1 });
    }
    let seed: u64 = get("--seed", "1").parse().unwrap();
    let count: u64 = get("--count", "100").parse().unwrap();
    let prof = verif_harness::gen::profile(&get("--profile", "mixed"));
    let out_path = get("--out", "-");
    let stats_path = get("--stats", "");
    let journal = get("--journal", "");
    if !journal.is_empty() { verif_harness::set_journal(&journal); }
    use verif_harness::PANICS;
    std::panic::set_hook(Box::new(|info| {
        PANICS.fetch_add(1, std::sync::atomic::Ordering::SeqCst);
        eprintln!("PANIC {}", info);
    }));
    let mut out: Box<dyn Write> = if out_path == "-" {
        Box::new(std::io::BufWriter::new(std::io::stdout()))
    } else {
        Box::new(std::io::BufWriter::new(std::fs::File::create(&out_path).unwrap()))
    };
    let replay = get("--replay", "");
    let mut stats = if replay.is_empty() {
        verif_harness::run_campaign(seed, count, &prof, &mut out)
    } else {
        verif_harness::run_replay(&std::fs::read_to_string(&replay).unwrap(), &mut out)
    };
    out.flush().unwrap();
    stats.panics = PANICS.load(std::sync::atomic::Ordering::SeqCst);
    if !stats_path.is_empty() {
        std::fs::write(&stats_path, serde_json::to_string_pretty(&stats).unwrap()).unwrap();
    }
    let bad_http = verif_harness::http::BAD_REQUESTS.load(std::sync::atomic::Ordering::SeqCst);
    if bad_http != 0 { eprintln!("drive: {} requests the scripted HTTP server could not interpret", bad_http); }
    eprintln!("drive: {} histories, {} ops, {} net calls, {} under lock, {} panics", stats.histories, stats.ops, stats.net_calls, stats.net_under_lock, stats.panics);
}
