//! codec --seed S --count N [--big] --out FILE : tool/decoder/hash lines for `model codec`,
//! and end-to-end installs of the tool's real output through the library's C API.
use std::io::Write;
use verif_harness::exec::*;
use verif_harness::gen::*;
use verif_harness::proto::*;

fn real_matches(older: &[u8], newer: &[u8]) -> Vec<(usize, usize, usize, usize)> {
    let params = bidiff::DiffParams::new(1, None).unwrap();
    let mut v = Vec::new();
    bidiff::diff(older, newer, &params, |m| -> Result<(), std::io::Error> {
        v.push((m.add_old_start, m.add_new_start, m.add_length, m.copy_end));
        Ok(())
    })
    .unwrap();
    v
}

/// The real decoder against a real file (the library opens the base as a file).
fn real_decode(stream: &[u8], older: &[u8], tmp: &std::path::Path) -> Option<Vec<u8>> {
    use std::io::Read;
    std::fs::write(tmp, older).unwrap();
    let f = std::fs::File::open(tmp).unwrap();
    let mut r = match bipatch::Reader::new(std::io::Cursor::new(stream.to_vec()), f) {
        Ok(r) => r,
        Err(_) => return None,
    };
    let mut out = Vec::new();
    match r.read_to_end(&mut out) {
        Ok(_) => Some(out),
        Err(_) => None,
    }
}

fn args_huge() -> bool { std::env::args().any(|a| a == "--huge") }

/// `force`: the shape of the new binary (the end-to-end installs of a big run cycle through the shapes that make the
/// decoder seek backwards and forwards over more than one read buffer of the base).
fn gen_pair(rng: &mut Rng, big: bool, force: Option<usize>) -> (Vec<u8>, Vec<u8>) {
    let huge = args_huge();
    let scale = if huge { 1 << (18 + rng.below(5)) }
        else if big { if force.is_some() { 1 << (15 + rng.below(5)) } else { 1 << (10 + rng.below(10)) } }
        else { 1 + rng.below(96) };
    let olen = if force.is_some() { scale / 2 + rng.below(scale / 2) } else { 1 + rng.below(scale) };
    let older: Vec<u8> = match rng.below(4) {
        0 => vec![rng.next() as u8; olen],
        1 => (0..olen).map(|i| (i % 7) as u8).collect(),
        _ => rng.bytes(olen),
    };
    let shape = rng.below(13);
    let newer = match force.unwrap_or(shape) {
        10 => older[rng.below(older.len())..].to_vec(),                                               // leading section removed
        11 => { let k = rng.below(older.len() + 1); let mut v = older[k..].to_vec(); v.extend(&older[..k]); v }   // two sections swapped
        12 => { let k = rng.below(older.len()); let mut v = older[k..].to_vec(); let n = rng.below(16); v.extend(rng.bytes(n)); v } // tail of the base, then new bytes
        0 => Vec::new(),
        1 => older.clone(),
        2 => { let n = rng.below(scale + 1); rng.bytes(n) }
        3 => { let mut v = older.clone(); let n = rng.below(32); v.extend(rng.bytes(n)); v }       // shared prefix
        4 => { let n = rng.below(32); let mut v = rng.bytes(n); v.extend(&older); v }                 // shared suffix
        5 => { let mut v = older.clone(); v.extend(&older); v }                                       // repeated block
        6 => older[..rng.below(older.len() + 1)].to_vec(),
        _ => {
            // structured edits
            let mut v = older.clone();
            for _ in 0..(1 + rng.below(4)) {
                if v.is_empty() { break; }
                let a = rng.below(v.len());
                match rng.below(3) {
                    0 => { v[a] ^= 0x55; }
                    1 => { let n = rng.below(16); let ins = rng.bytes(n); v.splice(a..a, ins); }
                    _ => { let b = (a + rng.below(16)).min(v.len()); v.drain(a..b); }
                }
            }
            v
        }
    };
    (older, newer)
}

fn main() {
    verif_harness::silence_logs();
    let args: Vec<String> = std::env::args().collect();
    let get = |k: &str, d: &str| -> String { args.iter().position(|a| a == k).and_then(|i| args.get(i + 1)).cloned().unwrap_or(d.to_string()) };
    let seed: u64 = get("--seed", "1").parse().unwrap();
    let count: u64 = get("--count", "200").parse().unwrap();
    let big = args.iter().any(|a| a == "--big");
    let e2e: u64 = get("--e2e", "20").parse().unwrap();
    let out_path = get("--out", "-");
    let mut out: Box<dyn Write> = if out_path == "-" { Box::new(std::io::BufWriter::new(std::io::stdout())) } else { Box::new(std::io::BufWriter::new(std::fs::File::create(&out_path).unwrap())) };
    let dirs = Dirs::new();
    let tmp = dirs.root.join("base.bin");
    let mut stats = serde_json::json!({"pairs": 0, "garbage_streams": 0, "e2e_installs": 0, "e2e_failures": 0, "zstd_mismatch": 0, "max_len": 0});
    for i in 0..count {
        let mut rng = Rng(seed.wrapping_mul(0x9E3779B97F4A7C15).wrapping_add(i.wrapping_mul(0xD1B54A32D192ED03)) ^ 0xC0DEC);
        let force = if big && i < e2e { Some([11usize, 10, 12, 7, 11, 5][(i % 6) as usize]) } else { None };
        let (older, newer) = gen_pair(&mut rng, big, force);
        let ms = real_matches(&older, &newer);
        let stream = raw_diff(&older, &newer);
        let mtxt: Vec<String> = ms.iter().map(|m| format!("{}:{}:{}:{}", m.0, m.1, m.2, m.3)).collect();
        writeln!(out, "T {} {} {} {} {}", enc_hex(&older), enc_hex(&newer), join_with(",", &mtxt), enc_hex(&stream), sha256_hex(&newer)).unwrap();
        // the real decoder on the real stream must give newer (implementation-vs-oracle, reported separately)
        if real_decode(&stream, &older, &tmp).as_deref() != Some(&newer[..]) {
            println!("IMPL-ORACLE-FAIL real decoder does not reproduce newer (seed {} case {})", seed, i);
        }
        stats["pairs"] = (stats["pairs"].as_u64().unwrap() + 1).into();
        stats["max_len"] = stats["max_len"].as_u64().unwrap().max(newer.len().max(older.len()) as u64).into();
        // decoder on damaged streams
        if !big || i % 8 == 0 {
            for _ in 0..3 {
                let mut s = stream.clone();
                match rng.below(5) {
                    0 => { let k = rng.below(s.len() + 1); s.truncate(k); }
                    1 => { if !s.is_empty() { let k = rng.below(s.len()); s[k] ^= 1 << rng.below(8); } }
                    2 => { let n = rng.below(24); s = rng.bytes(n); }
                    3 => { let n = rng.below(12); let mut h = vec![0xDF, 0xB1, 0, 0, 0, 0x10, 0, 0]; h.extend(rng.bytes(n)); s = h; }
                    _ => { let n = rng.below(8); s.extend(rng.bytes(n)); }
                }
                let base = if rng.chance(20) { let k = rng.below(40) + 1; rng.bytes(k) } else { older.clone() };
                let res = real_decode(&s, &base, &tmp);
                writeln!(out, "D {} {} {}", enc_hex(&s), enc_hex(&base), match &res { None => "E".to_string(), Some(o) => enc_hex(o) }).unwrap();
                stats["garbage_streams"] = (stats["garbage_streams"].as_u64().unwrap() + 1).into();
            }
        }
        writeln!(out, "H {} {}", enc_hex(&newer), sha256_hex(&newer)).unwrap();
        // end to end: the real tool's file through the real library
        if i < e2e {
            let patch_file = make_patch_bytes(&older, &newer);
            if decompressed_prefix(&patch_file) != stream {
                stats["zstd_mismatch"] = (stats["zstd_mismatch"].as_u64().unwrap() + 1).into();
            }
            let mut runner = Runner::new();
            runner.write_lib("libapp.so", &older);
            let init = Op::Init { version: "1.0.0".into(), dirs: 0, libs: vec!["libapp.so".into()],
                yaml: Ok(Yaml { app_id: "codec".into(), channel: None, base_url: None, auto_update: None, key: None }), count: None };
            runner.exec(&init);
            let upd = Op::Update { chan: None, resp: Some(Resp { available: true, patch: Some(Offer { number: 1, hash: sha256_hex(&newer), url: "u".into(), sig: None }), rolled_back: None }), dl: Some(patch_file), evf: 0 };
            let ret = runner.exec(&upd);
            let obs = runner.observe(ret.clone());
            let installed = ret == "s1:inst" && matches!(&obs.pd, Some((arts, _)) if arts.iter().any(|(n, a)| *n == 1 && *a == Art::File(newer.clone())));
            stats["e2e_installs"] = (stats["e2e_installs"].as_u64().unwrap() + 1).into();
            if !installed {
                stats["e2e_failures"] = (stats["e2e_failures"].as_u64().unwrap() + 1).into();
                println!("E2E-FAIL tool output did not install: ret={} older={} newer={}", ret, enc_hex(&older), enc_hex(&newer));
            }
        }
    }
    out.flush().unwrap();
    let sp = get("--stats", "");
    if !sp.is_empty() { std::fs::write(sp, stats.to_string()).unwrap(); }
    eprintln!("codec: {}", stats);
}
