//! Line protocol shared with the Lean driver (lean/UpdaterModel/Driver/Proto.lean).

pub fn is_safe(b: u8) -> bool {
    b.is_ascii_alphanumeric() || b == b'_' || b == b'-' || b == b'.'
}

/// Percent-encode; empty string is `~`.
pub fn enc_tok(s: &str) -> String {
    if s.is_empty() {
        return "~".to_string();
    }
    let mut out = String::new();
    for &b in s.as_bytes() {
        if b < 128 && is_safe(b) {
            out.push(b as char);
        } else {
            out.push_str(&format!("%{:02X}", b));
        }
    }
    out
}

pub fn enc_opt(s: &Option<String>) -> String {
    match s {
        None => "!".to_string(),
        Some(s) => enc_tok(s),
    }
}

pub fn enc_hex(b: &[u8]) -> String {
    if b.is_empty() {
        "~".to_string()
    } else {
        hex::encode(b)
    }
}

pub fn join_with(sep: &str, items: &[String]) -> String {
    if items.is_empty() {
        "~".to_string()
    } else {
        items.join(sep)
    }
}

#[derive(Clone, Debug, PartialEq, Eq)]
pub struct Meta {
    pub number: usize,
    pub size: u64,
    pub hash: String,
    pub sig: Option<String>,
}

pub fn render_meta(m: &Option<Meta>) -> String {
    match m {
        None => "!".to_string(),
        Some(m) => format!("{}:{}:{}:{}", m.number, m.size, enc_tok(&m.hash), enc_opt(&m.sig)),
    }
}

#[derive(Clone, Debug, PartialEq, Eq)]
pub struct Event {
    pub kind: char, // I F D
    pub number: usize,
    pub app_id: String,
    pub version: String,
    pub platform: String,
    pub arch: String,
    pub msg: Option<String>,
}

pub fn render_event(e: &Event) -> String {
    format!(
        "{}:{}:{}:{}:{}:{}:{}",
        e.kind,
        e.number,
        enc_tok(&e.app_id),
        enc_tok(&e.version),
        enc_tok(&e.platform),
        enc_tok(&e.arch),
        enc_opt(&e.msg)
    )
}

#[derive(Clone, Debug, PartialEq, Eq)]
pub enum NetAct {
    Event(Event),
    Check { app_id: String, channel: String, version: String, platform: String, arch: String },
    Download(String),
}

pub fn render_net(a: &NetAct) -> String {
    match a {
        NetAct::Event(e) => format!("ev:{}", render_event(e)),
        NetAct::Check { app_id, channel, version, platform, arch } => format!(
            "ck:{}:{}:{}:{}:{}",
            enc_tok(app_id),
            enc_tok(channel),
            enc_tok(version),
            enc_tok(platform),
            enc_tok(arch)
        ),
        NetAct::Download(u) => format!("dl:{}", enc_tok(u)),
    }
}

#[derive(Clone, Debug, PartialEq, Eq)]
pub enum JFile<T> {
    Missing,
    Garbage,
    Ok(T),
}

#[derive(Clone, Debug, PartialEq, Eq)]
pub struct SState {
    pub version: String,
    pub events: Vec<Event>,
}

#[derive(Clone, Debug, PartialEq, Eq)]
pub struct PatchesState {
    pub last: Option<Meta>,
    pub next: Option<Meta>,
    pub booting: Option<Meta>,
    pub bad: Vec<usize>, // sorted
}

#[derive(Clone, Debug, PartialEq, Eq)]
pub enum Art {
    EmptyDir,
    File(Vec<u8>),
}

#[derive(Clone, Debug, PartialEq, Eq)]
pub struct Obs {
    pub ret: String,
    pub net: Vec<NetAct>,
    pub sj: JFile<SState>,
    pub pj: JFile<PatchesState>,
    pub pd: Option<(Vec<(usize, Art)>, Vec<String>)>, // arts sorted by number, junk sorted
    /// lock / network actions of the calling thread (A R T U N)
    pub la: String,
    /// number of network callbacks made by background threads of this call
    pub lb: usize,
    /// directory entries outside the storage directory in use that this call changed (measured for repeated inits)
    pub outside: usize,
}

pub fn render_obs(o: &Obs) -> String {
    let sj = match &o.sj {
        JFile::Missing => "sj=M sje=~".to_string(),
        JFile::Garbage => "sj=G sje=~".to_string(),
        JFile::Ok(s) => format!(
            "sj=V:{} sje={}",
            enc_tok(&s.version),
            join_with(",", &s.events.iter().map(render_event).collect::<Vec<_>>())
        ),
    };
    let pj = match &o.pj {
        JFile::Missing => "pj=M".to_string(),
        JFile::Garbage => "pj=G".to_string(),
        JFile::Ok(p) => format!(
            "pj=V pjl={} pjn={} pjb={} pjk={}",
            render_meta(&p.last),
            render_meta(&p.next),
            render_meta(&p.booting),
            join_with(",", &p.bad.iter().map(|n| n.to_string()).collect::<Vec<_>>())
        ),
    };
    let pd = match &o.pd {
        None => "pd=M".to_string(),
        Some((arts, junk)) => format!(
            "pd={} junk={}",
            join_with(
                ",",
                &arts
                    .iter()
                    .map(|(n, a)| match a {
                        Art::EmptyDir => format!("{}:E", n),
                        Art::File(b) => format!("{}:{}", n, enc_hex(b)),
                    })
                    .collect::<Vec<_>>()
            ),
            join_with(",", &junk.iter().map(|j| enc_tok(j)).collect::<Vec<_>>())
        ),
    };
    format!(
        "ret={} net={} {} {} {} la={} lb={} out={}",
        o.ret,
        join_with(",", &o.net.iter().map(render_net).collect::<Vec<_>>()),
        sj,
        pj,
        pd,
        if o.la.is_empty() { "~" } else { &o.la },
        o.lb,
        o.outside
    )
}

/// A patch offer in a check response.
#[derive(Clone, Debug)]
pub struct Offer {
    pub number: usize,
    pub hash: String,
    pub url: String,
    pub sig: Option<String>,
}

#[derive(Clone, Debug)]
pub struct Resp {
    pub available: bool,
    pub patch: Option<Offer>,
    pub rolled_back: Option<Vec<usize>>,
}

pub fn render_resp(r: &Option<Resp>) -> String {
    match r {
        None => "E".to_string(),
        Some(r) => {
            let p = match &r.patch {
                None => "!".to_string(),
                Some(o) => format!("{}:{}:{}:{}", o.number, enc_tok(&o.hash), enc_tok(&o.url), enc_opt(&o.sig)),
            };
            let rb = match &r.rolled_back {
                None => "!".to_string(),
                Some(l) => join_with(",", &l.iter().map(|n| n.to_string()).collect::<Vec<_>>()),
            };
            format!("{};{};{}", if r.available { 1 } else { 0 }, p, rb)
        }
    }
}

#[derive(Clone, Debug)]
pub struct Yaml {
    pub app_id: String,
    pub channel: Option<String>,
    pub base_url: Option<String>,
    pub auto_update: Option<bool>,
    pub key: Option<String>,
}

#[derive(Clone, Debug)]
pub enum Damage {
    ArtDel(usize),
    ArtSet(usize, Vec<u8>),
    DirDel(usize),
    PdirDel,
    Junk(String),
    PjDel,
    PjGarbage(usize), // variant index (not transmitted)
    PjStale(usize),
    SjDel,
    SjGarbage(usize),
    SjStale(usize),
    /// an earlier, well-formed state.json whose event timestamps are set far into the future (a clock that went
    /// backwards, or a hand-edited file): invisible to the model, which abstracts timestamps away
    SjFuture(usize),
    /// the current state.json with the queued events of an earlier version appended (a hand-merged file): the only way
    /// to a queue of more than three events, which no sequence of calls can build
    SjMerge(usize),
    Nop,
}

#[derive(Clone, Debug)]
pub enum Op {
    Init {
        version: String,
        /// 0 = the history's primary directories, k>0 = alternative set k
        dirs: usize,
        libs: Vec<String>,
        /// None = text that does not parse; the variant index picks which
        yaml: Result<Yaml, usize>,
        /// `original_libapp_paths_size` as a careless C caller passes it, when it is not the length of `libs`:
        /// zero, negative, or smaller than the list (never larger: the library may read that many pointers)
        count: Option<i32>,
    },
    Restart,
    Start,
    Success,
    Failure,
    NextN,
    NextP,
    CurN,
    Auto,
    Check { chan: Option<String>, resp: Option<Resp> },
    /// `dl`: None = download callback fails, Some(bytes) = the (compressed) body served.
    /// `evf`: bit i set = the i-th event post of this call fails (the library logs that and carries on, so the model
    /// does not need to know; the bit travels in the op line so that a replay repeats it)
    Update { chan: Option<String>, resp: Option<Resp>, dl: Option<Vec<u8>>, evf: u8 },
    Dmg(Damage),
    /// A concurrent episode: `upd` (an Update) runs on one thread, `bops` (launch reports, queries,
    /// checks) one after the other on a second thread; `sched[i]` says which thread is granted the
    /// i-th state-lock acquisition while both are runnable (0 = update thread, 1 = other thread).
    Conc { upd: Box<Op>, bops: Vec<Op>, sched: Vec<u8> },
}

pub fn render_yaml(y: &Result<Yaml, usize>) -> String {
    match y {
        Err(_) => "bad".to_string(),
        Ok(y) => format!(
            "{};{};{};{};{}",
            enc_tok(&y.app_id),
            enc_opt(&y.channel),
            enc_opt(&y.base_url),
            match y.auto_update {
                None => "!",
                Some(true) => "1",
                Some(false) => "0",
            },
            enc_opt(&y.key)
        ),
    }
}

/// Render an op line. `stream` is what the decompressor emitted for an update's download.
pub fn render_op(op: &Op, stream: Option<&[u8]>) -> String {
    match op {
        Op::Init { version, dirs, libs, yaml, count } => format!(
            "init ver={} st={} ca={} libs={} yaml={}{}",
            enc_tok(version),
            format!("st{}", dirs),
            format!("ca{}", dirs),
            join_with(",", &libs.iter().map(|l| enc_tok(l)).collect::<Vec<_>>()),
            render_yaml(yaml),
            match count { Some(n) => format!(" n={}", n), None => String::new() }
        ),
        Op::Restart => "restart".into(),
        Op::Start => "start".into(),
        Op::Success => "success".into(),
        Op::Failure => "failure".into(),
        Op::NextN => "nextn".into(),
        Op::NextP => "nextp".into(),
        Op::CurN => "curn".into(),
        Op::Auto => "auto".into(),
        Op::Check { chan, resp } => format!("check ch={} r={}", enc_opt(chan), render_resp(resp)),
        Op::Update { chan, resp, dl, evf } => format!(
            "update ch={} r={} d={}{}",
            enc_opt(chan),
            render_resp(resp),
            match (dl, stream) {
                (None, _) => "E".to_string(),
                (Some(_), Some(s)) => enc_hex(s),
                (Some(_), None) => enc_hex(&[]),
            },
            if *evf != 0 { format!(" ef={}", evf) } else { String::new() }
        ),
        Op::Conc { upd, bops, sched } => format!(
            "conc s={} u={} b={}",
            if sched.is_empty() { "~".to_string() } else { sched.iter().map(|c| if *c == 0 { 'A' } else { 'B' }).collect::<String>() },
            enc_tok(&render_op(upd, stream)),
            join_with(",", &bops.iter().map(|o| enc_tok(&render_op(o, None))).collect::<Vec<_>>())
        ),
        Op::Dmg(d) => match d {
            Damage::ArtDel(n) => format!("dmg art-del {}", n),
            Damage::ArtSet(n, b) => format!("dmg art-set {} {}", n, enc_hex(b)),
            Damage::DirDel(n) => format!("dmg dir-del {}", n),
            Damage::PdirDel => "dmg pdir-del".into(),
            Damage::Junk(s) => format!("dmg junk {}", enc_tok(s)),
            Damage::PjDel => "dmg pj-del".into(),
            Damage::PjGarbage(_) => "dmg pj-garbage".into(),
            Damage::PjStale(k) => format!("dmg pj-stale {}", k),
            Damage::SjDel => "dmg sj-del".into(),
            Damage::SjGarbage(_) => "dmg sj-garbage".into(),
            Damage::SjStale(k) => format!("dmg sj-stale {}", k),
            Damage::SjFuture(k) => format!("dmg sj-stale {} t", k),
            Damage::SjMerge(k) => format!("dmg sj-stale {} m", k),
            Damage::Nop => "dmg nop".into(),
        },
    }
}

// ---------------------------------------------------------------------------------------------
// Parsing op lines back (replay files)

pub fn dec_tok(s: &str) -> Option<String> {
    if s == "~" {
        return Some(String::new());
    }
    let b = s.as_bytes();
    let mut out = Vec::new();
    let mut i = 0;
    while i < b.len() {
        if b[i] == b'%' {
            let h = std::str::from_utf8(b.get(i + 1..i + 3)?).ok()?;
            out.push(u8::from_str_radix(h, 16).ok()?);
            i += 3;
        } else {
            out.push(b[i]);
            i += 1;
        }
    }
    String::from_utf8(out).ok()
}

pub fn dec_opt(s: &str) -> Option<Option<String>> {
    if s == "!" {
        Some(None)
    } else {
        dec_tok(s).map(Some)
    }
}

pub fn dec_hex(s: &str) -> Option<Vec<u8>> {
    if s == "~" {
        Some(vec![])
    } else {
        hex::decode(s).ok()
    }
}

fn split_list<'a>(sep: char, s: &'a str) -> Vec<&'a str> {
    if s == "~" {
        vec![]
    } else {
        s.split(sep).collect()
    }
}

fn field<'a>(parts: &[&'a str], key: &str) -> Option<&'a str> {
    for p in parts {
        if let Some((k, v)) = p.split_once('=') {
            if k == key {
                return Some(v);
            }
        }
    }
    None
}

pub fn parse_resp(s: &str) -> Option<Option<Resp>> {
    if s == "E" {
        return Some(None);
    }
    let f: Vec<&str> = s.split(';').collect();
    if f.len() != 3 {
        return None;
    }
    let available = match f[0] {
        "1" => true,
        "0" => false,
        _ => return None,
    };
    let patch = if f[1] == "!" {
        None
    } else {
        let p: Vec<&str> = f[1].split(':').collect();
        if p.len() != 4 {
            return None;
        }
        Some(Offer { number: p[0].parse().ok()?, hash: dec_tok(p[1])?, url: dec_tok(p[2])?, sig: dec_opt(p[3])? })
    };
    let rolled_back = if f[2] == "!" {
        None
    } else {
        let mut l = Vec::new();
        for x in split_list(',', f[2]) {
            l.push(x.parse().ok()?);
        }
        Some(l)
    };
    Some(Some(Resp { available, patch, rolled_back }))
}

/// Inverse of `render_op`. For updates the `d=` field is the decompressed stream; `recompress`
/// turns it back into a body the library can download.
pub fn parse_op(line: &str, recompress: &dyn Fn(&[u8]) -> Vec<u8>) -> Option<Op> {
    let parts: Vec<&str> = line.split_whitespace().collect();
    match parts.as_slice() {
        ["conc", rest @ ..] => {
            let sc = field(rest, "s")?;
            let sched: Vec<u8> = if sc == "~" { vec![] } else { sc.chars().map(|c| if c == 'A' { 0 } else { 1 }).collect() };
            let upd = parse_op(&dec_tok(field(rest, "u")?)?, recompress)?;
            let mut bops = Vec::new();
            for b in split_list(',', field(rest, "b")?) {
                bops.push(parse_op(&dec_tok(b)?, recompress)?);
            }
            Some(Op::Conc { upd: Box::new(upd), bops, sched })
        }
        ["init", rest @ ..] => {
            let version = dec_tok(field(rest, "ver")?)?;
            let st = field(rest, "st")?;
            let dirs: usize = st.strip_prefix("st")?.parse().ok()?;
            let mut libs = Vec::new();
            for l in split_list(',', field(rest, "libs")?) {
                libs.push(dec_tok(l)?);
            }
            let y = field(rest, "yaml")?;
            let yaml = if y == "bad" {
                Err(0)
            } else {
                let f: Vec<&str> = y.split(';').collect();
                if f.len() != 5 {
                    return None;
                }
                Ok(Yaml {
                    app_id: dec_tok(f[0])?,
                    channel: dec_opt(f[1])?,
                    base_url: dec_opt(f[2])?,
                    auto_update: match f[3] {
                        "!" => None,
                        "1" => Some(true),
                        "0" => Some(false),
                        _ => return None,
                    },
                    key: dec_opt(f[4])?,
                })
            };
            let count = field(rest, "n").and_then(|s| s.parse::<i32>().ok()).map(|n| n.min(libs.len() as i32));
            Some(Op::Init { version, dirs, libs, yaml, count })
        }
        ["restart"] => Some(Op::Restart),
        ["start"] => Some(Op::Start),
        ["success"] => Some(Op::Success),
        ["failure"] => Some(Op::Failure),
        ["nextn"] => Some(Op::NextN),
        ["nextp"] => Some(Op::NextP),
        ["curn"] => Some(Op::CurN),
        ["auto"] => Some(Op::Auto),
        ["check", rest @ ..] => Some(Op::Check { chan: dec_opt(field(rest, "ch")?)?, resp: parse_resp(field(rest, "r")?)? }),
        ["update", rest @ ..] => {
            let d = field(rest, "d")?;
            let dl = if d == "E" { None } else { Some(recompress(&dec_hex(d)?)) };
            Some(Op::Update { chan: dec_opt(field(rest, "ch")?)?, resp: parse_resp(field(rest, "r")?)?, dl,
                evf: field(rest, "ef").and_then(|s| s.parse().ok()).unwrap_or(0) })
        }
        ["dmg", "art-del", n] => Some(Op::Dmg(Damage::ArtDel(n.parse().ok()?))),
        ["dmg", "art-set", n, h] => Some(Op::Dmg(Damage::ArtSet(n.parse().ok()?, dec_hex(h)?))),
        ["dmg", "dir-del", n] => Some(Op::Dmg(Damage::DirDel(n.parse().ok()?))),
        ["dmg", "pdir-del"] => Some(Op::Dmg(Damage::PdirDel)),
        ["dmg", "junk", s] => Some(Op::Dmg(Damage::Junk(dec_tok(s)?))),
        ["dmg", "pj-del"] => Some(Op::Dmg(Damage::PjDel)),
        ["dmg", "pj-garbage"] => Some(Op::Dmg(Damage::PjGarbage(1))),
        ["dmg", "pj-stale", k] => Some(Op::Dmg(Damage::PjStale(k.parse().ok()?))),
        ["dmg", "sj-del"] => Some(Op::Dmg(Damage::SjDel)),
        ["dmg", "sj-garbage"] => Some(Op::Dmg(Damage::SjGarbage(1))),
        ["dmg", "sj-stale", k] => Some(Op::Dmg(Damage::SjStale(k.parse().ok()?))),
        ["dmg", "sj-stale", k, "t"] => Some(Op::Dmg(Damage::SjFuture(k.parse().ok()?))),
        ["dmg", "sj-stale", k, "m"] => Some(Op::Dmg(Damage::SjMerge(k.parse().ok()?))),
        ["dmg", "nop"] => Some(Op::Dmg(Damage::Nop)),
        _ => None,
    }
}
