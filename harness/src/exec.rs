//! Runs operations against the real library (in-process, through its C API) and observes
//! the storage directory after every operation.

use crate::proto::*;
use std::collections::HashSet;
use std::ffi::{CStr, CString};
use std::path::{Path, PathBuf};
use std::sync::atomic::{AtomicU64, AtomicUsize, Ordering};
use std::sync::Mutex;

use updater::c_api as capi;
use updater::verif_hooks as hooks;

// ---------------------------------------------------------------------------------------------
// Network callbacks (plain fn pointers, so their state is global)

pub struct NetState {
    pub log: Vec<NetAct>,
    /// Response for the next patch check (None = the request fails).
    pub resp: Option<Resp>,
    /// If set, the check callback deserialises this raw body with the library's own serde types.
    pub raw_body: Option<String>,
    pub dl: Option<Vec<u8>>,
    /// Result of the i-th event post of this op (true = ok); default ok.
    pub event_results: Vec<bool>,
    /// the error texts of a failing check / download carry a NUL byte (bit 7 of an update's `ef`)
    pub nul_errors: bool,
    pub events_seen: usize,
}

thread_local! {
    /// Role of this thread in a concurrent episode: None outside episodes, Some(0) = update thread, Some(1) = other thread.
    pub static ROLE: std::cell::Cell<Option<usize>> = std::cell::Cell::new(None);
}
/// Response served to a patch check issued by the *other* thread of a concurrent episode.
pub static RESP_B: Mutex<Option<Resp>> = Mutex::new(None);

pub static NET: Mutex<NetState> = Mutex::new(NetState {
    log: Vec::new(),
    resp: None,
    raw_body: None,
    dl: None,
    event_results: Vec::new(),
    nul_errors: false,
    events_seen: 0,
});

/// Lock / network action log of the thread that issues the API call (C12).
pub struct ActLog {
    pub on: bool,
    pub thread: Option<std::thread::ThreadId>,
    pub main: String,
    pub bg_net: usize,
}
pub static ACT_LOG: Mutex<ActLog> = Mutex::new(ActLog { on: false, thread: None, main: String::new(), bg_net: 0 });

fn log_lock_act(config: char, updater: char, id: hooks::LockId) {
    let mut l = ACT_LOG.lock().unwrap();
    if l.on && l.thread == Some(std::thread::current().id()) {
        l.main.push(match id { hooks::LockId::Config => config, hooks::LockId::Updater => updater });
    }
}
// ---- deterministic two-thread scheduler (C11): participating threads park before every acquisition
// of the state lock until the controller grants them the next section.
pub struct Sched {
    pub active: bool,
    pub waiting: [bool; 2],
    pub granted: [bool; 2],
    pub done: [bool; 2],
    /// return tokens of calls finished since the controller last looked
    pub rets: [Vec<String>; 2],
}
pub static SCHED: Mutex<Sched> = Mutex::new(Sched {
    active: false, waiting: [false; 2], granted: [false; 2], done: [false; 2], rets: [Vec::new(), Vec::new()],
});
pub static SCHED_CV: std::sync::Condvar = std::sync::Condvar::new();

fn park_before_state_lock() {
    let Some(r) = ROLE.with(|r| r.get()) else { return };
    let mut s = SCHED.lock().unwrap();
    if !s.active { return; }
    s.waiting[r] = true;
    SCHED_CV.notify_all();
    while !s.granted[r] {
        s = SCHED_CV.wait(s).unwrap();
    }
    s.granted[r] = false;
    s.waiting[r] = false;
}

fn before_lock_hook(id: hooks::LockId) {
    log_lock_act('A', 'T', id);
    if let hooks::LockId::Config = id { park_before_state_lock(); }
}
fn after_unlock_hook(id: hooks::LockId) { log_lock_act('R', 'U', id); }

pub fn install_lock_hooks() {
    hooks::set_before_lock_hook(Some(before_lock_hook));
    hooks::set_after_unlock_hook(Some(after_unlock_hook));
}

fn act_log_start() {
    let mut l = ACT_LOG.lock().unwrap();
    l.on = true;
    l.thread = Some(std::thread::current().id());
    l.main.clear();
    l.bg_net = 0;
}
fn act_log_pause() { ACT_LOG.lock().unwrap().on = false; }
fn act_log_resume() { ACT_LOG.lock().unwrap().on = true; }

/// C12 oracle: network callbacks entered while the calling thread held the config/state lock.
pub static NET_UNDER_LOCK: AtomicUsize = AtomicUsize::new(0);
/// Total network callbacks observed.
pub static NET_CALLS: AtomicU64 = AtomicU64::new(0);

fn note_net_call() {
    {
        let mut l = ACT_LOG.lock().unwrap();
        if l.on {
            if l.thread == Some(std::thread::current().id()) { l.main.push('N'); } else { l.bg_net += 1; }
        }
    }
    NET_CALLS.fetch_add(1, Ordering::SeqCst);
    if hooks::config_lock_depth() > 0 {
        NET_UNDER_LOCK.fetch_add(1, Ordering::SeqCst);
    }
}

/// Real-HTTP transport: a request reached the scripted server.
pub fn note_net_call_http() {
    NET_CALLS.fetch_add(1, Ordering::SeqCst);
}

fn check_cb(_url: &str, req: hooks::PatchCheckRequest) -> anyhow::Result<hooks::PatchCheckResponse> {
    note_net_call();
    crate::hung::maybe_hang(2);
    let mut st = NET.lock().unwrap();
    st.log.push(NetAct::Check {
        app_id: req.app_id.clone(),
        channel: req.channel.clone(),
        version: req.release_version.clone(),
        platform: req.platform.clone(),
        arch: req.arch.clone(),
    });
    if let Some(body) = &st.raw_body {
        let parsed: hooks::PatchCheckResponse = serde_json::from_str(body)?;
        return Ok(parsed);
    }
    let resp = if ROLE.with(|r| r.get()) == Some(1) { RESP_B.lock().unwrap().clone() } else { st.resp.clone() };
    match &resp {
        None => {
            if st.nul_errors {
                // what a server error echoed into the message can contain: the C string conversion must cope
                crate::http::CHECK_FAULTED.store(true, Ordering::SeqCst);
                anyhow::bail!("verif: check failed: the server said \u{0}\u{1}oops")
            }
            anyhow::bail!("verif: check failed")
        }
        Some(r) => Ok(hooks::PatchCheckResponse {
            patch_available: r.available,
            patch: r.patch.as_ref().map(|o| hooks::Patch {
                number: o.number,
                hash: o.hash.clone(),
                download_url: o.url.clone(),
                hash_signature: o.sig.clone(),
            }),
            rolled_back_patch_numbers: r.rolled_back.clone(),
        }),
    }
}

fn download_cb(url: &str) -> anyhow::Result<Vec<u8>> {
    note_net_call();
    crate::hung::maybe_hang(3);
    let mut st = NET.lock().unwrap();
    st.log.push(NetAct::Download(url.to_string()));
    match &st.dl {
        None => {
            if st.nul_errors {
                crate::http::DL_FAULTED.store(true, Ordering::SeqCst);
                anyhow::bail!("verif: download failed: \u{0} in the body")
            }
            anyhow::bail!("verif: download failed")
        }
        Some(b) => Ok(b.clone()),
    }
}

fn event_cb(_url: &str, req: hooks::CreatePatchEventRequest) -> anyhow::Result<()> {
    note_net_call();
    crate::hung::maybe_hang(1);
    let v = serde_json::to_value(&req)?;
    let e = &v["event"];
    let kind = match e["type"].as_str().unwrap_or("") {
        "__patch_install__" => 'I',
        "__patch_install_failure__" => 'F',
        "__patch_download__" => 'D',
        _ => '?',
    };
    let ev = Event {
        kind,
        number: e["patch_number"].as_u64().unwrap_or(u64::MAX) as usize,
        app_id: e["app_id"].as_str().unwrap_or("?").to_string(),
        version: e["release_version"].as_str().unwrap_or("?").to_string(),
        platform: e["platform"].as_str().unwrap_or("?").to_string(),
        arch: e["arch"].as_str().unwrap_or("?").to_string(),
        msg: e["message"].as_str().map(|s| s.to_string()),
    };
    let mut st = NET.lock().unwrap();
    st.log.push(NetAct::Event(ev));
    let i = st.events_seen;
    st.events_seen += 1;
    if st.event_results.get(i).copied().unwrap_or(true) {
        Ok(())
    } else {
        anyhow::bail!("verif: event post failed")
    }
}

pub fn install_net_hooks() -> bool {
    hooks::set_network_hooks(check_cb, download_cb, event_cb)
}

pub fn drain_bg_threads() {
    let mut spins = 0u64;
    while hooks::live_bg_threads() != 0 {
        spins += 1;
        if spins < 200 {
            std::thread::yield_now();
        } else {
            std::thread::sleep(std::time::Duration::from_micros(50));
        }
    }
}

// ---------------------------------------------------------------------------------------------
// Fixture directories

pub struct Dirs {
    pub root: PathBuf,
    /// keep the directory when dropped (crash experiments run over several processes)
    pub keep: bool,
}

static DIR_COUNTER: AtomicU64 = AtomicU64::new(0);

impl Dirs {
    pub fn new() -> Dirs {
        let base = std::env::var("VERIF_TMP").unwrap_or_else(|_| {
            if Path::new("/dev/shm").is_dir() { "/dev/shm".to_string() } else { std::env::temp_dir().display().to_string() }
        });
        let root = PathBuf::from(base).join(format!(
            "verif-updater-{}-{}",
            std::process::id(),
            DIR_COUNTER.fetch_add(1, Ordering::SeqCst)
        ));
        let _ = std::fs::remove_dir_all(&root);
        std::fs::create_dir_all(&root).unwrap();
        Dirs { root, keep: false }
    }
    /// Use an existing directory (created if missing) and leave it in place afterwards.
    pub fn at(root: PathBuf) -> Dirs {
        std::fs::create_dir_all(&root).unwrap();
        Dirs { root, keep: true }
    }
    pub fn storage(&self, k: usize) -> PathBuf {
        self.root.join(format!("st{}", k))
    }
    pub fn cache(&self, k: usize) -> PathBuf {
        self.root.join(format!("ca{}", k))
    }
    pub fn lib(&self, name: &str) -> PathBuf {
        self.root.join("libs").join(name)
    }
}

impl Drop for Dirs {
    fn drop(&mut self) {
        if !self.keep {
            let _ = std::fs::remove_dir_all(&self.root);
        }
    }
}

// ---------------------------------------------------------------------------------------------
// Observation

#[derive(serde::Deserialize)]
struct MEvent {
    app_id: String,
    arch: String,
    #[serde(rename = "type")]
    identifier: String,
    patch_number: usize,
    platform: String,
    release_version: String,
    #[allow(dead_code)]
    timestamp: u64,
    message: Option<String>,
}

#[derive(serde::Deserialize)]
struct MState {
    release_version: String,
    queued_events: Vec<MEvent>,
}

#[derive(serde::Deserialize)]
struct MMeta {
    number: usize,
    size: u64,
    hash: String,
    signature: Option<String>,
}

#[derive(serde::Deserialize)]
struct MPatches {
    last_booted_patch: Option<MMeta>,
    next_boot_patch: Option<MMeta>,
    currently_booting_patch: Option<MMeta>,
    known_bad_patches: HashSet<usize>,
}

fn conv_meta(m: Option<MMeta>) -> Option<Meta> {
    m.map(|m| Meta { number: m.number, size: m.size, hash: m.hash, sig: m.signature })
}

pub fn read_state_json(path: &Path) -> JFile<SState> {
    if !path.exists() {
        return JFile::Missing;
    }
    let bytes = match std::fs::read(path) {
        Ok(b) => b,
        Err(_) => return JFile::Garbage,
    };
    match serde_json::from_slice::<MState>(&bytes) {
        Err(_) => JFile::Garbage,
        Ok(s) => {
            let mut events = Vec::new();
            for e in s.queued_events {
                let kind = match e.identifier.as_str() {
                    "__patch_install__" => 'I',
                    "__patch_install_failure__" => 'F',
                    "__patch_download__" => 'D',
                    _ => return JFile::Garbage,
                };
                events.push(Event {
                    kind,
                    number: e.patch_number,
                    app_id: e.app_id,
                    version: e.release_version,
                    platform: e.platform,
                    arch: e.arch,
                    msg: e.message,
                });
            }
            JFile::Ok(SState { version: s.release_version, events })
        }
    }
}

pub fn read_patches_json(path: &Path) -> JFile<PatchesState> {
    if !path.exists() {
        return JFile::Missing;
    }
    let bytes = match std::fs::read(path) {
        Ok(b) => b,
        Err(_) => return JFile::Garbage,
    };
    match serde_json::from_slice::<MPatches>(&bytes) {
        Err(_) => JFile::Garbage,
        Ok(p) => {
            let mut bad: Vec<usize> = p.known_bad_patches.into_iter().collect();
            bad.sort();
            JFile::Ok(PatchesState {
                last: conv_meta(p.last_booted_patch),
                next: conv_meta(p.next_boot_patch),
                booting: conv_meta(p.currently_booting_patch),
                bad,
            })
        }
    }
}

pub fn read_patches_dir(path: &Path) -> Option<(Vec<(usize, Art)>, Vec<String>)> {
    let rd = std::fs::read_dir(path).ok()?;
    let mut arts = Vec::new();
    let mut junk = Vec::new();
    for entry in rd.flatten() {
        let name = entry.file_name().to_string_lossy().to_string();
        match name.parse::<usize>() {
            Ok(n) if n.to_string() == name => {
                let f = entry.path().join("dlc.vmcode");
                if f.is_file() {
                    arts.push((n, Art::File(std::fs::read(&f).unwrap_or_default())));
                } else {
                    arts.push((n, Art::EmptyDir));
                }
            }
            _ => junk.push(name),
        }
    }
    arts.sort_by_key(|(n, _)| *n);
    junk.sort();
    Some((arts, junk))
}

// ---------------------------------------------------------------------------------------------
// Executor

extern "C" fn fc_open() -> *mut libc::c_void {
    std::ptr::null_mut()
}
extern "C" fn fc_read(_h: *mut libc::c_void, _b: *mut u8, _c: usize) -> usize {
    0
}
extern "C" fn fc_seek(_h: *mut libc::c_void, _o: i64, _w: i32) -> i64 {
    0
}
extern "C" fn fc_close(_h: *mut libc::c_void) {}

pub fn yaml_text(y: &Result<Yaml, usize>) -> String {
    match y {
        Err(k) => match k % 6 {
            0 => "".to_string(),
            1 => ":::\n  - [".to_string(),
            2 => "channel: beta\n".to_string(),          // app_id missing
            3 => "app_id: [1, 2]\n".to_string(),          // wrong type
            4 => "app_id: x\nauto_update: maybe\n".to_string(),
            _ => "\u{0}\u{1}{{{".to_string(),
        },
        Ok(y) => {
            let q = |s: &str| serde_json::to_string(s).unwrap();
            let mut t = format!("app_id: {}\n", q(&y.app_id));
            if let Some(c) = &y.channel {
                t.push_str(&format!("channel: {}\n", q(c)));
            }
            if let Some(u) = &y.base_url {
                t.push_str(&format!("base_url: {}\n", q(u)));
            }
            if let Some(a) = y.auto_update {
                t.push_str(&format!("auto_update: {}\n", a));
            }
            if let Some(k) = &y.key {
                t.push_str(&format!("patch_public_key: {}\n", q(k)));
            }
            t
        }
    }
}

pub const GARBAGE_VARIANTS: &[&str] = &[
    "",
    "junk",
    "{",
    "{}",
    "[]",
    "null",
    "{\"release_version\": 3, \"queued_events\": 7, \"known_bad_patches\": \"x\"}",
    "{\"last_booted_patch\": 5, \"known_bad_patches\": []}",
    "\u{0}\u{0}\u{0}\u{0}",
];

pub struct Runner {
    pub dirs: Dirs,
    /// raw bytes of patches_state.json / state.json after each op (for the stale damage)
    pub pj_hist: Vec<Option<Vec<u8>>>,
    pub sj_hist: Vec<Option<Vec<u8>>>,
    /// parse class after each op (so the generator can pick a stale index that was well-formed)
    pub pj_ok: Vec<bool>,
    pub sj_ok: Vec<bool>,
    /// byte snapshot of the alternative directories (must never change)
    pub last_obs: Option<Obs>,
    /// the library currently holds a configuration (an init succeeded since the last restart)
    pub inited: bool,
    /// directory entries outside the storage directory in use changed by the last call (repeated inits only)
    pub outside_changes: usize,
}

/// Every entry (path, kind, size, content hash) under `root` except those under `skip` (the storage directory in use,
/// which the observation covers field by field).
fn tree_listing(root: &Path, skip: &Path) -> std::collections::BTreeSet<String> {
    let mut out = std::collections::BTreeSet::new();
    let mut stack = vec![root.to_path_buf()];
    while let Some(d) = stack.pop() {
        let rd = match std::fs::read_dir(&d) { Ok(r) => r, Err(_) => continue };
        for e in rd.flatten() {
            let p = e.path();
            if p.starts_with(skip) { continue; }
            let md = match std::fs::symlink_metadata(&p) { Ok(m) => m, Err(_) => continue };
            if md.is_dir() {
                out.insert(format!("d {}", p.display()));
                stack.push(p);
            } else {
                let h = std::fs::read(&p).map(|b| sha256_hex(&b)).unwrap_or_default();
                out.insert(format!("f {} {} {}", p.display(), md.len(), h));
            }
        }
    }
    out
}

fn cstr(s: &str) -> CString {
    // interior NULs cannot cross the C boundary; the generator never produces them
    CString::new(s.replace('\0', "")).unwrap()
}

pub fn classify_update_message(status: i32, msg: &str) -> String {
    // the outcome is read off the message text; the code is whatever the C struct carried
    let kind = if msg == "No update" {
        "none"
    } else if msg == "Update installed" {
        "inst"
    } else if msg.starts_with("Update available but previously failed") {
        "bad"
    } else if msg == "Update had error" {
        "haderr"
    } else if msg == "Config not initialized" {
        "cfg"
    } else if msg == "Update already in progress" {
        "busy"
    } else if msg == "verif: check failed" {
        "check"
    } else if msg == "Bad server response" {
        "badresp"
    } else if msg == "verif: download failed" {
        "dl"
    } else if msg.starts_with("This app reports version") {
        "hash"
    } else if msg.starts_with("Patch signature") || msg.starts_with("Failed to decode") {
        "sig"
    } else {
        "other"
    };
    format!("s{}:{}", status, kind)
}

/// The calls that may run on either thread of a concurrent episode.
pub fn exec_call(op: &Op, storage: &Path) -> String {
    let chan_ptr = |chan: &Option<String>| chan.as_ref().map(|c| cstr(c));
    match op {
        Op::Start => { capi::shorebird_report_launch_start(); "u".to_string() }
        Op::Success => { capi::shorebird_report_launch_success(); "u".to_string() }
        Op::Failure => { capi::shorebird_report_launch_failure(); "u".to_string() }
        Op::NextN => format!("n{}", capi::shorebird_next_boot_patch_number()),
        Op::CurN => format!("n{}", capi::shorebird_current_boot_patch_number()),
        Op::Auto => if capi::shorebird_should_auto_update() { "b1".to_string() } else { "b0".to_string() },
        Op::NextP => {
            let p = capi::shorebird_next_boot_patch_path();
            if p.is_null() {
                "p!".to_string()
            } else {
                let s = unsafe { CStr::from_ptr(p) }.to_string_lossy().to_string();
                unsafe { capi::shorebird_free_string(p) };
                let prefix = format!("{}/patches/", storage.display());
                match s.strip_prefix(&prefix).and_then(|r| r.strip_suffix("/dlc.vmcode")) {
                    Some(n) if n.parse::<usize>().map(|k| k.to_string() == n).unwrap_or(false) => format!("p{}", n),
                    _ => format!("pBAD[{}]", enc_tok(&s)),
                }
            }
        }
        Op::Check { chan, resp } => {
            if ROLE.with(|r| r.get()) == Some(1) { *RESP_B.lock().unwrap() = resp.clone(); } else { NET.lock().unwrap().resp = resp.clone(); }
            let c = chan_ptr(chan);
            let r = capi::shorebird_check_for_downloadable_update(c.as_ref().map(|c| c.as_ptr()).unwrap_or(std::ptr::null()));
            if r { "b1".to_string() } else { "b0".to_string() }
        }
        Op::Update { chan, resp, dl, evf } => {
            {
                let mut st = NET.lock().unwrap();
                st.resp = resp.clone();
                st.dl = dl.clone();
                st.event_results = (0..7).map(|i| (evf >> i) & 1 == 0).collect();
                st.nul_errors = false;
            }
            let c = chan_ptr(chan);
            let r = capi::shorebird_update_with_result(c.as_ref().map(|c| c.as_ptr()).unwrap_or(std::ptr::null()));
            let (status, msg) = unsafe {
                let status = (*r).status;
                let m = (*r).message;
                let msg = if m.is_null() { String::new() } else { CStr::from_ptr(m).to_string_lossy().to_string() };
                (status, msg)
            };
            unsafe { capi::shorebird_free_update_result(r as *mut capi::UpdateResult) };
            classify_update_message(status, &msg)
        }
        _ => "u".to_string(),
    }
}

impl Runner {
    pub fn new() -> Runner {
        hooks::reset_config();
        install_lock_hooks();
        let dirs = Dirs::new();
        Runner { dirs, pj_hist: vec![], sj_hist: vec![], pj_ok: vec![], sj_ok: vec![], last_obs: None, inited: false, outside_changes: 0 }
    }

    /// A runner over a persistent directory (crash experiments).
    pub fn at(root: PathBuf) -> Runner {
        hooks::reset_config();
        install_lock_hooks();
        Runner { dirs: Dirs::at(root), pj_hist: vec![], sj_hist: vec![], pj_ok: vec![], sj_ok: vec![], last_obs: None, inited: false, outside_changes: 0 }
    }

    pub fn storage(&self) -> PathBuf {
        self.dirs.storage(0)
    }

    pub fn write_lib(&self, name: &str, content: &[u8]) {
        let p = self.dirs.lib(name);
        std::fs::create_dir_all(p.parent().unwrap()).unwrap();
        std::fs::write(p, content).unwrap();
    }

    fn chan_ptr(chan: &Option<String>) -> Option<CString> {
        chan.as_ref().map(|c| cstr(c))
    }

    /// Execute one op against the real library; returns the ret token.
    pub fn exec(&mut self, op: &Op) -> String {
        crate::tick();
        let r = self.exec_inner(op);
        crate::tick();
        r
    }

    fn exec_inner(&mut self, op: &Op) -> String {
        {
            let mut st = NET.lock().unwrap();
            st.log.clear();
            st.resp = None;
            st.raw_body = None;
            st.dl = None;
            st.event_results.clear();
            st.nul_errors = false;
            st.events_seen = 0;
        }
        let http = crate::http::HTTP_MODE.load(Ordering::SeqCst);
        crate::http::CHECK_FAULTED.store(false, Ordering::SeqCst);
        crate::http::DL_FAULTED.store(false, Ordering::SeqCst);
        if http {
            crate::http::OP_NONCE.store(crate::http::nonce_of(&render_op(op, None)), Ordering::SeqCst);
        }
        act_log_start();
        let ret = match op {
            Op::Init { version, dirs, libs, yaml, count } => {
                let st_dir = cstr(&self.dirs.storage(*dirs).display().to_string());
                let ca_dir = cstr(&self.dirs.cache(*dirs).display().to_string());
                let ver = cstr(version);
                let lib_c: Vec<CString> =
                    libs.iter().map(|l| cstr(&self.dirs.lib(l).display().to_string())).collect();
                let lib_ptrs: Vec<*const libc::c_char> = lib_c.iter().map(|c| c.as_ptr()).collect();
                let params = capi::AppParameters {
                    release_version: ver.as_ptr(),
                    original_libapp_paths: lib_ptrs.as_ptr(),
                    original_libapp_paths_size: count.map(|n| n.min(lib_ptrs.len() as i32)).unwrap_or(lib_ptrs.len() as i32) as libc::c_int,
                    app_storage_dir: st_dir.as_ptr(),
                    code_cache_dir: ca_dir.as_ptr(),
                };
                let cbs = capi::FileCallbacks { open: fc_open, read: fc_read, seek: fc_seek, close: fc_close };
                // real-HTTP transport: the library keeps its default network hooks and is pointed at the scripted server
                let yaml_eff = match (http, yaml) {
                    (true, Ok(y)) => Ok(Yaml { base_url: Some(crate::http::base_url()), ..y.clone() }),
                    _ => yaml.clone(),
                };
                let y = cstr(&yaml_text(&yaml_eff));
                // C14: a repeated init must change nothing on disk, the directories IT was given included
                let before = if self.inited { Some(tree_listing(&self.dirs.root, &self.storage())) } else { None };
                let ok = capi::shorebird_init(&params, cbs, y.as_ptr());
                if let Some(b) = before {
                    let after = tree_listing(&self.dirs.root, &self.storage());
                    self.outside_changes = b.symmetric_difference(&after).count();
                }
                // `true` also when this init failed after configuring (FailedToCleanUpFailedPatch)
                act_log_pause();
                if http {
                    self.inited = self.inited || ok;
                } else if !self.inited {
                    // the scripted callbacks are registered once, after the first successful init: a refused later init
                    // must leave them in use (C14), so they are not registered again after it
                    self.inited = install_net_hooks();
                }
                act_log_resume();
                if ok { "b1".to_string() } else { "b0".to_string() }
            }
            Op::Restart => {
                self.inited = false;
                act_log_pause();
                hooks::reset_config();
                act_log_resume();
                "u".to_string()
            }
            Op::Start => {
                capi::shorebird_report_launch_start();
                "u".to_string()
            }
            Op::Success => {
                capi::shorebird_report_launch_success();
                "u".to_string()
            }
            Op::Failure => {
                capi::shorebird_report_launch_failure();
                "u".to_string()
            }
            Op::NextN => format!("n{}", capi::shorebird_next_boot_patch_number()),
            Op::CurN => format!("n{}", capi::shorebird_current_boot_patch_number()),
            Op::Auto => {
                if capi::shorebird_should_auto_update() { "b1".to_string() } else { "b0".to_string() }
            }
            Op::NextP => {
                let p = capi::shorebird_next_boot_patch_path();
                if p.is_null() {
                    "p!".to_string()
                } else {
                    let s = unsafe { CStr::from_ptr(p) }.to_string_lossy().to_string();
                    unsafe { capi::shorebird_free_string(p) };
                    let prefix = format!("{}/patches/", self.storage().display());
                    match s.strip_prefix(&prefix).and_then(|r| r.strip_suffix("/dlc.vmcode")) {
                        Some(n) if n.parse::<usize>().map(|k| k.to_string() == n).unwrap_or(false) => {
                            format!("p{}", n)
                        }
                        _ => format!("pBAD[{}]", enc_tok(&s)),
                    }
                }
            }
            Op::Check { chan, resp } => {
                NET.lock().unwrap().resp = resp.clone();
                let c = Self::chan_ptr(chan);
                let r = capi::shorebird_check_for_downloadable_update(
                    c.as_ref().map(|c| c.as_ptr()).unwrap_or(std::ptr::null()),
                );
                if r { "b1".to_string() } else { "b0".to_string() }
            }
            Op::Update { chan, resp, dl, evf } => {
                {
                    let mut st = NET.lock().unwrap();
                    st.resp = resp.clone();
                    st.dl = dl.clone();
                    st.event_results = (0..7).map(|i| (evf >> i) & 1 == 0).collect();
                    st.nul_errors = evf & 0x80 != 0;
                }
                let c = Self::chan_ptr(chan);
                let r = capi::shorebird_update_with_result(
                    c.as_ref().map(|c| c.as_ptr()).unwrap_or(std::ptr::null()),
                );
                let (status, msg) = unsafe {
                    let status = (*r).status;
                    let m = (*r).message;
                    let msg = if m.is_null() { String::new() } else { CStr::from_ptr(m).to_string_lossy().to_string() };
                    (status, msg)
                };
                unsafe { capi::shorebird_free_update_result(r as *mut capi::UpdateResult) };
                let mut tok = classify_update_message(status, &msg);
                if tok.ends_with(":other") {
                    // with real HTTP the error text is reqwest's; the failing stage is the one the server made fail
                    if crate::http::CHECK_FAULTED.load(Ordering::SeqCst) {
                        tok = format!("s{}:check", status);
                    } else if crate::http::DL_FAULTED.load(Ordering::SeqCst) {
                        tok = format!("s{}:dl", status);
                    }
                }
                tok
            }
            Op::Dmg(d) => {
                self.damage(d);
                "u".to_string()
            }
            Op::Conc { .. } => "u".to_string(), // executed by exec_conc (see run_history)
        };
        drain_bg_threads();
        act_log_pause();
        ret
    }

    /// A concurrent episode: the update on one thread, `bops` on another, interleaved at every
    /// acquisition of the state lock as `sched` says. Returns one record per grant: who ran, the
    /// return tokens of the calls that finished during it, and the storage directory afterwards.
    pub fn exec_conc(&mut self, upd: &Op, bops: &[Op], sched: &[u8]) -> Vec<(char, Vec<String>, Obs)> {
        {
            let mut st = NET.lock().unwrap();
            st.log.clear();
            st.resp = None;
            st.raw_body = None;
            st.dl = None;
            st.event_results.clear();
            st.events_seen = 0;
        }
        *RESP_B.lock().unwrap() = None;
        act_log_pause();
        {
            let mut s = SCHED.lock().unwrap();
            *s = Sched { active: true, waiting: [false; 2], granted: [false; 2], done: [false; 2], rets: [Vec::new(), Vec::new()] };
        }
        let storage = self.storage();
        let ta = {
            let upd = upd.clone();
            let st = storage.clone();
            std::thread::spawn(move || {
                ROLE.with(|r| r.set(Some(0)));
                let ret = exec_call(&upd, &st);
                let mut s = SCHED.lock().unwrap();
                s.rets[0].push(ret);
                s.done[0] = true;
                SCHED_CV.notify_all();
            })
        };
        let tb = {
            let bops: Vec<Op> = bops.to_vec();
            let st = storage.clone();
            std::thread::spawn(move || {
                ROLE.with(|r| r.set(Some(1)));
                for op in &bops {
                    let ret = exec_call(op, &st);
                    SCHED.lock().unwrap().rets[1].push(ret);
                }
                let mut s = SCHED.lock().unwrap();
                s.done[1] = true;
                SCHED_CV.notify_all();
            })
        };
        let mut grants = Vec::new();
        let mut i = 0usize;
        loop {
            let who;
            {
                let mut s = SCHED.lock().unwrap();
                while !((s.waiting[0] || s.done[0]) && (s.waiting[1] || s.done[1])) {
                    s = SCHED_CV.wait(s).unwrap();
                }
                if s.done[0] && s.done[1] {
                    break;
                }
                who = if s.waiting[0] && s.waiting[1] {
                    let c = sched.get(i).copied().unwrap_or(0) as usize;
                    i += 1;
                    c.min(1)
                } else if s.waiting[0] { 0 } else { 1 };
                s.granted[who] = true;
                SCHED_CV.notify_all();
                while s.granted[who] || !(s.waiting[who] || s.done[who]) {
                    s = SCHED_CV.wait(s).unwrap();
                }
            }
            drain_bg_threads();
            let rets = std::mem::take(&mut SCHED.lock().unwrap().rets[who]);
            let obs = self.observe("u".to_string());
            grants.push((if who == 0 { 'A' } else { 'B' }, rets, obs));
        }
        ta.join().unwrap();
        tb.join().unwrap();
        SCHED.lock().unwrap().active = false;
        drain_bg_threads();
        grants
    }

    fn damage(&mut self, d: &Damage) {
        let st = self.storage();
        let pdir = st.join("patches");
        match d {
            Damage::ArtDel(n) => {
                let _ = std::fs::remove_file(pdir.join(n.to_string()).join("dlc.vmcode"));
            }
            Damage::ArtSet(n, b) => {
                let dir = pdir.join(n.to_string());
                if dir.is_dir() {
                    std::fs::write(dir.join("dlc.vmcode"), b).unwrap();
                }
            }
            Damage::DirDel(n) => {
                let _ = std::fs::remove_dir_all(pdir.join(n.to_string()));
            }
            Damage::PdirDel => {
                let _ = std::fs::remove_dir_all(&pdir);
            }
            Damage::Junk(name) => {
                if pdir.is_dir() {
                    let _ = std::fs::create_dir_all(pdir.join(name));
                }
            }
            Damage::PjDel => {
                let _ = std::fs::remove_file(st.join("patches_state.json"));
            }
            Damage::PjGarbage(k) => {
                std::fs::create_dir_all(&st).unwrap();
                std::fs::write(st.join("patches_state.json"), GARBAGE_VARIANTS[k % GARBAGE_VARIANTS.len()]).unwrap();
            }
            Damage::PjStale(k) => {
                if let Some(Some(b)) = self.pj_hist.get(*k) {
                    std::fs::create_dir_all(&st).unwrap();
                    std::fs::write(st.join("patches_state.json"), b).unwrap();
                }
            }
            Damage::SjDel => {
                let _ = std::fs::remove_file(st.join("state.json"));
            }
            Damage::SjGarbage(k) => {
                std::fs::create_dir_all(&st).unwrap();
                std::fs::write(st.join("state.json"), GARBAGE_VARIANTS[k % GARBAGE_VARIANTS.len()]).unwrap();
            }
            Damage::SjStale(k) => {
                if let Some(Some(b)) = self.sj_hist.get(*k) {
                    std::fs::create_dir_all(&st).unwrap();
                    std::fs::write(st.join("state.json"), b).unwrap();
                }
            }
            Damage::SjFuture(k) => {
                if let Some(Some(b)) = self.sj_hist.get(*k) {
                    // every "timestamp": N becomes a time far in the future (alternately the year 2100 and u64::MAX)
                    let text = String::from_utf8_lossy(b).to_string();
                    let mut out = String::new();
                    let mut rest = text.as_str();
                    let mut i = 0usize;
                    while let Some(p) = rest.find("\"timestamp\":") {
                        let (head, tail) = rest.split_at(p + "\"timestamp\":".len());
                        out.push_str(head);
                        let digits_end = tail.find(|c: char| !(c.is_ascii_digit() || c == ' ')).unwrap_or(tail.len());
                        out.push_str(if (i + k) % 2 == 0 { " 4102444800" } else { " 18446744073709551615" });
                        rest = &tail[digits_end..];
                        i += 1;
                    }
                    out.push_str(rest);
                    std::fs::create_dir_all(&st).unwrap();
                    std::fs::write(st.join("state.json"), out).unwrap();
                }
            }
            Damage::SjMerge(k) => {
                // current file (must be well-formed) + the queued events of version k appended
                let cur = std::fs::read(st.join("state.json")).ok().and_then(|b| serde_json::from_slice::<serde_json::Value>(&b).ok());
                let old = self.sj_hist.get(*k).and_then(|o| o.as_ref()).and_then(|b| serde_json::from_slice::<serde_json::Value>(b).ok());
                // only events of the SAME release are merged in: a queue mixing releases is not something an earlier
                // version of this file could have held (the properties' hypothesis on stale files)
                let same_release = match (&cur, &old) {
                    (Some(c), Some(o)) => c.get("release_version") == o.get("release_version"),
                    _ => false,
                };
                if let (true, Some(mut cur), Some(old)) = (same_release, cur, old) {
                    let extra: Vec<serde_json::Value> = old.get("queued_events").and_then(|v| v.as_array()).cloned().unwrap_or_default();
                    if let Some(q) = cur.get_mut("queued_events").and_then(|v| v.as_array_mut()) {
                        // (current ++ old) twice: long enough to exceed the batch of three, and not periodic in a way
                        // that would make "the first three" and "the last three" coincide
                        q.extend(extra);
                        let once = q.clone();
                        q.extend(once);
                        std::fs::write(st.join("state.json"), serde_json::to_vec(&cur).unwrap()).unwrap();
                    }
                }
            }
            Damage::Nop => {}
        }
    }

    /// Observe the storage directory (without going through the library).
    pub fn observe(&mut self, ret: String) -> Obs {
        let st = self.storage();
        let net = NET.lock().unwrap().log.clone();
        let sj = read_state_json(&st.join("state.json"));
        let pj = read_patches_json(&st.join("patches_state.json"));
        let pd = read_patches_dir(&st.join("patches"));
        self.pj_hist.push(std::fs::read(st.join("patches_state.json")).ok());
        self.sj_hist.push(std::fs::read(st.join("state.json")).ok());
        self.pj_ok.push(matches!(pj, JFile::Ok(_)));
        self.sj_ok.push(matches!(sj, JFile::Ok(_)));
        let (la, lb) = { let l = ACT_LOG.lock().unwrap(); (l.main.clone(), l.bg_net) };
        let obs = Obs { ret, net, sj, pj, pd, la, lb, outside: std::mem::take(&mut self.outside_changes) };
        self.last_obs = Some(obs.clone());
        obs
    }
}

/// Bytes the zstd decompressor emits for `compressed` before it ends or fails
/// (exactly what the library's decompression thread feeds into the pipe).
pub fn decompressed_prefix(compressed: &[u8]) -> Vec<u8> {
    use comde::de::Decompressor;
    use comde::zstd::ZstdDecompressor;
    let mut out: Vec<u8> = Vec::new();
    let d = ZstdDecompressor::new();
    let _ = d.copy(std::io::BufReader::new(std::io::Cursor::new(compressed.to_vec())), &mut out);
    out
}

/// zstd at level 1 (the tool uses level 21, whose context allocation dominates run time;
/// the library's decompressor accepts every level alike).
pub fn zstd_compress(data: &[u8]) -> Vec<u8> {
    zstd::stream::encode_all(std::io::Cursor::new(data), 1).unwrap()
}

/// The uncompressed bipatch stream the tool's diff stage produces.
pub fn raw_diff(older: &[u8], newer: &[u8]) -> Vec<u8> {
    let mut out: Vec<u8> = Vec::new();
    let params = bidiff::DiffParams::new(1, None).unwrap();
    bidiff::simple_diff_with_params(older, newer, &mut out, &params).unwrap();
    out
}

pub fn sha256_hex(b: &[u8]) -> String {
    use sha2::{Digest, Sha256};
    hex::encode(Sha256::digest(b))
}

/// The library's `check_signature`, replicated (its module is private): base64 key and signature,
/// RSA_PKCS1_2048_8192_SHA256 over the message bytes.
pub fn ring_verify(key_b64: &str, msg: &str, sig_b64: &str) -> bool {
    use base64::Engine;
    let Ok(key) = base64::prelude::BASE64_STANDARD.decode(key_b64) else { return false };
    let Ok(sig) = base64::prelude::BASE64_STANDARD.decode(sig_b64) else { return false };
    let pk = ring::signature::UnparsedPublicKey::new(&ring::signature::RSA_PKCS1_2048_8192_SHA256, key);
    pk.verify(msg.as_bytes(), &sig).is_ok()
}

pub fn rsa_sign(pk8: &[u8], msg: &str) -> String {
    use base64::Engine;
    let kp = ring::rsa::KeyPair::from_pkcs8(pk8).unwrap();
    let rng = ring::rand::SystemRandom::new();
    let mut sig = vec![0u8; kp.public().modulus_len()];
    kp.sign(&ring::signature::RSA_PKCS1_SHA256, &rng, msg.as_bytes(), &mut sig).unwrap();
    base64::prelude::BASE64_STANDARD.encode(sig)
}
