pub mod exec;
pub mod gen;
pub mod http;
pub mod hung;
pub mod proto;

use exec::*;
use gen::*;
use proto::*;
use std::collections::BTreeSet;
use std::io::Write;

struct NopLogger;
impl log::Log for NopLogger {
    fn enabled(&self, _: &log::Metadata) -> bool { false }
    fn log(&self, _: &log::Record) {}
    fn flush(&self) {}
}
static NOP_LOGGER: NopLogger = NopLogger;

/// Installs a no-op logger before the library can install its stderr logger
/// (set VERIF_LOGS=1 to keep the library's own logging).
pub fn silence_logs() {
    if std::env::var("VERIF_LOGS").is_err() {
        let _ = log::set_logger(&NOP_LOGGER);
    }
}

pub struct Fixtures {
    pub pk8: Vec<u8>,
    pub pk8_other: Vec<u8>,
    pub pub_b64: String,
    pub pub2_b64: String,
}

pub fn load_fixtures() -> Fixtures {
    let dir = std::env::var("VERIF_FIXTURES").unwrap_or_else(|_| "/verif/harness/fixtures".to_string());
    let rd = |n: &str| std::fs::read(format!("{}/{}", dir, n)).unwrap_or_else(|e| panic!("fixture {}: {}", n, e));
    Fixtures {
        pk8: rd("priv.pk8"),
        pk8_other: rd("priv2.pk8"),
        pub_b64: String::from_utf8(rd("pub.b64")).unwrap().trim().to_string(),
        pub2_b64: String::from_utf8(rd("pub2.b64")).unwrap().trim().to_string(),
    }
}

/// Statistics about what a campaign exercised (goes into the evidence).
#[derive(Default, Debug, Clone, serde::Serialize)]
pub struct CampaignStats {
    pub histories: u64,
    pub ops: u64,
    pub op_kinds: std::collections::BTreeMap<String, u64>,
    pub ret_kinds: std::collections::BTreeMap<String, u64>,
    pub net_calls: u64,
    pub net_under_lock: u64,
    pub panics: u64,
    /// ids of histories during which a panic was observed in any thread of the process
    pub panic_histories: Vec<String>,
}

/// Panics anywhere in the process (library threads included) are counted, never swallowed.
pub static PANICS: std::sync::atomic::AtomicU64 = std::sync::atomic::AtomicU64::new(0);
/// Crash journal: the history being run (H, L and every O line before it is executed), so that a
/// panic that aborts the process (unwinding out of an `extern "C"` function) still leaves a replay.
pub static JOURNAL: std::sync::Mutex<Option<std::fs::File>> = std::sync::Mutex::new(None);

/// Progress counter for the watchdog: bumped before and after every call into the library.
pub static PROGRESS: std::sync::atomic::AtomicU64 = std::sync::atomic::AtomicU64::new(0);
pub fn tick() { PROGRESS.fetch_add(1, std::sync::atomic::Ordering::SeqCst); }

/// A call that never returns (a deadlock) must not hang the check: after `secs` seconds without
/// progress the process reports `HANG` and exits with code 4; the crash journal holds the history.
pub fn start_watchdog(secs: u64) {
    std::thread::spawn(move || {
        use std::sync::atomic::Ordering::SeqCst;
        let mut last = PROGRESS.load(SeqCst);
        let mut since = std::time::Instant::now();
        loop {
            std::thread::sleep(std::time::Duration::from_millis(250));
            let p = PROGRESS.load(SeqCst);
            if p != last {
                last = p;
                since = std::time::Instant::now();
            } else if since.elapsed().as_secs() >= secs {
                eprintln!("HANG no call into the library returned for {} s (deadlock or blocked call)", secs);
                std::process::exit(4);
            }
        }
    });
}

pub fn set_journal(path: &str) {
    *JOURNAL.lock().unwrap() = std::fs::File::create(path).ok();
}

fn journal_start(lines: &[String]) {
    tick();
    use std::io::Seek;
    if let Some(f) = JOURNAL.lock().unwrap().as_mut() {
        let _ = f.set_len(0);
        let _ = f.seek(std::io::SeekFrom::Start(0));
        for l in lines { let _ = writeln!(f, "{}", l); }
        let _ = f.flush();
    }
}

fn journal_op(line: &str) {
    tick();
    if let Some(f) = JOURNAL.lock().unwrap().as_mut() {
        let _ = writeln!(f, "{}", line);
        let _ = f.flush();
    }
}

pub fn op_kind(op: &Op) -> String {
    match op {
        Op::Init { .. } => "init".into(),
        Op::Conc { .. } => "conc".into(),
        Op::Restart => "restart".into(),
        Op::Start => "start".into(),
        Op::Success => "success".into(),
        Op::Failure => "failure".into(),
        Op::NextN => "nextn".into(),
        Op::NextP => "nextp".into(),
        Op::CurN => "curn".into(),
        Op::Auto => "auto".into(),
        Op::Check { .. } => "check".into(),
        Op::Update { .. } => "update".into(),
        Op::Dmg(d) => format!("dmg-{}", match d {
            Damage::ArtDel(_) => "art-del", Damage::ArtSet(..) => "art-set", Damage::DirDel(_) => "dir-del",
            Damage::PdirDel => "pdir-del", Damage::Junk(_) => "junk", Damage::PjDel => "pj-del",
            Damage::PjGarbage(_) => "pj-garbage", Damage::PjStale(_) => "pj-stale", Damage::SjDel => "sj-del",
            Damage::SjGarbage(_) => "sj-garbage", Damage::SjStale(_) => "sj-stale", Damage::SjFuture(_) => "sj-future", Damage::SjMerge(_) => "sj-merge", Damage::Nop => "nop",
        }),
    }
}

/// Runs one explicit list of operations against the real library and writes its trace block.
pub fn run_history(
    id: &str,
    ctx: &Ctx,
    ops_source: &mut dyn FnMut(&Runner, usize) -> Option<Op>,
    out: &mut dyn Write,
    stats: &mut CampaignStats,
) {
    let mut runner = Runner::new();
    runner.write_lib("libapp.so", &ctx.base);
    let mut lines: Vec<String> = Vec::new();
    let mut contents: BTreeSet<Vec<u8>> = ctx.all_contents.iter().cloned().collect();
    let mut sigs: BTreeSet<String> = ctx.all_sigs.iter().cloned().collect();
    let mut k = 0usize;
    let head = vec![
        format!("H {} plat={} arch={}", id, enc_tok(updater::verif_hooks::current_platform()), enc_tok(updater::verif_hooks::current_arch())),
        format!("L {} {}", enc_tok("libapp.so"), enc_hex(&ctx.base)),
    ];
    journal_start(&head);
    let panics_before = PANICS.load(std::sync::atomic::Ordering::SeqCst);
    while let Some(op) = ops_source(&runner, k) {
        let stream = match &op {
            Op::Update { dl: Some(c), .. } => Some(decompressed_prefix(c)),
            _ => None,
        };
        if let Op::Update { resp: Some(Resp { patch: Some(o), .. }), .. } | Op::Check { resp: Some(Resp { patch: Some(o), .. }), .. } = &op {
            if let Some(s) = &o.sig { sigs.insert(s.clone()); }
        }
        if let Op::Conc { upd, bops, .. } = &op {
            for x in std::iter::once(upd.as_ref()).chain(bops.iter()) {
                if let Op::Update { resp: Some(Resp { patch: Some(o), .. }), .. } | Op::Check { resp: Some(Resp { patch: Some(o), .. }), .. } = x {
                    if let Some(s) = &o.sig { sigs.insert(s.clone()); }
                }
            }
        }
        if let Op::Dmg(Damage::ArtSet(_, b)) = &op { contents.insert(b.clone()); }
        let stream = match &op {
            Op::Conc { upd, .. } => match upd.as_ref() { Op::Update { dl: Some(c), .. } => Some(decompressed_prefix(c)), _ => None },
            _ => stream,
        };
        lines.push(format!("O {}", render_op(&op, stream.as_deref())));
        journal_op(lines.last().unwrap());
        let ret = if let Op::Conc { upd, bops, sched } = &op {
            for (who, rets, o) in runner.exec_conc(upd, bops, sched) {
                if let Some((arts, _)) = &o.pd {
                    for (_, a) in arts { if let Art::File(b) = a { contents.insert(b.clone()); } }
                }
                lines.push(format!("G who={} rets={} {}", who, join_with("+", &rets), render_obs(&o)));
            }
            "u".to_string()
        } else {
            runner.exec(&op)
        };
        let obs = runner.observe(ret.clone());
        if let Some((arts, _)) = &obs.pd {
            for (_, a) in arts { if let Art::File(b) = a { contents.insert(b.clone()); } }
        }
        lines.push(format!("R {}", render_obs(&obs)));
        *stats.op_kinds.entry(op_kind(&op)).or_default() += 1;
        *stats.ret_kinds.entry(format!("{}:{}", op_kind(&op), ret.split('[').next().unwrap_or(""))).or_default() += 1;
        stats.ops += 1;
        k += 1;
    }
    stats.histories += 1;
    if PANICS.load(std::sync::atomic::Ordering::SeqCst) != panics_before { stats.panic_histories.push(id.to_string()); }
    writeln!(out, "H {} plat={} arch={}", id, enc_tok(updater::verif_hooks::current_platform()), enc_tok(updater::verif_hooks::current_arch())).unwrap();
    writeln!(out, "L {} {}", enc_tok("libapp.so"), enc_hex(&ctx.base)).unwrap();
    // ring's verdicts for every (key, content hash, signature) triple this history can ask about
    let mut keys: Vec<String> = vec!["AAAA".to_string()];
    if let Some(k) = &ctx.key { keys.push(k.clone()); }
    for key in &keys {
        for c in &contents {
            let msg = sha256_hex(c);
            for s in &sigs {
                if ring_verify(key, &msg, s) {
                    writeln!(out, "V {} {} {} 1", enc_tok(key), enc_tok(&msg), enc_tok(s)).unwrap();
                }
            }
        }
    }
    for l in lines { writeln!(out, "{}", l).unwrap(); }
    writeln!(out, "E").unwrap();
    stats.net_calls = NET_CALLS.load(std::sync::atomic::Ordering::SeqCst);
    stats.net_under_lock = NET_UNDER_LOCK.load(std::sync::atomic::Ordering::SeqCst) as u64;
}

/// Generates and runs `count` random histories.
pub fn run_campaign(seed: u64, count: u64, prof: &Profile, out: &mut dyn Write) -> CampaignStats {
    let fx = load_fixtures();
    let mut stats = CampaignStats::default();
    for h in 0..count {
        let mut rng = Rng(seed.wrapping_mul(0x9E3779B97F4A7C15).wrapping_add(h.wrapping_mul(0xD1B54A32D192ED03)));
        let ctx = make_ctx(&mut rng, prof, &fx.pk8, &fx.pub_b64, &fx.pub2_b64, &fx.pk8_other);
        let conformant = rng.chance(prof.conformant);
        let mut gs = GenState::new(conformant);
        let n_ops = prof.min_ops + rng.below(prof.max_ops - prof.min_ops + 1);
        let id = format!("{}-{}-{}", prof.name, seed, h);
        let mut src = |runner: &Runner, k: usize| -> Option<Op> {
            if k >= n_ops { return None; }
            let op = gen_op(&mut rng, prof, &ctx, &mut gs, runner);
            match &op {
                Op::Init { .. } => gs.inited = true,
                Op::Restart => { gs.inited = false; gs.started = false; }
                Op::Start => gs.started = true,
                _ => {}
            }
            Some(op)
        };
        run_history(&id, &ctx, &mut src, out, &mut stats);
    }
    stats
}

/// Re-executes the histories of a replay/trace file (its `H`, `L`, `O` lines) against the real library.
pub fn run_replay(text: &str, out: &mut dyn Write) -> CampaignStats {
    let fx = load_fixtures();
    let mut stats = CampaignStats::default();
    let mut id = String::from("replay");
    let mut base: Vec<u8> = vec![];
    let mut ops: Vec<Op> = vec![];
    let mut sigs: Vec<String> = vec![];
    let mut key: Option<String> = None;
    let flush = |id: &str, base: &Vec<u8>, ops: &Vec<Op>, sigs: &Vec<String>, key: &Option<String>, out: &mut dyn Write, stats: &mut CampaignStats| {
        if ops.is_empty() { return; }
        let ctx = Ctx {
            base: base.clone(), other_base: vec![], numbers: vec![], targets: vec![], patches: vec![], wrong_base_patches: vec![],
            key_mode: KeyMode::None, key: key.clone(), sigs: vec![], app_id: String::new(), yaml_channel: None, versions: vec![],
            channels: vec![], auto: None, all_sigs: sigs.clone(), all_contents: vec![], merge_bias: 0,
        };
        let mut src = |_r: &Runner, k: usize| -> Option<Op> { ops.get(k).cloned() };
        run_history(id, &ctx, &mut src, out, stats);
    };
    let _ = &fx;
    for line in text.lines() {
        let line = line.trim();
        if let Some(rest) = line.strip_prefix("H ") {
            flush(&id, &base, &ops, &sigs, &key, out, &mut stats);
            ops.clear(); sigs.clear(); key = None; base.clear();
            id = rest.split_whitespace().next().unwrap_or("replay").to_string();
        } else if let Some(rest) = line.strip_prefix("L ") {
            let p: Vec<&str> = rest.split_whitespace().collect();
            if p.len() == 2 { base = dec_hex(p[1]).unwrap_or_default(); }
        } else if let Some(rest) = line.strip_prefix("O ") {
            match parse_op(rest, &|s| zstd_compress(s)) {
                Some(op) => {
                    if let Op::Init { yaml: Ok(y), .. } = &op { if key.is_none() { key = y.key.clone(); } }
                    ops.push(op);
                }
                None => eprintln!("replay: unparsable op line: {}", rest),
            }
        }
    }
    flush(&id, &base, &ops, &sigs, &key, out, &mut stats);
    stats
}
