//! History generator. Every random choice derives from one splitmix64 state.

use crate::exec::*;
use crate::proto::*;

#[derive(Clone)]
pub struct Rng(pub u64);

impl Rng {
    pub fn next(&mut self) -> u64 {
        self.0 = self.0.wrapping_add(0x9E3779B97F4A7C15);
        let mut z = self.0;
        z = (z ^ (z >> 30)).wrapping_mul(0xBF58476D1CE4E5B9);
        z = (z ^ (z >> 27)).wrapping_mul(0x94D049BB133111EB);
        z ^ (z >> 31)
    }
    pub fn below(&mut self, n: usize) -> usize {
        if n == 0 { 0 } else { (self.next() % n as u64) as usize }
    }
    pub fn chance(&mut self, percent: usize) -> bool {
        self.below(100) < percent
    }
    pub fn pick<'a, T>(&mut self, items: &'a [T]) -> &'a T {
        &items[self.below(items.len())]
    }
    pub fn bytes(&mut self, n: usize) -> Vec<u8> {
        (0..n).map(|_| self.next() as u8).collect()
    }
}

#[derive(Clone, Debug)]
pub struct Profile {
    pub name: &'static str,
    pub conformant: usize,   // % of histories that follow the engine protocol
    pub damage: usize,       // % of mid/post ops that are damage
    pub key_mode_valid: usize,
    pub key_mode_bad: usize,
    pub release_change: usize, // % chance per launch of a different version
    pub bad_download: usize,   // % of updates with a non-good download
    pub rollback: usize,       // % of responses carrying a rollback list
    pub net_fail: usize,       // % of check requests that fail
    pub second_init: usize,    // % chance of an extra init among mid ops
    pub exotic_strings: usize, // % of histories with non-ASCII app id / version / channel
    pub real_tool: usize,      // % of histories whose patches come from the real `patch::make_patch`
    pub conc: usize,           // % of mid ops that are concurrent episodes (update ∥ reports, queries, checks)
    pub reissue: usize,        // % of offers that carry the content (hash, signature, download) of ANOTHER patch number
    pub merge_bias: usize,     // % of damage ops that tamper with the event queue (hand-merged state.json), followed by an update
    pub fail_pct: usize,       // % of conformant launches that end in a failure report or without any report
    pub min_ops: usize,
    pub max_ops: usize,
}

pub fn profile(name: &str) -> Profile {
    let base = Profile {
        name: "mixed",
        conformant: 75,
        damage: 8,
        key_mode_valid: 20,
        key_mode_bad: 5,
        release_change: 6,
        bad_download: 25,
        rollback: 25,
        net_fail: 8,
        second_init: 4,
        exotic_strings: 10,
        real_tool: 1,
        conc: 0,
        reissue: 0,
        merge_bias: 0,
        fail_pct: 40,
        min_ops: 12,
        max_ops: 40,
    };
    match name {
        "mixed" => base,
        "lifecycle" => Profile { name: "lifecycle", conformant: 100, damage: 0, bad_download: 8, net_fail: 3, release_change: 0, second_init: 0, ..base },
        "damage" => Profile { name: "damage", damage: 35, ..base },
        "signing" => Profile { name: "signing", key_mode_valid: 75, key_mode_bad: 20, damage: 20, ..base },
        "release" => Profile { name: "release", release_change: 45, damage: 3, ..base },
        "download" => Profile { name: "download", bad_download: 70, damage: 2, ..base },
        "network" => Profile { name: "network", net_fail: 35, bad_download: 40, damage: 2, ..base },
        "rollback" => Profile { name: "rollback", rollback: 70, damage: 0, conformant: 100, bad_download: 5, release_change: 0, ..base },
        "chaos" => Profile { name: "chaos", conformant: 0, damage: 15, second_init: 15, ..base },
        "init" => Profile { name: "init", second_init: 35, damage: 2, ..base },
        "strings" => Profile { name: "strings", exotic_strings: 100, damage: 0, ..base },
        // an inconsistent server: the same patch number is re-issued with other bytes (only for properties that
        // hold for every server: C05, C06)
        "reissue" => Profile { name: "reissue", conformant: 100, damage: 0, reissue: 35, bad_download: 5, rollback: 20, net_fail: 2, release_change: 0, second_init: 0, ..base },
        // long event queues: only a tampered state.json holds more than three events (no sequence of calls can queue them)
        "events" => Profile { name: "events", conformant: 100, damage: 30, merge_bias: 75, fail_pct: 75, min_ops: 30, max_ops: 80, bad_download: 5, net_fail: 3, release_change: 0, rollback: 10, second_init: 0, ..base },
        "conc" => Profile { name: "conc", conformant: 100, damage: 0, conc: 55, bad_download: 8, rollback: 30, net_fail: 3, release_change: 0, second_init: 0, min_ops: 8, max_ops: 24, ..base },
        _ => base,
    }
}

pub const UNIVERSE: &[usize] = &[1, 2, 3, 4, 7];

#[derive(Clone, PartialEq, Eq, Debug)]
pub enum KeyMode {
    None,
    Valid,
    Bad,
}

/// Per-history fixture: base, targets, patches, keys.
pub struct Ctx {
    pub base: Vec<u8>,
    pub other_base: Vec<u8>,
    pub numbers: Vec<usize>,
    pub targets: Vec<Vec<u8>>,     // content served for numbers[i] (ServerConsistent)
    pub patches: Vec<Vec<u8>>,     // compressed patch file for numbers[i]
    pub wrong_base_patches: Vec<Vec<u8>>,
    pub key_mode: KeyMode,
    pub key: Option<String>,
    pub sigs: Vec<String>,         // valid signature (under the fixture key) of hex(sha256(target))
    pub app_id: String,
    pub yaml_channel: Option<String>,
    pub versions: Vec<String>,
    pub channels: Vec<String>,
    pub auto: Option<bool>,
    pub all_sigs: Vec<String>,     // every signature string used in this history
    pub all_contents: Vec<Vec<u8>>, // every artifact content that may appear on disk
    pub merge_bias: usize,          // from the profile
}

/// The real packaging tool (zstd level 21: slow).
pub fn make_patch_bytes(older: &[u8], newer: &[u8]) -> Vec<u8> {
    let mut c = std::io::Cursor::new(Vec::new());
    patch::make_patch(older.to_vec(), newer.to_vec(), &mut c);
    c.into_inner()
}

/// Same diff stage as the tool, compressed at level 1.
pub fn make_patch_fast(older: &[u8], newer: &[u8]) -> Vec<u8> {
    zstd_compress(&raw_diff(older, newer))
}

fn mutate(rng: &mut Rng, base: &[u8]) -> Vec<u8> {
    // a structured edit of the base: keep a prefix, splice some new bytes, keep a suffix
    let n = base.len();
    let a = rng.below(n + 1);
    let b = a + rng.below(n - a + 1);
    let ins_len = rng.below(24);
    let ins = rng.bytes(ins_len);
    let mut out = base[..a].to_vec();
    out.extend(ins);
    out.extend(&base[b..]);
    if out.len() > 96 {
        out.truncate(96);
    }
    out
}

const EXOTIC: &[&str] = &["é", "日本", " ", "a b", "x:y", "v;1,2", "%41", "~", "!", "1.0.0+1=2", "\u{1F600}", "ABC", "É", "-RC1"];

pub fn make_ctx(rng: &mut Rng, prof: &Profile, pk8: &[u8], pub_b64: &str, pub2_b64: &str, pk8_other: &[u8]) -> Ctx {
    let base_len = 1 + rng.below(64);
    let base = rng.bytes(base_len);
    let ob_len = 1 + rng.below(64);
    let other_base = rng.bytes(ob_len);
    let mut numbers: Vec<usize> = UNIVERSE.to_vec();
    if rng.chance(10) {
        numbers.push(1usize << 62);
    }
    if rng.chance(5) {
        numbers.push(usize::MAX);
    }
    let real_tool = rng.chance(prof.real_tool);
    let mut targets = Vec::new();
    let mut patches = Vec::new();
    let mut wrong_base_patches = Vec::new();
    for i in 0..numbers.len() {
        let mut t = match rng.below(6) {
            0 => { let k = 1 + rng.below(48); rng.bytes(k) }
            1 => Vec::new(), // empty target
            2 => base.clone(), // identical to base
            _ => mutate(rng, &base),
        };
        // keep contents distinct so content identifies the number it was served for
        if targets.contains(&t) {
            t.push(i as u8);
            t.push(0xA5);
        }
        if real_tool {
            patches.push(make_patch_bytes(&base, &t));
        } else {
            patches.push(make_patch_fast(&base, &t));
        }
        wrong_base_patches.push(make_patch_fast(&other_base, &t));
        targets.push(t);
    }
    let km = {
        let r = rng.below(100);
        if r < prof.key_mode_valid { KeyMode::Valid } else if r < prof.key_mode_valid + prof.key_mode_bad { KeyMode::Bad } else { KeyMode::None }
    };
    let key = match km {
        KeyMode::None => None,
        KeyMode::Valid => Some(pub_b64.to_string()),
        KeyMode::Bad => Some(match rng.below(5) {
            0 => "bad_public_key".to_string(),
            1 => "AAAA".to_string(),
            2 => "".to_string(),                      // a key that is present but blank is still a key nothing verifies under
            3 => "  ".to_string(),
            _ => pub_b64[..40].to_string(),
        }),
    };
    let sigs: Vec<String> = targets.iter().map(|t| rsa_sign(pk8, &sha256_hex(t))).collect();
    let exotic = rng.chance(prof.exotic_strings);
    let ex = |rng: &mut Rng, plain: &str| -> String {
        if exotic && rng.chance(60) { format!("{}{}", plain, rng.pick(EXOTIC)) } else { plain.to_string() }
    };
    // app ids are UUIDs in practice: upper-case ones must reach the server exactly as written
    let app_id = if rng.chance(25) { ex(rng, "8C846E87-1461-4B09-8708-170D78331AA7") } else { ex(rng, "app-1") };
    let yaml_channel = if rng.chance(40) { Some(ex(rng, "beta")) } else { None };
    // incl. pairs in which one version string is a strict prefix of the other (a comparison by prefix would call them equal)
    let versions = vec![ex(rng, "1.0.0+1"), ex(rng, "1.0.1+2"), ex(rng, "0.9.0+7"), ex(rng, "1.0.0+10"), ex(rng, "1.0.0")];
    let channels = vec![ex(rng, "staging"), ex(rng, "dev"), "stable".to_string()];
    let auto = match rng.below(4) { 0 => Some(false), 1 => Some(true), _ => None };
    let mut all_sigs = sigs.clone();
    all_sigs.push("not base64!".to_string());
    all_sigs.push(pub2_b64.to_string());
    // signature by another key over the right message, and by the right key over another message
    all_sigs.push(rsa_sign(pk8_other, &sha256_hex(&targets[0])));
    all_sigs.push(rsa_sign(pk8, "some other message"));
    // a signature by the right key over the hash as a careless server would spell it (upper-case hex): it is not a
    // signature over the content's hash, though it is one over the string the server advertises
    for t in &targets { all_sigs.push(rsa_sign(pk8, &sha256_hex(t).to_uppercase())); }
    // the correct signature in a non-canonical spelling: padding cut off, unused low bits of the last symbol set
    // (strict base64 rejects both; a lenient decoder yields the genuine signature bytes)
    for s in &sigs {
        let unpadded = s.trim_end_matches('=').to_string();
        all_sigs.push(unpadded.clone());
        let mut b: Vec<u8> = unpadded.into_bytes();
        if let Some(l) = b.last_mut() {
            let alphabet = b"ABCDEFGHIJKLMNOPQRSTUVWXYZabcdefghijklmnopqrstuvwxyz0123456789+/";
            if let Some(i) = alphabet.iter().position(|c| c == l) { *l = alphabet[i | 1]; }
        }
        let mut t = String::from_utf8(b).unwrap();
        while t.len() % 4 != 0 { t.push('='); }
        all_sigs.push(t);
    }
    let all_contents = targets.clone();
    Ctx {
        base, other_base, numbers, targets, patches, wrong_base_patches, key_mode: km, key, sigs,
        app_id, yaml_channel, versions, channels, auto, all_sigs, all_contents, merge_bias: prof.merge_bias,
    }
}

/// Generator state tracked across the ops of one history.
pub struct GenState {
    pub inited: bool,
    pub started: bool,
    pub version_idx: usize,
    pub launches: usize,
    pub phase: usize, // position inside a conformant launch
    pub mid_left: usize,
    pub post_left: usize,
    pub conformant: bool,
    /// further damage ops to come right away (several artifacts / files hit in one window), then a query
    pub burst_left: usize,
    /// artifacts still to be hit in the current burst (every artifact on disk, one after the other)
    pub burst_targets: Vec<usize>,
    /// the next op is an update attempt (right after the event queue was tampered with)
    pub force_update: bool,
}

impl GenState {
    pub fn new(conformant: bool) -> GenState {
        GenState { inited: false, started: false, version_idx: 0, launches: 0, phase: 0, mid_left: 0, post_left: 0, conformant, burst_left: 0, burst_targets: Vec::new(), force_update: false }
    }
}

fn gen_sig(rng: &mut Rng, ctx: &Ctx, i: usize) -> Option<String> {
    match ctx.key_mode {
        KeyMode::None => {
            if rng.chance(30) { Some(ctx.sigs[i].clone()) } else { None }
        }
        _ => match rng.below(20) {
            0 => None,
            1 => Some(ctx.all_sigs[ctx.sigs.len()].clone()),         // not base64
            2 => Some(ctx.all_sigs[ctx.sigs.len() + 1].clone()),     // base64 but not a signature
            3 => Some(ctx.all_sigs[ctx.sigs.len() + 2].clone()),     // other key
            4 => Some(ctx.all_sigs[ctx.sigs.len() + 3].clone()),     // other message
            5 => Some(ctx.sigs[(i + 1) % ctx.sigs.len()].clone()),   // signature of another patch
            6 => Some(ctx.all_sigs[2 * ctx.sigs.len() + 4 + 2 * i].clone()),      // right signature, padding cut off
            7 => Some(ctx.all_sigs[2 * ctx.sigs.len() + 4 + 2 * i + 1].clone()),  // right signature, last symbol's unused bits set
            _ => Some(ctx.sigs[i].clone()),
        },
    }
}

fn gen_hash(rng: &mut Rng, ctx: &Ctx, i: usize) -> String {
    let good = sha256_hex(&ctx.targets[i]);
    match rng.below(40) {
        0 | 8 => good.to_uppercase(),
        1 => sha256_hex(b"something else"),
        2 => good[..good.len() - 1].to_string(), // odd length
        3 => format!("{}zz", &good[..good.len() - 2]),
        4 => String::new(),
        5 => "#".to_string(),
        6 => good[..32].to_string(),
        7 => format!("{}00", good),
        _ => good,
    }
}

fn gen_download(rng: &mut Rng, prof: &Profile, ctx: &Ctx, i: usize) -> Option<Vec<u8>> {
    if !rng.chance(prof.bad_download) {
        return Some(ctx.patches[i].clone());
    }
    let good = &ctx.patches[i];
    match rng.below(9) {
        0 => None,
        1 => {
            // compressed file cut short
            let k = rng.below(good.len() + 1);
            Some(good[..k].to_vec())
        }
        2 | 3 => {
            // decompressed stream cut at an arbitrary point, then re-compressed (well-formed zstd)
            let s = decompressed_prefix(good);
            let k = rng.below(s.len() + 1);
            Some(zstd_compress(&s[..k]))
        }
        4 => {
            // one bit flipped in the decompressed stream
            let mut s = decompressed_prefix(good);
            if !s.is_empty() {
                let k = rng.below(s.len());
                s[k] ^= 1 << rng.below(8);
            }
            Some(zstd_compress(&s))
        }
        5 => {
            let mut c = good.clone();
            if !c.is_empty() {
                let k = rng.below(c.len());
                c[k] ^= 1 << rng.below(8);
            }
            Some(c)
        }
        6 => Some(ctx.wrong_base_patches[i].clone()),
        7 => { let k = rng.below(40); Some(rng.bytes(k)) }
        _ => Some(Vec::new()),
    }
}

fn gen_resp(rng: &mut Rng, prof: &Profile, ctx: &Ctx) -> (Option<Resp>, Option<usize>) {
    gen_resp_pref(rng, prof, ctx, None)
}

/// `prefer`: a patch number to offer if it is one of the history's numbers.
fn gen_resp_pref(rng: &mut Rng, prof: &Profile, ctx: &Ctx, prefer: Option<usize>) -> (Option<Resp>, Option<usize>) {
    if rng.chance(prof.net_fail) {
        return (None, None);
    }
    let rolled_back = if rng.chance(prof.rollback) {
        let k = rng.below(4);
        let mut l = Vec::new();
        for _ in 0..k {
            if rng.chance(85) { l.push(*rng.pick(&ctx.numbers)); } else { l.push(9 + rng.below(3)); }
        }
        Some(l)
    } else if rng.chance(20) {
        Some(vec![])
    } else {
        None
    };
    let r = rng.below(100);
    if r < 12 {
        // nothing on offer
        let contradictory = rng.chance(15);
        return (Some(Resp { available: contradictory, patch: None, rolled_back }), None);
    }
    let i = match prefer.and_then(|n| ctx.numbers.iter().position(|&k| k == n)) {
        Some(i) => i,
        None => rng.below(ctx.numbers.len()),
    };
    // the content on offer: normally that of number i; a re-issuing server serves another patch's bytes under it
    let j = if prof.reissue > 0 && rng.chance(prof.reissue) { rng.below(ctx.numbers.len()) } else { i };
    let mut offer = Offer {
        number: ctx.numbers[i],
        hash: gen_hash(rng, ctx, j),
        url: format!("https://cdn.example/patch/{}", ctx.numbers[i]),
        sig: gen_sig(rng, ctx, j),
    };
    // a server that spells the hash in upper case usually signs what it spells
    if offer.hash != offer.hash.to_lowercase() && offer.hash.len() == 64 && rng.chance(60) {
        offer.sig = Some(ctx.all_sigs[ctx.sigs.len() + 4 + j].clone());
    }
    let available = !rng.chance(4); // patch present but patch_available=false
    (Some(Resp { available, patch: Some(offer), rolled_back }), Some(j))
}

fn gen_chan(rng: &mut Rng, ctx: &Ctx) -> Option<String> {
    if rng.chance(25) { Some(rng.pick(&ctx.channels).clone()) } else { None }
}

/// One update in five meets an events endpoint that refuses some of its posts (queued failure reports, the download
/// and the install report): the library logs that and carries on.
fn gen_evf(rng: &mut Rng) -> u8 {
    let ev = if rng.chance(20) { 1 + rng.below(7) as u8 } else { 0 };
    // bit 7: a failing check / download reports an error text with a NUL byte in it (what a server error echoed into
    // the message can contain): the result handed to C then has no message, and is released like any other
    ev | if rng.chance(8) { 0x80 } else { 0 }
}

pub fn gen_update(rng: &mut Rng, prof: &Profile, ctx: &Ctx) -> Op {
    let (resp, idx) = gen_resp(rng, prof, ctx);
    let dl = match idx {
        Some(i) => gen_download(rng, prof, ctx, i),
        None => None,
    };
    Op::Update { chan: gen_chan(rng, ctx), resp, dl, evf: gen_evf(rng) }
}

pub fn gen_check(rng: &mut Rng, prof: &Profile, ctx: &Ctx) -> Op {
    let (resp, _) = gen_resp(rng, prof, ctx);
    Op::Check { chan: gen_chan(rng, ctx), resp }
}

pub fn gen_query(rng: &mut Rng) -> Op {
    match rng.below(7) {
        0 | 1 => Op::NextN,
        2 | 3 => Op::NextP,
        4 | 5 => Op::CurN,
        _ => Op::Auto,
    }
}

/// An earlier state.json with queued events, merged into the current one (or `None` if there is none yet).
fn gen_queue_tamper(rng: &mut Rng, runner: &Runner) -> Option<Op> {
    let with_events: Vec<usize> = (0..runner.sj_ok.len()).filter(|&k| runner.sj_ok[k])
        .filter(|&k| runner.sj_hist[k].as_ref()
            .and_then(|b| serde_json::from_slice::<serde_json::Value>(b).ok())
            .and_then(|v| v.get("queued_events").and_then(|q| q.as_array().map(|a| !a.is_empty())))
            .unwrap_or(false)).collect();
    if with_events.is_empty() { return None; }
    // prefer a version whose events differ from the current ones (a queue of identical events cannot tell "the first
    // three" from "the last three")
    let events_of = |b: &Vec<u8>| -> Option<String> {
        serde_json::from_slice::<serde_json::Value>(b).ok().and_then(|v| v.get("queued_events").map(|q| {
            // patch number and message identify an event here (timestamps differ anyway)
            q.as_array().map(|a| a.iter().map(|e| format!("{}|{}", e["patch_number"], e["message"])).collect::<Vec<_>>().join(";")).unwrap_or_default()
        }))
    };
    let cur = runner.sj_hist.last().and_then(|o| o.as_ref()).and_then(events_of).unwrap_or_default();
    if cur.is_empty() && rng.chance(85) { return None; }       // worth it when something is queued now
    let differing: Vec<usize> = with_events.iter().copied()
        .filter(|&k| runner.sj_hist[k].as_ref().and_then(events_of).map(|e| !cur.contains(&e) && !e.is_empty()).unwrap_or(false)).collect();
    let k = if !differing.is_empty() && rng.chance(80) { *rng.pick(&differing) } else { *rng.pick(&with_events) };
    Some(Op::Dmg(Damage::SjMerge(k)))
}

pub fn gen_damage(rng: &mut Rng, ctx: &Ctx, runner: &Runner) -> Op {
    if ctx.merge_bias > 0 && rng.chance(ctx.merge_bias) {
        if let Some(op) = gen_queue_tamper(rng, runner) { return op; }
    }
    // bias towards numbers that exist on disk
    let on_disk: Vec<(usize, Art)> = runner
        .last_obs
        .as_ref()
        .and_then(|o| o.pd.as_ref().map(|p| p.0.clone()))
        .unwrap_or_default();
    let pick_n = |rng: &mut Rng| -> usize {
        if !on_disk.is_empty() && rng.chance(85) { on_disk[rng.below(on_disk.len())].0 } else { *rng.pick(&ctx.numbers) }
    };
    let d = match rng.below(16) {
        0 => Damage::ArtDel(pick_n(rng)),
        1 | 2 | 3 | 4 => {
            let n = pick_n(rng);
            let cur: Option<Vec<u8>> = on_disk.iter().find(|(k, _)| *k == n).and_then(|(_, a)| match a {
                Art::File(b) => Some(b.clone()),
                _ => None,
            });
            let cur = cur.unwrap_or_default();
            let newc = match rng.below(5) {
                0 => cur[..rng.below(cur.len() + 1)].to_vec(),                    // truncate
                1 => { let mut c = cur.clone(); let k = 1 + rng.below(8); c.extend(rng.bytes(k)); c } // extend
                2 => { let mut c = cur.clone(); if !c.is_empty() { let k = rng.below(c.len()); c[k] ^= 0x40; } c } // same size
                3 => rng.bytes(cur.len()),                                         // same size, other bytes
                _ => { let k = rng.below(40); rng.bytes(k) }
            };
            Damage::ArtSet(n, newc)
        }
        5 => Damage::DirDel(pick_n(rng)),
        6 => Damage::PdirDel,
        7 => Damage::Junk(rng.pick(&["tmp", "x1", "lost+found", ".hidden", "12a"]).to_string()),
        8 => Damage::PjDel,
        9 => Damage::PjGarbage(rng.below(GARBAGE_VARIANTS.len())),
        10 | 11 => {
            let oks: Vec<usize> = (0..runner.pj_ok.len()).filter(|&k| runner.pj_ok[k]).collect();
            if oks.is_empty() { Damage::Nop } else { Damage::PjStale(*rng.pick(&oks)) }
        }
        12 => Damage::SjDel,
        13 => Damage::SjGarbage(rng.below(GARBAGE_VARIANTS.len())),
        _ => {
            let oks: Vec<usize> = (0..runner.sj_ok.len()).filter(|&k| runner.sj_ok[k]).collect();
            if oks.is_empty() { Damage::Nop }
            else if rng.chance(30) { Damage::SjFuture(*rng.pick(&oks)) }
            else if rng.chance(40) {
                // prefer earlier versions that hold queued events
                let with_events: Vec<usize> = oks.iter().copied()
                    .filter(|&k| runner.sj_hist[k].as_ref()
                        .and_then(|b| serde_json::from_slice::<serde_json::Value>(b).ok())
                        .and_then(|v| v.get("queued_events").and_then(|q| q.as_array().map(|a| !a.is_empty())))
                        .unwrap_or(false)).collect();
                if with_events.is_empty() { Damage::SjStale(*rng.pick(&oks)) } else { Damage::SjMerge(*rng.pick(&with_events)) }
            }
            else { Damage::SjStale(*rng.pick(&oks)) }
        }
    };
    Op::Dmg(d)
}

pub fn gen_init(rng: &mut Rng, prof: &Profile, ctx: &Ctx, gs: &mut GenState, second: bool) -> Op {
    if !second && rng.chance(prof.release_change) {
        gs.version_idx = (gs.version_idx + 1 + rng.below(ctx.versions.len() - 1)) % ctx.versions.len();
    }
    let mut yaml = Ok(Yaml {
        app_id: ctx.app_id.clone(),
        channel: ctx.yaml_channel.clone(),
        // incl. the shapes a hand-edited shorebird.yaml has: trailing slash, nothing after the colon
        base_url: if rng.chance(12) {
            Some((*rng.pick(&["http://127.0.0.1:9", "http://127.0.0.1:9/", "", "/", "http://127.0.0.1:9"])).to_string())
        } else { None },
        auto_update: ctx.auto,
        key: ctx.key.clone(),
    });
    let mut version = ctx.versions[gs.version_idx].clone();
    let mut dirs = 0;
    let mut libs = vec!["libapp.so".to_string()];
    if second {
        // a later init with arbitrary parameters
        if rng.chance(50) { version = rng.pick(&ctx.versions).clone(); }
        if rng.chance(40) { dirs = 1 + rng.below(2); }
        if rng.chance(30) {
            yaml = Ok(Yaml { app_id: "other-app".into(), channel: Some("other".into()), base_url: None, auto_update: Some(rng.chance(50)), key: if rng.chance(50) { None } else { Some("AAAA".into()) } });
        }
        if rng.chance(15) { yaml = Err(rng.below(6)); }
        if rng.chance(15) { libs = vec![]; }
        if rng.chance(15) { libs = vec!["missing.so".to_string()]; }
    } else {
        if rng.chance(3) { yaml = Err(rng.below(6)); }
        if rng.chance(2) { libs = vec![]; }
        if rng.chance(2) { libs = vec!["missing.so".to_string(), "libapp.so".to_string()]; }
    }
    // the count a careless C caller passes: zero or negative with a perfectly good list
    let count = if rng.chance(if second { 10 } else { 2 }) { Some(*rng.pick(&[0, -1, -7, i32::MIN])) } else { None };
    Op::Init { version, dirs, libs, yaml, count }
}

/// Next operation of a history.
pub fn gen_op(rng: &mut Rng, prof: &Profile, ctx: &Ctx, gs: &mut GenState, runner: &Runner) -> Op {
    // damage comes in bursts: what needs two artifacts (or an artifact and a state file) hit in the same window —
    // e.g. the selection AND its fallback target — is otherwise vanishingly rare
    if gs.force_update {
        gs.force_update = false;
        return gen_update(rng, prof, ctx);
    }
    if let Some(n) = gs.burst_targets.pop() {
        if gs.burst_targets.is_empty() { gs.burst_left = 1; }
        return gen_art_damage(rng, runner, n);
    }
    if gs.burst_left > 0 {
        gs.burst_left -= 1;
        return if gs.burst_left == 0 { gen_query(rng) } else { gen_damage(rng, ctx, runner) };
    }
    let op = gen_op_inner(rng, prof, ctx, gs, runner);
    if matches!(op, Op::Dmg(Damage::SjMerge(_))) {
        gs.force_update = gs.inited && rng.chance(70);
        return op;
    }
    if matches!(op, Op::Dmg(_)) && rng.chance(35) {
        if rng.chance(50) {
            // every artifact on disk is hit, then a query
            gs.burst_targets = runner.last_obs.as_ref().and_then(|o| o.pd.as_ref().map(|p| p.0.iter().map(|(n, _)| *n).collect())).unwrap_or_default();
            if gs.burst_targets.is_empty() { gs.burst_left = 1; }
        } else {
            gs.burst_left = 2 + rng.below(3);
        }
    }
    op
}

/// Outside damage to the artifact of patch `n`: deleted, cut, grown, emptied, or its directory removed.
fn gen_art_damage(rng: &mut Rng, runner: &Runner, n: usize) -> Op {
    let cur: Vec<u8> = runner.last_obs.as_ref()
        .and_then(|o| o.pd.as_ref())
        .and_then(|p| p.0.iter().find(|(k, _)| *k == n).map(|(_, a)| match a { Art::File(b) => b.clone(), _ => Vec::new() }))
        .unwrap_or_default();
    // same-size tampering twice as likely as the other kinds: only a signature check can notice it
    Op::Dmg(match rng.below(7) {
        0 => Damage::ArtDel(n),
        1 => Damage::ArtSet(n, cur[..rng.below(cur.len() + 1).min(cur.len().saturating_sub(1))].to_vec()),
        2 => { let mut c = cur.clone(); let k = 1 + rng.below(8); c.extend(rng.bytes(k)); Damage::ArtSet(n, c) }
        3 => Damage::ArtSet(n, Vec::new()),
        4 => Damage::DirDel(n),
        _ => { let mut c = cur.clone(); if !c.is_empty() { let k = rng.below(c.len()); c[k] ^= 0x40; } Damage::ArtSet(n, c) }
    })
}

fn gen_op_inner(rng: &mut Rng, prof: &Profile, ctx: &Ctx, gs: &mut GenState, runner: &Runner) -> Op {
    if !gs.conformant {
        // arbitrary call order
        return match rng.below(100) {
            0..=9 => { let second = runner.inited && rng.chance(70); gen_init(rng, prof, ctx, gs, second) }
            10..=16 => Op::Restart,
            17..=26 => Op::Start,
            27..=34 => Op::Success,
            35..=42 => Op::Failure,
            43..=57 => gen_query(rng),
            58..=67 => gen_check(rng, prof, ctx),
            68..=91 => gen_update(rng, prof, ctx),
            _ => if rng.chance(prof.damage * 4) { gen_damage(rng, ctx, runner) } else { gen_query(rng) },
        };
    }
    // engine protocol: init, [query], start, mid*, outcome, post*, restart
    loop {
        match gs.phase {
            0 => {
                gs.phase = 1;
                gs.launches += 1;
                return gen_init(rng, prof, ctx, gs, false);
            }
            1 => {
                gs.phase = 2;
                // what the engine and the Dart side ask before the launch start: the patch to boot, and (one time in five)
                // the current patch, which at this moment must be the last good one
                if rng.chance(75) { return match rng.below(5) { 0 => Op::CurN, 1 | 2 => Op::NextP, _ => Op::NextN }; }
            }
            2 => {
                gs.phase = 3;
                gs.mid_left = rng.below(4);
                return Op::Start;
            }
            3 => {
                if gs.mid_left == 0 { gs.phase = 4; continue; }
                gs.mid_left -= 1;
                return gen_mid(rng, prof, ctx, gs, runner);
            }
            4 => {
                gs.phase = 5;
                gs.post_left = rng.below(4);
                let r = rng.below(100);
                if r >= prof.fail_pct { return Op::Success; }
                if r < prof.fail_pct / 2 { return Op::Failure; }
                // else no report: the process will die mid-boot
            }
            5 => {
                if gs.post_left == 0 { gs.phase = 6; continue; }
                gs.post_left -= 1;
                return gen_mid(rng, prof, ctx, gs, runner);
            }
            _ => {
                gs.phase = 0;
                return Op::Restart;
            }
        }
    }
}

/// A concurrent episode: an update against 1–3 calls of another thread, with a random schedule.
fn gen_conc(rng: &mut Rng, prof: &Profile, ctx: &Ctx, runner: &Runner) -> Op {
    // half of the episodes offer the patch that is booting right now (if any): the interesting races are
    // between its download / install and its own launch report
    let booting: Option<usize> = runner.last_obs.as_ref().and_then(|o| match &o.pj {
        JFile::Ok(p) => p.booting.as_ref().map(|m| m.number),
        _ => None,
    });
    let mut prefer = if rng.chance(50) { booting } else { None };
    // the race every process start has: the update thread is already running when the engine reports the launch of the
    // patch selected by the previous run (nothing booting yet in this process), and the server has moved on to another patch
    let pending: Option<usize> = runner.last_obs.as_ref().and_then(|o| match &o.pj {
        JFile::Ok(p) if p.booting.is_none() => p.next.as_ref().map(|m| m.number),
        _ => None,
    });
    let launch_race = pending.is_some() && rng.chance(50);
    if launch_race {
        let others: Vec<usize> = ctx.numbers.iter().cloned().filter(|n| Some(*n) != pending).collect();
        if !others.is_empty() { prefer = Some(*rng.pick(&others)); }
    }
    let upd = {
        let (resp, idx) = gen_resp_pref(rng, prof, ctx, prefer);
        let dl = match idx { Some(i) => gen_download(rng, prof, ctx, i), None => None };
        Op::Update { chan: gen_chan(rng, ctx), resp, dl, evf: gen_evf(rng) & 0x7f }
    };
    let n = 1 + rng.below(3);
    let mut bops = Vec::new();
    for _ in 0..n {
        bops.push(match rng.below(100) {
            0..=29 => Op::Failure,
            30..=49 => Op::Success,
            50..=59 => Op::NextN,
            60..=69 => Op::NextP,
            70..=74 => Op::CurN,
            75..=89 => gen_check(rng, prof, ctx),
            _ => Op::Start,
        });
    }
    if launch_race {
        bops[0] = Op::Start;
        if bops.len() > 1 && rng.chance(60) { bops[1] = if rng.chance(70) { Op::Success } else { Op::Failure }; }
    }
    // schedules: half random bits; half "the other thread runs in one gap of the update": every gap of the
    // update (up to its last section) is then equally likely, which random bits make exponentially rare
    let sched: Vec<u8> = if rng.chance(50) {
        (0..16).map(|_| rng.below(2) as u8).collect()
    } else {
        let gap = rng.below(9);
        let mut v = vec![0u8; gap];
        v.extend(std::iter::repeat(1u8).take(8));
        v
    };
    Op::Conc { upd: Box::new(upd), bops, sched }
}

fn gen_mid(rng: &mut Rng, prof: &Profile, ctx: &Ctx, gs: &mut GenState, runner: &Runner) -> Op {
    if rng.chance(prof.conc) {
        return gen_conc(rng, prof, ctx, runner);
    }
    if rng.chance(prof.damage) {
        return gen_damage(rng, ctx, runner);
    }
    if rng.chance(prof.second_init) {
        // alternative directories / parameters only once a configuration is in place
        return gen_init(rng, prof, ctx, gs, runner.inited);
    }
    match rng.below(10) {
        0..=5 => gen_update(rng, prof, ctx),
        6 | 7 => gen_check(rng, prof, ctx),
        _ => gen_query(rng),
    }
}
