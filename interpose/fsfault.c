/*
 * fsfault.c — LD_PRELOAD shim for C04.
 *
 * Counts the calling process's own MUTATING file-system calls on paths under $VERIF_FS_ROOT
 * (open with O_CREAT/O_TRUNC/write access, write/pwrite on such descriptors, rename, unlink, rmdir,
 * mkdir and their *at variants) and, at the k-th one (k = $VERIF_FS_KILL_AT, counted from 0),
 *   - mode "kill" (default): terminates the process immediately BEFORE the call takes effect
 *     (`_exit(137)`: no destructors, no buffered data flushed — a process death at that instant);
 *   - mode "torn" ($VERIF_FS_MODE=torn): if the call is a write, performs the first half of it and
 *     then terminates; other calls as in "kill";
 *   - mode "eio"  ($VERIF_FS_MODE=eio): makes that one call fail with EIO (ENOSPC for writes) and
 *     lets execution continue.
 * Every counted call is appended to $VERIF_FS_LOG (if set) as "<index> <call> <path>".
 *
 * Build: gcc -shared -fPIC -O2 -o fsfault.so fsfault.c -ldl
 */
#define _GNU_SOURCE
#include <dlfcn.h>
#include <errno.h>
#include <fcntl.h>
#include <stdarg.h>
#include <stdio.h>
#include <stdlib.h>
#include <string.h>
#include <sys/stat.h>
#include <sys/types.h>
#include <unistd.h>

#define MAXFD 4096
static char root[1024];
static size_t rootlen = 0;
static long kill_at = -1;
static int mode = 0; /* 0 kill, 1 torn, 2 eio */
static long counter = 0;
static int logfd = -1;
static int inited = 0;
static unsigned char tracked[MAXFD];

static int (*real_open)(const char *, int, ...);
static int (*real_open64)(const char *, int, ...);
static int (*real_openat)(int, const char *, int, ...);
static int (*real_openat64)(int, const char *, int, ...);
static ssize_t (*real_write)(int, const void *, size_t);
static int (*real_close)(int);
static int (*real_rename)(const char *, const char *);
static int (*real_renameat)(int, const char *, int, const char *);
static int (*real_unlink)(const char *);
static int (*real_unlinkat)(int, const char *, int);
static int (*real_rmdir)(const char *);
static int (*real_mkdir)(const char *, mode_t);
static int (*real_mkdirat)(int, const char *, mode_t);

static void init(void) {
    if (inited) return;
    inited = 1;
    real_open = dlsym(RTLD_NEXT, "open");
    real_open64 = dlsym(RTLD_NEXT, "open64");
    real_openat = dlsym(RTLD_NEXT, "openat");
    real_openat64 = dlsym(RTLD_NEXT, "openat64");
    real_write = dlsym(RTLD_NEXT, "write");
    real_close = dlsym(RTLD_NEXT, "close");
    real_rename = dlsym(RTLD_NEXT, "rename");
    real_renameat = dlsym(RTLD_NEXT, "renameat");
    real_unlink = dlsym(RTLD_NEXT, "unlink");
    real_unlinkat = dlsym(RTLD_NEXT, "unlinkat");
    real_rmdir = dlsym(RTLD_NEXT, "rmdir");
    real_mkdir = dlsym(RTLD_NEXT, "mkdir");
    real_mkdirat = dlsym(RTLD_NEXT, "mkdirat");
    const char *r = getenv("VERIF_FS_ROOT");
    if (r) { strncpy(root, r, sizeof(root) - 1); rootlen = strlen(root); }
    const char *k = getenv("VERIF_FS_KILL_AT");
    if (k) kill_at = atol(k);
    const char *m = getenv("VERIF_FS_MODE");
    if (m && !strcmp(m, "torn")) mode = 1;
    if (m && !strcmp(m, "eio")) mode = 2;
    const char *l = getenv("VERIF_FS_LOG");
    if (l && real_open) logfd = real_open(l, O_WRONLY | O_CREAT | O_APPEND, 0644);
}

/* absolute path of (dirfd, path) if it can be determined cheaply */
static int under_root_at(int dirfd, const char *path, char *out, size_t outlen) {
    if (!rootlen || !path) return 0;
    if (path[0] == '/') {
        snprintf(out, outlen, "%s", path);
    } else if (dirfd == AT_FDCWD) {
        char cwd[1024];
        if (!getcwd(cwd, sizeof cwd)) return 0;
        snprintf(out, outlen, "%s/%s", cwd, path);
    } else {
        char link[64], dir[1024];
        snprintf(link, sizeof link, "/proc/self/fd/%d", dirfd);
        ssize_t n = readlink(link, dir, sizeof dir - 1);
        if (n <= 0) return 0;
        dir[n] = 0;
        snprintf(out, outlen, "%s/%s", dir, path);
    }
    return strncmp(out, root, rootlen) == 0 && (out[rootlen] == '/' || out[rootlen] == 0);
}

/* returns: 0 proceed, 1 fail this call (errno set), never returns when the process is killed */
static int hit(const char *what, const char *path, int is_write) {
    long idx = counter++;
    if (logfd >= 0) {
        char line[1400];
        int n = snprintf(line, sizeof line, "%ld %s %s\n", idx, what, path ? path : "?");
        if (n > 0) real_write(logfd, line, (size_t)n);
    }
    if (kill_at >= 0 && idx == kill_at) {
        if (mode == 2) { errno = is_write ? ENOSPC : EIO; return 1; }
        if (mode == 1 && is_write) return 2; /* caller performs half of the write, then dies */
        _exit(137);
    }
    return 0;
}

static int mutating_flags(int flags) {
    return (flags & (O_CREAT | O_TRUNC)) || ((flags & O_ACCMODE) != O_RDONLY);
}

#define OPEN_BODY(REAL, DIRFD, PATHEXPR, CALLEXPR)                                        \
    init();                                                                                \
    mode_t m = 0;                                                                          \
    if (flags & (O_CREAT | O_TMPFILE)) { va_list ap; va_start(ap, flags); m = va_arg(ap, mode_t); va_end(ap); } \
    char abs[1400];                                                                        \
    int ur = under_root_at(DIRFD, PATHEXPR, abs, sizeof abs);                               \
    if (ur && mutating_flags(flags) && !(flags & O_DIRECTORY)) {                            \
        if (hit("open", abs, 0) == 1) return -1;                                           \
    }                                                                                      \
    int fd = CALLEXPR;                                                                     \
    if (fd >= 0 && fd < MAXFD) tracked[fd] = (ur && mutating_flags(flags) && !(flags & O_DIRECTORY)) ? 1 : 0; \
    return fd;

int open(const char *path, int flags, ...) { OPEN_BODY(real_open, AT_FDCWD, path, real_open(path, flags, m)) }
int open64(const char *path, int flags, ...) { OPEN_BODY(real_open64, AT_FDCWD, path, real_open64(path, flags, m)) }
int openat(int dirfd, const char *path, int flags, ...) { OPEN_BODY(real_openat, dirfd, path, real_openat(dirfd, path, flags, m)) }
int openat64(int dirfd, const char *path, int flags, ...) { OPEN_BODY(real_openat64, dirfd, path, real_openat64(dirfd, path, flags, m)) }

ssize_t write(int fd, const void *buf, size_t n) {
    init();
    if (fd >= 0 && fd < MAXFD && tracked[fd]) {
        int h = hit("write", "(fd)", 1);
        if (h == 1) return -1;
        if (h == 2) { real_write(fd, buf, n / 2); _exit(137); }
    }
    return real_write(fd, buf, n);
}

int close(int fd) {
    init();
    if (fd >= 0 && fd < MAXFD) tracked[fd] = 0;
    return real_close(fd);
}

int rename(const char *a, const char *b) {
    init();
    char abs[1400];
    if (under_root_at(AT_FDCWD, b, abs, sizeof abs) && hit("rename", abs, 0) == 1) return -1;
    return real_rename(a, b);
}
int renameat(int da, const char *a, int db, const char *b) {
    init();
    char abs[1400];
    if (under_root_at(db, b, abs, sizeof abs) && hit("rename", abs, 0) == 1) return -1;
    return real_renameat(da, a, db, b);
}
int unlink(const char *p) {
    init();
    char abs[1400];
    if (under_root_at(AT_FDCWD, p, abs, sizeof abs) && hit("unlink", abs, 0) == 1) return -1;
    return real_unlink(p);
}
int unlinkat(int d, const char *p, int flags) {
    init();
    char abs[1400];
    if (under_root_at(d, p, abs, sizeof abs) && hit((flags & AT_REMOVEDIR) ? "rmdir" : "unlink", abs, 0) == 1) return -1;
    return real_unlinkat(d, p, flags);
}
int rmdir(const char *p) {
    init();
    char abs[1400];
    if (under_root_at(AT_FDCWD, p, abs, sizeof abs) && hit("rmdir", abs, 0) == 1) return -1;
    return real_rmdir(p);
}
int mkdir(const char *p, mode_t m) {
    init();
    char abs[1400];
    if (under_root_at(AT_FDCWD, p, abs, sizeof abs)) {
        struct stat st;
        /* create_dir_all probes existing components: only a directory that does not exist yet is a mutation */
        if (stat(abs, &st) != 0 && hit("mkdir", abs, 0) == 1) return -1;
    }
    return real_mkdir(p, m);
}
int mkdirat(int d, const char *p, mode_t m) {
    init();
    char abs[1400];
    if (under_root_at(d, p, abs, sizeof abs)) {
        struct stat st;
        if (stat(abs, &st) != 0 && hit("mkdir", abs, 0) == 1) return -1;
    }
    return real_mkdirat(d, p, m);
}
