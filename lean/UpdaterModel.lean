import UpdaterModel.Model.Basic
import UpdaterModel.Model.Sha256
import UpdaterModel.Model.Hex
import UpdaterModel.Model.Codec
import UpdaterModel.Model.PatchManager
import UpdaterModel.Model.UpdaterState
import UpdaterModel.Model.Updater
