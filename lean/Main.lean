/-
  `model`: line-protocol driver.

    model replay < trace      for every history block: run the model on the `O` lines, compare with
                              the implementation's `R` lines, evaluate the property monitors on the
                              implementation's observations and on the model's.
  Output (one line each):
    OK <hist>                                     model and implementation agree at every step
    DIFF <hist> step=<k> | M <obs> | I <obs>      first disagreement
    BAD <hist> <why>                              unparsable input (harness or driver defect)
    J <prop> <hist> step=<k> side=<impl|model> <reason>     a monitor rejected a trace
    STATS ...                                     counters for the evidence
-/
import UpdaterModel.Driver.Proto
import UpdaterModel.Driver.Judge
import UpdaterModel.Driver.CodecDriver
import UpdaterModel.Driver.AbiDump
import UpdaterModel.Model.Interleave
import UpdaterModel.Model.Crash

open Updater Updater.Proto

structure Block where
  id : String := "?"
  plat : String := "linux"
  arch : String := "x86_64"
  libs : List (String × Bytes) := []
  vtab : List ((String × String × String) × Bool) := []
  lines : Array (List String × Array (List String) × List String) := #[]   -- (op parts, grant lines of an episode, impl obs parts)
  pendingOp : Option (List String) := none
  pendingG : Array (List String) := #[]
  bad : Option String := none

def mkEnv (b : Block) : Env :=
  { verify := fun k m s => (b.vtab.lookup (k, m, s)).getD false
    platform := b.plat, arch := b.arch }

structure Stats where
  hists : Nat := 0
  steps : Nat := 0
  diffs : Nat := 0
  bads : Nat := 0
  jfails : Nat := 0

/-- Documented status code of an update outcome kind. -/
def documentedCode (kind : String) : String :=
  if kind == "none" then "0" else if kind == "inst" then "1" else if kind == "bad" then "3" else "-1"

/-- If the `ret=` field is an update result whose code is not the documented one for its outcome,
    report it and substitute the documented code so that the rest of the line can be compared. -/
def fixStatus (parts : List String) : List String × Option String :=
  match parts with
  | [] => ([], none)
  | p :: rest =>
    if p.startsWith "ret=s" then
      match (p.drop 5).toString.splitOn ":" with
      | [code, kind] =>
        let want := documentedCode kind
        if code != want then
          (s!"ret=s{want}:{kind}" :: rest, some s!"C15: status code {code} delivered for outcome '{kind}', documented value is {want}")
        else (parts, none)
      | _ => (parts, none)
    else (parts, none)

/-- `conc s=… u=<update op> b=<ops of the other thread>` -/
def parseConc (parts : List String) : Option (Option String × UpdateScript × List Op) := do
  let f := fields parts
  let u ← f.lookup "u" >>= decTok
  let uop ← parseOp ((u.splitOn " ").filter (· ≠ "")) #[] #[]
  let bs ← f.lookup "b" >>= (fun s => mapM' decTok (splitList "," s))
  let bops ← mapM' (fun t => parseOp ((t.splitOn " ").filter (· ≠ "")) #[] #[]) bs
  match uop with
  | .update chan sc => pure (chan, sc, bops)
  | _ => none

def parseWho (s : String) : Option Who := if s == "A" then some .A else if s == "B" then some .B else none

/-- Only the storage directory of an observation (episodes compare disks and return values). -/
def diskObs (d : Disk) : Obs := obsOf { disk := d, config := none, libs := [] } .unit [] [] 0

def diskFields (a b : Obs) : List String :=
  (diffFields a b).filter fun f => f == "sj" || f == "sje" || f == "pj" || f == "pd" || f == "junk"

initialize A_OUT : IO.Ref (Option UpdateOut) ← IO.mkRef none

/-- Replay one concurrent episode in the model, grant by grant, against the implementation's grants.
    Returns the disk to continue from, whether a difference was seen, and the C11 verdict on the
    implementation's grants. -/
def processConc (env : Env) (hist : String) (k : Nat) (w : World) (chan : Option String) (sc : UpdateScript) (bops : List Op)
    (glines : Array (List String)) (firstDiff : Bool) : IO (Disk × Nat × Option (Nat × String) × Option String) := do
  match w.config with
  | none =>
    -- without a configuration every call is a single no-op section; nothing to interleave
    return (w.disk, 0, none, none)
  | some cfg =>
    let mut cw : CW := { disk := w.disk, upc := .copyCfg, bq := bops }
    let mut diffs := 0
    let mut gtrace : Array (Who × List Ret × View) := #[]
    let mut i := 0
    for g in glines do
      let f := fields g
      match f.lookup "who" >>= parseWho, f.lookup "rets" >>= (fun s => mapM' parseRet (splitList "+" s)), parseObs g with
      | some who, some rets, some iobs =>
        gtrace := gtrace.push (who, rets, Judge.viewOfObs iobs)
        let r := grant env cfg w.libs chan sc cw who
        cw := r.1.norm
        let mobs := diskObs cw.disk
        let fs := diskFields mobs iobs ++ (if r.2.map renderRet != rets.map renderRet then ["ret"] else [])
        if !fs.isEmpty then
          if diffs == 0 && firstDiff then
            IO.println s!"DIFF {hist} step={k} fields={",".intercalate fs} op=conc grant={i} who={repr who} | M rets={"+".intercalate (r.2.map renderRet)} {renderObs mobs} | I {" ".intercalate g}"
          else
            IO.println s!"DIFF+ {hist} step={k} fields={",".intercalate fs} grant={i}"
          diffs := diffs + 1
          cw := { cw with disk := diskOfObs iobs }
      | _, _, _ => return (w.disk, diffs, none, some s!"unparsable grant line {" ".intercalate g}")
      i := i + 1
    -- judge the implementation's grants
    let pre : View := Judge.viewOfObs (diskObs w.disk)
    let g0 := G11.start env cfg.key sc bops pre
    let verdict := judge11 env cfg.key sc g0 0 pre gtrace.toList
    -- what the update of the episode returned (for the C17 clause on the episode's network log)
    let aOut : Option UpdateOut := (gtrace.toList.filterMap fun (who, rets, _) =>
      if who == Who.A then rets.findSome? (fun r => match r with | .upd o => some o | _ => none) else none).getLast?
    A_OUT.set aOut
    return (cw.disk, diffs, verdict, none)

def processBlock (b : Block) (st : Stats) : IO Stats := do
  match b.bad with
  | some why => IO.println s!"BAD {b.id} {why}"; return { st with bads := st.bads + 1, hists := st.hists + 1 }
  | none => pure ()
  let env := mkEnv b
  let mut w : World := { disk := Disk.empty, config := none, libs := b.libs }
  let mut pjHist : Array (JFile PatchesState) := #[]
  let mut sjHist : Array (JFile SState) := #[]
  let mut k := 0
  let mut implTrace : Array (Op × Obs) := #[]
  let mut modelTrace : Array (Op × Obs) := #[]
  let mut diff := false
  let mut st := { st with hists := st.hists + 1 }
  let mut hasConc := false
  for (opParts, glines, obsParts) in b.lines do
    if opParts.head? == some "conc" then
      hasConc := true
      match parseConc opParts.tail, parseObs obsParts with
      | some (chan, sc, bops), some iobs =>
        let (d, nd, verdict, bad) ← processConc env b.id k w chan sc bops glines (!diff)
        if let some why := bad then
          IO.println s!"BAD {b.id} step={k} {why}"
          return { st with bads := st.bads + 1 }
        if let some (gi, why) := verdict then
          IO.println s!"J C11 {b.id} step={k} side=impl grant={gi} {why}"
          st := { st with jfails := st.jfails + 1 }
        if w.config.isSome then
          if let some why := firstFail (episodeNetChecks (← A_OUT.get) iobs.net) then
            IO.println s!"J C17 {b.id} step={k} side=impl {why}"
            st := { st with jfails := st.jfails + 1 }
        if nd > 0 then
          diff := true
          st := { st with diffs := st.diffs + nd }
        w := { w with disk := d }
        -- the observation after the episode: the storage directory must be the one after the last grant
        let fs := diskFields (diskObs w.disk) iobs
        if !fs.isEmpty then
          IO.println s!"DIFF+ {b.id} step={k} fields={",".intercalate fs} op=conc end"
          diff := true
          st := { st with diffs := st.diffs + 1 }
          w := { w with disk := diskOfObs iobs }
        pjHist := pjHist.push iobs.pj
        sjHist := sjHist.push iobs.sj
        k := k + 1
        st := { st with steps := st.steps + 1 }
        continue
      | _, _ =>
        IO.println s!"BAD {b.id} step={k} unparsable-episode {" ".intercalate opParts}"
        return { st with bads := st.bads + 1 }
    match parseOp opParts pjHist sjHist with
    | none =>
      IO.println s!"BAD {b.id} step={k} unparsable-op {" ".intercalate opParts}"
      return { st with bads := st.bads + 1 }
    | some op =>
      -- C15: the status code delivered through the C ABI must be the documented one for the outcome
      -- (the harness derives the outcome from the message text, the code is what the C struct carried)
      let (obsParts, abiBad) := fixStatus obsParts
      if let some why := abiBad then
        IO.println s!"J C15 {b.id} step={k} side=impl {why}"
        st := { st with jfails := st.jfails + 1 }
      match parseObs obsParts with
      | none =>
        IO.println s!"BAD {b.id} step={k} unparsable-obs {" ".intercalate obsParts}"
        return { st with bads := st.bads + 1 }
      | some iobs =>
        let raw := " ".intercalate obsParts
        if renderObs iobs != raw then
          IO.println s!"BAD {b.id} step={k} obs-roundtrip | {renderObs iobs} | {raw}"
          return { st with bads := st.bads + 1 }
        implTrace := implTrace.push (op, iobs)
        let r := step env w op
        let la := lockActs env w op
        w := r.1
        let mobs := obsOf w r.2.1 r.2.2 la.1 la.2
        modelTrace := modelTrace.push (op, mobs)
        -- stale-file damage replays what the implementation had on disk
        pjHist := pjHist.push iobs.pj
        sjHist := sjHist.push iobs.sj
        let mtxt := renderObs mobs
        if mtxt != raw then
          let fs := diffFields mobs iobs
          if !diff then
            IO.println s!"DIFF {b.id} step={k} fields={",".intercalate fs} op={" ".intercalate opParts} | M {mtxt} | I {raw}"
          else
            IO.println s!"DIFF+ {b.id} step={k} fields={",".intercalate fs}"
          diff := true
          st := { st with diffs := st.diffs + 1 }
          -- resynchronise the model's disk with the implementation's so that later steps are compared
          -- from the same state (the disagreement itself has been reported)
          w := { w with disk := diskOfObs iobs }
        k := k + 1
        st := { st with steps := st.steps + 1 }
  if !diff then IO.println s!"OK {b.id}"
  -- monitors (histories with concurrent episodes are judged by the episode monitor only)
  if hasConc then return st
  for (prop, verdict) in Judge.judgeAll env b.libs implTrace.toList do
    match verdict with
    | none => pure ()
    | some (i, why) =>
      IO.println s!"J {prop} {b.id} step={i} side=impl {why}"
      st := { st with jfails := st.jfails + 1 }
  if !diff then
    for (prop, verdict) in Judge.judgeAll env b.libs modelTrace.toList do
      match verdict with
      | none => pure ()
      | some (i, why) =>
        -- identical traces give identical verdicts; printed only to make that visible
        if false then IO.println s!"J {prop} {b.id} step={i} side=model {why}"
  return st

partial def loop (h : IO.FS.Stream) (b : Block) (st : Stats) : IO Stats := do
  let line ← h.getLine
  if line.isEmpty then return st
  let parts := (line.trimAscii.toString.splitOn " ").filter (· ≠ "")
  match parts with
  | [] => loop h b st
  | "H" :: id :: rest =>
    let f := fields rest
    loop h { id := id, plat := (f.lookup "plat" >>= decTok).getD "linux",
             arch := (f.lookup "arch" >>= decTok).getD "x86_64" } st
  | ["L", name, hx] =>
    match decTok name, decHex hx with
    | some n, some bs => loop h { b with libs := (n, bs) :: b.libs } st
    | _, _ => loop h { b with bad := some "bad L line" } st
  | ["V", k, m, s, v] =>
    match decTok k, decTok m, decTok s with
    | some k, some m, some s => loop h { b with vtab := ((k, m, s), v == "1") :: b.vtab } st
    | _, _, _ => loop h { b with bad := some "bad V line" } st
  | "O" :: rest =>
    match b.pendingOp with
    | some _ => loop h { b with bad := some "O without R" } st
    | none => loop h { b with pendingOp := some rest, pendingG := #[] } st
  | "G" :: rest =>
    match b.pendingOp with
    | none => loop h { b with bad := some "G without O" } st
    | some _ => loop h { b with pendingG := b.pendingG.push rest } st
  | "R" :: rest =>
    match b.pendingOp with
    | none => loop h { b with bad := some "R without O" } st
    | some op => loop h { b with pendingOp := none, pendingG := #[], lines := b.lines.push (op, b.pendingG, rest) } st
  | ["E"] =>
    let st ← processBlock b st
    loop h {} st
  | _ => loop h { b with bad := some s!"unknown line {line.trimAscii.toString}" } st


/-! ### `model crash`: process-death experiments (C04) -/

structure KBlock where
  id : String := "?"
  plat : String := "linux"
  arch : String := "x86_64"
  libs : List (String × Bytes) := []
  vtab : List ((String × String × String) × Bool) := []
  pre : Option (List String) := none
  ops : Array (List String) := #[]
  xs : Array String := #[]

def renderFiles (p : StateFiles) : String :=
  let o : Obs := { ret := .unit, net := [], sj := p.1, pj := p.2, pd := none }
  let parts := (renderObs o).splitOn " "
  " ".intercalate (parts.filter fun t => t.startsWith "sj" || t.startsWith "pj")

def sameFiles (a b : StateFiles) : Bool :=
  let oa : Obs := { ret := .unit, net := [], sj := a.1, pj := a.2, pd := none }
  let ob : Obs := { ret := .unit, net := [], sj := b.1, pj := b.2, pd := none }
  (diffFields oa ob).all fun f => !(f == "sj" || f == "sje" || f == "pj")

def words (s : String) : List String := (s.trimAscii.toString.splitOn " ").filter (· ≠ "")

def processK (b : KBlock) : IO (Nat × Nat × Nat) := do   -- (experiments, diffs, judge failures)
  let env : Env := { verify := fun k m s => (b.vtab.lookup (k, m, s)).getD false, platform := b.plat, arch := b.arch }
  match b.pre.bind parseObs, b.ops.toList with
  | some pre, initParts :: opParts =>
    match parseOp initParts #[] #[], mapM' (fun o => parseOp o #[] #[]) opParts with
    | some (.init p), some ops =>
      let w0 : World := { disk := diskOfObs pre, config := none, libs := b.libs }
      let cfg? := mkConfig p
      let pairs := match cfg? with
        | some cfg => (pre.sj, pre.pj) :: segCrashPairs (launchSegs env cfg w0 p ops)
        | none => [(pre.sj, pre.pj)]
      -- the worlds at the start of every call of the launch (model)
      let w1 := (step env w0 (.init p)).1
      let worlds : List World := ops.foldl (fun acc op => acc ++ [(step env (acc.getLast?.getD w1) op).1]) [w1]
      let preV := Judge.viewOfObs pre
      let settledPre := match cfg? with | some c => preV.release == some c.version | none => true
      let offers := offersOf ops
      let verified : Nat → List Bytes := fun k => match cfg? with
        | some c => verifiedContents c (w0.base c) preV settledPre ops k
        | none => []
      let mut n := 0
      let mut diffs := 0
      let mut jf := 0
      for x in b.xs do
        n := n + 1
        let parts := x.splitOn " | "
        let hdf := fields (words (parts.headD ""))
        -- the call that was running when the process died (index into ops; none = the initialisation)
        let started : Option Nat := (hdf.lookup "started").bind String.toNat?
        let inProg : Option Nat := match started with
          | some j => (match worlds[j]?, ops[j]? with | some w, some op => inProgressAt w op | _, _ => none)
          | none => none
        match parts with
        | [hd, crashS, _rinit, _afterInit, afterNext] =>
          match parseObs (words crashS), parseObs (words afterNext) with
          | some xo, some ro =>
            -- (1) the state files at death are among the model's crash states
            if !(pairs.any fun q => sameFiles q (xo.sj, xo.pj)) then
              IO.println s!"XDIFF {b.id} {hd} state files at death are not a crash state of the model | I {renderFiles (xo.sj, xo.pj)} | M {" ; ".intercalate (pairs.map renderFiles)}"
              diffs := diffs + 1
            -- (2) what the next launch selects
            let sel : Option Nat := match ro.ret with | .num k => if k = 0 then none else some k | _ => none
            let key := cfg?.bind (·.key)
            -- `up=1`: the launch after the death is one of another release (`crash_then_other_release`): it selects nothing
            let checks : Checks :=
              if (hdf.lookup "up") == some "1" then upgradeChecks sel
              else crashChecks env key preV (Judge.viewOfObs xo) offers settledPre inProg (Judge.viewOfObs ro) sel ++
                   contentChecks verified (Judge.viewOfObs ro) sel
            match firstFail checks with
            | some why =>
              IO.println s!"J C04 {b.id} step=0 side=impl {hd} {why}"
              jf := jf + 1
            | none => pure ()
          | _, _ =>
            IO.println s!"XBAD {b.id} {hd} unparsable observation"
            diffs := diffs + 1
        | [hd, crashS, _rinit, _afterInit, afterNext, inproc] =>
          -- a single I/O error, execution continued: the conclusion and the invariant of `eio_safe_*` / `eio_inv`
          match parseObs (words crashS), parseObs (words afterNext), parseObs (words inproc) with
          | some xo, some ro, some io =>
            let key := cfg?.bind (·.key)
            let selOf (o : Obs) : Option Nat := match o.ret with | .num k => if k = 0 then none else some k | _ => none
            let ver := cfg?.map (·.version)
            match firstFail (eioChecks env key preV offers settledPre (Judge.viewOfObs io) (selOf io) ++
                             eioChecks env key preV offers settledPre (Judge.viewOfObs ro) (selOf ro) ++
                             contentChecks verified (Judge.viewOfObs io) (selOf io) ++
                             contentChecks verified (Judge.viewOfObs ro) (selOf ro) ++
                             eioRecordChecks ver preV offers settledPre (Judge.viewOfObs xo) ++
                             eioRecordChecks ver preV offers settledPre (Judge.viewOfObs ro)) with
            | some why =>
              IO.println s!"J C04 {b.id} step=0 side=impl {hd} {why}"
              jf := jf + 1
            | none => pure ()
          | _, _, _ =>
            IO.println s!"XBAD {b.id} {hd} unparsable observation"
            diffs := diffs + 1
        | hd :: rest =>
          -- abnormal termination of the interrupted process or a failed recovery: a C04 violation by itself
          IO.println s!"J C04 {b.id} step=0 side=impl {hd} C04: {" | ".intercalate rest}"
          jf := jf + 1
        | [] => pure ()
      if diffs == 0 && jf == 0 then IO.println s!"KOK {b.id} experiments={n} model-crash-states={pairs.length}"
      return (n, diffs, jf)
    | _, _ =>
      IO.println s!"XBAD {b.id} unparsable ops"
      return (0, 1, 0)
  | _, _ =>
    IO.println s!"XBAD {b.id} malformed block"
    return (0, 1, 0)

partial def loopK (h : IO.FS.Stream) (b : KBlock) (acc : Nat × Nat × Nat × Nat) : IO (Nat × Nat × Nat × Nat) := do
  let line ← h.getLine
  if line.isEmpty then return acc
  let t := line.trimAscii.toString
  let parts := words t
  match parts with
  | [] => loopK h b acc
  | "K" :: id :: rest =>
    let f := fields rest
    loopK h { id := id, plat := (f.lookup "plat" >>= decTok).getD "linux", arch := (f.lookup "arch" >>= decTok).getD "x86_64" } acc
  | ["L", name, hx] =>
    match decTok name, decHex hx with
    | some n, some bs => loopK h { b with libs := (n, bs) :: b.libs } acc
    | _, _ => loopK h b acc
  | ["V", k, m, s, v] =>
    match decTok k, decTok m, decTok s with
    | some k, some m, some s => loopK h { b with vtab := ((k, m, s), v == "1") :: b.vtab } acc
    | _, _, _ => loopK h b acc
  | "P" :: rest => loopK h { b with pre := some rest } acc
  | "O" :: rest => loopK h { b with ops := b.ops.push rest } acc
  | "X" :: _ => loopK h { b with xs := b.xs.push (t.drop 2).toString } acc
  | ["E"] =>
    let (n, d, j) ← processK b
    loopK h {} (acc.1 + 1, acc.2.1 + n, acc.2.2.1 + d, acc.2.2.2 + j)
  | _ => loopK h b acc

def main (args : List String) : IO UInt32 := do
  let stdin ← IO.getStdin
  match args with
  | ["replay"] =>
    let st ← loop stdin {} {}
    IO.println s!"STATS hists={st.hists} steps={st.steps} diffs={st.diffs} bads={st.bads} jfails={st.jfails}"
    return 0
  | ["crash"] =>
    let (k, n, d, j) ← loopK stdin {} (0, 0, 0, 0)
    IO.println s!"STATS hists={k} steps={n} diffs={d} bads=0 jfails={j}"
    return 0
  | ["codec"] => CodecDriver.main stdin
  | ["abi"] => AbiDump.main
  | _ =>
    IO.eprintln "usage: model replay|codec|abi"
    return 2
