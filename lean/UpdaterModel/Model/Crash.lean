/-
  Process death inside a call (C04).

  The only durable data the updater decides from are the two state files; both are rewritten in
  place (`File::create` truncates, then the JSON is written, no temp file / rename / fsync). So a call
  is, for this purpose, its ordered list of *save events*, and the states a dying process can leave
  behind are: the start, and for every save first the truncated (unreadable) file, then the complete
  one. Artifact directories are moved, created and deleted in between; the safety theorem quantifies
  over EVERY content of `patches/` at the moment of death, so their exact intermediate states need no
  model (whatever is there is validated again by the next launch).

  The save lists are computed with the same functions (same branch conditions) as the atomic
  semantics `step`; `Props/C04.lean` proves that replaying them yields `step`'s final state files.
-/
import UpdaterModel.Model.Monitor

namespace Updater

inductive SaveEv where
  | pj (v : PatchesState)
  | sj (v : SState)
deriving Repr, Inhabited

abbrev StateFiles := JFile SState × JFile PatchesState

/-- The state files after the save completed. -/
def SaveEv.apply (cur : StateFiles) : SaveEv → StateFiles
  | .pj v => (cur.1, .ok v)
  | .sj v => (.ok v, cur.2)

/-- … and in the middle of it: the file exists but is empty or cut short. -/
def SaveEv.torn (cur : StateFiles) : SaveEv → StateFiles
  | .pj _ => (cur.1, .garbage)
  | .sj _ => (.garbage, cur.2)

def applySaves (cur : StateFiles) (evs : List SaveEv) : StateFiles := evs.foldl SaveEv.apply cur

/-- Every pair of state files a process dying during these saves can leave behind. -/
def crashPairs : StateFiles → List SaveEv → List StateFiles
  | cur, [] => [cur]
  | cur, e :: es => cur :: e.torn cur :: crashPairs (e.apply cur) es

/-! ### save events of the patch-manager functions and the critical sections -/

/-- `load_or_new_on_error`: a readable state of this release is used as it is; otherwise
    `create_new_and_save` resets the patch state and THEN records the new release version. -/
def loadSaves (d : Disk) (version : String) : List SaveEv :=
  match d.stateJson with
  | .ok ss => if ss.version ≠ version then [.pj {}, .sj { version := version, events := [] }] else []
  | _ => [.pj {}, .sj { version := version, events := [] }]

def PM.nextBootPatchSaves (env : Env) (key : Option String) (pm : PM) : List SaveEv :=
  match pm.ps.next with
  | none => []
  | some nx => if validate env key pm.disk nx then [] else [.pj (pm.tryFallBack env key nx.number).ps]

def PM.recordBootStartSaves (pm : PM) (n : Nat) : List SaveEv :=
  match pm.ps.next with
  | none => []
  | some nx => if nx.number ≠ n then [] else [.pj (pm.recordBootStart n).1.ps]

def PM.recordBootSuccessSaves (pm : PM) : List SaveEv :=
  match pm.ps.booting with
  | none => []
  | some _ => [.pj pm.recordBootSuccess.1.ps]

/-- `try_fall_back_from_patch` once per number, each ending in a save. -/
def foldFallBackSaves (env : Env) (key : Option String) : List Nat → PM → List SaveEv
  | [], _ => []
  | n :: ns, pm => .pj (pm.tryFallBack env key n).ps :: foldFallBackSaves env key ns (pm.tryFallBack env key n)

def failureSaves (env : Env) (cfg : Config) (us : US) (msg : Nat → String) : List SaveEv :=
  match us.pm.ps.booting with
  | some p =>
    [ .pj (us.pm.recordBootFailure env cfg.key p.number).ps,
      .sj { us.ss with events := us.ss.events ++ [mkEvent env cfg .installFailure p.number (some (msg p.number))] } ]
  | none => []

def secHandlePriorSaves (env : Env) (cfg : Config) (d : Disk) : List SaveEv :=
  loadSaves d cfg.version ++
  failureSaves env cfg (loadOrNew d cfg.version) (fun n => s!"Patch {n} was marked currently_booting in init")

def secLaunchFailureSaves (env : Env) (cfg : Config) (d : Disk) : List SaveEv :=
  loadSaves d cfg.version ++
  failureSaves env cfg (loadOrNew d cfg.version) (fun n => s!"Install failure reported from engine for patch {n}")

def secNextBootPatchSaves (env : Env) (cfg : Config) (d : Disk) : List SaveEv :=
  loadSaves d cfg.version ++ (loadOrNew d cfg.version).pm.nextBootPatchSaves env cfg.key

def secLaunchStartSaves (env : Env) (cfg : Config) (d : Disk) : List SaveEv :=
  let us := loadOrNew d cfg.version
  let r := us.pm.nextBootPatch env cfg.key
  loadSaves d cfg.version ++ us.pm.nextBootPatchSaves env cfg.key ++
  (match r.2 with
   | some n => r.1.recordBootStartSaves n
   | none => [])

def secLaunchSuccessSaves (cfg : Config) (d : Disk) : List SaveEv :=
  loadSaves d cfg.version ++ (loadOrNew d cfg.version).pm.recordBootSuccessSaves

def secClearEventsSaves (cfg : Config) (d : Disk) : List SaveEv :=
  loadSaves d cfg.version ++ [.sj { (loadOrNew d cfg.version).ss with events := [] }]

def secRollBackSaves (env : Env) (cfg : Config) (d : Disk) (ns : List Nat) : List SaveEv :=
  loadSaves d cfg.version ++ foldFallBackSaves env cfg.key ns (loadOrNew d cfg.version).pm

/-- A segment: one critical section, starting from the storage directory it finds, with its save
    events. A call is the list of its sections' segments. -/
abbrev Segment := Disk × List SaveEv

def rollBackIfNeededSegs (env : Env) (cfg : Config) (d : Disk) : Option (List Nat) → List Segment
  | some ns => [(d, secRollBackSaves env cfg d ns)]
  | none => []

def shouldInstallSegs (env : Env) (cfg : Config) (d : Disk) (n : Nat) : List Segment :=
  let r1 := secIsKnownBad cfg d n
  (d, loadSaves d cfg.version) :: (if r1.2 then [] else [(r1.1, secNextBootPatchSaves env cfg r1.1)])

def secInstallSaves (cfg : Config) (d : Disk) (o : Offer) (out : Bytes) : List SaveEv :=
  loadSaves d cfg.version ++ [.pj ((loadOrNew d cfg.version).pm.addPatch o.number out o.hash o.sig).ps]

def installStageSegs (env : Env) (cfg0 : Config) (base : Option Bytes) (d : Disk) (o : Offer) (dl : Option Bytes) : List Segment :=
  match dl, base with
  | some stream, some base =>
    (match bipatchDecode stream base with
     | .error _ => []
     | .ok out =>
       if ¬ checkHash out o.hash then []
       else if ¬ signatureOk env cfg0.key o.sig out then []
       else [(d, secInstallSaves cfg0 d o out)])
  | _, _ => []

def afterCheckSegs (env : Env) (cfg0 : Config) (base : Option Bytes) (d : Disk) (r : CheckResp) (dl : Option Bytes) : List Segment :=
  let d1 := rollBackIfNeeded env cfg0 d r.rolledBack
  rollBackIfNeededSegs env cfg0 d r.rolledBack ++
  (if ¬ r.available then []
   else match r.patch with
    | none => []
    | some o =>
      let s := shouldInstall env cfg0 d1 o.number
      shouldInstallSegs env cfg0 d1 o.number ++
      (match s.2 with
       | .ok => installStageSegs env cfg0 base s.1 o dl
       | _ => []))

def updateCoreSegs (env : Env) (cfg0 : Config) (base : Option Bytes) (d : Disk) (sc : UpdateScript) : List Segment :=
  let r1 := secCopyEvents cfg0 d
  let d2 := secClearEvents cfg0 r1.1
  (d, loadSaves d cfg0.version) :: (r1.1, secClearEventsSaves cfg0 r1.1) ::
  (match sc.resp with
   | none => []
   | some r => afterCheckSegs env cfg0 base d2 r sc.dl)

def checkCoreSegs (env : Env) (cfg0 : Config) (d : Disk) : Option CheckResp → List Segment
  | none => []
  | some r =>
    rollBackIfNeededSegs env cfg0 d r.rolledBack ++
    (match r.patch with
     | none => []
     | some o => shouldInstallSegs env cfg0 (rollBackIfNeeded env cfg0 d r.rolledBack) o.number)

/-- The sections of one exported call of a configured process, with their save events. -/
def opSegs (env : Env) (cfg : Config) (w : World) : Op → List Segment
  | .start => [(w.disk, secLaunchStartSaves env cfg w.disk)]
  | .success => [(w.disk, secLaunchSuccessSaves cfg w.disk)]
  | .failure => [(w.disk, secLaunchFailureSaves env cfg w.disk)]
  | .nextN | .nextP => [(w.disk, secNextBootPatchSaves env cfg w.disk)]
  | .curN => [(w.disk, loadSaves w.disk cfg.version)]
  | .check _ resp => checkCoreSegs env cfg w.disk resp
  | .update _ sc => updateCoreSegs env cfg (w.base cfg) w.disk sc
  | _ => []

/-- The sections of a sequence of calls of one process. -/
def opsSegs (env : Env) (cfg : Config) : World → List Op → List Segment
  | _, [] => []
  | w, op :: rest => opSegs env cfg w op ++ opsSegs env cfg (step env w op).1 rest

/-- A launch: an effective initialisation (crash detection) followed by the calls of that process. -/
def launchSegs (env : Env) (cfg : Config) (w : World) (p : InitParams) (ops : List Op) : List Segment :=
  (w.disk, secHandlePriorSaves env cfg w.disk) :: opsSegs env cfg (step env w (.init p)).1 ops

/-- The patches the updates of these calls offer for installation. -/
def offersOf (ops : List Op) : List Nat := ops.filterMap fun op => op.offer.map (·.number)

def files (d : Disk) : StateFiles := (d.stateJson, d.patchesJson)

/-- Every pair of state files a process dying somewhere in these sections can leave behind. -/
def segCrashPairs (segs : List Segment) : List StateFiles :=
  segs.flatMap fun sg => crashPairs (files sg.1) sg.2

/-! ### recovery and what is safe -/

/-- The next launch: initialisation (crash detection) and the query for the patch to boot. -/
def recover (env : Env) (cfg' : Config) (x : Disk) : Disk × Option Nat :=
  secNextBootPatch env cfg' (secHandlePriorBootFailure env cfg' x)

/-- What the property allows the next launch to select after a process death, given the state
    before the interrupted launch (`pre`), the state at death (`x`), the patch the interrupted call was
    installing (if any), and whether `pre` was a readable state of the release being launched. -/
def crashChecks (env : Env) (key : Option String) (pre x : View) (offers : List Nat) (settledPre : Bool)
    (inProgress : Option Nat) (recovered : View) (sel : Option Nat) : Checks :=
  match sel with
  | none => []
  | some n =>
    [ (recovered.nextNum = some n && (match recovered.ps.next with | some m => recovered.valid env key m | none => false),
        s!"C04: after the process death the next launch selected patch {n}, which is not an intact selected patch"),
      (!settledPre || !pre.ps.bad.contains n, s!"C04: after the process death the next launch selected patch {n}, which was banned before the interrupted launch"),
      (x.bootingNum ≠ some n && inProgress ≠ some n,
        s!"C04: after the process death the next launch selected patch {n}, whose own launch was in progress when the process died"),
      ((slotNums pre).contains n || offers.contains n,
        s!"C04: after the process death the next launch selected patch {n}, which was neither recorded before the interrupted launch nor installed by it"),
      (settledPre || offers.contains n,
        s!"C04: the state on disk belonged to another release (or was unreadable), yet after the process death the next launch of this release selected patch {n} from it") ]

/-- … and when the launch after the death is a launch of ANOTHER release (the app was upgraded in between; the
    directory was never a state of that release): nothing of the dead process's release may be selected
    (the conclusion of `crash_then_other_release`). -/
def upgradeChecks (sel : Option Nat) : Checks :=
  match sel with
  | none => []
  | some n => [(false, s!"C04: after the process death the next launch, a launch of another release, selected patch {n} of the release whose process died")]

/-- The contents under which patch `n` counts as "previously verified" for the launch after a death or after an
    I/O error: its file before the interrupted launch (when that was a readable state of this release recording
    `n`), or what an update of the launch decodes its download to, with the advertised hash. -/
def verifiedContents (cfg : Config) (base : Option Bytes) (pre : View) (settledPre : Bool) (ops : List Op) (n : Nat) : List Bytes :=
  (if settledPre && (slotNums pre).contains n then (pre.fileOf n).toList else []) ++
  ops.filterMap fun op =>
    match op with
    | .update _ sc =>
      (match sc.resp.bind (·.patch), sc.dl, base with
       | some o, some stream, some b =>
         if o.number = n then
           (match bipatchDecode stream b with
            | .ok out => if checkHash out o.hash then some out else none
            | .error _ => none)
         else none
       | _, _, _ => none)
    | _ => none

/-- … and the selected file is one of them, byte for byte (the install of a verified file puts exactly that file in
    place: `updateCore_install_spec`; no theorem covers this clause for a FAULTED install, where the model leaves
    `patches/` arbitrary — it is judged on the real library's runs only). -/
def contentChecks (verified : Nat → List Bytes) (after : View) (sel : Option Nat) : Checks :=
  match sel with
  | none => []
  | some n =>
    [ ((match after.fileOf n with | some b => (verified n).contains b | none => false),
        s!"C04: the patch selected afterwards ({n}) is a file that was never verified: neither its content before the interrupted launch nor what an update of that launch verified") ]

/-- The patch whose launch is in progress while `op` runs: the booting marker the call finds —
    except for a launch start (which begins a launch) and a success report (which ends it well). -/
def inProgressAt (w : World) (op : Op) : Option Nat :=
  match op with
  | .start | .success | .init _ | .restart => none
  | _ => (loadPatchesState w.disk).booting.map (·.number)

/-- The property's second sentence, as an observer judges it (the conclusion of `eio_safe_*`): after
    a single I/O error inside a call (execution continues), what is selected afterwards — by the same
    process or by the next launch — is intact and is a patch recorded before (in a readable state of
    this release) or one the process was installing. (This sentence of the property says nothing about
    bans: an unreadable `patches_state.json` legitimately forgets them.) -/
def eioChecks (env : Env) (key : Option String) (pre : View) (offers : List Nat) (settledPre : Bool)
    (after : View) (sel : Option Nat) : Checks :=
  match sel with
  | none => []
  | some n =>
    [ (after.nextNum = some n && (match after.ps.next with | some m => after.valid env key m | none => false),
        s!"C04: after an I/O error the process selected patch {n}, which is not an intact selected patch"),
      ((slotNums pre).contains n || offers.contains n,
        s!"C04: after an I/O error the process selected patch {n}, which was neither recorded before nor being installed"),
      (settledPre || offers.contains n,
        s!"C04: the state on disk belonged to another release (or was unreadable), yet after an I/O error during its reset the process selected patch {n} from it") ]

def slotMetas (v : View) : List Meta :=
  (match v.ps.next with | some m => [m] | none => []) ++
  (match v.ps.last with | some m => [m] | none => []) ++
  (match v.ps.booting with | some m => [m] | none => [])

/-- The invariant `InvE` of `eio_inv`, evaluated on the state files a faulted process left: if they
    read as a state of this release, every record is one recorded before (in a readable state of this
    release) or carries an offered number — or has no artifact. -/
def eioRecordChecks (version : Option String) (pre : View) (offers : List Nat) (settledPre : Bool) (after : View) : Checks :=
  if after.release ≠ version then [] else
  (slotMetas after).map fun m =>
    ((settledPre && (slotMetas pre).contains m) || offers.contains m.number || (after.art m.number).isNone,
      s!"C04: after an I/O error the state files record patch {m.number}, which was neither recorded before nor on offer, and its artifact exists")

end Updater
