/-
  The C type language of the ABI tables, the LP64 layout function, and the ownership (heap) model
  of the strings / result structs the library returns.
-/
namespace Updater.Abi

/-- C-level types, ABI-relevant part only (const / mut are not part of the ABI). -/
inductive CTy where
  | void | bool | u8 | i32 | i64 | int | usize | char
  | i8 | i16 | u16 | u32 | u64 | isize          -- the rest of the fixed-width family: a declaration may drift to any of them
  | ptr (t : CTy)
  | struct (name : Nat)                       -- by value, `name` = identifier index
  | fn0 (ret : CTy)
  | fn1 (ret a : CTy)
  | fn2 (ret a b : CTy)
  | fn3 (ret a b c : CTy)
deriving DecidableEq, Repr, Inhabited

structure Fn where
  name : Nat
  ret : CTy
  params : List CTy
deriving DecidableEq, Repr

structure Struct where
  name : Nat
  fields : List (Nat × CTy)
deriving DecidableEq, Repr

/-- LP64 size and alignment of scalar / pointer types (struct-by-value fields do not occur inside
    the three C-visible structs; `none` if one ever does). -/
def sizeAlign : CTy → Option (Nat × Nat)
  | .void => none
  | .bool | .u8 | .char | .i8 => some (1, 1)
  | .i16 | .u16 => some (2, 2)
  | .i32 | .int | .u32 => some (4, 4)
  | .i64 | .usize | .u64 | .isize => some (8, 8)
  | .ptr _ | .fn0 _ | .fn1 _ _ | .fn2 _ _ _ | .fn3 _ _ _ _ => some (8, 8)
  | .struct _ => none

def alignUp (off a : Nat) : Nat := (off + a - 1) / a * a

/-- Field offsets and total size of a `repr(C)` struct. -/
def layoutAux : List (Nat × CTy) → Nat → Nat → List Nat → Option (List Nat × Nat × Nat)
  | [], off, al, acc => some (acc.reverse, alignUp off (max al 1), max al 1)
  | (_, t) :: rest, off, al, acc =>
    match sizeAlign t with
    | none => none
    | some (sz, a) =>
      let o := alignUp off a
      layoutAux rest (o + sz) (max al a) (o :: acc)

def layout (s : Struct) : Option (List Nat × Nat × Nat) := layoutAux s.fields 0 0 []

/-- Layout depends only on the list of field types: equal definitions, equal layouts. -/
theorem layout_congr (a b : Struct) (h : a.fields = b.fields) : layout a = layout b := by
  unfold layout; rw [h]

/-! ### ownership of returned memory -/

/-- What the C side can do with memory the library hands out. -/
inductive Call where
  | getPath (present : Bool)      -- shorebird_next_boot_patch_path: one CString, or NULL
  | getResult (msgOk : Bool)      -- shorebird_update_with_result: boxed struct + message (NULL if allocation of the message failed)
  | freeString (p : Option Nat)   -- shorebird_free_string(p); `none` = NULL
  | freeResult (r : Option Nat)   -- shorebird_free_update_result(r)
deriving Repr, DecidableEq

inductive Block where
  | str                           -- CString::into_raw
  | res (msg : Option Nat)        -- Box<UpdateResult> whose message is block `msg`
deriving Repr, DecidableEq

structure Heap where
  live : List (Nat × Block) := []
  next : Nat := 0
  invalidFree : Bool := false
deriving Repr

def Heap.alloc (h : Heap) (b : Block) : Heap × Nat :=
  ({ h with live := (h.next, b) :: h.live, next := h.next + 1 }, h.next)

def Heap.free (h : Heap) (id : Nat) (wantStr : Bool) : Heap :=
  match h.live.lookup id with
  | some .str => if wantStr then { h with live := h.live.filter (·.1 ≠ id) } else { h with invalidFree := true }
  | some (.res _) => if wantStr then { h with invalidFree := true } else { h with live := h.live.filter (·.1 ≠ id) }
  | none => { h with invalidFree := true }

/-- One call; returns the pointer handed out, if any. -/
def Heap.step (h : Heap) : Call → Heap × Option Nat
  | .getPath false => (h, none)
  | .getPath true => let r := h.alloc .str; (r.1, some r.2)
  | .getResult msgOk =>
    if msgOk then
      let m := h.alloc .str
      let r := m.1.alloc (.res (some m.2))
      (r.1, some r.2)
    else
      let r := h.alloc (.res none)
      (r.1, some r.2)
  | .freeString none => (h, none)
  | .freeString (some p) => (h.free p true, none)
  | .freeResult none => (h, none)
  | .freeResult (some r) =>
    match h.live.lookup r with
    | some (.res (some m)) => ((h.free m true).free r false, none)   -- frees the message, then the box
    | some (.res none) => (h.free r false, none)
    | _ => ({ h with invalidFree := true }, none)

end Updater.Abi
