/-
  Concurrent episodes: one update on one thread, launch reports / queries / checks on another,
  interleaved at the granularity of state-lock acquisitions.

  Every call is a sequence of *sections* (one per acquisition of the state lock, exactly the `A R`
  pairs of `Sched.lockActs`); what a thread computes between two sections (network answers, inflate,
  hash and signature checks) depends only on its own local data, so it is folded into the program
  counter. A *grant* lets one thread run its next section. The sequential model is the special
  case in which a call's sections run back to back (`urun_eq_updateCore`, `crun_eq_checkCore`).
-/
import UpdaterModel.Model.Monitor

namespace Updater

/-- Where an update in flight stands: its next state-lock acquisition (with the local data that
    acquisition needs), or its result. -/
inductive UPc where
  | copyCfg
  | copyEvents
  | clearEvents
  | rollback (r : CheckResp)
  | knownBad (o : Offer)
  | nextBoot (o : Offer)
  | install (o : Offer) (out : Bytes)
  | done (out : UpdateOut)
deriving Repr, Inhabited

/-- After the rollback list was processed (or there was none). -/
def afterRollbackPc (r : CheckResp) : UPc :=
  if ¬ r.available then .done .noUpdate
  else match r.patch with
    | none => .done .errBadResponse
    | some o => .knownBad o

/-- After the queue was cleared and the patch check answered. -/
def afterClearPc (sc : UpdateScript) : UPc :=
  match sc.resp with
  | none => .done .errCheck
  | some r =>
    match r.rolledBack with
    | some _ => .rollback r
    | none => afterRollbackPc r

/-- Download, inflate, hash and signature gates: thread-local. -/
def preInstallPc (env : Env) (cfg0 : Config) (base : Option Bytes) (o : Offer) (dl : Option Bytes) : UPc :=
  match dl with
  | none => .done .errDownload
  | some stream =>
    match base with
    | none => .done .errBase
    | some base =>
      match bipatchDecode stream base with
      | .error _ => .done .errInflate
      | .ok out =>
        if ¬ checkHash out o.hash then .done .errHash
        else if ¬ signatureOk env cfg0.key o.sig out then .done .errSignature
        else .install o out

/-- The install section of `update_internal`: the ban is checked again under the lock (a failure
    report may have arrived since `should_install_patch`), then `add_patch`. -/
def secInstallChecked (cfg : Config) (d : Disk) (o : Offer) (out : Bytes) : Disk × UpdateOut :=
  let r := secIsKnownBad cfg d o.number
  if r.2 then (r.1, .badPatch) else (secInstall cfg r.1 o out, .installed)

/-- One section of the update thread. -/
def ustep (env : Env) (cfg0 : Config) (base : Option Bytes) (sc : UpdateScript) (pc : UPc) (d : Disk) : UPc × Disk :=
  match pc with
  | .copyCfg => (.copyEvents, d)
  | .copyEvents => (.clearEvents, (secCopyEvents cfg0 d).1)
  | .clearEvents => (afterClearPc sc, secClearEvents cfg0 d)
  | .rollback r => (afterRollbackPc r, rollBackIfNeeded env cfg0 d r.rolledBack)
  | .knownBad o =>
    let r := secIsKnownBad cfg0 d o.number
    (if r.2 then .done .badPatch else .nextBoot o, r.1)
  | .nextBoot o =>
    let r := secNextBootPatch env cfg0 d
    (if r.2 = some o.number then .done .noUpdate else preInstallPc env cfg0 base o sc.dl, r.1)
  | .install o out =>
    let r := secInstallChecked cfg0 d o out
    (.done r.2, r.1)
  | .done out => (.done out, d)

/-- Run the update thread alone, `fuel` sections. -/
def urun (env : Env) (cfg0 : Config) (base : Option Bytes) (sc : UpdateScript) : Nat → UPc → Disk → UPc × Disk
  | 0, pc, d => (pc, d)
  | k + 1, pc, d => let r := ustep env cfg0 base sc pc d; urun env cfg0 base sc k r.1 r.2

/-- Where a patch check of the other thread stands. -/
inductive CPc where
  | copyCfg (resp : Option CheckResp)
  | rollback (r : CheckResp)
  | knownBad (o : Offer)
  | nextBoot (o : Offer)
  | done (b : Bool)
deriving Repr, Inhabited

def checkAfterRollbackPc (r : CheckResp) : CPc :=
  match r.patch with
  | none => .done false
  | some o => .knownBad o

def checkAfterCfgPc (resp : Option CheckResp) : CPc :=
  match resp with
  | none => .done false
  | some r =>
    match r.rolledBack with
    | some _ => .rollback r
    | none => checkAfterRollbackPc r

def cstep (env : Env) (cfg0 : Config) (pc : CPc) (d : Disk) : CPc × Disk :=
  match pc with
  | .copyCfg resp => (checkAfterCfgPc resp, d)
  | .rollback r => (checkAfterRollbackPc r, rollBackIfNeeded env cfg0 d r.rolledBack)
  | .knownBad o =>
    let r := secIsKnownBad cfg0 d o.number
    (if r.2 then .done false else .nextBoot o, r.1)
  | .nextBoot o =>
    let r := secNextBootPatch env cfg0 d
    (.done (decide (r.2 ≠ some o.number)), r.1)
  | .done b => (.done b, d)

def crun (env : Env) (cfg0 : Config) : Nat → CPc → Disk → CPc × Disk
  | 0, pc, d => (pc, d)
  | k + 1, pc, d => let r := cstep env cfg0 pc d; crun env cfg0 k r.1 r.2

/-! ### the two-thread system -/

inductive Who where
  | A | B
deriving DecidableEq, Repr, Inhabited

/-- State of a concurrent episode of a configured process. -/
structure CW where
  disk : Disk
  upc : UPc
  /-- remaining calls of the other thread -/
  bq : List Op
  /-- the other thread is inside a patch check -/
  bchk : Option CPc := none
deriving Repr, Inhabited

/-- The calls the other thread may issue during an episode. -/
def Op.episodeOk : Op → Bool
  | .start | .success | .failure | .nextN | .nextP | .curN | .check _ _ => true
  | _ => false

/-- The value a finished update / check returns. -/
def UPc.rets : UPc → List Ret
  | .done out => [.upd out]
  | _ => []

def CPc.rets : CPc → List Ret
  | .done b => [.bool b]
  | _ => []

/-- One grant: the chosen thread runs its next section. Returns the values of the calls that
    finished in this grant. A finished thread does nothing. (A check that has just finished is
    removed by `CW.norm`.) -/
def grant (env : Env) (cfg : Config) (libs : List (String × Bytes)) (chan : Option String) (sc : UpdateScript)
    (cw : CW) : Who → CW × List Ret
  | .A =>
    match cw.upc with
    | .done _ => (cw, [])
    | pc =>
      let r := ustep env (withChannel cfg chan) (libs.lookup cfg.libapp) sc pc cw.disk
      ({ cw with upc := r.1, disk := r.2 }, r.1.rets)
  | .B =>
    match cw.bchk with
    | some pc =>
      let r := cstep env cfg pc cw.disk
      ({ cw with disk := r.2, bchk := some r.1 }, r.1.rets)
    | none =>
      match cw.bq with
      | [] => (cw, [])
      | .check _ resp :: rest => ({ cw with bq := rest, bchk := some (checkAfterCfgPc resp) }, (checkAfterCfgPc resp).rets)
      | op :: rest =>
        let r := step env { disk := cw.disk, config := some cfg, libs := libs } op
        ({ cw with disk := r.1.disk, bq := rest }, [r.2.1])

/-- A `check` whose first section already finishes the call leaves no check in progress. -/
def CW.norm (cw : CW) : CW :=
  match cw.bchk with
  | some (.done _) => { cw with bchk := none }
  | _ => cw

def runGrants (env : Env) (cfg : Config) (libs : List (String × Bytes)) (chan : Option String) (sc : UpdateScript) :
    CW → List Who → List (Who × List Ret × Disk)
  | _, [] => []
  | cw, w :: ws =>
    let r := grant env cfg libs chan sc cw w
    let cw' := r.1.norm
    (w, r.2, cw'.disk) :: runGrants env cfg libs chan sc cw' ws

end Updater

namespace Updater

/-! ### C11: what must hold after every grant of an episode -/

/-- Numbers rolled back by the responses of the episode's calls (update and checks). -/
def episodeRolled (sc : UpdateScript) (bops : List Op) : List Nat :=
  (match sc.resp with | some r => r.rolledBack.getD [] | none => []) ++
  bops.flatMap fun op => match op.respOf with | some r => r.rolledBack.getD [] | none => []

structure G11 where
  /-- numbers whose boot failure is recorded (banned at the start, or reported during the episode) -/
  failed : List Nat := []
  /-- the last good patch and its bytes, while nothing happened to that patch -/
  good : Option (Nat × Bytes) := none
  /-- remaining calls of the other thread -/
  bops : List Op := []
  /-- the other thread is inside a check (past its first section) -/
  inCheck : Bool := false
  /-- the state at the start was readable and consistent (no banned number in a slot) -/
  armed : Bool := false
  /-- numbers the episode itself concerns: rolled back by one of its responses, or offered to the update -/
  exempt : List Nat := []
deriving Repr, Inhabited

def G11.start (env : Env) (key : Option String) (sc : UpdateScript) (bops : List Op) (pre : View) : G11 :=
  let armed := (match pre.pj with | .ok _ => true | _ => false) && (slotNums pre).all (fun n => !pre.ps.bad.contains n)
  let good : Option (Nat × Bytes) :=
    match pre.ps.last with
    | some m =>
      (match pre.fileOf m.number with
       | some b =>
         if pre.slotsValid env key m.number && !(episodeRolled sc bops).contains m.number
            && (sc.resp.bind (·.patch)).map (·.number) != some m.number
         then some (m.number, b) else none
       | none => none)
    | none => none
  { failed := pre.ps.bad, good := good, bops := bops, inCheck := false, armed := armed,
    exempt := episodeRolled sc bops ++ ((sc.resp.bind (·.patch)).map (·.number)).toList }

/-- The call the other thread starts with this grant, if it starts one. -/
def G11.bStarts (g : G11) (w : Who) : Option Op :=
  match w, g.inCheck, g.bops with
  | .B, false, op :: _ => some op
  | _, _, _ => none

/-- The patch a success report makes the last good one during the episode: tracked from then on when its
    file is intact, every slot naming it validates, and none of the episode's responses concerns it. -/
def G11.established (env : Env) (key : Option String) (g : G11) (pre : View) : Option (Nat × Bytes) :=
  match pre.bootingNum with
  | none => none
  | some k =>
    match pre.fileOf k with
    | some b => if pre.slotsValid env key k && !g.exempt.contains k then some (k, b) else none
    | none => none

def G11.next (env : Env) (key : Option String) (g : G11) (w : Who) (rets : List Ret) (pre : View) : G11 :=
  let failed := match g.bStarts w with
    | some .failure => (match pre.bootingNum with | some n => if g.failed.contains n then g.failed else n :: g.failed | none => g.failed)
    | _ => g.failed
  let good := match g.good with
    | none => (match g.bStarts w with | some .success => g.established env key pre | _ => none)
    | some (n, b) =>
      match g.bStarts w with
      | some .failure => if pre.bootingNum = some n then none else some (n, b)
      | some .success =>
        (match pre.bootingNum with
         | some k => if k = n then some (n, b) else g.established env key pre
         | none => some (n, b))
      | _ => some (n, b)
  match w with
  | .A => { g with failed := failed, good := good }
  | .B =>
    if g.bops.isEmpty then g
    else if rets.isEmpty then { g with failed := failed, good := good, inCheck := true }
    else { g with failed := failed, good := good, inCheck := false, bops := g.bops.tail }

def retNumber : Ret → Option Nat
  | .num n => if n = 0 then none else some n
  | .path p => p
  | _ => none

/-- Checks after one grant. -/
def checks11 (env : Env) (key : Option String) (sc : UpdateScript) (g : G11) (w : Who) (rets : List Ret)
    (pre post : View) : Checks :=
  let g' := g.next env key w rets pre
  (if g'.armed then
    g'.failed.flatMap fun n =>
      [ (!(slotNums post).contains n,
          s!"C11: patch {n}, whose boot failure is recorded, is selected / last good / booting after a grant to {repr w} (C02 broken by this interleaving)"),
        (post.ps.bad.contains n, s!"C11: the ban of patch {n} was lost during the episode") ]
   else []) ++
  (match w, rets, sc.resp.bind (·.patch) with
    | .A, [.upd .installed], some o =>
      [(!g'.failed.contains o.number || !g'.armed,
        s!"C11: the update installed patch {o.number} although its boot failure was reported before the install completed")]
    | _, _, _ => []) ++
  (match g'.good with
    | some (n, b) => [(post.fileOf n = some b, s!"C11: the artifact of the last good patch {n} was removed or altered during the episode")]
    | none => []) ++
  (match g.bStarts w, rets with
    | some .nextN, [r] | some .nextP, [r] =>
      (match retNumber r with
       | some n =>
         [ (post.nextNum = some n && (match post.ps.next with | some m => post.valid env key m | none => false),
            s!"C11: a query handed out patch {n}, which is not an intact selected patch at that moment") ]
       | none => [])
    | _, _ => [])

/-- C17 on the network log of an episode: a download event is sent once if the episode's update installed, and never
    otherwise. (Judged on the real library's episodes only: the section machine carries no network actions, so the
    theorem for this clause is the sequential one, `C17_holds`.) -/
def episodeNetChecks (aOut : Option UpdateOut) (net : List NetAct) : Checks :=
  let dls := net.filter fun a => match a with | .event e => e.kind == .download | _ => false
  match aOut with
  | some .installed =>
    [(dls.length = 1, s!"C17: the episode's update installed a patch but {dls.length} download events were sent")]
  | some _ =>
    [(dls.isEmpty, "C17: a download event was sent although the episode's update did not install the patch")]
  | none => []

/-- Judge an episode: the first grant (index, message) whose checks fail. -/
def judge11 (env : Env) (key : Option String) (sc : UpdateScript) :
    G11 → Nat → View → List (Who × List Ret × View) → Option (Nat × String)
  | _, _, _, [] => none
  | g, k, pre, (w, rets, post) :: rest =>
    match firstFail (checks11 env key sc g w rets pre post) with
    | some why => some (k, why)
    | none => judge11 env key sc (g.next env key w rets pre) (k + 1) post rest

end Updater
