/-
  C02 stated from the calls alone.

  `mon02` (Model/Monitor.lean) takes "the patch whose boot failed" from the booting record it sees on
  disk when the failure is reported or detected. The property speaks about calls: "once a launch from
  patch n has been reported as failed, or the process ended after launch start for n without any launch
  report". `mon02b` tracks the launch in progress from the calls themselves — set by a launch start
  (to what that start recorded as booting), ended by a success or failure report, surviving a restart
  until the next effective initialisation — so an implementation that loses its booting record in
  between (and therefore never bans the patch) is rejected on its own trace.
-/
import UpdaterModel.Model.Monitor

namespace Updater

structure G02b where
  cfg : Option Config := none
  /-- the patch whose launch was started and has not been reported on -/
  launch : Option Nat := none
  failed : List Nat := []
deriving Repr, Inhabited

/-- The patch whose boot failure this op establishes, from the calls: a failure report, or the first
    effective initialisation after the process ended, while a launch was in progress. -/
def failedByOps (cfg : Option Config) (launch : Option Nat) (op : Op) (pre : View) : Option Nat :=
  if resetsState cfg op pre then none else
  match op with
  | .failure => (match cfg with | some _ => launch | none => none)
  | .init _ => (match entersWith cfg op with | some _ => launch | none => none)
  | _ => none

def launchAfter (cfg : Option Config) (launch : Option Nat) (op : Op) (pre post : View) : Option Nat :=
  if op.isStateDamage || resetsState cfg op pre then none else
  match op, cfg with
  | .start, some _ => post.bootingNum
  | .success, some _ => none
  | .failure, some _ => none
  | .init _, _ => (match entersWith cfg op with | some _ => none | none => launch)
  | _, _ => launch

def insertFailed (failed : List Nat) (o : Option Nat) : List Nat :=
  match o with
  | some n => if failed.contains n then failed else n :: failed
  | none => failed

def G02b.next (g : G02b) (op : Op) (pre post : View) : G02b :=
  { cfg := trackCfg g.cfg op, launch := launchAfter g.cfg g.launch op pre post,
    failed := insertFailed (if op.isStateDamage || resetsState g.cfg op pre then [] else g.failed)
      (failedByOps g.cfg g.launch op pre) }

/-- The checks of C02 for a given set of failed patches (the same as `mon02`'s). -/
def checks02 (failed : List Nat) (cfg : Option Config) (op : Op) (post : View) : Checks :=
  [ (match post.nextNum with | some n => !failed.contains n | none => true,
      s!"C02: a patch whose boot failed is selected as next boot patch ({optNat post.nextNum})"),
    (match reportedNext op post with | some n => !failed.contains n | none => true,
      "C02: a patch whose boot failed is reported as next boot patch") ] ++
  (match op, cfg, op.offer, post.ret with
    | .update _ sc, some _, some o, .upd out =>
      if failed.contains o.number then
        [ (!post.net.any isDownload, s!"C02: failed patch {o.number} downloaded again"),
          (out ≠ .installed, s!"C02: failed patch {o.number} installed again"),
          (if (sc.resp.map (·.available)) = some true then out = .badPatch else out = .noUpdate,
            s!"C02: update offered failed patch {o.number} answered neither 'bad patch' nor 'no update'") ]
      else []
    | .check _ _, some _, some o, .bool b =>
      if failed.contains o.number then [(!b, s!"C02: check offered failed patch {o.number} answered 'downloadable'")] else []
    | _, _, _, _ => [])

def mon02b : Monitor G02b where
  init := {}
  next _ g op pre post := g.next op pre post
  checks _ g op pre post := checks02 (g.next op pre post).failed g.cfg op post

/-! #### C18, the running patch itself

  `mon18` ends the tracking of the running patch when something happens to that patch itself. This
  monitor needs no tracking: no call of a process other than a launch report, an initialisation or
  one that discards the stored state, and no outside event other than a restart or a rewrite of the
  state files, changes the booting record - hence the reported current patch - whatever it does to
  the running patch's selection, artifact or last-good record. -/

structure G18s where
  cfg : Option Config := none

def calmB (cfg : Option Config) (op : Op) (pre : View) : Bool :=
  !op.isStateDamage && !resetsState cfg op pre &&
  (match op with
   | .restart | .start | .success | .failure | .init _ => false
   | _ => true)

def mon18s : Monitor G18s where
  init := {}
  next _ g op _ _ := { cfg := trackCfg g.cfg op }
  checks _ g op pre post :=
    if calmB g.cfg op pre then
      [(decide (post.ps.booting = pre.ps.booting),
        "C18: a call that is neither a launch report nor an initialisation changed the booting record (the running patch)")]
    else []

/-! #### C10, the end of the guarantee: the renewed offer

  `mon10` follows a rolled-back number "until the server offers n for installation again". This
  monitor (same ghost state) says what that offer meets: an update whose well-formed response
  offers a number that is rolled back - earlier, or by this very response - is never answered
  "no update" (the answer for a patch taken to be installed already). -/

def mon10s : Monitor G10 where
  init := {}
  next _ g op pre post := g.next op pre post
  checks _ g op pre post :=
    match op, g.cfg, post.ret with
    | .update _ sc, some _, .upd out =>
      (match sc.resp with
       | some r =>
         (match r.patch with
          | some o =>
            if r.available && !(resetsState g.cfg op pre) && (r.rolledBack.getD [] ++ g.rolled).contains o.number then
              [(decide (out ≠ .noUpdate),
                s!"C10: rolled-back patch {o.number} is offered again and the update answers 'no update' (taken for installed)")]
            else []
          | none => [])
       | none => [])
    | _, _, _ => []

end Updater
