/-
  library/src/cache/updater_state.rs, fault-free semantics.
-/
import UpdaterModel.Model.PatchManager

namespace Updater

/-- `UpdaterState`: patch manager (which carries the disk) + the in-memory `SerializedState`. -/
structure US where
  pm : PM
  ss : SState

def US.disk (us : US) : Disk := us.pm.disk

/-- `UpdaterState::save` -/
def US.save (us : US) : US :=
  { us with pm := { us.pm with disk := { us.pm.disk with stateJson := .ok us.ss } } }

/-- `create_new_and_save` -/
def createNewAndSave (d : Disk) (version : String) : US :=
  let us : US := { pm := PM.new d, ss := { version := version, events := [] } }
  -- "Ensure we clear any patch data if we're creating a new state", BEFORE the new release
  -- version is recorded (a process death in between must not leave the old patches under the
  -- new version)
  let us : US := { us with pm := us.pm.reset.1 }
  us.save

/-- `load_or_new_on_error` (runs at the start of every critical section). -/
def loadOrNew (d : Disk) (version : String) : US :=
  match d.stateJson with
  | .ok ss =>
    if ss.version ≠ version then createNewAndSave d version
    else { pm := PM.new d, ss := ss }
  | _ => createNewAndSave d version

/-- `queue_event` -/
def US.queueEvent (us : US) (e : Event) : US :=
  ({ us with ss := { us.ss with events := us.ss.events ++ [e] } } : US).save

/-- `copy_events` -/
def US.copyEvents (us : US) (limit : Nat) : List Event := us.ss.events.take limit

/-- `clear_events` -/
def US.clearEvents (us : US) : US :=
  ({ us with ss := { us.ss with events := [] } } : US).save

/-- `current_boot_patch` -/
def US.currentBootPatch (us : US) : Option Nat :=
  match us.pm.ps.booting with
  | some m => some m.number
  | none => us.pm.ps.last.map (·.number)

end Updater
