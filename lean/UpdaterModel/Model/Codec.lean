/-
  The patch byte format.

  Mirrors (dependencies pinned in Cargo.lock, modelled from their source):
    integer-encoding 2.1.3  reader.rs `read_varint`, varint.rs `encode_var` / `decode_var`, zig-zag
    bipatch 1.0.0           lib.rs `Reader::new`, `Reader::read`      (library side: decoder)
    bidiff 1.0.0            lib.rs `Translator`, enc.rs `Writer`      (tool side: encoder)
  zstd is not modelled: the decoder sees the bytes the decompressor emitted.
-/
import UpdaterModel.Model.Basic

namespace Updater

/-! ### LEB128 varints -/

inductive VarRes where
  | eof                       -- io::ErrorKind::UnexpectedEof (clean EOF, or EOF inside the varint)
  | invalid                   -- io::ErrorKind::InvalidData ("Unterminated varint", 11th byte)
  | ok (v : Nat) (rest : Bytes)
deriving Repr, DecidableEq

/-- `read_varint::<u64>`: `i` bytes consumed so far, `acc` their little-endian base-128 value. -/
def readVarintAux : Bytes → Nat → Nat → VarRes
  | [], _, _ => .eof
  | b :: rest, i, acc =>
    if i ≥ 10 then .invalid
    else
      let acc' := acc + (b.toNat % 128) * 128 ^ i
      if b.toNat < 128 then .ok (acc' % 2 ^ 64) rest
      else readVarintAux rest (i + 1) acc'

def readVarint (s : Bytes) : VarRes := readVarintAux s 0 0

/-- `zigzag_decode`. -/
def zigzagDecode (n : Nat) : Int :=
  if n % 2 = 0 then (n / 2 : Nat) else -(((n + 1) / 2 : Nat) : Int)

/-- `zigzag_encode` on an `i64` value. -/
def zigzagEncode (v : Int) : Nat :=
  if v ≥ 0 then (2 * v).toNat else (-2 * v - 1).toNat

/-- `u64::encode_var`. -/
def encodeVarU (n : Nat) : Bytes :=
  if h : n < 128 then [UInt8.ofNat n]
  else UInt8.ofNat (128 + n % 128) :: encodeVarU (n / 128)
termination_by n
decreasing_by omega

def encodeVarI (v : Int) : Bytes := encodeVarU (zigzagEncode v)

/-! ### bipatch decoder -/

inductive DecErr where
  | header      -- short header, wrong magic or version
  | io          -- any io::Error while decoding records
deriving Repr, DecidableEq

def MAGIC : Nat := 0xB1DF
def VERSION : Nat := 0x1000

def u32le (n : Nat) : Bytes :=
  [UInt8.ofNat (n % 256), UInt8.ofNat (n / 256 % 256), UInt8.ofNat (n / 65536 % 256), UInt8.ofNat (n / 16777216 % 256)]

def readU32le : Bytes → Option (Nat × Bytes)
  | a :: b :: c :: d :: rest => some (a.toNat + 256 * b.toNat + 65536 * c.toNat + 16777216 * d.toNat, rest)
  | _ => none

def header : Bytes := u32le MAGIC ++ u32le VERSION

/-- `out[i] = old[i].wrapping_add(dif[i])`. -/
def addBytes (old dif : Bytes) : Bytes := List.zipWith (· + ·) old dif

/-- `nbuf[i].wrapping_sub(obuf[i])`. -/
def subBytes (new old : Bytes) : Bytes := List.zipWith (· - ·) new old

/-- Largest file offset `lseek` accepts (off_t). -/
def MAXOFF : Nat := 2 ^ 63 - 1

/-- The record loop of `Reader::read`, denotationally. `pos` is the offset in the base file.
    EOF at a record boundary (or inside the leading varint of a record) is a normal end. -/
def decodeRecords : Nat → Bytes → Bytes → Nat → Except DecErr Bytes
  | 0, _, _, _ => .error .io
  | fuel + 1, s, old, pos =>
    match readVarint s with
    | .eof => .ok []
    | .invalid => .error .io
    | .ok addLen s1 =>
      if ¬ (addLen = 0 ∨ pos + addLen ≤ old.length) then .error .io
      else if addLen > s1.length then .error .io
      else
        let added := addBytes ((old.drop pos).take addLen) (s1.take addLen)
        match readVarint (s1.drop addLen) with
        | .eof => .error .io
        | .invalid => .error .io
        | .ok copyLen s3 =>
          if copyLen > s3.length then .error .io
          else
            let copied := s3.take copyLen
            match readVarint (s3.drop copyLen) with
            | .eof => .error .io
            | .invalid => .error .io
            | .ok z s5 =>
              let newpos : Int := (pos + addLen : Nat) + zigzagDecode z
              if newpos < 0 ∨ newpos > MAXOFF then .error .io
              else
                match decodeRecords fuel s5 old newpos.toNat with
                | .error e => .error e
                | .ok rest => .ok (added ++ copied ++ rest)

/-- `bipatch::Reader::new` followed by reading to the end. -/
def bipatchDecode (stream old : Bytes) : Except DecErr Bytes :=
  match readU32le stream with
  | none => .error .header
  | some (magic, s1) =>
    if magic ≠ MAGIC then .error .header
    else match readU32le s1 with
      | none => .error .header
      | some (version, s2) =>
        if version ≠ VERSION then .error .header
        else decodeRecords (s2.length + 1) s2 old 0

/-! ### bidiff encoder (tool side) -/

/-- `bidiff::Match`. -/
structure Match where
  addOldStart : Nat
  addNewStart : Nat
  addLength : Nat
  copyEnd : Nat
deriving Repr, DecidableEq

def Match.copyStart (m : Match) : Nat := m.addNewStart + m.addLength

/-- One `Control` written by `enc::Writer::write`; `next` is the following match, if any. -/
def encodeControl (older newer : Bytes) (pm : Match) (next : Option Match) : Bytes :=
  let add := subBytes ((newer.drop pm.addNewStart).take pm.addLength) ((older.drop pm.addOldStart).take pm.addLength)
  let copy := (newer.drop pm.copyStart).take (pm.copyEnd - pm.copyStart)
  let seek : Int := match next with
    | some m => (m.addOldStart : Int) - ((pm.addOldStart + pm.addLength : Nat) : Int)
    | none => 0
  encodeVarU add.length ++ add ++ encodeVarU copy.length ++ copy ++ encodeVarI seek

def encodeControls (older newer : Bytes) : List Match → Bytes
  | [] => []
  | [m] => encodeControl older newer m none
  | m :: m' :: rest => encodeControl older newer m (some m') ++ encodeControls older newer (m' :: rest)

/-- What `simple_diff_with_params` writes, given the match list the scanner produced. -/
def encodePatch (older newer : Bytes) (ms : List Match) : Bytes :=
  header ++ encodeControls older newer ms

end Updater
