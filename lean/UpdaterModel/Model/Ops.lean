/-
  The operation alphabet of histories: the exported C functions, process restart, and the
  external damage alphabet of C01/C03; `step` is the sequential API-level semantics.
-/
import UpdaterModel.Model.Updater

namespace Updater

/-- External damage to the storage directory (never performed by the updater). -/
inductive Damage where
  | artDel (n : Nat)                 -- unlink patches/n/dlc.vmcode
  | artSet (n : Nat) (b : Bytes)     -- truncate / extend / replace content (needs patches/n/)
  | dirDel (n : Nat)                 -- rm -r patches/n
  | pdirDel                          -- rm -r patches
  | junk (name : String)             -- mkdir patches/<non-numeric name> (needs patches/)
  | pjDel
  | pjGarbage                        -- any content serde rejects (empty, cut, wrong shape, junk)
  | pjSet (v : PatchesState)         -- a stale but well-formed file
  | sjDel
  | sjGarbage
  | sjSet (v : SState)
  | nop
deriving Repr, Inhabited

def Disk.damage (d : Disk) : Damage → Disk
  | .artDel n =>
    match d.patches with
    | none => d
    | some p =>
      match p.arts.lookup n with
      | none => d
      | some _ => { d with patches := some { p with arts := setArt p.arts n .emptyDir } }
  | .artSet n b =>
    match d.patches with
    | none => d
    | some p =>
      match p.arts.lookup n with
      | none => d
      | some _ => { d with patches := some { p with arts := setArt p.arts n (.file b) } }
  | .dirDel n => d.deleteArtifacts n
  | .pdirDel => { d with patches := none }
  | .junk name =>
    match d.patches with
    | none => d
    | some p => { d with patches := some { p with junk := if name ∈ p.junk then p.junk else name :: p.junk } }
  | .pjDel => { d with patchesJson := .missing }
  | .pjGarbage => { d with patchesJson := .garbage }
  | .pjSet v => { d with patchesJson := .ok v }
  | .sjDel => { d with stateJson := .missing }
  | .sjGarbage => { d with stateJson := .garbage }
  | .sjSet v => { d with stateJson := .ok v }
  | .nop => d

inductive Op where
  | init (p : InitParams)
  | restart
  | start
  | success
  | failure
  | nextN
  | nextP
  | curN
  | auto
  | check (chan : Option String) (resp : Option CheckResp)
  | update (chan : Option String) (sc : UpdateScript)
  | damage (dm : Damage)
deriving Repr, Inhabited

inductive Ret where
  | unit
  | bool (b : Bool)
  | num (n : Nat)
  | path (p : Option Nat)
  | upd (o : UpdateOut)
deriving DecidableEq, Repr, Inhabited

def step (env : Env) (w : World) : Op → World × Ret × List NetAct
  | .init p => let r := init env w p; (r.1, .bool r.2, [])
  | .restart => (restart w, .unit, [])
  | .start => (launchStart env w, .unit, [])
  | .success => let r := launchSuccess env w; (r.1, .unit, r.2)
  | .failure => (launchFailure env w, .unit, [])
  | .nextN => let r := nextBootPatch env w; (r.1, .num (r.2.getD 0), [])
  | .nextP => let r := nextBootPatch env w; (r.1, .path r.2, [])
  | .curN => let r := currentBootPatch w; (r.1, .num (r.2.getD 0), [])
  | .auto => (w, .bool (shouldAutoUpdate w), [])
  | .check chan resp => let r := check env w chan resp; (r.1, .bool r.2.1, r.2.2)
  | .update chan sc => let r := update env w chan sc; (r.1, .upd r.2.1, r.2.2)
  | .damage dm => ({ w with disk := w.disk.damage dm }, .unit, [])

/-- Run a history. -/
def run (env : Env) (w : World) : List Op → World
  | [] => w
  | op :: ops => run env (step env w op).1 ops

/-- Run a history, collecting the observable outputs. -/
def runTrace (env : Env) (w : World) : List Op → List (Op × Ret × List NetAct)
  | [] => []
  | op :: ops => let r := step env w op; (op, r.2.1, r.2.2) :: runTrace env r.1 ops

end Updater
