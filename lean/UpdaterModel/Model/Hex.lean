/-
  `hex` crate 0.4.3: `hex::encode` (lower case) and `hex::decode`
  (even byte length, every byte one of 0-9 a-f A-F; anything else is an error).
-/
import UpdaterModel.Model.Basic

namespace Updater

def hexDigit (n : Nat) : Char :=
  if n < 10 then Char.ofNat (48 + n) else Char.ofNat (87 + n)

def hexEncode (b : Bytes) : String :=
  String.ofList (b.flatMap fun x => [hexDigit (x.toNat / 16), hexDigit (x.toNat % 16)])

/-- Value of one hex digit given as a byte (`hex::val`). -/
def hexVal (c : UInt8) : Option Nat :=
  let n := c.toNat
  if 48 ≤ n ∧ n ≤ 57 then some (n - 48)
  else if 97 ≤ n ∧ n ≤ 102 then some (n - 87)
  else if 65 ≤ n ∧ n ≤ 70 then some (n - 55)
  else none

def hexDecodeBytes : List UInt8 → Option Bytes
  | [] => some []
  | [_] => none
  | a :: b :: rest =>
    match hexVal a, hexVal b, hexDecodeBytes rest with
    | some x, some y, some r => some (UInt8.ofNat (x * 16 + y) :: r)
    | _, _, _ => none

def hexDecode (s : String) : Option Bytes := hexDecodeBytes s.toUTF8.toList

end Updater
