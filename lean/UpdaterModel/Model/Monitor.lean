/-
  Property monitors.

  A monitor folds over a trace of (operation, view-before, view-after) with a ghost state and,
  at each step, evaluates a list of named Boolean checks. The SAME definitions are
    * evaluated by the driver on the implementation's observed traces (→ concrete replays), and
    * the subject of the theorems in `Props/`: "every model trace is accepted".
  A `View` is what an outside observer sees: the call's outputs and the storage directory.
-/
import UpdaterModel.Model.Ops
import UpdaterModel.Model.Sched

namespace Updater

structure View where
  ret : Ret
  net : List NetAct
  sj : JFile SState
  pj : JFile PatchesState
  pdir : Bool
  arts : Arts
  junk : List String
  /-- lock / network actions of the calling thread, as logged by the hooks (implementation views) -/
  la : List Act := []
  /-- directory entries outside the storage directory changed by this call (observed for repeated inits; the model's
      calls touch nothing outside the storage directory they were initialised with) -/
  outside : Nat := 0
deriving Repr, Inhabited

def View.art (v : View) (n : Nat) : Option Art := v.arts.lookup n

/-- View of a model world after an operation. -/
def World.view (w : World) (ret : Ret) (net : List NetAct) : View :=
  { ret := ret, net := net, sj := w.disk.stateJson, pj := w.disk.patchesJson,
    pdir := w.disk.patches.isSome,
    arts := w.disk.artsList,
    junk := w.disk.junkList }

def View.empty : View :=
  { ret := .unit, net := [], sj := .missing, pj := .missing, pdir := false, arts := [], junk := [] }

/-- What the code would load from `patches_state.json`. -/
def View.ps (v : View) : PatchesState := v.pj.getD {}

def View.nextNum (v : View) : Option Nat := v.ps.next.map (·.number)
def View.lastNum (v : View) : Option Nat := v.ps.last.map (·.number)
def View.bootingNum (v : View) : Option Nat := v.ps.booting.map (·.number)

/-- The patch numbers recorded in the three slots. -/
def slotNums (v : View) : List Nat :=
  (match v.ps.next with | some m => [m.number] | none => []) ++
  (match v.ps.last with | some m => [m.number] | none => []) ++
  (match v.ps.booting with | some m => [m.number] | none => [])

/-- What `current_boot_patch` reports from this disk. -/
def View.curNum (v : View) : Option Nat :=
  match v.ps.booting with
  | some m => some m.number
  | none => v.lastNum

def View.events (v : View) : List Event :=
  match v.sj with
  | .ok s => s.events
  | _ => []

/-- The release the stored state belongs to, if readable. -/
def View.release (v : View) : Option String :=
  match v.sj with
  | .ok s => some s.version
  | _ => none

/-- `validate_patch_is_bootable` evaluated by the observer. -/
def View.valid (env : Env) (key : Option String) (v : View) (m : Meta) : Bool :=
  match v.art m.number with
  | some (.file b) =>
    if b.length ≠ m.size then false
    else match key with
      | none => true
      | some k => match m.sig with
        | none => false
        | some s => env.verify k (hashFile b) s
  | _ => false

/-- A record slot does not contradict the artifact of `n`: it names another number or validates. -/
def slotOk (env : Env) (key : Option String) (v : View) (n : Nat) : Option Meta → Bool
  | some m => m.number != n || v.valid env key m
  | none => true

/-- Every record numbered `n` (selection, last good, booting) validates against `n`'s artifact. -/
def View.slotsValid (env : Env) (key : Option String) (v : View) (n : Nat) : Bool :=
  slotOk env key v n v.ps.next && slotOk env key v n v.ps.last && slotOk env key v n v.ps.booting

def View.fileOf (v : View) (n : Nat) : Option Bytes :=
  match v.art n with
  | some (.file b) => some b
  | _ => none

/-- The configuration an effective `init` installs (same construction as `Updater.init`). -/
def mkConfig (p : InitParams) : Option Config :=
  match p.yaml, p.libapps with
  | some y, lib :: _ => some {
      appId := y.appId, channel := y.channel.getD DEFAULT_CHANNEL, version := p.version,
      baseUrl := y.baseUrl.getD DEFAULT_BASE_URL, key := y.key, autoUpdate := y.autoUpdate.getD true,
      storage := p.storage, cache := p.cache, libapp := lib }
  | _, _ => none

/-- Ghost: the configuration in effect, tracked from the calls alone. -/
def trackCfg (cfg : Option Config) (op : Op) : Option Config :=
  match op with
  | .restart => none
  | .init p => (match cfg with | some c => some c | none => mkConfig p)
  | _ => cfg

def Damage.isStateFile : Damage → Bool
  | .pjDel | .pjGarbage | .pjSet _ | .sjDel | .sjGarbage | .sjSet _ => true
  | _ => false

/-- Does this damage touch the artifact of `n`? -/
def Damage.hitsArt (n : Nat) : Damage → Bool
  | .artDel k | .artSet k _ | .dirDel k => k = n
  | .pdirDel => true
  | _ => false

def Op.isStateDamage : Op → Bool
  | .damage d => d.isStateFile
  | _ => false

def Op.hitsArt (n : Nat) : Op → Bool
  | .damage d => d.hitsArt n
  | _ => false

def Op.isDamage : Op → Bool
  | .damage _ => true
  | _ => false

/-- Short name of an op for messages. -/
def Op.tag : Op → String
  | .init _ => "init" | .restart => "restart" | .start => "start" | .success => "success"
  | .failure => "failure" | .nextN => "nextN" | .nextP => "nextP" | .curN => "curN" | .auto => "auto"
  | .check _ _ => "check" | .update _ _ => "update" | .damage _ => "damage"

def Op.respOf : Op → Option CheckResp
  | .check _ r => r
  | .update _ sc => sc.resp
  | _ => none

def Op.offer (op : Op) : Option Offer := op.respOf.bind (·.patch)

/-- The configuration under which this op loads the stored state, if it does. (A check loads it
    only to process a rollback list or to decide about an offered patch.) -/
def entersWith (cfg : Option Config) (op : Op) : Option Config :=
  match op with
  | .init p => (match cfg with | some _ => none | none => mkConfig p)
  | .restart | .auto | .damage _ => none
  | .check _ none => none
  | .check _ (some r) => if r.rolledBack.isSome || r.patch.isSome then cfg else none
  | _ => cfg

/-- Does this op start by discarding the stored state (release change, unreadable or missing
    state.json)? -/
def resetsState (cfg : Option Config) (op : Op) (pre : View) : Bool :=
  match entersWith cfg op with
  | none => false
  | some c => pre.release ≠ some c.version

/-- Numbers rolled back by this op: the list of a well-formed response, processed only by an
    initialised check/update. -/
def rolledBackBy (cfg : Option Config) (op : Op) : List Nat :=
  match cfg, op.respOf with
  | some _, some r => r.rolledBack.getD []
  | _, _ => []

/-- The number this op installed (an update that answered "installed"). -/
def installedBy (op : Op) (post : View) : Option Nat :=
  match op, post.ret with
  | .update _ _, .upd .installed => op.offer.map (·.number)
  | _, _ => none

/-- The patch whose boot failure this op records: a failure report, or crash detection at an
    effective init, for the patch marked as booting in a readable state of this release. -/
def failedBy (cfg : Option Config) (op : Op) (pre : View) : Option Nat :=
  if resetsState cfg op pre then none else
  match op with
  | .failure => (match cfg with | some _ => pre.bootingNum | none => none)
  | .init _ => (match entersWith cfg op with | some _ => pre.bootingNum | none => none)
  | _ => none

/-- The patch whose successful boot this op records. -/
def succeededBy (cfg : Option Config) (op : Op) (pre : View) : Option Nat :=
  if resetsState cfg op pre then none else
  match op, cfg with
  | .success, some _ => pre.bootingNum
  | _, _ => none

/-! ### monitors -/

abbrev Checks := List (Bool × String)

def updTag : UpdateOut → String
  | .noUpdate => "noUpdate" | .installed => "installed" | .badPatch => "badPatch" | .errNotInit => "errNotInit"
  | .errBusy => "errBusy" | .errCheck => "errCheck" | .errBadResponse => "errBadResponse" | .errDownload => "errDownload"
  | .errBase => "errBase" | .errInflate => "errInflate" | .errHash => "errHash" | .errSignature => "errSignature"

def optNat : Option Nat → String
  | none => "none"
  | some n => s!"{n}"

def firstFail : Checks → Option String
  | [] => none
  | (c, msg) :: rest => if c then firstFail rest else some msg

structure Monitor (σ : Type) where
  init : σ
  /-- ghost update -/
  next : Env → σ → Op → View → View → σ
  /-- checks of one step, given the ghost state BEFORE the step -/
  checks : Env → σ → Op → View → View → Checks

/-- Run a monitor; `none` = accepted, `some (k, why)` = rejected at step `k`. -/
def Monitor.run {σ} (m : Monitor σ) (env : Env) : σ → Nat → View → List (Op × View) → Option (Nat × String)
  | _, _, _, [] => none
  | s, k, pre, (op, post) :: rest =>
    match firstFail (m.checks env s op pre post) with
    | some why => some (k, why)
    | none => m.run env (m.next env s op pre post) (k + 1) post rest

def Monitor.accepts {σ} (m : Monitor σ) (env : Env) (tr : List (Op × View)) : Bool :=
  (m.run env m.init 0 View.empty tr).isNone

/-- The views of a model run. -/
def viewTrace (env : Env) (w : World) : List Op → List (Op × View)
  | [] => []
  | op :: ops =>
    let r := step env w op
    (op, r.1.view r.2.1 r.2.2) :: viewTrace env r.1 ops

def World.fresh (libs : List (String × Bytes)) : World :=
  { disk := Disk.empty, config := none, libs := libs }

/-- The patch number a query op reported, if it reported one. -/
def reportedNext (op : Op) (post : View) : Option Nat :=
  match op, post.ret with
  | .nextN, .num n => if n = 0 then none else some n
  | .nextP, .path p => p
  | _, _ => none

/-! #### C01 / C07: only an intact, verified (and, with a key, signed) patch is handed out -/

structure G01 where
  cfg : Option Config := none
  /-- (number, size) of every verified install in this history -/
  sizes : List (Nat × Nat) := []
deriving Repr, Inhabited

/-- An install counts as verified when the update reports it AND the file it put in place has the SHA-256 the
    response advertised: an update that reports 'installed' for a file that does not hash to the advertised
    value establishes nothing, and handing that file out later is a violation. -/
def G01.next (g : G01) (op : Op) (post : View) : G01 :=
  { cfg := trackCfg g.cfg op,
    sizes := match installedBy op post with
      | some n => (match post.fileOf n, op.offer with
        | some b, some o => if checkHash b o.hash then (n, b.length) :: g.sizes else g.sizes
        | _, _ => g.sizes)
      | none => g.sizes }

/-- What must hold of a patch `n` that is handed out, given the post-state. -/
def handedOutOk (env : Env) (g : G01) (n : Nat) (post : View) : Checks :=
  match post.fileOf n with
  | none => [(false, s!"C01: patch {n} handed out but its artifact file does not exist")]
  | some b =>
    [ (g.sizes.contains (n, b.length),
        s!"C01: patch {n} handed out with size {b.length}, which is not its size at any verified install"),
      (match g.cfg.bind (·.key) with
        | none => true
        | some k =>
          match post.ps.next with
          | some m => (match m.sig with | some s => m.number = n && env.verify k (hashFile b) s | none => false)
          | none => false,
        s!"C07: patch {n} handed out but no recorded signature verifies over the file's current hash under the configured key") ]

def mon01 : Monitor G01 where
  init := {}
  next _ g op _ post := g.next op post
  checks env g op pre post :=
    let g' := g.next op post
    (match reportedNext op post with
      | some n => handedOutOk env g' n post
      | none => []) ++
    (match op, g'.cfg, pre.bootingNum, post.bootingNum with
      -- a boot is recorded only for a patch that may be handed out
      | .start, some _, none, some n => handedOutOk env g' n post
      | _, _, _, _ => [])

/-! #### C02: a patch that failed to boot is never booted or installed again -/

structure G02 where
  cfg : Option Config := none
  failed : List Nat := []
deriving Repr, Inhabited

def G02.next (g : G02) (op : Op) (pre : View) : G02 :=
  -- the guarantee lasts while the release stays and the state files are not damaged from outside
  let failed := if op.isStateDamage || resetsState g.cfg op pre then [] else g.failed
  let failed := match failedBy g.cfg op pre with
    | some n => if failed.contains n then failed else n :: failed
    | none => failed
  { cfg := trackCfg g.cfg op, failed := failed }

def isDownload : NetAct → Bool
  | .download _ => true
  | _ => false

def mon02 : Monitor G02 where
  init := {}
  next _ g op pre _ := g.next op pre
  checks _ g op pre post :=
    let g' := g.next op pre
    [ (match post.nextNum with | some n => !g'.failed.contains n | none => true,
        s!"C02: a patch whose boot failed is selected as next boot patch ({optNat post.nextNum})"),
      (match reportedNext op post with | some n => !g'.failed.contains n | none => true,
        "C02: a patch whose boot failed is reported as next boot patch") ] ++
    (match op, g.cfg, op.offer, post.ret with
      | .update _ sc, some _, some o, .upd out =>
        if g'.failed.contains o.number then
          [ (!post.net.any isDownload, s!"C02: failed patch {o.number} downloaded again"),
            (out ≠ .installed, s!"C02: failed patch {o.number} installed again"),
            (if (sc.resp.map (·.available)) = some true then out = .badPatch else out = .noUpdate,
              s!"C02: update offered failed patch {o.number} answered neither 'bad patch' nor 'no update'") ]
        else []
      | .check _ _, some _, some o, .bool b =>
        if g'.failed.contains o.number then [(!b, s!"C02: check offered failed patch {o.number} answered 'downloadable'")] else []
      | _, _, _, _ => [])

/-! #### C03: the last good patch is never destroyed; fallback reaches it -/

structure G03 where
  cfg : Option Config := none
  /-- the last successfully booted patch and its artifact bytes at that moment -/
  good : Option (Nat × Bytes) := none
  /-- the observer has lost track (outside damage to state files or to the good artifact) -/
  blind : Bool := false
deriving Repr, Inhabited

/-- The call re-installed number `n` and the artifact now in place is not `b`: the server re-issued
    that number with other bytes (an install writes what was downloaded and verified; that this is
    what is in place is C05). Something happened to that patch: the observer stops tracking it. -/
def reissued (op : Op) (post : View) (n : Nat) (b : Bytes) : Bool :=
  installedBy op post == some n && post.fileOf n != some b

def G03.next (env : Env) (g : G03) (op : Op) (pre post : View) : G03 :=
  let cfg := trackCfg g.cfg op
  if resetsState g.cfg op pre then { cfg := cfg, good := none, blind := false } else
  match succeededBy g.cfg op pre with
  | some n =>
    -- the patch that just booted is "good" if every record of its number matches the artifact in place
    -- (which patch the implementation RECORDED as last good is not consulted: the last good patch is the one that booted)
    (match post.fileOf n with
    | some b =>
      if post.slotsValid env (g.cfg.bind (·.key)) n then { cfg := cfg, good := some (n, b), blind := false }
      else { cfg := cfg, good := none, blind := true }
    | none => { cfg := cfg, good := none, blind := true })
  | none =>
    if op.isStateDamage then { cfg := cfg, good := none, blind := true } else
    match g.good with
    | none => { g with cfg := cfg }
    | some (n, b) =>
      if op.hitsArt n then { cfg := cfg, good := none, blind := true }
      else if reissued op post n b then { cfg := cfg, good := none, blind := true }
      else if failedBy g.cfg op pre = some n then { cfg := cfg, good := none, blind := g.blind }
      else if (rolledBackBy g.cfg op).contains n then { cfg := cfg, good := none, blind := g.blind }
      else { cfg := cfg, good := some (n, b), blind := g.blind }

/-- (a) the good artifact survives every op that does not excuse it -/
def artChecks (good good' : Option (Nat × Bytes)) (op : Op) (post : View) : Checks :=
  match good, good' with
  | some (n, b), some (n', _) =>
    if n = n' then [(post.fileOf n = some b, s!"C03: artifact of last good patch {n} was removed or altered by {op.tag}")] else []
  | _, _ => []

/-- What the selection must be after the selection `x` was lost. -/
def fallTarget (good' : Option (Nat × Bytes)) (x : Nat) (post : View) : Checks :=
  match good' with
  | some (n, _) =>
    if n ≠ x then [(post.nextNum = some n, s!"C03: selection {x} lost but the intact last good patch {n} was not selected (next={optNat post.nextNum})")]
    else [(post.nextNum = none, s!"C03: selection {x} lost without fallback target, but next={optNat post.nextNum}")]
  | none => [(post.nextNum = none, s!"C03: selection {x} lost with no last good patch, but next={optNat post.nextNum}")]

/-- (b) when the selection is lost, the last good patch (if any, and not itself lost) is selected -/
def fallChecks (cfg : Option Config) (blind blind' : Bool) (good' : Option (Nat × Bytes)) (op : Op) (pre post : View) : Checks :=
  match pre.ps.next, entersWith cfg op with
  | some x, some _ =>
    if !blind' && !blind && !op.isDamage && installedBy op post = none && post.nextNum ≠ some x.number then
      fallTarget good' x.number post
    else []
  | _, _ => []

/-- "… and the bundled release otherwise": whatever a query reports — after a fall-back in particular — is the
    selection, and it validates at that moment (size on disk; with a key, the signature over the file's bytes). -/
def intactChecks (env : Env) (cfg : Option Config) (op : Op) (post : View) : Checks :=
  match cfg, reportedNext op post with
  | some c, some n =>
    [ ((match post.ps.next with | some m => m.number = n && post.valid env c.key m | none => false),
        s!"C03: the query reported patch {n}, which is not an intact selection at that moment (the bundled release was due)") ]
  | _, _ => []

def mon03 : Monitor G03 where
  init := {}
  next env g op pre post := g.next env op pre post
  checks env g op pre post :=
    artChecks g.good (g.next env op pre post).good op post ++
    fallChecks g.cfg g.blind (g.next env op pre post).blind (g.next env op pre post).good op pre post ++
    intactChecks env g.cfg op post

/-! #### C09: an installed patch stays selected until something happens to that patch -/

structure G09 where
  cfg : Option Config := none
  sel : Option Nat := none
deriving Repr, Inhabited

def G09.next (env : Env) (g : G09) (op : Op) (pre post : View) : G09 :=
  let cfg := trackCfg g.cfg op
  match installedBy op post with
  | some n =>
    -- The guarantee is claimed for installs after which every record of number n matches the
    -- artifact now on disk. Not covered: a signature that does not verify under the configured key
    -- (C07: such a patch is never handed out), and a server that re-issues number n with different
    -- bytes while an older record of n is still the last good / booting patch.
    if post.nextNum = some n ∧ post.slotsValid env (g.cfg.bind (·.key)) n then { cfg := cfg, sel := some n }
    else { cfg := cfg, sel := none }
  | none =>
    match g.sel with
    | none => { cfg := cfg, sel := none }
    | some n =>
      if resetsState g.cfg op pre || op.isStateDamage || op.hitsArt n
         || failedBy g.cfg op pre = some n || (rolledBackBy g.cfg op).contains n
      then { cfg := cfg, sel := none } else { cfg := cfg, sel := some n }

/-- What a query must answer while `n` is the installed selection. -/
def queryReports (op : Op) (post : View) (n : Nat) : Bool :=
  match op with
  | .nextN => post.ret = .num n
  | .nextP => post.ret = .path (some n)
  | _ => true

def mon09 : Monitor G09 where
  init := {}
  next env g op pre post := g.next env op pre post
  checks env g op pre post :=
    (match installedBy op post with
      | some n =>
        [ (post.nextNum = some n, s!"C09: update reported patch {n} installed but next={optNat post.nextNum}"),
          (match post.ps.next with
            | some m => post.valid env (g.cfg.bind (·.key)) m
            | none => false,
           s!"C09: update reported patch {n} installed but the selection it left does not validate (size or signature)") ]
      | none => []) ++
    (match (g.next env op pre post).sel with
    | none => []
    | some n =>
      [ (post.nextNum = some n, s!"C09: installed patch {n} is no longer selected (next={optNat post.nextNum}) after {op.tag}"),
        ((post.fileOf n).isSome, s!"C09: artifact of installed and selected patch {n} is gone after {op.tag}"),
        (g.cfg.isNone || queryReports op post n, s!"C09: query does not report installed patch {n}") ])

/-! #### C10: a server rollback is honoured and sticks -/

structure G10 where
  cfg : Option Config := none
  rolled : List Nat := []
deriving Repr, Inhabited

def G10.next (g : G10) (op : Op) (pre post : View) : G10 :=
  let cfg := trackCfg g.cfg op
  if resetsState g.cfg op pre || op.isStateDamage then { cfg := cfg, rolled := [] } else
  let rolled := (rolledBackBy g.cfg op).foldl (fun acc n => if acc.contains n then acc else n :: acc) g.rolled
  let rolled := match installedBy op post with
    | some n => rolled.filter (· ≠ n)
    | none => rolled
  { cfg := cfg, rolled := rolled }

def mon10 : Monitor G10 where
  init := {}
  next _ g op pre post := g.next op pre post
  checks _ g op pre post :=
    (g.next op pre post).rolled.flatMap fun n =>
      [ (post.nextNum ≠ some n, s!"C10: rolled-back patch {n} is (still or again) the next boot patch"),
        (post.art n = none, s!"C10: artifact of rolled-back patch {n} is still on disk") ]

/-! #### C14: repeated initialisation is inert -/

structure G14 where
  cfg : Option Config := none
deriving Repr, Inhabited

def mon14 : Monitor G14 where
  init := {}
  next _ g op _ _ := { cfg := trackCfg g.cfg op }
  checks _ g op pre post :=
    match op, g.cfg with
    | .init _, some _ =>
      [ (post.ret = .bool false, "C14: a repeated init reported success"),
        (post.sj = pre.sj ∧ post.pj = pre.pj ∧ post.pdir = pre.pdir ∧ post.arts = pre.arts ∧ post.junk = pre.junk,
          "C14: a repeated init changed the storage directory"),
        (post.outside = 0, "C14: a repeated init changed the disk outside the storage directory in use (the directories it was given)") ]
    -- the configuration in use stays that of the first successful init: the one setting a query reads back directly
    | .auto, some c =>
      [ (post.ret = .bool c.autoUpdate, "C14: should_auto_update does not answer with the setting of the first successful init") ]
    -- … and the callbacks registered for that configuration stay in use: every patch check reaches them
    | .check _ _, some _ | .update _ _, some _ =>
      [ (post.net.any (fun a => match a with | .check _ => true | _ => false),
          "C14: a patch check did not go through the network callbacks in use since the first successful init") ]
    | _, _ => []

/-! #### C20: requests identify exactly this app, release and the selected channel -/

def mon20 : Monitor G14 where
  init := {}
  next _ g op _ _ := { cfg := trackCfg g.cfg op }
  checks env g op _ post :=
    match g.cfg with
    | none => [(post.net = [] ∨ op.isDamage, "C20: network traffic without configuration")]
    | some c =>
      let chan : String := match op with
        | .check (some ch) _ => ch
        | .update (some ch) _ => ch
        | _ => c.channel
      post.net.map fun a =>
        match a with
        | .check r =>
          (r.appId = c.appId ∧ r.version = c.version ∧ r.platform = env.platform ∧ r.arch = env.arch ∧ r.channel = chan,
            s!"C20: patch-check request  does not match app/release/platform/arch/channel {chan}")
        | .event e =>
          (e.appId = c.appId ∧ e.version = c.version ∧ e.platform = env.platform ∧ e.arch = env.arch,
            s!"C20: event  does not carry the configured app id / release version")
        | .download _ => (true, "")

/-! #### C08: patch state never crosses release versions -/

def mon08 : Monitor G14 where
  init := {}
  next _ g op _ _ := { cfg := trackCfg g.cfg op }
  checks _ g op pre post :=
    match entersWith g.cfg op with
    | none => []
    | some c =>
      if resetsState g.cfg op pre then
        [ (installedBy op post ≠ none ∨ (post.ps.next = none ∧ post.ps.last = none ∧ post.ps.booting = none),
            "C08: a patch of the previous release is still recorded after the release changed"),
          (post.ps.bad = [], "C08: bans of the previous release survived the release change"),
          (installedBy op post ≠ none ∨ post.arts = [], "C08: artifacts of the previous release remain on disk"),
          (post.events = [] , "C08: queued events of the previous release survived"),
          (post.release = some c.version, "C08: stored state not re-keyed to the new release"),
          (match op with
            | .nextN | .nextP | .curN => post.ret = .num 0 ∨ post.ret = .path none
            | _ => true, "C08: first query after a release change reports a patch") ]
      else []

/-! #### C17: events at the promised moments, once -/

def eventOk (env : Env) (c : Config) (k : EventKind) (n : Nat) (e : Event) : Bool :=
  e.kind = k ∧ e.number = n ∧ e.appId = c.appId ∧ e.version = c.version ∧ e.platform = env.platform ∧ e.arch = env.arch

def netEvents (net : List NetAct) : List Event :=
  net.filterMap fun a => match a with | .event e => some e | _ => none

def netBeforeCheck : List NetAct → List NetAct
  | [] => []
  | .check _ :: _ => []
  | a :: rest => a :: netBeforeCheck rest

def netAfterCheck : List NetAct → List NetAct
  | [] => []
  | .check _ :: rest => rest
  | _ :: rest => netAfterCheck rest

def mon17 : Monitor G14 where
  init := {}
  next _ g op _ _ := { cfg := trackCfg g.cfg op }
  checks env g op pre post :=
    match entersWith g.cfg op with
    | none => [(netEvents post.net = [], "C17: an event was sent by a call that does not touch state")]
    | some c =>
      let reset := resetsState g.cfg op pre
      let preEvents := if reset then [] else pre.events
      match op with
      | .success =>
        ((match (if reset then none else pre.bootingNum) with
        | some n =>
          if pre.lastNum = some n then [(netEvents post.net = [], s!"C17: install-success event sent although patch {n} was already the last good patch")]
          else [ ((netEvents post.net).length = 1 ∧ (netEvents post.net).all (eventOk env c .installSuccess n),
                  s!"C17: success of newly booted patch {n} did not send exactly one install-success event: {(netEvents post.net).length} events") ]
        | none => [(netEvents post.net = [], "C17: install-success event sent although no patch was booting")]) : Checks) ++
        ([(post.events = preEvents, "C17: success report changed the event queue")] : Checks)
      | .failure | .init _ =>
        ((match failedBy g.cfg op pre with
        | some n =>
          [ (post.events.length = preEvents.length + 1 ∧ post.events.take preEvents.length = preEvents ∧
              (post.events.drop preEvents.length).all (eventOk env c .installFailure n),
              s!"C17: boot failure of patch {n} did not queue exactly one failure event") ]
        | none => [(post.events = preEvents, "C17: event queue changed without a boot failure")]) : Checks) ++
        ([(netEvents post.net = [], "C17: failure handling sent an event immediately")] : Checks)
      | .update _ _ =>
        let sent := netEvents (netBeforeCheck post.net)
        let later := netEvents (netAfterCheck post.net)
        [ (sent = preEvents.take 3, s!"C17: update did not send the first three queued events, oldest first, before the patch check: sent {sent.length}"),
          (post.events = [], "C17: update left events in the queue"),
          (match installedBy op post with
            | some n => later.length = 1 ∧ later.all (eventOk env c .download n)
            | none => later = [], s!"C17: download event not sent exactly once after (and only after) a successful install: {later.length} events") ]
      | _ =>
        [ (post.events = preEvents, s!"C17: event queue changed by {op.tag}"),
          (netEvents post.net = [], s!"C17: an event was sent by {op.tag}") ]

/-! #### C18: the reported current patch tracks what is running -/

structure G18 where
  cfg : Option Config := none
  started : Bool := false
  /-- the patch handed to the engine for this launch -/
  running : Option Nat := none
  /-- the last good patch, tracked exactly as for C03 -/
  g3 : G03 := {}
deriving Repr, Inhabited

/-- Is this a launch start of a configured process? -/
def startsNow (cfg : Option Config) (op : Op) : Bool :=
  match op, cfg with
  | .start, some _ => true
  | _, _ => false

/-- What a start handed to the engine: the selection it recorded as booting, when every record of
    that number matches the artifact in place. -/
def handedOut (env : Env) (key : Option String) (post : View) : Option Nat :=
  match post.nextNum with
  | some n => if post.bootingNum = some n ∧ post.slotsValid env key n then some n else none
  | none => none

def runningAfter (env : Env) (cfg : Option Config) (running : Option Nat) (op : Op) (pre post : View) : Option Nat :=
  if resetsState cfg op pre || op.isStateDamage then none else
  if startsNow cfg op then handedOut env (cfg.bind (·.key)) post
  else match running with
    | none => none
    | some n =>
      -- things that happen to patch n itself: its boot fails, the server rolls it back or re-issues
      -- it, its artifact is damaged from outside
      if failedBy cfg op pre = some n || (rolledBackBy cfg op).contains n || op.hitsArt n
         || installedBy op post = some n then none else some n

def G18.next (env : Env) (g : G18) (op : Op) (pre post : View) : G18 :=
  let cfg := trackCfg g.cfg op
  let g3 := g.g3.next env op pre post
  match op with
  | .restart => { cfg := cfg, started := false, running := none, g3 := g3 }
  | _ => { cfg := cfg, started := g.started || startsNow g.cfg op,
           running := runningAfter env g.cfg g.running op pre post, g3 := g3 }

def runChecks (running' : Option Nat) (op : Op) (post : View) : Checks :=
  match running' with
  | some n =>
    [ (post.curNum = some n, s!"C18: patch {n} is running but the recorded current patch is {optNat post.curNum} after {op.tag}"),
      (match op with | .curN => post.ret = .num n | _ => true, s!"C18: patch {n} is running but another current patch was reported") ]
  | none => []

def idleChecks (g' : G18) (op : Op) (post : View) : Checks :=
  match op, g'.cfg, g'.started, g'.g3.blind with
  | .curN, some _, false, false =>
    [(post.ret = .num ((g'.g3.good.map (·.1)).getD 0),
      s!"C18: before launch start the current patch should be the last good patch {optNat (g'.g3.good.map (·.1))}")]
  | _, _, _, _ => []

def startChecks (cfg : Option Config) (op : Op) (post : View) : Checks :=
  if startsNow cfg op then
    [(match post.nextNum with | some n => post.bootingNum = some n | none => true,
      s!"C18: launch start did not record the selected patch {optNat post.nextNum} as booting (booting={optNat post.bootingNum})")]
  else []

def mon18 : Monitor G18 where
  init := {}
  next env g op pre post := g.next env op pre post
  checks env g op pre post :=
    runChecks (g.next env op pre post).running op post ++ idleChecks (g.next env op pre post) op post ++
    startChecks g.cfg op post

/-! #### C19: superseded, failed and rolled-back artifacts are reclaimed -/

def mon19 : Monitor G14 where
  init := {}
  next _ g op _ _ := { cfg := trackCfg g.cfg op }
  checks _ g op pre post :=
    ((match succeededBy g.cfg op pre with
      | some m => post.arts.map fun e =>
          ((decide (¬ e.1 < m ∨ post.nextNum = some e.1), s!"C19: artifact {e.1} older than successfully booted patch {m} remains and is not the next boot patch") : Bool × String)
      | none => []) : Checks) ++
    ((match failedBy g.cfg op pre with
      | some n => [(post.art n = none, s!"C19: artifact of failed patch {n} remains")]
      | none => []) : Checks) ++
    (((rolledBackBy g.cfg op).map fun n =>
      ((decide (installedBy op post = some n ∨ post.art n = none), s!"C19: artifact of rolled-back patch {n} remains") : Bool × String)) : Checks) ++
    ((match installedBy op post, pre.ps.next, post.ps.last with
      | some n, some p, some l =>
        -- `l`: the last good patch when the install happens (an install does not change it; rollbacks
        -- in the same response may have cleared it earlier in the call)
        if p.number ≠ l.number ∧ p.number ≠ n ∧ pre.bootingNum ≠ some p.number ∧ ¬ resetsState g.cfg op pre
           ∧ pre.lastNum = some l.number
           ∧ ¬ (rolledBackBy g.cfg op).contains p.number ∧ ¬ (rolledBackBy g.cfg op).contains l.number then
          [(post.art p.number = none, s!"C19: never-booted patch {p.number} replaced by install of {n} but its artifact remains")]
        else []
      | _, _, _ => []) : Checks) ++
    ((if resetsState g.cfg op pre then
      [(installedBy op post ≠ none ∨ post.arts = [], "C19: artifacts remain after a release change")]
     else []) : Checks)

/-! #### C05 / C06: installs only verified content; failures leave the installed state alone -/

/-- What the download of an update inflates to against the configured base library, if it does. -/
def dlDecoded (libs : List (String × Bytes)) (c : Config) (sc : UpdateScript) : Option Bytes :=
  match sc.dl, libs.lookup c.libapp with
  | some s, some base => (match bipatchDecode s base with | .ok o => some o | .error _ => none)
  | _, _ => none

/-- The download verifies: it inflates, matches the advertised hash, and is signed if required. -/
def dlGood (env : Env) (libs : List (String × Bytes)) (c : Config) (sc : UpdateScript) (offer : Option Offer) : Bool :=
  match dlDecoded libs c sc, offer with
  | some o, some off => checkHash o off.hash && signatureOk env c.key off.sig o
  | _, _ => false

/-- A failed or no-op update is expected to leave the installed state alone when the response rolls
    nothing back, the state is readable and of this release, and the selection was intact. -/
def quietUpdate (env : Env) (cfg : Option Config) (c : Config) (op : Op) (pre : View) : Bool :=
  decide (rolledBackBy cfg op = []) && !resetsState cfg op pre &&
    (match pre.ps.next with | some m => pre.valid env c.key m | none => true)

/-- A healthy offer: good content, available, not banned, readable state, not yet selected, not
    rolled back by the same response. -/
def healthyOffer (env : Env) (libs : List (String × Bytes)) (cfg : Option Config) (c : Config) (op : Op)
    (sc : UpdateScript) (r : CheckResp) (off : Offer) (pre : View) : Bool :=
  dlGood env libs c sc (some off) && r.available && !pre.ps.bad.contains off.number && !resetsState cfg op pre &&
    decide (pre.nextNum ≠ some off.number) && !(r.rolledBack.getD []).contains off.number

def mon05 (libs : List (String × Bytes)) : Monitor G14 where
  init := {}
  next _ g op _ _ := { cfg := trackCfg g.cfg op }
  checks env g op pre post :=
    match op, g.cfg, post.ret with
    | .update _ sc, some c, .upd out =>
      ((match out, op.offer with
        | .installed, some off =>
          [ (dlGood env libs c sc (some off), "C05: update reported 'installed' although the inflated download does not match the advertised hash"),
            (post.nextNum = some off.number ∧ post.fileOf off.number = dlDecoded libs c sc ∧ (dlDecoded libs c sc).isSome,
              "C05: after 'installed' the selected artifact is not byte-identical to the verified file") ]
        | .installed, none => [(false, "C05: 'installed' without an offer")]
        | _, _ =>
          -- every non-install leaves (next, current, banned) alone unless the response rolled something back
          -- or the selection was already invalid
          if quietUpdate env g.cfg c op pre then
            [ (post.ps.next = pre.ps.next ∧ post.curNum = pre.curNum ∧ post.ps.bad = pre.ps.bad,
                s!"C05/C06: a failed or no-op update ({updTag out}) changed the next-boot patch, current patch or banned set") ]
          else []) : Checks) ++
      -- a download that does not verify must end in an error status
      ((if post.net.any isDownload && !dlGood env libs c sc op.offer then [(out.status = -1, "C05: bad download did not produce an error status")] else []) : Checks) ++
      -- C06: with a healthy server and good content, the update installs
      ((match sc.resp, op.offer with
        | some r, some off =>
          if healthyOffer env libs g.cfg c op sc r off pre
          then [(out = UpdateOut.installed ∨ post.nextNum = some off.number, s!"C06: a healthy update offering installable patch {off.number} did not install it ({updTag out})")]
          else []
        | _, _ => []) : Checks)
    | _, _, _ => []

/-! #### C06: a failed request decides nothing -/

/-- C06, the clauses that speak about the requests themselves: a failed patch check ends the update
    with the check error before anything is downloaded; 'installed' is reported only if both the patch
    check and the download succeeded; a check whose request failed answers false. -/
def mon06 : Monitor G14 where
  init := {}
  next _ g op _ _ := { cfg := trackCfg g.cfg op }
  checks _ g op _ post :=
    match op, g.cfg, post.ret with
    | .update _ sc, some _, .upd out =>
      [ (sc.resp.isSome || (decide (out = UpdateOut.errCheck) && !post.net.any isDownload),
          "C06: the patch check failed, yet the update did not stop with the check error before any download"),
        (!decide (out = UpdateOut.installed) || (sc.resp.isSome && sc.dl.isSome),
          "C06: the update reported 'installed' although the patch check or the download had failed"),
        (!decide (out = UpdateOut.installed) || ((sc.resp.map (·.available)).getD false),
          "C06: the update reported 'installed' although the response said that no patch is available") ]
    | .check _ resp, some _, .bool b =>
      [ (resp.isSome || !b, "C06: check_for_downloadable_update answered true although its request failed") ]
    | _, _, _ => []

/-! #### C12: the observed lock / network actions of every call are well-formed -/

def sectionsAtomicB : List Act → Bool
  | [] => true
  | .A :: .R :: rest => sectionsAtomicB rest
  | .A :: _ => false
  | _ :: rest => sectionsAtomicB rest

def mon12 : Monitor G14 where
  init := {}
  next _ g op _ _ := { cfg := trackCfg g.cfg op }
  checks _ _ _ _ post :=
    [ (wellFormed post.la, "C12: network callback under the state lock, lock re-entry, update lock taken under the state lock, or unbalanced release"),
      (sectionsAtomicB post.la, "C12: something other than the release follows an acquisition of the state lock") ]

/-! #### C13: use before initialisation returns the documented defaults and touches nothing -/

def mon13 : Monitor G14 where
  init := {}
  next _ g op _ _ := { cfg := trackCfg g.cfg op }
  checks _ g op pre post :=
    match trackCfg g.cfg op, op with
    | none, .damage _ => []
    | none, _ =>
      [ (post.sj = pre.sj ∧ post.pj = pre.pj ∧ post.arts = pre.arts ∧ post.pdir = pre.pdir, "C13: a call without configuration changed the disk"),
        (post.net = [], "C13: a call without configuration used the network"),
        (match op with
          | .nextN | .curN => post.ret = .num 0
          | .nextP => post.ret = .path none
          | .check _ _ => post.ret = .bool false
          | .update _ _ => post.ret = .upd .errNotInit
          | .auto => post.ret = .bool true
          | .init _ => post.ret = .bool false
          | _ => post.ret = .unit, "C13: a call without configuration did not return its documented default") ]
    | some _, _ => []

end Updater
