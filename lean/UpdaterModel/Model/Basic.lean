/-
  Basic data of the updater model.

  Mirrors:
    library/src/cache/patch_manager.rs   PatchMetadata, PatchesState
    library/src/cache/updater_state.rs   SerializedState
    library/src/events.rs                PatchEvent, EventType
    library/src/config.rs                UpdateConfig
  Model files import nothing outside core Lean so the driver links as a `lean_exe`.
-/

namespace Updater

abbrev Bytes := List UInt8

/-- `PatchMetadata` (patch_manager.rs). Numbers and sizes are only compared and printed by the
    code, never used in arithmetic, so `Nat` is faithful. -/
structure Meta where
  number : Nat
  size : Nat
  hash : String
  sig : Option String
deriving DecidableEq, Repr, Inhabited

/-- `PatchesState` (patches_state.json). `bad` is a `HashSet<usize>` in the code; a list used as a set here. -/
structure PatchesState where
  last : Option Meta := none
  next : Option Meta := none
  booting : Option Meta := none
  bad : List Nat := []
deriving DecidableEq, Repr, Inhabited

inductive EventKind where
  | installSuccess | installFailure | download
deriving DecidableEq, Repr, Inhabited

/-- `PatchEvent` without its timestamp. -/
structure Event where
  appId : String
  arch : String
  kind : EventKind
  number : Nat
  platform : String
  version : String
  msg : Option String
deriving DecidableEq, Repr, Inhabited

/-- `SerializedState` (state.json). -/
structure SState where
  version : String
  events : List Event
deriving DecidableEq, Repr, Inhabited

/-- What serde can make of a JSON file: absent, present but not deserialisable, or a value. -/
inductive JFile (α : Type) where
  | missing
  | garbage
  | ok (v : α)
deriving DecidableEq, Repr, Inhabited

/-- The value, or a default for a missing / unreadable file (`unwrap_or_default`). -/
def JFile.getD {α : Type} (j : JFile α) (dflt : α) : α :=
  match j with
  | .ok v => v
  | _ => dflt

/-- `patches/<n>/`: the directory without `dlc.vmcode`, or with it. -/
inductive Art where
  | emptyDir
  | file (b : Bytes)
deriving DecidableEq, Repr, Inhabited

/-- Directory entries `patches/<n>` as an association list without duplicate keys. -/
abbrev Arts := List (Nat × Art)

/-- Remove the entry for `n` (`remove_dir_all(patches/<n>)`). -/
def eraseArt (l : Arts) (n : Nat) : Arts := l.filter (fun e => e.1 ≠ n)

/-- Create or replace the entry for `n`. -/
def setArt (l : Arts) (n : Nat) (a : Art) : Arts := (n, a) :: eraseArt l n

/-- The `patches/` directory when it exists. -/
structure PatchesDir where
  arts : Arts
  junk : List String          -- entries whose name does not parse as a number
deriving DecidableEq, Repr, Inhabited

/-- The storage directory. -/
structure Disk where
  stateJson : JFile SState
  patchesJson : JFile PatchesState
  patches : Option PatchesDir
deriving DecidableEq, Repr, Inhabited

def Disk.art (d : Disk) (n : Nat) : Option Art :=
  match d.patches with
  | none => none
  | some p => p.arts.lookup n

/-- Directory listing of `patches/` (empty when the directory is absent). -/
def Disk.artsList (d : Disk) : Arts :=
  match d.patches with
  | some p => p.arts
  | none => []

def Disk.junkList (d : Disk) : List String :=
  match d.patches with
  | some p => p.junk
  | none => []

def Disk.empty : Disk := { stateJson := .missing, patchesJson := .missing, patches := none }

/-- `UpdateConfig` (config.rs), the parts that matter. Paths are opaque tokens. -/
structure Config where
  appId : String
  channel : String
  version : String
  baseUrl : String
  key : Option String
  autoUpdate : Bool
  storage : String
  cache : String
  libapp : String
deriving DecidableEq, Repr, Inhabited

/-- Things Lean does not compute: ring's RSA verdict, and the build constants. -/
structure Env where
  verify : (key : String) → (msg : String) → (sig : String) → Bool
  platform : String
  arch : String

end Updater
