/-
  library/src/updater.rs + c_api/mod.rs, fault-free sequential semantics.

  Every `with_config` / `with_state` / `with_mut_state` closure is one *section*:
  a function from the disk (and thread-local data) to the disk (and a result).
  An API call is a sequence of sections with network actions between them.
-/
import UpdaterModel.Model.UpdaterState
import UpdaterModel.Model.Codec

namespace Updater

/-! ### Network-visible data -/

/-- `PatchCheckRequest` -/
structure CheckReq where
  appId : String
  channel : String
  version : String
  platform : String
  arch : String
deriving DecidableEq, Repr, Inhabited

/-- `Patch` in a check response. -/
structure Offer where
  number : Nat
  hash : String
  url : String
  sig : Option String
deriving DecidableEq, Repr, Inhabited

/-- `PatchCheckResponse` -/
structure CheckResp where
  available : Bool
  patch : Option Offer
  rolledBack : Option (List Nat)
deriving DecidableEq, Repr, Inhabited

/-- What leaves the process, in order. -/
inductive NetAct where
  | event (e : Event)
  | check (r : CheckReq)
  | download (url : String)
deriving DecidableEq, Repr, Inhabited

/-- `shorebird.yaml` after parsing. -/
structure Yaml where
  appId : String
  channel : Option String
  baseUrl : Option String
  autoUpdate : Option Bool
  key : Option String
deriving DecidableEq, Repr, Inhabited

/-- Arguments of `shorebird_init` after C-string conversion. `yaml = none`: does not parse. -/
structure InitParams where
  version : String
  storage : String
  cache : String
  libapps : List String
  yaml : Option Yaml
deriving DecidableEq, Repr, Inhabited

/-- Process + disk. `libs` is the (external, read-only) content of candidate base libraries. -/
structure World where
  disk : Disk
  config : Option Config
  libs : List (String × Bytes)

def World.base (w : World) (cfg : Config) : Option Bytes := w.libs.lookup cfg.libapp

def DEFAULT_CHANNEL : String := "stable"
def DEFAULT_BASE_URL : String := "https://api.shorebird.dev"

def mkEvent (env : Env) (cfg : Config) (kind : EventKind) (n : Nat) (msg : Option String) : Event :=
  { appId := cfg.appId, arch := env.arch, kind := kind, number := n, platform := env.platform,
    version := cfg.version, msg := msg }

def mkCheckReq (env : Env) (cfg : Config) : CheckReq :=
  { appId := cfg.appId, channel := cfg.channel, version := cfg.version,
    platform := env.platform, arch := env.arch }

/-! ### Sections (each runs under the config/state lock) -/

/-- body of `handle_prior_boot_failure_if_necessary` -/
def secHandlePriorBootFailure (env : Env) (cfg : Config) (d : Disk) : Disk :=
  let us := loadOrNew d cfg.version
  match us.pm.ps.booting with
  | some p =>
    let us : US := { us with pm := us.pm.recordBootFailure env cfg.key p.number }
    let us := us.queueEvent (mkEvent env cfg .installFailure p.number
      (some s!"Patch {p.number} was marked currently_booting in init"))
    us.disk
  | none => us.disk

/-- body of `next_boot_patch` -/
def secNextBootPatch (env : Env) (cfg : Config) (d : Disk) : Disk × Option Nat :=
  let us := loadOrNew d cfg.version
  let r := us.pm.nextBootPatch env cfg.key
  (r.1.disk, r.2)

/-- body of `current_boot_patch` -/
def secCurrentBootPatch (cfg : Config) (d : Disk) : Disk × Option Nat :=
  let us := loadOrNew d cfg.version
  (us.disk, us.currentBootPatch)

/-- body of `report_launch_start` -/
def secLaunchStart (env : Env) (cfg : Config) (d : Disk) : Disk :=
  let us := loadOrNew d cfg.version
  let r := us.pm.nextBootPatch env cfg.key
  match r.2 with
  | some n => (r.1.recordBootStart n).1.disk
  | none => r.1.disk

/-- body of `report_launch_failure` -/
def secLaunchFailure (env : Env) (cfg : Config) (d : Disk) : Disk :=
  let us := loadOrNew d cfg.version
  match us.pm.ps.booting with
  | none => us.disk
  | some p =>
    let us : US := { us with pm := us.pm.recordBootFailure env cfg.key p.number }
    let us := us.queueEvent (mkEvent env cfg .installFailure p.number
      (some s!"Install failure reported from engine for patch {p.number}"))
    us.disk

/-- body of `report_launch_success`; the second component is the event handed to the spawned thread. -/
def secLaunchSuccess (env : Env) (cfg : Config) (d : Disk) : Disk × Option Event :=
  let us := loadOrNew d cfg.version
  match us.pm.ps.booting with
  | none => (us.disk, none)
  | some bp =>
    let prev := us.pm.ps.last
    let r := us.pm.recordBootSuccess
    let ev := mkEvent env cfg .installSuccess bp.number none
    match prev, r.1.ps.last with
    | some p, some c => if p.number = c.number then (r.1.disk, none) else (r.1.disk, some ev)
    | _, _ => (r.1.disk, some ev)

/-- `copy_events(3)` section of `update_internal` -/
def secCopyEvents (cfg : Config) (d : Disk) : Disk × List Event :=
  let us := loadOrNew d cfg.version
  (us.disk, us.copyEvents 3)

/-- `clear_events` section of `update_internal` -/
def secClearEvents (cfg : Config) (d : Disk) : Disk :=
  (loadOrNew d cfg.version).clearEvents.disk

/-- body of `roll_back_patches_if_needed` -/
def secRollBack (env : Env) (cfg : Config) (d : Disk) (ns : List Nat) : Disk :=
  let us := loadOrNew d cfg.version
  (ns.foldl (fun pm n => pm.tryFallBack env cfg.key n) us.pm).disk

/-- first section of `should_install_patch` -/
def secIsKnownBad (cfg : Config) (d : Disk) (n : Nat) : Disk × Bool :=
  let us := loadOrNew d cfg.version
  (us.disk, us.pm.isKnownBad n)

inductive ShouldInstall where
  | ok | knownBad | alreadyInstalled
deriving DecidableEq, Repr

/-- `should_install_patch`: two sections. -/
def shouldInstall (env : Env) (cfg : Config) (d : Disk) (n : Nat) : Disk × ShouldInstall :=
  let r1 := secIsKnownBad cfg d n
  if r1.2 then (r1.1, .knownBad)
  else
    let r2 := secNextBootPatch env cfg r1.1
    if r2.2 = some n then (r2.1, .alreadyInstalled) else (r2.1, .ok)

/-- install section of `update_internal` -/
def secInstall (cfg : Config) (d : Disk) (o : Offer) (out : Bytes) : Disk :=
  let us := loadOrNew d cfg.version
  (us.pm.addPatch o.number out o.hash o.sig).disk

/-- `check_hash` -/
def checkHash (out : Bytes) (expected : String) : Bool :=
  match hexDecode expected with
  | none => false
  | some e => decide (sha256 out = e)

/-- signature gate of `update_internal`: with a key, the offer must carry a signature that
    verifies over the hex SHA-256 of the inflated file. -/
def signatureOk (env : Env) (key : Option String) (sig : Option String) (out : Bytes) : Bool :=
  match key with
  | none => true
  | some k =>
    match sig with
    | none => false
    | some s => env.verify k (hashFile out) s

/-! ### API calls -/

/-- `shorebird_init` -/
def init (env : Env) (w : World) (p : InitParams) : World × Bool :=
  match p.yaml with
  | none => (w, false)
  | some y =>
    match p.libapps with
    | [] => (w, false)
    | lib :: _ =>
      match w.config with
      | some _ => (w, false)
      | none =>
        let cfg : Config := {
          appId := y.appId, channel := y.channel.getD DEFAULT_CHANNEL, version := p.version,
          baseUrl := y.baseUrl.getD DEFAULT_BASE_URL, key := y.key, autoUpdate := y.autoUpdate.getD true,
          storage := p.storage, cache := p.cache, libapp := lib }
        ({ w with config := some cfg, disk := secHandlePriorBootFailure env cfg w.disk }, true)

/-- `shorebird_next_boot_patch_number` / `_path` (the same state access). -/
def nextBootPatch (env : Env) (w : World) : World × Option Nat :=
  match w.config with
  | none => (w, none)
  | some cfg =>
    let r := secNextBootPatch env cfg w.disk
    ({ w with disk := r.1 }, r.2)

/-- `shorebird_current_boot_patch_number` -/
def currentBootPatch (w : World) : World × Option Nat :=
  match w.config with
  | none => (w, none)
  | some cfg =>
    let r := secCurrentBootPatch cfg w.disk
    ({ w with disk := r.1 }, r.2)

def launchStart (env : Env) (w : World) : World :=
  match w.config with
  | none => w
  | some cfg => { w with disk := secLaunchStart env cfg w.disk }

def launchFailure (env : Env) (w : World) : World :=
  match w.config with
  | none => w
  | some cfg => { w with disk := secLaunchFailure env cfg w.disk }

/-- The event handed to a spawned thread, as a network action. -/
def evList (e : Option Event) : List NetAct :=
  match e with
  | some e => [.event e]
  | none => []

def launchSuccess (env : Env) (w : World) : World × List NetAct :=
  match w.config with
  | none => (w, [])
  | some cfg =>
    let r := secLaunchSuccess env cfg w.disk
    ({ w with disk := r.1 }, evList r.2)

def withChannel (cfg : Config) (chan : Option String) : Config :=
  match chan with
  | some c => { cfg with channel := c }
  | none => cfg

/-- `if let Some(rolled_back) = response.rolled_back_patch_numbers { roll_back_patches_if_needed }` -/
def rollBackIfNeeded (env : Env) (cfg : Config) (d : Disk) (rb : Option (List Nat)) : Disk :=
  match rb with
  | some ns => secRollBack env cfg d ns
  | none => d

/-- `check_for_downloadable_update` after the request was built. -/
def checkCore (env : Env) (cfg0 : Config) (d : Disk) (resp : Option CheckResp) : Disk × Bool :=
  match resp with
  | none => (d, false)
  | some r =>
    let d := rollBackIfNeeded env cfg0 d r.rolledBack
    match r.patch with
    | none => (d, false)
    | some o =>
      let s := shouldInstall env cfg0 d o.number
      (s.1, decide (s.2 = .ok))

/-- `shorebird_check_for_downloadable_update`; `resp = none`: the request failed. -/
def check (env : Env) (w : World) (chan : Option String) (resp : Option CheckResp) :
    World × Bool × List NetAct :=
  match w.config with
  | none => (w, false, [])
  | some cfg0 =>
    let r := checkCore env cfg0 w.disk resp
    ({ w with disk := r.1 }, r.2, [NetAct.check (mkCheckReq env (withChannel cfg0 chan))])

/-- Outcome of `shorebird_update_with_result`. -/
inductive UpdateOut where
  | noUpdate            -- 0
  | installed           -- 1
  | badPatch            -- 3
  | errNotInit          -- -1, ConfigNotInitialized
  | errBusy             -- -1, UpdateAlreadyInProgress
  | errCheck            -- -1, patch check request failed
  | errBadResponse      -- -1, patch_available without patch
  | errDownload         -- -1, download callback failed
  | errBase             -- -1, base library cannot be opened
  | errInflate          -- -1, decompress / bipatch failure
  | errHash             -- -1, hash mismatch or malformed hash
  | errSignature        -- -1, key configured and the signature is missing or does not verify
deriving DecidableEq, Repr, Inhabited

def UpdateOut.status : UpdateOut → Int
  | .noUpdate => 0
  | .installed => 1
  | .badPatch => 3
  | _ => -1

/-- Server/network script of one update: `resp = none` check failed; `dl = none` download failed,
    `some s` = the bytes the zstd decompressor emitted for the downloaded file. -/
structure UpdateScript where
  resp : Option CheckResp
  dl : Option Bytes
deriving Repr, Inhabited

/-- `update_internal` from the download to the install section. -/
def installStage (env : Env) (cfg0 : Config) (base : Option Bytes) (d : Disk) (o : Offer)
    (dl : Option Bytes) : Disk × UpdateOut :=
  match dl with
  | none => (d, .errDownload)
  | some stream =>
    match base with
    | none => (d, .errBase)
    | some base =>
      match bipatchDecode stream base with
      | .error _ => (d, .errInflate)
      | .ok out =>
        if ¬ checkHash out o.hash then (d, .errHash)
        else if ¬ signatureOk env cfg0.key o.sig out then (d, .errSignature)
        else (secInstall cfg0 d o out, .installed)

/-- `update_internal` after a successful patch check. The `Bool`: the download was requested. -/
def afterCheck (env : Env) (cfg0 : Config) (base : Option Bytes) (d : Disk) (r : CheckResp)
    (dl : Option Bytes) : Disk × UpdateOut × Bool :=
  let d := rollBackIfNeeded env cfg0 d r.rolledBack
  if ¬ r.available then (d, .noUpdate, false)
  else match r.patch with
    | none => (d, .errBadResponse, false)
    | some o =>
      let s := shouldInstall env cfg0 d o.number
      match s.2 with
      | .knownBad => (s.1, .badPatch, false)
      | .alreadyInstalled => (s.1, .noUpdate, false)
      | .ok =>
        let i := installStage env cfg0 base s.1 o dl
        (i.1, i.2, true)

/-- `update_internal` on the disk: events copied, queue cleared, then the rest.
    Returns the disk, the outcome, the events sent first, and whether a download was requested. -/
def updateCore (env : Env) (cfg0 : Config) (base : Option Bytes) (d : Disk) (sc : UpdateScript) :
    Disk × UpdateOut × List Event × Bool :=
  let r1 := secCopyEvents cfg0 d
  let d := secClearEvents cfg0 r1.1
  match sc.resp with
  | none => (d, .errCheck, r1.2, false)
  | some r =>
    let a := afterCheck env cfg0 base d r sc.dl
    (a.1, a.2.1, r1.2, a.2.2)

/-- Network actions of an update, in order. -/
def updateActs (env : Env) (cfg : Config) (sc : UpdateScript) (out : UpdateOut) (sent : List Event)
    (dlRequested : Bool) : List NetAct :=
  sent.map NetAct.event ++ [NetAct.check (mkCheckReq env cfg)] ++
  (match dlRequested, sc.resp.bind (·.patch) with
    | true, some o =>
      NetAct.download o.url ::
        (if out = .installed then [NetAct.event (mkEvent env cfg .download o.number none)] else [])
    | _, _ => [])

/-- `update_internal` (the update lock is free in the sequential semantics). -/
def update (env : Env) (w : World) (chan : Option String) (sc : UpdateScript) :
    World × UpdateOut × List NetAct :=
  match w.config with
  | none => (w, .errNotInit, [])
  | some cfg0 =>
    let r := updateCore env cfg0 (w.base cfg0) w.disk sc
    ({ w with disk := r.1 }, r.2.1, updateActs env (withChannel cfg0 chan) sc r.2.1 r.2.2.1 r.2.2.2)

/-- `shorebird_should_auto_update` -/
def shouldAutoUpdate (w : World) : Bool :=
  match w.config with
  | none => true
  | some cfg => cfg.autoUpdate

/-- Process restart: the globals are gone, the disk stays. -/
def restart (w : World) : World := { w with config := none }

end Updater
