/-
  library/src/cache/patch_manager.rs, one `def` per `fn`, fault-free (sequential) semantics.
  File-system effects appear in the order the code performs them.
-/
import UpdaterModel.Model.Basic
import UpdaterModel.Model.Sha256
import UpdaterModel.Model.Hex

namespace Updater

/-- `PatchManager`: the storage directory plus the in-memory copy of `patches_state.json`
    loaded by `PatchManager::new`. -/
structure PM where
  disk : Disk
  ps : PatchesState

/-- `load_patches_state(..).unwrap_or_default()` -/
def loadPatchesState (d : Disk) : PatchesState := d.patchesJson.getD {}

/-- `PatchManager::new` -/
def PM.new (d : Disk) : PM := { disk := d, ps := loadPatchesState d }

/-- `save_patches_state` (`disk_io::write`: `File::create` + serialise). -/
def PM.save (pm : PM) : PM :=
  { pm with disk := { pm.disk with patchesJson := .ok pm.ps } }

/-- `signing::hash_file` -/
def hashFile (b : Bytes) : String := hexEncode (sha256 b)

/-- `validate_patch_is_bootable`: artifact exists, has the recorded size, and (with a key) the
    signature verifies over the hex SHA-256 of its current bytes. -/
def validate (env : Env) (key : Option String) (d : Disk) (m : Meta) : Bool :=
  match d.art m.number with
  | some (.file b) =>
    if b.length ≠ m.size then false
    else match key with
      | none => true
      | some k =>
        match m.sig with
        | none => false
        | some s => env.verify k (hashFile b) s
  | _ => false

/-- `delete_patch_artifacts`: `remove_dir_all(patches/<n>)` if it exists. -/
def Disk.deleteArtifacts (d : Disk) (n : Nat) : Disk :=
  match d.patches with
  | none => d
  | some p => { d with patches := some { p with arts := eraseArt p.arts n } }

def PM.deleteArtifacts (pm : PM) (n : Nat) : PM :=
  { pm with disk := pm.disk.deleteArtifacts n }

/-- `try_fall_back_from_patch` -/
def PM.tryFallBack (env : Env) (key : Option String) (pm : PM) (badN : Nat) : PM :=
  let pm := pm.deleteArtifacts badN
  let pm : PM :=
    match pm.ps.next with
    | some nx => if nx.number = badN then { pm with ps := { pm.ps with next := none } } else pm
    | none => pm
  let pm : PM :=
    match pm.ps.last with
    | some lb =>
      if lb.number ≠ badN ∧ validate env key pm.disk lb then
        -- only when nothing is selected any more
        (match pm.ps.next with
        | none => { pm with ps := { pm.ps with next := some lb } }
        | some _ => pm)
      else
        ({ pm with ps := { pm.ps with last := none } } : PM).deleteArtifacts lb.number
    | none => pm
  pm.save

/-- `delete_patch_artifacts_older_than`: every numeric entry below `n` other than the selected
    next boot patch, and every entry whose name is not a number.
    `false` = `read_dir` failed (no `patches/`). -/
def PM.deleteOlderThan (pm : PM) (n : Nat) : PM × Bool :=
  match pm.disk.patches with
  | none => (pm, false)
  | some p =>
    ({ pm with disk := { pm.disk with
        patches := some { arts := p.arts.filter (fun e => ¬ (e.1 < n ∧ some e.1 ≠ pm.ps.next.map (·.number))),
                          junk := [] } } }, true)

/-- `create_dir_all(patches/<n>)` then `rename(file, patches/<n>/dlc.vmcode)`. -/
def Disk.placeArtifact (d : Disk) (n : Nat) (b : Bytes) : Disk :=
  match d.patches with
  | none => { d with patches := some { arts := [(n, .file b)], junk := [] } }
  | some p => { d with patches := some { p with arts := setArt p.arts n (.file b) } }

/-- `add_patch` (the inflated file always exists when this is reached from `update`). -/
def PM.addPatch (pm : PM) (n : Nat) (b : Bytes) (hash : String) (sig : Option String) : PM :=
  let pm : PM := { pm with disk := pm.disk.placeArtifact n b }
  let newPatch : Meta := { number := n, size := b.length, hash := hash, sig := sig }
  let pm : PM :=
    match pm.ps.last, pm.ps.next with
    | some lastBootPatch, some nextBootPatch =>
      let isBooting := pm.ps.booting.map (·.number) = some nextBootPatch.number
      if lastBootPatch.number ≠ nextBootPatch.number ∧ nextBootPatch.number ≠ n ∧ ¬ isBooting
      then pm.deleteArtifacts nextBootPatch.number else pm
    | _, _ => pm
  ({ pm with ps := { pm.ps with next := some newPatch } } : PM).save

/-- `next_boot_patch`: validate-on-read with fallback. Returns the selected number. -/
def PM.nextBootPatch (env : Env) (key : Option String) (pm : PM) : PM × Option Nat :=
  match pm.ps.next with
  | none => (pm, none)
  | some nx =>
    let pm := if validate env key pm.disk nx then pm else pm.tryFallBack env key nx.number
    (pm, pm.ps.next.map (·.number))

/-- `record_boot_start_for_patch` -/
def PM.recordBootStart (pm : PM) (n : Nat) : PM × Bool :=
  match pm.ps.next with
  | none => (pm, false)
  | some nx =>
    if nx.number ≠ n then (pm, false)
    else (({ pm with ps := { pm.ps with booting := some nx } } : PM).save, true)

/-- `record_boot_success` -/
def PM.recordBootSuccess (pm : PM) : PM × Bool :=
  match pm.ps.booting with
  | none => (pm, false)
  | some bp =>
    let pm : PM := { pm with ps := { pm.ps with booting := none, last := some bp } }
    let pm := (pm.deleteOlderThan bp.number).1
    (pm.save, true)

def insertBad (bad : List Nat) (n : Nat) : List Nat := if n ∈ bad then bad else n :: bad

/-- `record_boot_failure_for_patch` -/
def PM.recordBootFailure (env : Env) (key : Option String) (pm : PM) (n : Nat) : PM :=
  let pm : PM := { pm with ps := { pm.ps with booting := none, bad := insertBad pm.ps.bad n } }
  pm.tryFallBack env key n

/-- `is_known_bad_patch` -/
def PM.isKnownBad (pm : PM) (n : Nat) : Bool := decide (n ∈ pm.ps.bad)

/-- `reset`: default state saved, then `remove_dir_all(patches/)` (an error if it is absent). -/
def PM.reset (pm : PM) : PM × Bool :=
  let pm : PM := ({ pm with ps := {} } : PM).save
  match pm.disk.patches with
  | none => (pm, false)
  | some _ => ({ pm with disk := { pm.disk with patches := none } }, true)

end Updater
