/-
  Explicit panic outcomes.

  Lean functions are total, so "no call panics" is stated against a semantics that *can* panic: at
  exactly the expressions of the production build that can panic by themselves (the generated table
  `Gen.panicSites`: today two `expect`s on the config mutex, the `panic!` on a poisoned update lock,
  `channel.unwrap()` under `if channel.is_some()`, and `to_str().unwrap()` on the artifact path in
  `path_to_c_string`), under the condition that makes the Rust expression panic. A panic while a
  mutex is held poisons it.
-/
import UpdaterModel.Model.Ops
import UpdaterModel.Gen.PanicSites

namespace Updater

inductive PanicSite where
  | pathToStr            -- c_api/mod.rs  path_to_c_string   v.to_str().unwrap()
  | configLock           -- config.rs     with_config        .lock().expect(..)
  | configLockMut        -- config.rs     with_config_mut    .lock().expect(..)
  | channelUnwrap        -- updater.rs    update_internal    channel.unwrap()
  | updaterLockPoisoned  -- updater_lock.rs                  panic!("Updater lock poisoned")
deriving DecidableEq, Repr

/-- The sites this model covers, in the shape of the generated table (file, fn, kind, occurrence,
    enclosing guard, statement). The guard and statement texts are what the definitions below mirror. -/
def knownSites : List (String × String × String × Nat × String × String) := [
  ("c_api/mod.rs", "path_to_c_string", "call:unwrap", 1, "match path", "Some(v) => allocate_c_string(v.to_str().unwrap())?,"),
  ("config.rs", "with_config", "call:expect", 1, "", ".expect(\"Failed to acquire updater lock.\");"),
  ("config.rs", "with_config_mut", "call:expect", 1, "", ".expect(\"Failed to acquire updater lock.\");"),
  ("updater.rs", "update_internal", "call:unwrap", 1, "if channel.is_some()", "config.channel = channel.unwrap().to_string();"),
  ("updater_lock.rs", "with_updater_thread_lock", "macro:panic", 1, "match lock | Err(std::sync::TryLockError::Poisoned(e)) =>", "panic!(\"Updater lock poisoned: {e:?}\")")
]

inductive Out (α : Type) where
  | ok (a : α)
  | panic (s : PanicSite)

/-- Poison flags of the two global mutexes. -/
structure Locks where
  cfgPoisoned : Bool := false
  updPoisoned : Bool := false
deriving DecidableEq, Repr

/-- `global_config().lock().expect(..)` -/
def lockConfig (l : Locks) (mutable : Bool) : Out Unit :=
  if l.cfgPoisoned then .panic (if mutable then .configLockMut else .configLock) else .ok ()

/-- `match try_lock() { Ok | WouldBlock => …, Poisoned(e) => panic!(..) }` (the lock is free in the
    sequential semantics) -/
def lockUpdater (l : Locks) : Out Unit :=
  if l.updPoisoned then .panic .updaterLockPoisoned else .ok ()

/-- `if channel.is_some() { config.channel = channel.unwrap().to_string(); }` -/
def applyChannel (cfg : Config) (chan : Option String) : Out Config :=
  if chan.isSome then
    (match chan with
     | some ch => .ok { cfg with channel := ch }
     | none => .panic .channelUnwrap)
  else .ok cfg

/-- `PathBuf::join`: the component is appended after a separator. -/
def joinPath (p : ByteArray) (component : String) : ByteArray := p ++ "/".toByteArray ++ component.toByteArray

/-- OS path (bytes) of the artifact of patch `n`: `storage_dir/patches/<n>/dlc.vmcode`, where the
    storage dir is the `String` obtained from the caller's C string by `CStr::to_str` at init. -/
def artifactPath (storage : String) (n : Nat) : ByteArray :=
  joinPath (joinPath (joinPath storage.toByteArray "patches") (toString n)) "dlc.vmcode"

/-- `path_to_c_string`: `Some(v) => v.to_str().unwrap()`; `to_str` is `None` on invalid UTF-8. -/
def pathToCString (p : Option ByteArray) : Out (Option String) :=
  match p with
  | none => .ok none
  | some b =>
    match String.fromUTF8? b with
    | some s => .ok (some s)
    | none => .panic .pathToStr

/-- Which exported calls go through `with_config` / `with_config_mut`. -/
def Op.locksConfig : Op → Option Bool
  | .init _ => some true
  | .restart | .damage _ => none
  | _ => some false

/-- Entering the config mutex, for the calls that do. -/
def acquireConfig (l : Locks) (op : Op) : Out Unit :=
  match op.locksConfig with
  | some m => lockConfig l m
  | none => .ok ()

/-- One exported call in the panicking semantics. The second component is the poison state after
    the call: a panic while a mutex is held would poison it (none of the sites lies inside a config
    section; `channel.unwrap()` runs under the update lock). -/
def stepP (env : Env) (l : Locks) (w : World) (op : Op) : Out (World × Ret × List NetAct) × Locks :=
  match acquireConfig l op with
  | .panic s => (.panic s, l)
  | .ok () =>
    match op with
    | .update chan sc =>
      (match w.config with
       | none => (.ok (step env w op), l)
       | some cfg =>
         match lockUpdater l with
         | .panic s => (.panic s, l)
         | .ok () =>
           match applyChannel cfg chan with
           | .panic s => (.panic s, { l with updPoisoned := true })
           | .ok _ => (.ok (step env w op), l))
    | .nextP =>
      let r := step env w op
      (match w.config, r.2.1 with
       | some cfg, .path (some n) =>
         (match pathToCString (some (artifactPath cfg.storage n)) with
          | .panic s => (.panic s, l)
          | .ok _ => (.ok r, l))
       | _, _ => (.ok r, l))
    | _ => (.ok (step env w op), l)

/-- A history in the panicking semantics: stops at the first panic. -/
def runP (env : Env) : Locks → World → List Op → Option PanicSite
  | _, _, [] => none
  | l, w, op :: ops =>
    match stepP env l w op with
    | (.panic s, _) => some s
    | (.ok r, l') => runP env l' r.1 ops

end Updater
