/-
  Lock / network action traces of the API calls, and the thread-level transition system.

  `A`/`R`  acquire / release the shared state lock (`with_config`, `with_config_mut`)
  `T`/`U`  try-acquire (never blocks) / leave the update lock (`with_updater_thread_lock`)
  `N`      a network callback on the calling thread
  Background threads spawned by a call only perform network callbacks; they are counted.
  The traces are computed with the same section functions (same branch conditions) as `step`.
-/
import UpdaterModel.Model.Ops

namespace Updater

inductive Act where
  | A | R | T | U | N
deriving DecidableEq, Repr, Inhabited

def sec : List Act := [.A, .R]

/-- actions of `should_install_patch` -/
def shouldInstallActs (cfg : Config) (d : Disk) (n : Nat) : List Act :=
  if (secIsKnownBad cfg d n).2 then sec else sec ++ sec

/-- actions of `check_for_downloadable_update` after the first `with_config` -/
def checkActs (env : Env) (cfg0 : Config) (d : Disk) (resp : Option CheckResp) : List Act :=
  [.N] ++
  match resp with
  | none => []
  | some r =>
    (match r.rolledBack with | some _ => sec | none => []) ++
    (match r.patch with
      | none => []
      | some o => shouldInstallActs cfg0 (rollBackIfNeeded env cfg0 d r.rolledBack) o.number)

/-- actions of `update_internal` after the patch check succeeded; the `Bool` = a download-event
    thread was spawned -/
def afterCheckActs (env : Env) (cfg0 : Config) (base : Option Bytes) (d : Disk) (r : CheckResp) (dl : Option Bytes) :
    List Act × Bool :=
  let d1 := rollBackIfNeeded env cfg0 d r.rolledBack
  let rb := match r.rolledBack with | some _ => sec | none => []
  if ¬ r.available then (rb, false)
  else match r.patch with
    | none => (rb, false)
    | some o =>
      let s := shouldInstall env cfg0 d1 o.number
      match s.2 with
      | .knownBad => (rb ++ sec, false)
      | .alreadyInstalled => (rb ++ sec ++ sec, false)
      | .ok =>
        let i := installStage env cfg0 base s.1 o dl
        (rb ++ sec ++ sec ++ [.N] ++ (if i.2 = .installed then sec else []), decide (i.2 = .installed))

/-- The lock / network actions of one call on the calling thread, and the number of background
    network callbacks it triggers. -/
def lockActs (env : Env) (w : World) : Op → List Act × Nat
  | .init p =>
    match p.yaml, p.libapps with
    | some _, _ :: _ => (match w.config with | some _ => (sec, 0) | none => (sec ++ sec, 0))
    | _, _ => ([], 0)
  | .restart => ([], 0)
  | .damage _ => ([], 0)
  | .start | .failure | .nextN | .nextP | .curN | .auto => (sec, 0)
  | .success =>
    (sec, match w.config with
      | none => 0
      | some cfg => if (secLaunchSuccess env cfg w.disk).2.isSome then 1 else 0)
  | .check _ resp =>
    match w.config with
    | none => (sec, 0)
    | some cfg0 => (sec ++ checkActs env cfg0 w.disk resp, 0)
  | .update _ sc =>
    match w.config with
    | none => ([.T] ++ sec ++ [.U], 0)
    | some cfg0 =>
      let r1 := secCopyEvents cfg0 w.disk
      let d := secClearEvents cfg0 r1.1
      let pre := sec ++ sec ++ List.replicate r1.2.length .N ++ sec ++ [.N]
      match sc.resp with
      | none => ([.T] ++ pre ++ [.U], 0)
      | some r =>
        let a := afterCheckActs env cfg0 (w.base cfg0) d r sc.dl
        ([.T] ++ pre ++ a.1 ++ [.U], if a.2 then 1 else 0)

/-- A second update requested while one is running: `try_lock` fails, nothing else happens. -/
def busyUpdateActs : List Act := [.T, .U]

/-! ### well-formedness of a thread's action list -/

structure LockSt where
  s : Nat := 0          -- depth of the state lock held by this thread
  u : Bool := false     -- holds the update lock
deriving DecidableEq, Repr

/-- One action; `none` = forbidden (network under the state lock, re-entry, update lock taken while
    holding the state lock, unbalanced release). -/
def LockSt.act (st : LockSt) : Act → Option LockSt
  | .A => if st.s = 0 then some { st with s := 1 } else none
  | .R => if st.s = 1 then some { st with s := 0 } else none
  | .N => if st.s = 0 then some st else none
  | .T => if st.s = 0 ∧ st.u = false then some { st with u := true } else none
  | .U => if st.s = 0 ∧ st.u = true then some { st with u := false } else none

def LockSt.run (st : LockSt) : List Act → Option LockSt
  | [] => some st
  | a :: l => match st.act a with | none => none | some st' => st'.run l

/-- The whole call is well-formed: every step allowed, everything released at the end. -/
def wellFormed (l : List Act) : Bool := ({} : LockSt).run l == some {}

end Updater
