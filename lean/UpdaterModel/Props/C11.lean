/-
  C11  Lifecycle guarantees survive every interleaving with a concurrent update.

  When an update runs concurrently with launch reports, queries and checks issued from other
  threads, every interleaving (at the granularity of state-lock acquisitions) ends in a state that
  satisfies C01–C03: no interleaving lets an update install, or leave selected, a patch whose boot
  failure was reported before the install completed; none loses the last good patch; none hands
  out an artifact that is not intact.
-/
import UpdaterModel.Model.Interleave
import UpdaterModel.Props.C03

namespace Updater

/-! ### the sequential model is the uninterrupted run of the section machine -/

theorem urun_done (env cfg base sc) (k : Nat) (out : UpdateOut) (d : Disk) :
    urun env cfg base sc k (.done out) d = (.done out, d) := by
  induction k with
  | zero => rfl
  | succ k ih => simp only [urun, ustep]; exact ih

theorem crun_done (env cfg) (k : Nat) (b : Bool) (d : Disk) : crun env cfg k (.done b) d = (.done b, d) := by
  induction k with
  | zero => rfl
  | succ k ih => simp only [crun, cstep]; exact ih

theorem secNextBootPatch_bad (env : Env) (c : Config) (d : Disk) (hst : Settled d c.version) :
    (loadPatchesState (secNextBootPatch env c d).1).bad = (loadPatchesState d).bad := by
  obtain ⟨s, hs, hv⟩ := hst
  simp only [secNextBootPatch, loadOrNew_settled d _ s hs hv]
  rw [nextBootPatch_coherent _ _ _ (PM.new_coherent d)]
  unfold PM.nextBootPatch
  cases (PM.new d).ps.next with
  | none => rfl
  | some nx =>
    simp only
    split
    · rfl
    · rw [tryFallBack_ps, fallBackPS_bad]; rfl

/-- Run back to back, the ban re-check of the install section never fires. -/
theorem installChecked_seq (env : Env) (c : Config) (d : Disk) (o : Offer) (out : Bytes) (hst : Settled d c.version)
    (hkb : (secIsKnownBad c d o.number).2 = false) :
    secInstallChecked c (secNextBootPatch env c d).1 o out = (secInstall c (secNextBootPatch env c d).1 o out, .installed) := by
  have h1 := secNextBootPatch_settled env c d hst
  unfold secInstallChecked
  rw [secIsKnownBad_eq c _ o.number h1]
  rw [secIsKnownBad_eq c d o.number hst] at hkb
  simp only [secNextBootPatch_bad env c d hst] at hkb ⊢
  simp only [hkb]
  simp

/-! small-step equations -/

theorem urun_succ (env cfg base sc) (k : Nat) (pc : UPc) (d : Disk) :
    urun env cfg base sc (k + 1) pc d = urun env cfg base sc k (ustep env cfg base sc pc d).1 (ustep env cfg base sc pc d).2 := rfl

theorem urun_mono (env cfg base sc) (k : Nat) (pc : UPc) (d : Disk) (out : UpdateOut) (d' : Disk)
    (h : urun env cfg base sc k pc d = (.done out, d')) : urun env cfg base sc (k + 1) pc d = (.done out, d') := by
  induction k generalizing pc d with
  | zero =>
    simp only [urun] at h
    obtain ⟨rfl, rfl⟩ := Prod.mk.inj h
    rfl
  | succ k ih => rw [urun_succ]; exact ih _ _ (by rw [← urun_succ]; exact h)

theorem crun_succ (env cfg) (k : Nat) (pc : CPc) (d : Disk) :
    crun env cfg (k + 1) pc d = crun env cfg k (cstep env cfg pc d).1 (cstep env cfg pc d).2 := rfl

theorem crun_mono (env cfg) (k : Nat) (pc : CPc) (d : Disk) (b : Bool) (d' : Disk)
    (h : crun env cfg k pc d = (.done b, d')) : crun env cfg (k + 1) pc d = (.done b, d') := by
  induction k generalizing pc d with
  | zero =>
    simp only [crun] at h
    obtain ⟨rfl, rfl⟩ := Prod.mk.inj h
    rfl
  | succ k ih => rw [crun_succ]; exact ih _ _ (by rw [← crun_succ]; exact h)

theorem shouldInstall_bad (env : Env) (c : Config) (d : Disk) (n : Nat) (hst : Settled d c.version)
    (hb : n ∈ (loadPatchesState d).bad) : shouldInstall env c d n = (d, .knownBad) := by
  unfold shouldInstall; rw [secIsKnownBad_eq c d n hst]; simp [hb]

theorem shouldInstall_not_bad (env : Env) (c : Config) (d : Disk) (n : Nat) (hst : Settled d c.version)
    (hb : n ∉ (loadPatchesState d).bad) :
    shouldInstall env c d n =
      (if (secNextBootPatch env c d).2 = some n then ((secNextBootPatch env c d).1, .alreadyInstalled)
       else ((secNextBootPatch env c d).1, .ok)) := by
  unfold shouldInstall; rw [secIsKnownBad_eq c d n hst]; simp [hb]

/-- Download, inflate, hash and signature gates, then the install section: `installStage`. -/
theorem urun_installStage (env : Env) (c : Config) (base : Option Bytes) (sc : UpdateScript) (d : Disk) (o : Offer)
    (hchk : ∀ out, secInstallChecked c d o out = (secInstall c d o out, .installed)) :
    urun env c base sc 1 (preInstallPc env c base o sc.dl) d =
      (.done (installStage env c base d o sc.dl).2, (installStage env c base d o sc.dl).1) := by
  unfold preInstallPc installStage
  cases sc.dl with
  | none => rfl
  | some stream =>
    cases base with
    | none => rfl
    | some bs =>
      simp only
      cases bipatchDecode stream bs with
      | error e => rfl
      | ok out =>
        simp only
        by_cases hh : checkHash out o.hash = true
        · by_cases hs : signatureOk env c.key o.sig out = true
          · simp only [hh, hs, not_true_eq_false, if_false]
            rw [urun_succ]
            simp only [ustep, hchk out]
            rfl
          · simp only [hh, hs, not_true_eq_false, not_false_eq_true, if_false, if_true]; rfl
        · simp only [hh, not_false_eq_true, if_true]; rfl

/-- From the point after the rollbacks, the machine computes `afterCheck`. -/
theorem urun_afterCheck (env : Env) (c : Config) (base : Option Bytes) (sc : UpdateScript) (d : Disk) (r : CheckResp)
    (hst : Settled d c.version) :
    urun env c base sc 3 (afterRollbackPc r) (rollBackIfNeeded env c d r.rolledBack) =
      (.done (afterCheck env c base d r sc.dl).2.1, (afterCheck env c base d r sc.dl).1) := by
  have h2 := rollBackIfNeeded_settled env c d r.rolledBack hst
  unfold afterCheck
  simp only
  generalize rollBackIfNeeded env c d r.rolledBack = d2 at h2 ⊢
  by_cases ha : r.available = true
  · cases hp : r.patch with
    | none =>
      have : afterRollbackPc r = .done .errBadResponse := by simp [afterRollbackPc, ha, hp]
      rw [this, urun_done]; simp [ha]
    | some o =>
      have : afterRollbackPc r = .knownBad o := by simp [afterRollbackPc, ha, hp]
      rw [this]
      simp only [ha, not_true_eq_false, if_false]
      by_cases hb : o.number ∈ (loadPatchesState d2).bad
      · rw [shouldInstall_bad env c d2 o.number h2 hb]
        rw [urun_succ]
        simp only [ustep, secIsKnownBad_eq c d2 o.number h2, hb, decide_true, if_true]
        exact urun_done _ _ _ _ _ _ _
      · rw [shouldInstall_not_bad env c d2 o.number h2 hb]
        rw [urun_succ]
        simp only [ustep, secIsKnownBad_eq c d2 o.number h2, hb, decide_false, Bool.false_eq_true, if_false]
        rw [urun_succ]
        simp only [ustep]
        by_cases hn : (secNextBootPatch env c d2).2 = some o.number
        · simp only [hn, if_true]; rfl
        · simp only [hn, if_false]
          have hkb : (secIsKnownBad c d2 o.number).2 = false := by
            rw [secIsKnownBad_eq c d2 o.number h2]; simp [hb]
          exact urun_installStage env c base sc _ o (fun out => installChecked_seq env c d2 o out h2 hkb)
  · have : afterRollbackPc r = .done .noUpdate := by simp [afterRollbackPc, ha]
    rw [this, urun_done]; simp [ha]

/-- **The sequential model of `update` is the section machine run without interruption** — in
    particular the ban re-check inside the install section is dead code sequentially, which is why the
    sequential model (and every sequential history of the real library) does not show it. -/
theorem urun_eq_updateCore (env : Env) (c : Config) (base : Option Bytes) (sc : UpdateScript) (d : Disk)
    (hst : Settled d c.version) :
    urun env c base sc 7 .copyCfg d =
      (.done (updateCore env c base d sc).2.1, (updateCore env c base d sc).1) := by
  have h1 : Settled (secClearEvents c (secCopyEvents c d).1) c.version := by
    rw [secCopyEvents_disk c d hst]; exact secClearEvents_settled c d hst
  rw [urun_succ, urun_succ, urun_succ]
  simp only [ustep]
  unfold updateCore afterClearPc
  simp only
  cases hresp : sc.resp with
  | none => exact urun_done _ _ _ _ _ _ _
  | some r =>
    simp only
    cases hrb : r.rolledBack with
    | none =>
      have := urun_afterCheck env c base sc _ r h1
      rw [hrb] at this
      simp only [rollBackIfNeeded] at this
      exact urun_mono _ _ _ _ _ _ _ _ _ this
    | some ns =>
      simp only
      rw [urun_succ]
      simp only [ustep]
      have := urun_afterCheck env c base sc _ r h1
      rw [hrb] at this
      rw [hrb]
      exact this

/-- The same for a patch check of the other thread. -/
theorem crun_eq_checkCore (env : Env) (c : Config) (d : Disk) (resp : Option CheckResp) (hst : Settled d c.version) :
    crun env c 3 (checkAfterCfgPc resp) d =
      (.done (checkCore env c d resp).2, (checkCore env c d resp).1) := by
  unfold checkCore checkAfterCfgPc
  cases resp with
  | none => exact crun_done _ _ _ _ _
  | some r =>
    simp only
    have tail : ∀ dd, Settled dd c.version →
        crun env c 2 (checkAfterRollbackPc r) dd =
          (match r.patch with
           | none => (CPc.done false, dd)
           | some o => (CPc.done (decide ((shouldInstall env c dd o.number).2 = .ok)), (shouldInstall env c dd o.number).1)) := by
      intro dd hdd
      unfold checkAfterRollbackPc
      cases r.patch with
      | none => exact crun_done _ _ _ _ _
      | some o =>
        simp only
        rw [crun_succ]
        by_cases hb : o.number ∈ (loadPatchesState dd).bad
        · rw [shouldInstall_bad env c dd o.number hdd hb]
          simp only [cstep, secIsKnownBad_eq c dd o.number hdd, hb, decide_true, if_true]
          rw [crun_done]; simp
        · rw [shouldInstall_not_bad env c dd o.number hdd hb]
          simp only [cstep, secIsKnownBad_eq c dd o.number hdd, hb, decide_false, Bool.false_eq_true, if_false]
          rw [crun_succ]
          simp only [cstep, crun]
          by_cases hn : (secNextBootPatch env c dd).2 = some o.number <;> simp [hn]
    cases hrb : r.rolledBack with
    | none =>
      simp only [rollBackIfNeeded]
      have ht := tail d hst
      cases hp : r.patch with
      | none => simp only [hp] at ht ⊢; exact crun_mono _ _ _ _ _ _ _ ht
      | some o => simp only [hp] at ht ⊢; exact crun_mono _ _ _ _ _ _ _ ht
    | some ns =>
      simp only
      rw [crun_succ]
      simp only [cstep]
      have h2 := rollBackIfNeeded_settled env c d (some ns) hst
      rw [hrb, tail _ h2]
      cases r.patch <;> rfl

end Updater

namespace Updater

/-! ### every interleaving -/

/-- The storage directory as an outside observer sees it. -/
def viewOfDisk (d : Disk) : View := ({ disk := d, config := none, libs := [] } : World).view .unit []

theorem shows_viewOfDisk (d : Disk) (c : Option Config) (l : List (String × Bytes)) :
    ShowsDisk { disk := d, config := c, libs := l } (viewOfDisk d) := ⟨rfl, rfl, rfl, rfl, rfl⟩

theorem viewOfDisk_ps (d : Disk) : (viewOfDisk d).ps = loadPatchesState d := rfl

theorem viewOfDisk_fileOf (d : Disk) (n : Nat) (b : Bytes) : (viewOfDisk d).fileOf n = some b ↔ d.art n = some (.file b) :=
  fileOf_of_shows (shows_viewOfDisk d none []) n b

/-- The observations of an episode of the model. -/
def grantViews (env : Env) (cfg : Config) (libs : List (String × Bytes)) (chan : Option String) (sc : UpdateScript)
    (cw : CW) (ws : List Who) : List (Who × List Ret × View) :=
  (runGrants env cfg libs chan sc cw ws).map fun x => (x.1, x.2.1, viewOfDisk x.2.2)

theorem withChannel_version (cfg : Config) (chan : Option String) : (withChannel cfg chan).version = cfg.version := by
  cases chan <;> rfl
theorem withChannel_key (cfg : Config) (chan : Option String) : (withChannel cfg chan).key = cfg.key := by
  cases chan <;> rfl

/-- The data a program counter carries comes from the episode's scripts. -/
def UPcOK (sc : UpdateScript) : UPc → Prop
  | .rollback r => sc.resp = some r
  | .knownBad o | .nextBoot o | .install o _ => sc.resp.bind (·.patch) = some o
  | _ => True

def CPcOK (bops0 : List Op) : CPc → Prop
  | .rollback r => ∃ op ∈ bops0, op.respOf = some r
  | .copyCfg _ => False      -- the first section of a check is consumed when the call starts
  | _ => True

structure Inv11 (env : Env) (cfg : Config) (sc : UpdateScript) (bops0 : List Op) (g : G11) (cw : CW) : Prop where
  settled : Settled cw.disk cfg.version
  ban : g.armed = true → BanD cw.disk g.failed
  good : ∀ n b, g.good = some (n, b) →
    GoodD env cfg.key cw.disk n b ∧ n ∉ episodeRolled sc bops0 ∧ (sc.resp.bind (·.patch)).map (·.number) ≠ some n
  upc : UPcOK sc cw.upc
  sync : (cw.bchk = none ∧ g.inCheck = false ∧ g.bops = cw.bq) ∨
    (∃ pc op, cw.bchk = some pc ∧ g.inCheck = true ∧ g.bops = op :: cw.bq ∧ CPcOK bops0 pc ∧ (∀ b, pc ≠ .done b))
  bq : ∀ op ∈ cw.bq, op ∈ bops0 ∧ op.episodeOk = true
  exempt : ∀ n, n ∉ g.exempt → n ∉ episodeRolled sc bops0 ∧ (sc.resp.bind (·.patch)).map (·.number) ≠ some n

theorem mem_episodeRolled_upd (sc : UpdateScript) (bops : List Op) (r : CheckResp) (n : Nat)
    (h : sc.resp = some r) (hn : n ∈ r.rolledBack.getD []) : n ∈ episodeRolled sc bops := by
  unfold episodeRolled; rw [h]; exact List.mem_append_left _ hn

theorem mem_episodeRolled_b (sc : UpdateScript) (bops : List Op) (op : Op) (r : CheckResp) (n : Nat)
    (hop : op ∈ bops) (h : op.respOf = some r) (hn : n ∈ r.rolledBack.getD []) : n ∈ episodeRolled sc bops := by
  unfold episodeRolled
  apply List.mem_append_right
  rw [List.mem_flatMap]
  exact ⟨op, hop, by rw [h]; exact hn⟩

/-- What the checks need about the state after a grant. -/
theorem checks11_ok (env : Env) (key : Option String) (sc : UpdateScript) (g : G11) (w : Who) (rets : List Ret)
    (pre : View) (d' : Disk)
    (hban : (g.next env key w rets pre).armed = true → BanD d' (g.next env key w rets pre).failed)
    (hgood : ∀ n b, (g.next env key w rets pre).good = some (n, b) → d'.art n = some (.file b))
    (hinst : ∀ o, w = .A → rets = [.upd .installed] → sc.resp.bind (·.patch) = some o →
      (g.next env key w rets pre).armed = true → o.number ∉ (g.next env key w rets pre).failed)
    (hq : ∀ r n, (g.bStarts w = some .nextN ∨ g.bStarts w = some .nextP) → rets = [r] → retNumber r = some n →
      ∃ m, (loadPatchesState d').next = some m ∧ m.number = n ∧ validate env key d' m = true) :
    firstFail (checks11 env key sc g w rets pre (viewOfDisk d')) = none := by
  unfold checks11
  simp only
  rw [firstFail_append, firstFail_append, firstFail_append]
  refine ⟨⟨⟨?_, ?_⟩, ?_⟩, ?_⟩
  · -- recorded failures are in no slot and stay banned
    split
    · rename_i harm
      obtain ⟨hb, hn, hl, hbo⟩ := hban harm
      rw [firstFail_none_iff]
      intro c hc
      simp only [List.mem_flatMap, List.mem_cons, List.mem_nil_iff, or_false] at hc
      obtain ⟨n, hnF, hc⟩ := hc
      rcases hc with rfl | rfl
      · simp only [Bool.not_eq_true', List.contains_eq_mem, decide_eq_false_iff_not]
        intro hm
        simp only [slotNums, viewOfDisk_ps, List.mem_append] at hm
        rcases hm with (hm | hm) | hm
        · cases hx : (loadPatchesState d').next with
          | none => simp [hx] at hm
          | some x => simp [hx] at hm; exact hn x hx (by rw [← hm]; exact hnF)
        · cases hx : (loadPatchesState d').last with
          | none => simp [hx] at hm
          | some x => simp [hx] at hm; exact hl x hx (by rw [← hm]; exact hnF)
        · cases hx : (loadPatchesState d').booting with
          | none => simp [hx] at hm
          | some x => simp [hx] at hm; exact hbo x hx (by rw [← hm]; exact hnF)
      · simp only [viewOfDisk_ps, List.contains_eq_mem, decide_eq_true_eq]
        exact hb n hnF
    · rfl
  · -- an install of a patch whose failure was reported
    cases w with
    | B => rfl
    | A =>
      cases rets with
      | nil => rfl
      | cons r rest =>
        cases rest with
        | cons r2 rest2 => cases r <;> first | rfl | (rename_i o; cases o <;> rfl)
        | nil =>
          cases r with
          | upd out =>
            cases out <;> try rfl
            case installed =>
              cases hp : sc.resp.bind (·.patch) with
              | none => rfl
              | some o =>
                simp only [firstFail_none_iff, List.mem_cons, List.mem_nil_iff, or_false]
                rintro c rfl
                simp only [Bool.or_eq_true, Bool.not_eq_true', List.contains_eq_mem, decide_eq_false_iff_not]
                cases harm : (g.next env key .A [.upd .installed] pre).armed with
                | false => right; rfl
                | true => left; exact hinst o rfl rfl hp harm
          | unit => rfl
          | bool b => rfl
          | num n => rfl
          | path p => rfl
  · -- the last good artifact
    cases hg : (g.next env key w rets pre).good with
    | none => rfl
    | some nb =>
      obtain ⟨n, b⟩ := nb
      simp only [firstFail_none_iff, List.mem_cons, List.mem_nil_iff, or_false]
      rintro c rfl
      simp only [decide_eq_true_eq]
      exact (viewOfDisk_fileOf d' n b).2 (hgood n b hg)
  · -- queries hand out only an intact selected patch
    have query : ∀ r, (g.bStarts w = some .nextN ∨ g.bStarts w = some .nextP) → rets = [r] →
        firstFail (match retNumber r with
          | some n =>
            [ ((viewOfDisk d').nextNum = some n && (match (viewOfDisk d').ps.next with | some m => (viewOfDisk d').valid env key m | none => false),
               s!"C11: a query handed out patch {n}, which is not an intact selected patch at that moment") ]
          | none => []) = none := by
      intro r hs hr
      cases hrn : retNumber r with
      | none => rfl
      | some n =>
        obtain ⟨m, hm, hmn, hv⟩ := hq r n hs hr hrn
        simp only [firstFail_none_iff, List.mem_cons, List.mem_nil_iff, or_false]
        rintro c rfl
        simp only [Bool.and_eq_true, decide_eq_true_eq, View.nextNum, viewOfDisk_ps, hm, Option.map, hmn]
        exact ⟨trivial, by rw [valid_of_shows env key (shows_viewOfDisk d' none [])]; exact hv⟩
    cases hbs : g.bStarts w with
    | none => rfl
    | some op =>
      cases op <;> try rfl
      case nextN =>
        cases rets with
        | nil => rfl
        | cons r rest => cases rest with
          | nil => exact query r (Or.inl hbs) rfl
          | cons _ _ => rfl
      case nextP =>
        cases rets with
        | nil => rfl
        | cons r rest => cases rest with
          | nil => exact query r (Or.inr hbs) rfl
          | cons _ _ => rfl

end Updater

namespace Updater

theorem G11_next_A (env : Env) (key : Option String) (g : G11) (rets : List Ret) (pre : View) :
    g.next env key .A rets pre = g := by
  obtain ⟨failed, good, bops, inCheck, armed, exempt⟩ := g
  simp only [G11.next, G11.bStarts]
  cases good with
  | none => rfl
  | some nb => rfl

theorem G11_next_exempt (env : Env) (key : Option String) (g : G11) (w : Who) (rets : List Ret) (pre : View) :
    (g.next env key w rets pre).exempt = g.exempt := by
  unfold G11.next
  cases w with
  | A => rfl
  | B => simp only []; split <;> (try split) <;> rfl

theorem norm_id (cw : CW) (h : ∀ b, cw.bchk ≠ some (.done b)) : cw.norm = cw := by
  unfold CW.norm
  cases hb : cw.bchk with
  | none => rfl
  | some pc => cases pc <;> first | rfl | exact absurd hb (h _)

theorem Inv11.nodone {env cfg sc bops0 g cw} (h : Inv11 env cfg sc bops0 g cw) : ∀ b, cw.bchk ≠ some (.done b) := by
  intro b hb
  rcases h.sync with ⟨hn, _, _⟩ | ⟨pc, op, hp, _, _, _, hnd⟩
  · rw [hn] at hb; cases hb
  · rw [hp] at hb; cases hb; exact hnd b rfl

/-- What one grant has to establish. -/
def Step11Goal (env : Env) (cfg : Config) (libs : List (String × Bytes)) (chan : Option String) (sc : UpdateScript)
    (bops0 : List Op) (g : G11) (cw : CW) (w : Who) : Prop :=
  firstFail (checks11 env cfg.key sc g w (grant env cfg libs chan sc cw w).2 (viewOfDisk cw.disk)
    (viewOfDisk (grant env cfg libs chan sc cw w).1.norm.disk)) = none ∧
  Inv11 env cfg sc bops0 (g.next env cfg.key w (grant env cfg libs chan sc cw w).2 (viewOfDisk cw.disk))
    (grant env cfg libs chan sc cw w).1.norm

/-- A grant to the update thread. -/
theorem step11_A (env : Env) (cfg : Config) (libs : List (String × Bytes)) (chan : Option String) (sc : UpdateScript)
    (bops0 : List Op) (g : G11) (cw : CW) (hinv : Inv11 env cfg sc bops0 g cw) :
    firstFail (checks11 env cfg.key sc g .A (grant env cfg libs chan sc cw .A).2 (viewOfDisk cw.disk)
      (viewOfDisk (grant env cfg libs chan sc cw .A).1.norm.disk)) = none ∧
    Inv11 env cfg sc bops0 (g.next env cfg.key .A (grant env cfg libs chan sc cw .A).2 (viewOfDisk cw.disk))
      (grant env cfg libs chan sc cw .A).1.norm := by
  have hv := withChannel_version cfg chan
  have hk := withChannel_key cfg chan
  have hst0 : Settled cw.disk (withChannel cfg chan).version := by rw [hv]; exact hinv.settled
  -- what remains to be shown once the grant is computed
  have finish : ∀ (pc' : UPc) (d' : Disk) (rets : List Ret),
      grant env cfg libs chan sc cw .A = ({ cw with upc := pc', disk := d' }, rets) →
      Settled d' (withChannel cfg chan).version →
      (g.armed = true → BanD d' g.failed) →
      (∀ n b, g.good = some (n, b) → GoodD env (withChannel cfg chan).key d' n b) →
      UPcOK sc pc' →
      (∀ o, rets = [.upd .installed] → sc.resp.bind (·.patch) = some o → g.armed = true → o.number ∉ g.failed) →
      firstFail (checks11 env cfg.key sc g .A (grant env cfg libs chan sc cw .A).2 (viewOfDisk cw.disk)
        (viewOfDisk (grant env cfg libs chan sc cw .A).1.norm.disk)) = none ∧
      Inv11 env cfg sc bops0 (g.next env cfg.key .A (grant env cfg libs chan sc cw .A).2 (viewOfDisk cw.disk))
        (grant env cfg libs chan sc cw .A).1.norm := by
    intro pc' d' rets hgr hs hb hg hu hi
    rw [hgr]
    have hn : ({ cw with upc := pc', disk := d' } : CW).norm = { cw with upc := pc', disk := d' } :=
      norm_id _ hinv.nodone
    simp only [hn, G11_next_A]
    rw [hk] at hg
    refine ⟨?_, ?_⟩
    · apply checks11_ok env cfg.key sc g .A rets (viewOfDisk cw.disk) d'
      · rw [G11_next_A]; exact hb
      · rw [G11_next_A]; intro n b h; exact (hg n b h).1
      · rw [G11_next_A]; intro o _ hr hp ha; exact hi o hr hp ha
      · intro r n hs'; simp [G11.bStarts] at hs'
    · exact ⟨by rw [← hv]; exact hs, hb, fun n b h => ⟨hg n b h, (hinv.good n b h).2⟩, hu, hinv.sync, hinv.bq, hinv.exempt⟩
  have hgoodk : ∀ n b, g.good = some (n, b) → GoodD env (withChannel cfg chan).key cw.disk n b := by
    intro n b h; rw [hk]; exact (hinv.good n b h).1
  have noinst : ∀ (rets : List Ret) (out : UpdateOut), out ≠ .installed → rets = [.upd out] ∨ rets = [] →
      ∀ o, rets = [.upd .installed] → sc.resp.bind (·.patch) = some o → g.armed = true → o.number ∉ g.failed := by
    intro rets out hne hr o h
    rcases hr with hr | hr
    · rw [hr] at h; simp only [List.cons.injEq, Ret.upd.injEq, and_true] at h; exact absurd h hne
    · rw [hr] at h; cases h
  cases hpc : cw.upc with
  | done out =>
    refine finish (.done out) cw.disk [] ?_ hst0 hinv.ban hgoodk trivial (by intro o h; cases h)
    simp only [grant, hpc]
    congr 1
    cases cw; simp_all
  | copyCfg =>
    refine finish .copyEvents cw.disk [] (by simp [grant, hpc, ustep, UPc.rets]) hst0 hinv.ban hgoodk trivial (by intro o h; cases h)
  | copyEvents =>
    refine finish .clearEvents cw.disk [] ?_ hst0 hinv.ban hgoodk trivial (by intro o h; cases h)
    simp [grant, hpc, ustep, UPc.rets, secCopyEvents_disk _ _ hst0]
  | clearEvents =>
    have hu : UPcOK sc (afterClearPc sc) := by
      unfold afterClearPc
      cases hr : sc.resp with
      | none => trivial
      | some r =>
        simp only
        cases hrb : r.rolledBack with
        | some ns => exact hr
        | none =>
          simp only [afterRollbackPc]
          split
          · trivial
          · cases hp : r.patch with
            | none => trivial
            | some o => simp [UPcOK, hr, hp]
    cases hdone : afterClearPc sc with
    | done out =>
      have hne : out ≠ .installed := by
        intro e; subst e
        unfold afterClearPc at hdone
        cases hr : sc.resp with
        | none => simp [hr] at hdone
        | some r =>
          simp only [hr] at hdone
          cases hrb : r.rolledBack with
          | some ns => simp [hrb] at hdone
          | none =>
            simp only [hrb, afterRollbackPc] at hdone
            split at hdone
            · cases hdone
            · cases hp : r.patch <;> simp [hp] at hdone
      refine finish (.done out) (secClearEvents (withChannel cfg chan) cw.disk) [.upd out] (by simp [grant, hpc, ustep, UPc.rets, hdone])
        (secClearEvents_settled _ _ hst0) (fun ha => secClearEvents_ban _ _ _ hst0 (hinv.ban ha))
        (fun n b h => secClearEvents_good env _ _ n b hst0 (hgoodk n b h)) trivial (noinst _ out hne (Or.inl rfl))
    | copyCfg | copyEvents | clearEvents =>
      exfalso; unfold afterClearPc at hdone
      cases hr : sc.resp with
      | none => simp [hr] at hdone
      | some r =>
        simp only [hr] at hdone
        cases hrb : r.rolledBack with
        | some ns => simp [hrb] at hdone
        | none =>
          simp only [hrb, afterRollbackPc] at hdone
          split at hdone
          · cases hdone
          · cases hp : r.patch <;> simp [hp] at hdone
    | rollback r' =>
      refine finish (.rollback r') (secClearEvents (withChannel cfg chan) cw.disk) [] (by simp [grant, hpc, ustep, UPc.rets, hdone])
        (secClearEvents_settled _ _ hst0) (fun ha => secClearEvents_ban _ _ _ hst0 (hinv.ban ha))
        (fun n b h => secClearEvents_good env _ _ n b hst0 (hgoodk n b h)) (by rw [← hdone]; exact hu) (by intro o h; cases h)
    | knownBad o' =>
      refine finish (.knownBad o') (secClearEvents (withChannel cfg chan) cw.disk) [] (by simp [grant, hpc, ustep, UPc.rets, hdone])
        (secClearEvents_settled _ _ hst0) (fun ha => secClearEvents_ban _ _ _ hst0 (hinv.ban ha))
        (fun n b h => secClearEvents_good env _ _ n b hst0 (hgoodk n b h)) (by rw [← hdone]; exact hu) (by intro o h; cases h)
    | nextBoot o' =>
      refine finish (.nextBoot o') (secClearEvents (withChannel cfg chan) cw.disk) [] (by simp [grant, hpc, ustep, UPc.rets, hdone])
        (secClearEvents_settled _ _ hst0) (fun ha => secClearEvents_ban _ _ _ hst0 (hinv.ban ha))
        (fun n b h => secClearEvents_good env _ _ n b hst0 (hgoodk n b h)) (by rw [← hdone]; exact hu) (by intro o h; cases h)
    | install o' out' =>
      refine finish (.install o' out') (secClearEvents (withChannel cfg chan) cw.disk) [] (by simp [grant, hpc, ustep, UPc.rets, hdone])
        (secClearEvents_settled _ _ hst0) (fun ha => secClearEvents_ban _ _ _ hst0 (hinv.ban ha))
        (fun n b h => secClearEvents_good env _ _ n b hst0 (hgoodk n b h)) (by rw [← hdone]; exact hu) (by intro o h; cases h)
  | rollback r =>
    have hr : sc.resp = some r := by have := hinv.upc; rw [hpc] at this; exact this
    have hu : UPcOK sc (afterRollbackPc r) := by
      unfold afterRollbackPc
      split
      · trivial
      · cases hp : r.patch with
        | none => trivial
        | some o => simp [UPcOK, hr, hp]
    have hgd : ∀ n b, g.good = some (n, b) →
        GoodD env (withChannel cfg chan).key (rollBackIfNeeded env (withChannel cfg chan) cw.disk r.rolledBack) n b := by
      intro n b h
      refine rollBackIfNeeded_good env _ _ n b r.rolledBack hst0 ?_ (hgoodk n b h)
      intro hm; exact (hinv.good n b h).2.1 (mem_episodeRolled_upd sc bops0 r n hr hm)
    have common : ∀ pc', afterRollbackPc r = pc' → (∀ out, pc' = .done out → out ≠ .installed) → _ :=
      fun pc' hpc' hne => finish pc' (rollBackIfNeeded env (withChannel cfg chan) cw.disk r.rolledBack)
        pc'.rets
        (by simp only [grant, hpc, ustep, hpc'])
        (rollBackIfNeeded_settled env _ _ r.rolledBack hst0)
        (fun ha => rollBackIfNeeded_ban env _ _ _ r.rolledBack hst0 (hinv.ban ha)) hgd (by rw [← hpc']; exact hu)
        (by
          cases pc' with
          | done out => exact noinst _ out (hne out rfl) (Or.inl rfl)
          | _ => intro o h; cases h)
    refine common (afterRollbackPc r) rfl ?_
    intro out hout
    unfold afterRollbackPc at hout
    split at hout
    · cases hout; simp
    · cases hp : r.patch <;> simp [hp] at hout
      subst hout; simp
  | knownBad o =>
    have ho : sc.resp.bind (·.patch) = some o := by have := hinv.upc; rw [hpc] at this; exact this
    have he := secIsKnownBad_eq (withChannel cfg chan) cw.disk o.number hst0
    by_cases hb : o.number ∈ (loadPatchesState cw.disk).bad
    · refine finish (.done .badPatch) cw.disk [.upd .badPatch] (by simp [grant, hpc, ustep, UPc.rets, he, hb])
        hst0 hinv.ban hgoodk trivial (noinst _ .badPatch (by simp) (Or.inl rfl))
    · refine finish (.nextBoot o) cw.disk [] (by simp [grant, hpc, ustep, UPc.rets, he, hb])
        hst0 hinv.ban hgoodk ho (by intro o h; cases h)
  | nextBoot o =>
    have ho : sc.resp.bind (·.patch) = some o := by have := hinv.upc; rw [hpc] at this; exact this
    have hs' := secNextBootPatch_settled env (withChannel cfg chan) cw.disk hst0
    have hb' := fun ha => (secNextBootPatch_ban env (withChannel cfg chan) cw.disk _ hst0 (hinv.ban ha)).1
    have hg' : ∀ n b, g.good = some (n, b) → GoodD env (withChannel cfg chan).key (secNextBootPatch env (withChannel cfg chan) cw.disk).1 n b :=
      fun n b h => secNextBootPatch_good env _ _ n b hst0 (hgoodk n b h)
    by_cases hn : (secNextBootPatch env (withChannel cfg chan) cw.disk).2 = some o.number
    · refine finish (.done .noUpdate) _ [.upd .noUpdate] (by simp [grant, hpc, ustep, UPc.rets, hn]) hs' hb' hg' trivial
        (noinst _ .noUpdate (by simp) (Or.inl rfl))
    · have hu : UPcOK sc (preInstallPc env (withChannel cfg chan) (libs.lookup cfg.libapp) o sc.dl) := by
        unfold preInstallPc
        cases sc.dl with
        | none => trivial
        | some stream =>
          cases libs.lookup cfg.libapp with
          | none => trivial
          | some bs =>
            simp only
            cases bipatchDecode stream bs with
            | error e => trivial
            | ok out => simp only; split <;> (try split) <;> first | trivial | exact ho
      have hne : ∀ out, preInstallPc env (withChannel cfg chan) (libs.lookup cfg.libapp) o sc.dl = .done out → out ≠ .installed := by
        intro out hout
        unfold preInstallPc at hout
        cases hdl : sc.dl with
        | none => simp [hdl] at hout; subst hout; simp
        | some stream =>
          cases hbs : libs.lookup cfg.libapp with
          | none => simp [hdl, hbs] at hout; subst hout; simp
          | some bs =>
            simp only [hdl, hbs] at hout
            cases hdec : bipatchDecode stream bs with
            | error e => simp [hdec] at hout; subst hout; simp
            | ok out' =>
              simp only [hdec] at hout
              split at hout
              · cases hout; simp
              · split at hout
                · cases hout; simp
                · cases hout
      generalize hpp : preInstallPc env (withChannel cfg chan) (libs.lookup cfg.libapp) o sc.dl = pc' at hu hne
      refine finish pc' _ pc'.rets
        (by simp only [grant, hpc, ustep, hn, if_false, hpp]) hs' hb' hg' hu ?_
      cases pc' with
      | done out => exact noinst _ out (hne out rfl) (Or.inl rfl)
      | _ => intro o h; cases h
  | install o out =>
    have ho : sc.resp.bind (·.patch) = some o := by have := hinv.upc; rw [hpc] at this; exact this
    have he := secIsKnownBad_eq (withChannel cfg chan) cw.disk o.number hst0
    by_cases hb : o.number ∈ (loadPatchesState cw.disk).bad
    · refine finish (.done .badPatch) cw.disk [.upd .badPatch] (by simp [grant, hpc, ustep, UPc.rets, secInstallChecked, he, hb])
        hst0 hinv.ban hgoodk trivial (noinst _ .badPatch (by simp) (Or.inl rfl))
    · -- the install happens: the patch is not banned at this moment
      have hnF : g.armed = true → o.number ∉ g.failed := fun ha hm => hb ((hinv.ban ha).1 _ hm)
      refine finish (.done .installed) (secInstall (withChannel cfg chan) cw.disk o out) [.upd .installed]
        (by simp [grant, hpc, ustep, UPc.rets, secInstallChecked, he, hb])
        (secInstall_settled _ _ o out hst0)
        (fun ha => secInstall_ban _ _ _ o out hst0 (hinv.ban ha) (hnF ha)) ?_ trivial ?_
      · intro n b h
        obtain ⟨s, hs, hvv⟩ := hst0
        simp only [secInstall, loadOrNew_settled cw.disk _ s hs hvv]
        apply GoodD_of_pm env _ _ n b (addPatch_coherent _ _ _ _ _)
        apply addPatch_good env _ (PM.new cw.disk) o.number n b out o.hash o.sig (hgoodk n b h)
        intro hkn
        exfalso
        apply (hinv.good n b h).2.2
        rw [ho]; simp [hkn]
      · intro o' _ ho' ha
        rw [ho] at ho'; cases ho'
        exact hnF ha

end Updater

namespace Updater

/-- A success report makes the patch that was booting the last good one; with its file in place and every slot
    naming it valid, it is from then on a last good patch in the sense of `GoodD`. -/
theorem secLaunchSuccess_good_new (env : Env) (cfg : Config) (d : Disk) (n : Nat) (b : Bytes) (hst : Settled d cfg.version)
    (bp : Meta) (hb : (loadPatchesState d).booting = some bp) (hbn : bp.number = n)
    (ha : d.art n = some (.file b))
    (hall : ∀ x, InSlot (loadPatchesState d) x → x.number = n → validate env cfg.key d x = true) :
    GoodD env cfg.key (secLaunchSuccess env cfg d).1 n b := by
  have hart : (secLaunchSuccess env cfg d).1.art n = d.art n := by
    rw [← hbn]; exact secLaunchSuccess_art env cfg d hst bp hb
  obtain ⟨s, hs, hv⟩ := hst
  have hb' : (PM.new d).ps.booting = some bp := hb
  have hps : (PM.new d).recordBootSuccess.1.ps = { (PM.new d).ps with booting := none, last := some bp } := by
    unfold PM.recordBootSuccess; simp [hb', PM.save, deleteOlderThan_ps]
  have hco := recordBootSuccess_coherent _ (PM.new_coherent d)
  have key : GoodD env cfg.key (PM.new d).recordBootSuccess.1.disk n b := by
    have hart' : (PM.new d).recordBootSuccess.1.disk.art n = d.art n := by
      rw [art_recordBootSuccess (PM.new d) bp hb' n]
      have : ¬ (n < bp.number ∧ some n ≠ (PM.new d).ps.next.map (·.number)) := by rw [hbn]; omega
      simp [this]; rfl
    refine ⟨by rw [hart']; exact ha, ⟨bp, by rw [hco, hps], hbn⟩, ?_⟩
    intro x hx hxn
    rw [validate_congr env cfg.key d _ x (by rw [hxn]; exact hart')]
    apply hall x _ hxn
    rw [hco, hps] at hx
    simp only [InSlot] at hx ⊢
    rcases hx with h' | h' | h'
    · exact Or.inl h'
    · right; right; rw [hb]; exact h'
    · cases h'
  simp only [secLaunchSuccess, loadOrNew_settled d _ s hs hv, hb']
  split <;> (try split) <;> exact key

/-- A success report of the last good patch itself (booted again) keeps it. -/
theorem secLaunchSuccess_good_same (env : Env) (cfg : Config) (d : Disk) (n : Nat) (b : Bytes) (hst : Settled d cfg.version)
    (bp : Meta) (hb : (loadPatchesState d).booting = some bp) (hbn : bp.number = n)
    (h : GoodD env cfg.key d n b) : GoodD env cfg.key (secLaunchSuccess env cfg d).1 n b :=
  secLaunchSuccess_good_new env cfg d n b hst bp hb hbn h.1 h.2.2

/-- What the monitor's establishment condition says about the disk. -/
theorem slots_of_view (env key) {w : World} {v : View} (hs : ShowsDisk w v) (n : Nat) (b : Bytes)
    (hf : v.fileOf n = some b) (hv : v.slotsValid env key n = true) :
    w.disk.art n = some (.file b) ∧
      ∀ x, InSlot (loadPatchesState w.disk) x → x.number = n → validate env key w.disk x = true := by
  have hps := ps_of_shows hs
  simp only [View.slotsValid, Bool.and_eq_true, slotOk_iff env key hs, hps] at hv
  refine ⟨(fileOf_of_shows hs n b).1 hf, ?_⟩
  intro x hx hxn
  rcases hx with h | h | h
  · exact hv.1.1 x h hxn
  · exact hv.1.2 x h hxn
  · exact hv.2 x h hxn

theorem viewOfDisk_bootingNum (d : Disk) : (viewOfDisk d).bootingNum = (loadPatchesState d).booting.map (·.number) := rfl

theorem CPcOK_afterCfg (bops0 : List Op) (op : Op) (chan : Option String) (resp : Option CheckResp)
    (hop : op = .check chan resp) (hmem : op ∈ bops0) : CPcOK bops0 (checkAfterCfgPc resp) := by
  unfold checkAfterCfgPc
  cases resp with
  | none => trivial
  | some r =>
    simp only
    cases hrb : r.rolledBack with
    | some ns => exact ⟨op, hmem, by rw [hop]; rfl⟩
    | none => simp only [checkAfterRollbackPc]; cases r.patch <;> trivial

/-- A grant to the other thread. -/
theorem step11_B (env : Env) (cfg : Config) (libs : List (String × Bytes)) (chan : Option String) (sc : UpdateScript)
    (bops0 : List Op) (g : G11) (cw : CW) (hinv : Inv11 env cfg sc bops0 g cw) :
    Step11Goal env cfg libs chan sc bops0 g cw .B := by
  have hst := hinv.settled
  -- what remains once the grant, the normalised state and the next ghost state are computed
  have finish : ∀ (cw' : CW) (rets : List Ret) (g' : G11),
      (grant env cfg libs chan sc cw .B).2 = rets → (grant env cfg libs chan sc cw .B).1.norm = cw' →
      g.next env cfg.key .B rets (viewOfDisk cw.disk) = g' →
      Settled cw'.disk cfg.version →
      (g'.armed = true → BanD cw'.disk g'.failed) →
      (∀ n b, g'.good = some (n, b) → GoodD env cfg.key cw'.disk n b ∧
        (g.good = some (n, b) ∨ (n ∉ episodeRolled sc bops0 ∧ (sc.resp.bind (·.patch)).map (·.number) ≠ some n))) →
      cw'.upc = cw.upc →
      ((cw'.bchk = none ∧ g'.inCheck = false ∧ g'.bops = cw'.bq) ∨
        (∃ pc op, cw'.bchk = some pc ∧ g'.inCheck = true ∧ g'.bops = op :: cw'.bq ∧ CPcOK bops0 pc ∧ (∀ b, pc ≠ .done b))) →
      (∀ op ∈ cw'.bq, op ∈ bops0 ∧ op.episodeOk = true) →
      (∀ r n, (g.bStarts .B = some .nextN ∨ g.bStarts .B = some .nextP) → rets = [r] → retNumber r = some n →
        ∃ m, (loadPatchesState cw'.disk).next = some m ∧ m.number = n ∧ validate env cfg.key cw'.disk m = true) →
      Step11Goal env cfg libs chan sc bops0 g cw .B := by
    intro cw' rets g' h1 h2 h3 hs hb hg hu hsy hbq hq
    unfold Step11Goal
    rw [h1, h2, h3]
    refine ⟨?_, ?_⟩
    · apply checks11_ok env cfg.key sc g .B rets (viewOfDisk cw.disk) cw'.disk
      · rw [h3]; exact hb
      · rw [h3]; intro n b h; exact (hg n b h).1.1
      · intro o h; cases h
      · exact hq
    · refine ⟨hs, hb, fun n b h => ⟨(hg n b h).1, ?_⟩, by rw [hu]; exact hinv.upc, hsy, hbq, ?_⟩
      · rcases (hg n b h).2 with h' | h'
        · exact (hinv.good n b h').2
        · exact h'
      · rw [← h3, G11_next_exempt]; exact hinv.exempt
  rcases hinv.sync with ⟨hbn, hic, hbo⟩ | ⟨pc, op0, hbc, hic, hbo, hpcok, hnd⟩
  · -- at a call boundary
    cases hq : cw.bq with
    | nil =>
      have hge : g.bops = [] := by rw [hbo, hq]
      refine finish cw [] g (by simp [grant, hbn, hq]) (by simp [grant, hbn, hq]; exact norm_id _ hinv.nodone)
        (by simp [G11.next, hge]) hst hinv.ban (fun n b h => ⟨(hinv.good n b h).1, Or.inl h⟩) rfl
        (Or.inl ⟨hbn, hic, hbo⟩) hinv.bq ?_
      intro r n hs'; simp [G11.bStarts, hic, hge] at hs'
    | cons op rest =>
      have hge : g.bops = op :: rest := by rw [hbo, hq]
      obtain ⟨hmem, hok⟩ := hinv.bq op (by rw [hq]; exact List.mem_cons_self)
      have hrest : ∀ x ∈ rest, x ∈ bops0 ∧ x.episodeOk = true :=
        fun x hx => hinv.bq x (by rw [hq]; exact List.mem_cons_of_mem _ hx)
      have hbs : g.bStarts .B = some op := by simp [G11.bStarts, hic, hge]
      -- the single-section calls
      have simple : ∀ (d' : Disk) (ret : Ret) (failed' : List Nat) (good' : Option (Nat × Bytes)),
          (∀ c r, op ≠ .check c r) →
          (step env { disk := cw.disk, config := some cfg, libs := libs } op).1.disk = d' →
          (step env { disk := cw.disk, config := some cfg, libs := libs } op).2.1 = ret →
          g.next env cfg.key .B [ret] (viewOfDisk cw.disk) = { g with failed := failed', good := good', inCheck := false, bops := rest } →
          Settled d' cfg.version →
          (g.armed = true → BanD d' failed') →
          (∀ n b, good' = some (n, b) → GoodD env cfg.key d' n b ∧ (g.good = some (n, b) ∨ (n ∉ episodeRolled sc bops0 ∧ (sc.resp.bind (·.patch)).map (·.number) ≠ some n))) →
          (∀ n, (op = .nextN ∨ op = .nextP) → retNumber ret = some n →
            ∃ m, (loadPatchesState d').next = some m ∧ m.number = n ∧ validate env cfg.key d' m = true) →
          Step11Goal env cfg libs chan sc bops0 g cw .B := by
        intro d' ret failed' good' hnc hd hr hg' hs hb hgd hqq
        have hgr : grant env cfg libs chan sc cw .B = ({ cw with disk := d', bq := rest }, [ret]) := by
          simp only [grant, hbn, hq]
          cases op <;> first | (simp only [hd, hr]) | exact absurd rfl (hnc _ _)
        refine finish { cw with disk := d', bq := rest } [ret] _ (by rw [hgr]) (by rw [hgr]; exact norm_id _ (by simp [hbn])) hg'
          hs hb hgd rfl (Or.inl ⟨hbn, rfl, rfl⟩) hrest ?_
        intro r n hs' hr' hn
        rw [hbs] at hs'
        simp only [List.cons.injEq, and_true] at hr'
        subst hr'
        exact hqq n (by rcases hs' with h | h; exact Or.inl (Option.some.inj h); exact Or.inr (Option.some.inj h)) hn
      have hw : ({ disk := cw.disk, config := some cfg, libs := libs } : World).config = some cfg := rfl
      have hpreb := viewOfDisk_bootingNum cw.disk
      cases op with
      | init p => simp [Op.episodeOk] at hok
      | restart => simp [Op.episodeOk] at hok
      | auto => simp [Op.episodeOk] at hok
      | damage dm => simp [Op.episodeOk] at hok
      | update c s => simp [Op.episodeOk] at hok
      | check ch resp =>
        have hgr : grant env cfg libs chan sc cw .B =
            ({ cw with bq := rest, bchk := some (checkAfterCfgPc resp) }, (checkAfterCfgPc resp).rets) := by
          simp only [grant, hbn, hq]
        have hcp := CPcOK_afterCfg bops0 _ ch resp rfl hmem
        have hgood' : ∀ (gg : G11), gg.good = g.good → ∀ n b, gg.good = some (n, b) → GoodD env cfg.key cw.disk n b ∧ (g.good = some (n, b) ∨ (n ∉ episodeRolled sc bops0 ∧ (sc.resp.bind (·.patch)).map (·.number) ≠ some n)) :=
          fun gg he n b h => ⟨(hinv.good n b (he ▸ h)).1, Or.inl (he ▸ h)⟩
        cases hpc' : checkAfterCfgPc resp with
        | done b =>
          refine finish { cw with bq := rest, bchk := none } [.bool b] { g with inCheck := false, bops := rest }
            (by rw [hgr, hpc']; rfl) (by rw [hgr, hpc']; rfl) ?_ hst hinv.ban (hgood' _ rfl) rfl (Or.inl ⟨rfl, rfl, rfl⟩) hrest ?_
          · simp only [G11.next, hbs, hge]
            cases g.good with
            | none => simp
            | some nb => simp
          · intro r n hs'; rw [hbs] at hs'; rcases hs' with h | h <;> cases h
        | copyCfg r' => unfold checkAfterCfgPc at hpc'; cases resp with
          | none => cases hpc'
          | some r => simp only at hpc'; cases hrb : r.rolledBack <;> simp [hrb, checkAfterRollbackPc] at hpc' <;> cases hp : r.patch <;> simp [hp] at hpc'
        | rollback r' =>
          refine finish { cw with bq := rest, bchk := some (.rollback r') } [] { g with inCheck := true }
            (by rw [hgr, hpc']; rfl) (by rw [hgr, hpc']; rfl) ?_ hst hinv.ban (hgood' _ rfl) rfl
            (Or.inr ⟨_, .check ch resp, rfl, rfl, by simp [hge], by rw [← hpc']; exact hcp, by intro b h; cases h⟩) hrest ?_
          · simp only [G11.next, hbs, hge]
            cases g.good with
            | none => simp
            | some nb => simp
          · intro r n hs'; rw [hbs] at hs'; rcases hs' with h | h <;> cases h
        | knownBad o' =>
          refine finish { cw with bq := rest, bchk := some (.knownBad o') } [] { g with inCheck := true }
            (by rw [hgr, hpc']; rfl) (by rw [hgr, hpc']; rfl) ?_ hst hinv.ban (hgood' _ rfl) rfl
            (Or.inr ⟨_, .check ch resp, rfl, rfl, by simp [hge], trivial, by intro b h; cases h⟩) hrest ?_
          · simp only [G11.next, hbs, hge]
            cases g.good with
            | none => simp
            | some nb => simp
          · intro r n hs'; rw [hbs] at hs'; rcases hs' with h | h <;> cases h
        | nextBoot o' =>
          refine finish { cw with bq := rest, bchk := some (.nextBoot o') } [] { g with inCheck := true }
            (by rw [hgr, hpc']; rfl) (by rw [hgr, hpc']; rfl) ?_ hst hinv.ban (hgood' _ rfl) rfl
            (Or.inr ⟨_, .check ch resp, rfl, rfl, by simp [hge], trivial, by intro b h; cases h⟩) hrest ?_
          · simp only [G11.next, hbs, hge]
            cases g.good with
            | none => simp
            | some nb => simp
          · intro r n hs'; rw [hbs] at hs'; rcases hs' with h | h <;> cases h
      | start =>
        refine simple (secLaunchStart env cfg cw.disk) .unit g.failed g.good (by intro c r h; cases h)
          (step_disk_enter env _ .start cfg hw) rfl ?_ (secLaunchStart_settled env cfg _ hst)
          (fun ha => secLaunchStart_ban env cfg _ _ hst (hinv.ban ha))
          (fun n b h => ⟨secLaunchStart_good env cfg _ n b hst (hinv.good n b h).1, Or.inl h⟩) (by intro n h; rcases h with h | h <;> cases h)
        simp only [G11.next, hbs, hge]
        cases g.good with
        | none => simp
        | some nb => simp
      | curN =>
        have hd : (step env { disk := cw.disk, config := some cfg, libs := libs } .curN).1.disk = cw.disk := by
          rw [step_disk_enter env _ .curN cfg hw]; simp only [opDisk]; exact secCurrentBootPatch_disk cfg cw.disk hst
        refine simple cw.disk _ g.failed g.good (by intro c r h; cases h) hd rfl ?_ hst hinv.ban
          (fun n b h => ⟨(hinv.good n b h).1, Or.inl h⟩) (by intro n h; rcases h with h | h <;> cases h)
        simp only [G11.next, hbs, hge]
        cases g.good with
        | none => simp
        | some nb => simp
      | nextN =>
        have hret : (step env { disk := cw.disk, config := some cfg, libs := libs } .nextN).2.1 =
            .num ((secNextBootPatch env cfg cw.disk).2.getD 0) := by simp [step, nextBootPatch]
        refine simple (secNextBootPatch env cfg cw.disk).1 _ g.failed g.good (by intro c r h; cases h)
          (step_disk_enter env _ .nextN cfg hw) hret ?_ (secNextBootPatch_settled env cfg _ hst)
          (fun ha => (secNextBootPatch_ban env cfg _ _ hst (hinv.ban ha)).1)
          (fun n b h => ⟨secNextBootPatch_good env cfg _ n b hst (hinv.good n b h).1, Or.inl h⟩) ?_
        · simp only [G11.next, hbs, hge]
          cases g.good with
          | none => simp
          | some nb => simp
        · intro n _ hn
          apply sec_next_facts env cfg cw.disk n
          cases hr : (secNextBootPatch env cfg cw.disk).2 with
          | none => simp [retNumber, hr] at hn
          | some k =>
            simp only [retNumber, hr, Option.getD] at hn
            split at hn
            · cases hn
            · simpa using hn
      | nextP =>
        have hret : (step env { disk := cw.disk, config := some cfg, libs := libs } .nextP).2.1 =
            .path (secNextBootPatch env cfg cw.disk).2 := by simp [step, nextBootPatch]
        refine simple (secNextBootPatch env cfg cw.disk).1 _ g.failed g.good (by intro c r h; cases h)
          (step_disk_enter env _ .nextP cfg hw) hret ?_ (secNextBootPatch_settled env cfg _ hst)
          (fun ha => (secNextBootPatch_ban env cfg _ _ hst (hinv.ban ha)).1)
          (fun n b h => ⟨secNextBootPatch_good env cfg _ n b hst (hinv.good n b h).1, Or.inl h⟩) ?_
        · simp only [G11.next, hbs, hge]
          cases g.good with
          | none => simp
          | some nb => simp
        · intro n _ hn
          apply sec_next_facts env cfg cw.disk n
          simpa [retNumber] using hn
      | success =>
        cases hbt : (loadPatchesState cw.disk).booting with
        | none =>
          have hd : (step env { disk := cw.disk, config := some cfg, libs := libs } .success).1.disk = cw.disk := by
            rw [step_disk_enter env _ .success cfg hw]; simp only [opDisk]; exact secLaunchSuccess_nobooting env cfg cw.disk hst hbt
          refine simple cw.disk _ g.failed g.good (by intro c r h; cases h) hd rfl ?_ hst hinv.ban
            (fun n b h => ⟨(hinv.good n b h).1, Or.inl h⟩) (by intro n h; rcases h with h | h <;> cases h)
          simp only [G11.next, hbs, hge, hpreb, hbt]
          cases g.good with
          | none => simp [G11.established, hpreb, hbt]
          | some nb => simp
        | some bp =>
          have hest : ∀ n b, g.established env cfg.key (viewOfDisk cw.disk) = some (n, b) →
              GoodD env cfg.key (secLaunchSuccess env cfg cw.disk).1 n b ∧
                (n ∉ episodeRolled sc bops0 ∧ (sc.resp.bind (·.patch)).map (·.number) ≠ some n) := by
            intro n b h
            simp only [G11.established, hpreb, hbt, Option.map_some] at h
            cases hf : (viewOfDisk cw.disk).fileOf bp.number with
            | none => simp [hf] at h
            | some b0 =>
              simp only [hf] at h
              split at h
              · rename_i hc
                simp only [Option.some.injEq, Prod.mk.injEq] at h
                obtain ⟨rfl, rfl⟩ := h
                simp only [Bool.and_eq_true, Bool.not_eq_true', List.contains_eq_mem, decide_eq_false_iff_not] at hc
                obtain ⟨ha, hall⟩ := slots_of_view env cfg.key (shows_viewOfDisk cw.disk none []) bp.number b0 hf hc.1
                exact ⟨secLaunchSuccess_good_new env cfg cw.disk bp.number b0 hst bp hbt rfl ha hall, hinv.exempt _ hc.2⟩
              · cases h
          refine simple (secLaunchSuccess env cfg cw.disk).1 _ g.failed
            (match g.good with
              | some (n, b) => if bp.number = n then some (n, b) else g.established env cfg.key (viewOfDisk cw.disk)
              | none => g.established env cfg.key (viewOfDisk cw.disk))
            (by intro c r h; cases h) (step_disk_enter env _ .success cfg hw) rfl ?_
            (secLaunchSuccess_settled env cfg _ hst) (fun ha => secLaunchSuccess_ban env cfg _ _ hst (hinv.ban ha)) ?_
            (by intro n h; rcases h with h | h <;> cases h)
          · simp only [G11.next, hbs, hge, hpreb, hbt]
            cases g.good with
            | none => simp
            | some nb => simp
          · intro n b h
            cases hg : g.good with
            | none => simp only [hg] at h; exact ⟨(hest n b h).1, Or.inr (hest n b h).2⟩
            | some nb =>
              obtain ⟨n0, b0⟩ := nb
              simp only [hg] at h
              split at h
              · rename_i hbn
                simp only [Option.some.injEq, Prod.mk.injEq] at h
                obtain ⟨rfl, rfl⟩ := h
                exact ⟨secLaunchSuccess_good_same env cfg _ n0 b0 hst bp hbt hbn (hinv.good n0 b0 hg).1, Or.inl rfl⟩
              · exact ⟨(hest n b h).1, Or.inr (hest n b h).2⟩
      | failure =>
        have hbanF := fun ha => secLaunchFailure_ban env cfg cw.disk g.failed hst (hinv.ban ha)
        cases hbt : (loadPatchesState cw.disk).booting with
        | none =>
          refine simple (secLaunchFailure env cfg cw.disk) _ g.failed g.good (by intro c r h; cases h)
            (step_disk_enter env _ .failure cfg hw) rfl ?_ (secLaunchFailure_settled env cfg _ hst)
            (fun ha => by have := hbanF ha; rw [hbt] at this; exact this)
            (fun n b h => ⟨secLaunchFailure_good env cfg _ n b hst (hinv.good n b h).1 (by rw [hbt]; simp), Or.inl h⟩)
            (by intro n h; rcases h with h | h <;> cases h)
          simp only [G11.next, hbs, hge, hpreb, hbt]
          cases g.good with
          | none => simp
          | some nb => simp
        | some bp =>
          refine simple (secLaunchFailure env cfg cw.disk) _
            (if g.failed.contains bp.number then g.failed else bp.number :: g.failed)
            (match g.good with | some (n, b) => if bp.number = n then none else some (n, b) | none => none)
            (by intro c r h; cases h) (step_disk_enter env _ .failure cfg hw) rfl ?_
            (secLaunchFailure_settled env cfg _ hst) ?_ ?_ (by intro n h; rcases h with h | h <;> cases h)
          · simp only [G11.next, hbs, hge, hpreb, hbt]
            cases g.good with
            | none => simp
            | some nb => simp
          · intro ha
            have := hbanF ha
            rw [hbt] at this
            apply BanD_mono _ this
            intro x hx
            split at hx
            · exact List.mem_cons_of_mem _ hx
            · exact hx
          · intro n b h
            cases hg : g.good with
            | none => simp [hg] at h
            | some nb =>
              obtain ⟨n0, b0⟩ := nb
              simp only [hg] at h
              split at h
              · cases h
              · rename_i hbn
                simp only [Option.some.injEq, Prod.mk.injEq] at h
                obtain ⟨rfl, rfl⟩ := h
                refine ⟨secLaunchFailure_good env cfg _ n0 b0 hst (hinv.good n0 b0 hg).1 ?_, Or.inl rfl⟩
                rw [hbt]; simpa using hbn
  · -- inside a patch check
    have hbs : g.bStarts .B = none := by simp [G11.bStarts, hic]
    have hnext : ∀ rets, g.next env cfg.key .B rets (viewOfDisk cw.disk) =
        (if rets.isEmpty then { g with inCheck := true } else { g with inCheck := false, bops := cw.bq }) := by
      intro rets
      simp only [G11.next, hbs, hbo]
      cases g.good with
      | none => simp
      | some nb => simp
    have hgood' : ∀ (d' : Disk), (∀ n b, g.good = some (n, b) → GoodD env cfg.key d' n b) →
        ∀ (gg : G11), gg.good = g.good → ∀ n b, gg.good = some (n, b) → GoodD env cfg.key d' n b ∧ (g.good = some (n, b) ∨ (n ∉ episodeRolled sc bops0 ∧ (sc.resp.bind (·.patch)).map (·.number) ≠ some n)) :=
      fun d' hd gg he n b h => ⟨hd n b (he ▸ h), Or.inl (he ▸ h)⟩
    have noq : ∀ (rets : List Ret) (d' : Disk) r n, (g.bStarts .B = some .nextN ∨ g.bStarts .B = some .nextP) → rets = [r] → retNumber r = some n →
        ∃ m, (loadPatchesState d').next = some m ∧ m.number = n ∧ validate env cfg.key d' m = true := by
      intro rets d' r n hs'; rw [hbs] at hs'; rcases hs' with h | h <;> cases h
    -- continuing with the check (`pc'` not finished) or finishing it
    have cont : ∀ (pc' : CPc) (d' : Disk), cstep env cfg pc cw.disk = (pc', d') → (∀ b, pc' ≠ .done b) → CPcOK bops0 pc' →
        Settled d' cfg.version → (g.armed = true → BanD d' g.failed) → (∀ n b, g.good = some (n, b) → GoodD env cfg.key d' n b) →
        Step11Goal env cfg libs chan sc bops0 g cw .B := by
      intro pc' d' hcs hnd' hok' hs hb hgd
      have hgr : grant env cfg libs chan sc cw .B = ({ cw with disk := d', bchk := some pc' }, pc'.rets) := by
        simp only [grant, hbc, hcs]
      have hr : pc'.rets = [] := by cases pc' <;> first | rfl | exact absurd rfl (hnd' _)
      refine finish { cw with disk := d', bchk := some pc' } [] { g with inCheck := true }
        (by rw [hgr, hr]) (by rw [hgr]; exact norm_id _ (by intro b h; cases h; exact hnd' b rfl)) (by rw [hnext]; rfl)
        hs hb (hgood' d' hgd _ rfl) rfl (Or.inr ⟨pc', op0, rfl, rfl, hbo, hok', hnd'⟩) hinv.bq (noq [] d')
    have fin : ∀ (b : Bool) (d' : Disk), cstep env cfg pc cw.disk = (.done b, d') →
        Settled d' cfg.version → (g.armed = true → BanD d' g.failed) → (∀ n b, g.good = some (n, b) → GoodD env cfg.key d' n b) →
        Step11Goal env cfg libs chan sc bops0 g cw .B := by
      intro b d' hcs hs hb hgd
      have hgr : grant env cfg libs chan sc cw .B = ({ cw with disk := d', bchk := some (.done b) }, [.bool b]) := by
        simp only [grant, hbc, hcs]; rfl
      refine finish { cw with disk := d', bchk := none } [.bool b] { g with inCheck := false, bops := cw.bq }
        (by rw [hgr]) (by rw [hgr]; rfl) (by rw [hnext]; rfl)
        hs hb (hgood' d' hgd _ rfl) rfl (Or.inl ⟨rfl, rfl, rfl⟩) hinv.bq (noq [.bool b] d')
    have hgd0 : ∀ n b, g.good = some (n, b) → GoodD env cfg.key cw.disk n b := fun n b h => (hinv.good n b h).1
    cases pc with
    | done b => exact absurd rfl (hnd b)
    | copyCfg resp => exact hpcok.elim
    | rollback r =>
      obtain ⟨opr, hopr, hresp⟩ := hpcok
      have hs' := rollBackIfNeeded_settled env cfg cw.disk r.rolledBack hst
      have hb' := fun ha => rollBackIfNeeded_ban env cfg cw.disk _ r.rolledBack hst (hinv.ban ha)
      have hg' : ∀ n b, g.good = some (n, b) → GoodD env cfg.key (rollBackIfNeeded env cfg cw.disk r.rolledBack) n b := by
        intro n b h
        refine rollBackIfNeeded_good env cfg _ n b r.rolledBack hst ?_ (hgd0 n b h)
        intro hm; exact (hinv.good n b h).2.1 (mem_episodeRolled_b sc bops0 opr r n hopr hresp hm)
      cases hp : r.patch with
      | none => exact fin false _ (by simp [cstep, checkAfterRollbackPc, hp]) hs' hb' hg'
      | some o => exact cont (.knownBad o) _ (by simp [cstep, checkAfterRollbackPc, hp]) (by intro b h; cases h) trivial hs' hb' hg'
    | knownBad o =>
      have he := secIsKnownBad_eq cfg cw.disk o.number hst
      by_cases hb : o.number ∈ (loadPatchesState cw.disk).bad
      · exact fin false cw.disk (by simp [cstep, he, hb]) hst hinv.ban hgd0
      · exact cont (.nextBoot o) cw.disk (by simp [cstep, he, hb]) (by intro b h; cases h) trivial hst hinv.ban hgd0
    | nextBoot o =>
      exact fin (decide ((secNextBootPatch env cfg cw.disk).2 ≠ some o.number)) (secNextBootPatch env cfg cw.disk).1 rfl (secNextBootPatch_settled env cfg _ hst)
        (fun ha => (secNextBootPatch_ban env cfg _ _ hst (hinv.ban ha)).1)
        (fun n b h => secNextBootPatch_good env cfg _ n b hst (hgd0 n b h))

end Updater

namespace Updater

theorem step11 (env : Env) (cfg : Config) (libs : List (String × Bytes)) (chan : Option String) (sc : UpdateScript)
    (bops0 : List Op) (g : G11) (cw : CW) (w : Who) (hinv : Inv11 env cfg sc bops0 g cw) :
    Step11Goal env cfg libs chan sc bops0 g cw w := by
  cases w with
  | A => exact step11_A env cfg libs chan sc bops0 g cw hinv
  | B => exact step11_B env cfg libs chan sc bops0 g cw hinv

theorem Inv11_start (env : Env) (cfg : Config) (sc : UpdateScript) (bops : List Op) (d0 : Disk)
    (hst : Settled d0 cfg.version) (hok : ∀ op ∈ bops, op.episodeOk = true) :
    Inv11 env cfg sc bops (G11.start env cfg.key sc bops (viewOfDisk d0)) { disk := d0, upc := .copyCfg, bq := bops } := by
  refine ⟨hst, ?_, ?_, trivial, Or.inl ⟨rfl, rfl, rfl⟩, fun op h => ⟨h, hok op h⟩, ?_⟩
  rotate_right
  · intro n hn
    simp only [G11.start, List.mem_append, not_or] at hn
    refine ⟨hn.1, ?_⟩
    intro he; apply hn.2; rw [he]; simp
  · -- armed: no slot holds a banned number
    intro ha
    simp only [G11.start, Bool.and_eq_true, List.all_eq_true, Bool.not_eq_true', List.contains_eq_mem,
      decide_eq_false_iff_not, viewOfDisk_ps] at ha
    obtain ⟨_, hall⟩ := ha
    refine ⟨fun n h => h, ?_, ?_, ?_⟩
    · intro x hx; apply hall; simp [slotNums, viewOfDisk_ps, hx]
    · intro x hx; apply hall; simp [slotNums, viewOfDisk_ps, hx]
    · intro x hx; apply hall; simp [slotNums, viewOfDisk_ps, hx]
  · intro n b h
    simp only [G11.start] at h
    cases hl : (viewOfDisk d0).ps.last with
    | none => simp [hl] at h
    | some m =>
      simp only [hl] at h
      cases hf : (viewOfDisk d0).fileOf m.number with
      | none => simp [hf] at h
      | some b0 =>
        simp only [hf] at h
        split at h
        · rename_i hc
          simp only [Option.some.injEq, Prod.mk.injEq] at h
          obtain ⟨rfl, rfl⟩ := h
          simp only [Bool.and_eq_true, Bool.not_eq_true', List.contains_eq_mem, decide_eq_false_iff_not, bne_iff_ne, ne_eq] at hc
          exact ⟨goodD_of_view env cfg.key (shows_viewOfDisk d0 none []) m.number b0 m hf hl rfl hc.1.1, hc.1.2, hc.2⟩
        · cases h

/-- Every grant sequence is accepted from any state satisfying the invariant. -/
theorem judge11_none (env : Env) (cfg : Config) (libs : List (String × Bytes)) (chan : Option String) (sc : UpdateScript)
    (bops0 : List Op) (ws : List Who) :
    ∀ (g : G11) (cw : CW) (k : Nat), Inv11 env cfg sc bops0 g cw →
      judge11 env cfg.key sc g k (viewOfDisk cw.disk) (grantViews env cfg libs chan sc cw ws) = none := by
  induction ws with
  | nil => intro g cw k _; rfl
  | cons w ws ih =>
    intro g cw k hinv
    obtain ⟨h1, h2⟩ := step11 env cfg libs chan sc bops0 g cw w hinv
    simp only [grantViews, runGrants, List.map, judge11]
    rw [h1]
    exact ih _ _ (k + 1) h2

/-- **C11.** For every configured process, every settled storage directory (readable state of this
    release, any content), every update script, every list of calls of the other thread (launch
    reports, queries, checks with any responses) and **every interleaving** of the two threads at the
    granularity of state-lock acquisitions, the episode monitor accepts after every single grant:
    * no number whose boot failure is recorded — before the episode or reported during it — is
      selected, last good or booting, and its ban is never lost; in particular the update does not
      install a patch whose failure was reported before its install section ran (C02);
    * the artifact of the last good patch keeps its bytes unless that patch itself fails, is rolled
      back or re-issued in the episode, or another patch boots successfully (C03);
    * every next-boot query that returns a patch returns the selected patch, whose artifact
      validates at that moment (C01). -/
theorem C11_holds (env : Env) (cfg : Config) (libs : List (String × Bytes)) (chan : Option String) (sc : UpdateScript)
    (bops : List Op) (d0 : Disk) (ws : List Who)
    (hst : Settled d0 cfg.version) (hok : ∀ op ∈ bops, op.episodeOk = true) :
    judge11 env cfg.key sc (G11.start env cfg.key sc bops (viewOfDisk d0)) 0 (viewOfDisk d0)
      (grantViews env cfg libs chan sc { disk := d0, upc := .copyCfg, bq := bops } ws) = none :=
  judge11_none env cfg libs chan sc bops ws _ _ 0 (Inv11_start env cfg sc bops d0 hst hok)

/-- The update alone (no other thread): the grants compute exactly the sequential `update`. -/
theorem solo_update (env : Env) (cfg : Config) (base : Option Bytes) (sc : UpdateScript) (d : Disk)
    (hst : Settled d cfg.version) :
    (urun env cfg base sc 7 .copyCfg d).2 = (updateCore env cfg base d sc).1 := by
  rw [urun_eq_updateCore env cfg base sc d hst]

end Updater
