/-
  C04, second sentence: "If instead any single file-system operation of a call fails with an I/O
  error and execution continues, no call panics and the patch selected afterwards, both in that
  process and at the next launch, is still none or an intact, previously verified patch of the
  currently installed release."

  The model. Every exported call is a sequence of *sections* (one per acquisition of the state
  lock); every section begins by loading the two state files from disk and decides from nothing else.
  So a process is, for this purpose, a sequence of sections, and the theorem quantifies over ALL
  sequences of sections (`Sec`) — a superset of what any sequence of calls can do, which in particular
  contains "the rest of the call after the failed operation", whether the call gives up there or goes
  on. At most one section is hit by the fault:

  * a write of a state file fails — the file is left untouched (it could not be opened) or cut short —
    and the section then stops at any later point or runs to its end (`faultPairs`);
  * or an operation on `patches/` fails: the section's saves stop at any point (`crashPairs`, without
    the torn states) and `patches/` is left in ANY state;
  * or one of the three steps of the release-change reset fails (`createNewAndSaveF`, the exact
    model of `create_new_and_save`), after which the section runs on from its (clean) in-memory state.

  `eio_safe`: whatever such a process leaves on disk, the patch selected from it — by a later query of
  the same process (`secNextBootPatch`) or by the next launch (`recover`) — has an artifact that
  validates, and is a record of the state before (if that was a readable state of this release) or
  carries the number of a patch one of the process's updates was installing after download, hash and
  signature checks.
-/
import UpdaterModel.Props.C04

namespace Updater

/-! ### a failing write -/

/-- The state files a section can leave when ONE of its saves fails (file untouched, or cut short)
    and it then stops at any later point or goes on to the end. -/
def faultPairs : StateFiles → List SaveEv → List StateFiles
  | _, [] => []
  | cur, e :: es => crashPairs cur es ++ crashPairs (e.torn cur) es ++ faultPairs (e.apply cur) es

theorem crashPairs_head (cur : StateFiles) (evs : List SaveEv) : cur ∈ crashPairs cur evs := by
  cases evs <;> simp [crashPairs]

/-- Every value a section saves is what the patches file holds in one of its crash states. -/
theorem crashPairs_has_pj (v : PatchesState) :
    ∀ (evs : List SaveEv) (cur : StateFiles), SaveEv.pj v ∈ evs → ∃ q ∈ crashPairs cur evs, q.2 = .ok v := by
  intro evs
  induction evs with
  | nil => intro cur h; cases h
  | cons e es ih =>
    intro cur h
    rcases List.mem_cons.1 h with h | h
    · subst h
      exact ⟨SaveEv.apply cur (.pj v), by simp only [crashPairs, List.mem_cons]; exact Or.inr (Or.inr (crashPairs_head _ _)), rfl⟩
    · obtain ⟨q, hq, hv⟩ := ih (e.apply cur) h
      exact ⟨q, by simp only [crashPairs, List.mem_cons]; exact Or.inr (Or.inr hq), hv⟩

/-- A predicate on the patches file that holds for an unreadable file and in every crash state of a
    section holds after every single failed write of that section as well. -/
theorem faultPairs_pred (P : JFile PatchesState → Prop) (hg : P .garbage) (cur : StateFiles) (evs : List SaveEv)
    (h : ∀ q ∈ crashPairs cur evs, P q.2) : ∀ q ∈ faultPairs cur evs, P q.2 := by
  have hc : P cur.2 := h cur (crashPairs_head _ _)
  have hev : ∀ e ∈ evs, match e with | .pj v => P (.ok v) | .sj _ => True := by
    intro e he
    cases e with
    | sj s => trivial
    | pj v =>
      obtain ⟨q, hq, hv⟩ := crashPairs_has_pj v evs cur he
      have := h q hq
      rw [hv] at this; exact this
  clear h
  induction evs generalizing cur with
  | nil => intro q hq; simp [faultPairs] at hq
  | cons e es ih =>
    intro q hq
    have hes : ∀ x ∈ es, match x with | .pj v => P (.ok v) | .sj _ => True := fun x hx => hev x (List.mem_cons_of_mem _ hx)
    simp only [faultPairs, List.mem_append] at hq
    rcases hq with (hq | hq) | hq
    · exact crashPairs_pred P hg cur es hc hes q hq
    · refine crashPairs_pred P hg (e.torn cur) es ?_ hes q hq
      cases e with
      | pj v => exact hg
      | sj s => exact hc
    · refine ih (e.apply cur) ?_ hes q hq
      have := hev e List.mem_cons_self
      cases e with
      | pj v => exact this
      | sj s => exact hc

/-! ### the sections of the library -/

/-- A critical section: what runs under one acquisition of the state lock. (The install section of
    `update_internal` first checks the ban list again and then is either `install` or, if the patch was
    banned meanwhile, just `load`.) -/
inductive Sec where
  | handlePrior | start | success | failure | nextBoot | load | clearEvents
  | rollBack (ns : List Nat)
  | install (o : Offer) (out : Bytes)

/-- The storage directory after the section (atomic semantics: the functions `step` is made of). -/
def Sec.run (env : Env) (cfg : Config) (d : Disk) : Sec → Disk
  | .handlePrior => secHandlePriorBootFailure env cfg d
  | .start => secLaunchStart env cfg d
  | .success => (secLaunchSuccess env cfg d).1
  | .failure => secLaunchFailure env cfg d
  | .nextBoot => (secNextBootPatch env cfg d).1
  | .load => (secCopyEvents cfg d).1
  | .clearEvents => secClearEvents cfg d
  | .rollBack ns => secRollBack env cfg d ns
  | .install o out => secInstall cfg d o out

/-- Its writes of the state files (the crash model's save events). -/
def Sec.saves (env : Env) (cfg : Config) (d : Disk) : Sec → List SaveEv
  | .handlePrior => secHandlePriorSaves env cfg d
  | .start => secLaunchStartSaves env cfg d
  | .success => secLaunchSuccessSaves cfg d
  | .failure => secLaunchFailureSaves env cfg d
  | .nextBoot => secNextBootPatchSaves env cfg d
  | .load => loadSaves d cfg.version
  | .clearEvents => secClearEventsSaves cfg d
  | .rollBack ns => secRollBackSaves env cfg d ns
  | .install o out => secInstallSaves cfg d o out

/-- Only patches on offer are installed. -/
def Sec.ok (offers : List Nat) : Sec → Prop
  | .install o _ => o.number ∈ offers
  | _ => True

theorem secClearEvents_clean (c : Config) (d : Disk) (hu : ¬ Settled d c.version) :
    secClearEvents c d = secClearEvents c (cleanDisk c.version) := by
  simp only [secClearEvents, loadOrNew_clean d c.version hu]

theorem secInstall_clean (c : Config) (d : Disk) (o : Offer) (out : Bytes) (hu : ¬ Settled d c.version) :
    secInstall c d o out = secInstall c (cleanDisk c.version) o out := by
  simp only [secInstall, loadOrNew_clean d c.version hu]

/-- A section that does not find a readable state of this release starts over from the empty one. -/
theorem Sec.run_unsettled (env : Env) (cfg : Config) (d : Disk) (s : Sec) (hu : ¬ Settled d cfg.version) :
    s.run env cfg d = s.run env cfg (cleanDisk cfg.version) := by
  cases s with
  | handlePrior => exact secHandlePrior_clean env cfg d hu
  | start => exact secLaunchStart_clean env cfg d hu
  | success => simp only [Sec.run]; rw [secLaunchSuccess_clean env cfg d hu]
  | failure => exact secLaunchFailure_clean env cfg d hu
  | nextBoot => simp only [Sec.run]; rw [secNextBootPatch_clean env cfg d hu]
  | load => simp only [Sec.run]; rw [secCopyEvents_clean cfg d hu]
  | clearEvents => exact secClearEvents_clean cfg d hu
  | rollBack ns => exact secRollBack_clean env cfg d hu ns
  | install o out => exact secInstall_clean cfg d o out hu

theorem Sec.run_settled (env : Env) (cfg : Config) (d : Disk) (s : Sec) (hst : Settled d cfg.version) :
    Settled (s.run env cfg d) cfg.version := by
  cases s with
  | handlePrior => exact secHandlePrior_settled env cfg d hst
  | start => exact secLaunchStart_settled env cfg d hst
  | success => exact secLaunchSuccess_settled env cfg d hst
  | failure => exact secLaunchFailure_settled env cfg d hst
  | nextBoot => exact secNextBootPatch_settled env cfg d hst
  | load => simp only [Sec.run]; rw [secCopyEvents_disk cfg d hst]; exact hst
  | clearEvents => exact secClearEvents_settled cfg d hst
  | rollBack ns => exact secRollBack_settled env cfg d ns hst
  | install o out => exact secInstall_settled cfg d o out hst

/-- Frame of a section on a readable state: its records are old ones or carry an offered number; an
    artifact is gone, unchanged, or the one of an offered number. -/
theorem Sec.frame (env : Env) (cfg : Config) (d : Disk) (s : Sec) (offers : List Nat)
    (hst : Settled d cfg.version) (hok : s.ok offers) :
    (∀ m, InSlot (loadPatchesState (s.run env cfg d)) m → InSlot (loadPatchesState d) m ∨ m.number ∈ offers) ∧
    (∀ k, (s.run env cfg d).art k = none ∨ (s.run env cfg d).art k = d.art k ∨ k ∈ offers) := by
  have mk : ∀ d' : Disk, SlotsSubD d' d → ArtSub d' d →
      (∀ m, InSlot (loadPatchesState d') m → InSlot (loadPatchesState d) m ∨ m.number ∈ offers) ∧
      (∀ k, d'.art k = none ∨ d'.art k = d.art k ∨ k ∈ offers) := by
    intro d' h1 h2
    refine ⟨fun m hm => Or.inl (h1 m hm), fun k => ?_⟩
    rcases h2 k with h | h
    · exact Or.inl h
    · exact Or.inr (Or.inl h)
  cases s with
  | handlePrior => exact mk _ (slots_secHandlePrior env cfg d hst) (artSub_secHandlePrior env cfg d hst)
  | start => exact mk _ (slots_secLaunchStart env cfg d hst) (artSub_secLaunchStart env cfg d hst)
  | success => exact mk _ (slots_secLaunchSuccess env cfg d hst) (artSub_secLaunchSuccess env cfg d hst)
  | failure => exact mk _ (slots_secLaunchFailure env cfg d hst) (artSub_secLaunchFailure env cfg d hst)
  | nextBoot => exact mk _ (slots_secNextBootPatch env cfg d hst) (artSub_secNextBootPatch env cfg d hst)
  | load => simp only [Sec.run]; rw [secCopyEvents_disk cfg d hst]; exact mk _ (SlotsSubD.refl d) (ArtSub.refl d)
  | clearEvents => exact mk _ (slots_secClearEvents cfg d hst) (artSub_secClearEvents cfg d hst)
  | rollBack ns =>
    exact mk _ (slots_rollBackIfNeeded env cfg d (some ns) hst) (artSub_rollBackIfNeeded env cfg d (some ns) hst)
  | install o out =>
    have ho : o.number ∈ offers := hok
    refine ⟨fun m hm => ?_, fun k => ?_⟩
    · rcases slots_secInstall cfg d o out hst m hm with h | h
      · right; rw [h]; exact ho
      · exact Or.inl h
    · by_cases hk : k = o.number
      · right; right; rw [hk]; exact ho
      · simp only [Sec.run]
        rw [art_secInstall cfg d o out hst, art_addPatch]
        simp only [hk, if_false]
        have hd : (PM.new d).disk.art k = d.art k := rfl
        cases (PM.new d).ps.last <;> cases (PM.new d).ps.next <;> simp only [] <;> (try split) <;> (try split) <;>
          first | (left; rfl) | (right; left; exact hd)

/-! ### what stays true of the storage directory -/

/-- The records a selection may come from: those of the state before (if that was a readable state
    of this release), or records carrying the number of a patch on offer. -/
def AllowedE (dpre : Disk) (v : String) (offers : List Nat) (m : Meta) : Prop :=
  (Settled dpre v ∧ InSlot (loadPatchesState dpre) m) ∨ m.number ∈ offers

/-- If the state files read as a state of this release, every record is allowed — or, once the
    fault has happened, has no artifact (a stale record that a failed reset could not erase). -/
def InvE (A : Meta → Prop) (v : String) (faulted : Bool) (d : Disk) : Prop :=
  Settled d v → ∀ m, InSlot (loadPatchesState d) m → A m ∨ (faulted = true ∧ d.art m.number = none)

theorem InvE_clean (A : Meta → Prop) (v : String) (b : Bool) : InvE A v b (cleanDisk v) := by
  intro _ m hm; simp [InSlot, loadPatchesState, cleanDisk, JFile.getD] at hm

/-- Every section, run without a fault from any storage directory, keeps the invariant. -/
theorem Sec.inv (env : Env) (cfg : Config) (A : Meta → Prop) (offers : List Nat) (hA : ∀ m : Meta, m.number ∈ offers → A m)
    (b : Bool) (d : Disk) (s : Sec) (hok : s.ok offers) (h : InvE A cfg.version b d) :
    InvE A cfg.version b (s.run env cfg d) := by
  have settled : ∀ d : Disk, Settled d cfg.version → InvE A cfg.version b d → InvE A cfg.version b (s.run env cfg d) := by
    intro d hst h _ m hm
    obtain ⟨f1, f2⟩ := Sec.frame env cfg d s offers hst hok
    rcases f1 m hm with hm' | ho
    · rcases h hst m hm' with ha | ⟨hb, hn⟩
      · exact Or.inl ha
      · rcases f2 m.number with e | e | e
        · exact Or.inr ⟨hb, e⟩
        · exact Or.inr ⟨hb, e.trans hn⟩
        · exact Or.inl (hA m e)
    · exact Or.inl (hA m ho)
  by_cases hst : Settled d cfg.version
  · exact settled d hst h
  · rw [Sec.run_unsettled env cfg d s hst]
    exact settled _ (settled_clean _) (InvE_clean A _ b)

/-- The crash states of every section, from a readable state whose records are allowed. -/
theorem Sec.crash_ok (env : Env) (cfg : Config) (A : Meta → Prop) (offers : List Nat) (hA : ∀ m : Meta, m.number ∈ offers → A m)
    (d : Disk) (s : Sec) (hok : s.ok offers) (hst : Settled d cfg.version) (hd : SlotsOK A d) :
    ∀ q ∈ crashPairs (files d) (s.saves env cfg d), PjOK A q.2 := by
  cases s with
  | handlePrior => exact seg_failure env cfg A d hst hd _
  | start => exact seg_launchStart env cfg A d hst hd
  | success => exact seg_launchSuccess cfg A d hst hd
  | failure => exact seg_failure env cfg A d hst hd _
  | nextBoot => exact seg_nextBootPatch env cfg A d hst hd
  | load => exact seg_load cfg A d hst hd
  | clearEvents => exact seg_clearEvents cfg A d hst hd
  | rollBack ns => exact seg_rollBack env cfg A d hst hd ns
  | install o out => exact seg_install cfg A d hst hd o out (fun m hm => hA m (by rw [hm]; exact hok))

/-- … and so the state files after a single failed operation of the section. -/
theorem Sec.fault_ok (env : Env) (cfg : Config) (A : Meta → Prop) (offers : List Nat) (hA : ∀ m : Meta, m.number ∈ offers → A m)
    (d : Disk) (s : Sec) (hok : s.ok offers) (hst : Settled d cfg.version) (hd : SlotsOK A d) (q : StateFiles)
    (hq : q ∈ crashPairs (files d) (s.saves env cfg d) ∨ q ∈ faultPairs (files d) (s.saves env cfg d)) : PjOK A q.2 := by
  have hc := Sec.crash_ok env cfg A offers hA d s hok hst hd
  rcases hq with hq | hq
  · exact hc q hq
  · exact faultPairs_pred (PjOK A) (PjOK_garbage A) _ _ hc q hq

/-! ### a fault inside the release-change reset -/

/-- The patches file after a list of saves: the last value saved, or what it was. -/
theorem applySaves_pj (evs : List SaveEv) (cur : StateFiles) :
    (∃ v, SaveEv.pj v ∈ evs ∧ (applySaves cur evs).2 = .ok v) ∨
    ((∀ v, SaveEv.pj v ∉ evs) ∧ (applySaves cur evs).2 = cur.2) := by
  induction evs generalizing cur with
  | nil => right; exact ⟨fun v h => (by cases h), rfl⟩
  | cons e es ih =>
    simp only [applySaves, List.foldl]
    rcases ih (e.apply cur) with ⟨v, hv, he⟩ | ⟨hno, he⟩
    · left; exact ⟨v, List.mem_cons_of_mem _ hv, he⟩
    · cases e with
      | pj v => left; exact ⟨v, List.mem_cons_self, he⟩
      | sj s =>
        right
        refine ⟨fun v hv => ?_, he⟩
        rcases List.mem_cons.1 hv with h | h
        · cases h
        · exact hno v h

/-- A section that meets an unreadable (or another release's) state resets it — and ONE of the three
    steps of the reset fails (`createNewAndSaveF`); the section then runs on from the empty state it
    holds in memory (`mem`: what it believes the files to be, with the `patches/` that is really
    there), saving over whatever the failed reset left. -/
def resetThen (env : Env) (cfg : Config) (d : Disk) (s : Sec) (fp fr fs : Bool) : Disk :=
  let r := createNewAndSaveF d cfg.version fp fr fs
  let mem : Disk := { cleanDisk cfg.version with patches := r.patches }
  let q := applySaves (files r) (s.saves env cfg mem)
  { stateJson := q.1, patchesJson := q.2, patches := (s.run env cfg mem).patches }

theorem art_of_patches {a b : Disk} (h : a.patches = b.patches) (k : Nat) : a.art k = b.art k := by
  simp [Disk.art, h]

theorem Sec.install_saves_pj (env : Env) (cfg : Config) (d : Disk) (o : Offer) (out : Bytes) :
    ∃ v, SaveEv.pj v ∈ (Sec.install o out).saves env cfg d :=
  ⟨_, by simp only [Sec.saves, secInstallSaves]; exact List.mem_append_right _ List.mem_cons_self⟩

theorem resetThen_inv (env : Env) (cfg : Config) (A : Meta → Prop) (offers : List Nat) (hA : ∀ m : Meta, m.number ∈ offers → A m)
    (d : Disk) (s : Sec) (hok : s.ok offers) (fp fr fs : Bool) (hone : (fp && fr) = false) :
    InvE A cfg.version true (resetThen env cfg d s fp fr fs) := by
  intro _ m hm
  let r := createNewAndSaveF d cfg.version fp fr fs
  let mem : Disk := { cleanDisk cfg.version with patches := r.patches }
  have hmst : Settled mem cfg.version := ⟨_, rfl, rfl⟩
  have hmd : SlotsOK A mem := by intro m hm; simp [mem, InSlot, loadPatchesState, cleanDisk, JFile.getD] at hm
  have hc := Sec.crash_ok env cfg A offers hA mem s hok hmst hmd
  have hm' : InSlot ((applySaves (files r) (s.saves env cfg mem)).2.getD {}) m := hm
  rcases applySaves_pj (s.saves env cfg mem) (files r) with ⟨v, hv, he⟩ | ⟨hno, he⟩
  · -- the section saved the patch records: they come from the empty state and the offers
    obtain ⟨q, hq, hqv⟩ := crashPairs_has_pj v (s.saves env cfg mem) (files mem) hv
    have := hc q hq
    rw [hqv] at this
    rw [he] at hm'
    exact Or.inl (this m hm')
  · -- it did not: the patch records are what the reset left
    rw [he] at hm'
    cases fp with
    | false =>
      -- the emptied file was written
      exfalso
      have : (files r).2 = .ok {} := by
        simp only [r, files, createNewAndSaveF]
        cases fr <;> cases fs <;> rfl
      rw [this] at hm'
      simp [InSlot, JFile.getD] at hm'
    | true =>
      -- it was not: then `patches/` was removed, and this section installs nothing
      right
      refine ⟨rfl, ?_⟩
      have hfr : fr = false := by simpa using hone
      subst hfr
      have hp : mem.patches = none := by simp only [mem, r, createNewAndSaveF]; cases fs <;> rfl
      have hnone : ∀ k, mem.art k = none := fun k => by simp [Disk.art, hp]
      have harts : (resetThen env cfg d s true false fs).art m.number = (s.run env cfg mem).art m.number :=
        art_of_patches rfl _
      rw [harts]
      cases s with
      | install o out =>
        obtain ⟨v, hv⟩ := Sec.install_saves_pj env cfg mem o out
        exact absurd hv (hno v)
      | handlePrior => exact artSub_none (artSub_secHandlePrior env cfg mem hmst) _ (hnone _)
      | start => exact artSub_none (artSub_secLaunchStart env cfg mem hmst) _ (hnone _)
      | success => exact artSub_none (artSub_secLaunchSuccess env cfg mem hmst) _ (hnone _)
      | failure => exact artSub_none (artSub_secLaunchFailure env cfg mem hmst) _ (hnone _)
      | nextBoot => exact artSub_none (artSub_secNextBootPatch env cfg mem hmst) _ (hnone _)
      | load => simp only [Sec.run]; rw [secCopyEvents_disk cfg mem hmst]; exact hnone _
      | clearEvents => exact artSub_none (artSub_secClearEvents cfg mem hmst) _ (hnone _)
      | rollBack ns => exact artSub_none (artSub_rollBackIfNeeded env cfg mem (some ns) hmst) _ (hnone _)

/-! ### a process with at most one I/O error -/

/-- The storage directories a process of release `cfg.version` can produce from `d0`: it runs ANY
    sections in ANY order (each loads the state files and decides from them alone), installing only
    patches on offer; the flag says whether its one fault has happened.
    * `fault`: an operation of a section that found a readable state fails — one of its saves leaves
      the file untouched or cut short and the section stops later or goes on (`faultPairs`), or its saves
      stop at some point (`crashPairs`); `patches/` is then in ANY state (`pd`);
    * `faultReset`: one of the three steps of the release-change reset fails. -/
inductive EReach (env : Env) (cfg : Config) (offers : List Nat) (d0 : Disk) : Bool → Disk → Prop
  | start : EReach env cfg offers d0 false d0
  | sec {b : Bool} {d : Disk} (s : Sec) :
      EReach env cfg offers d0 b d → s.ok offers → EReach env cfg offers d0 b (s.run env cfg d)
  | fault {d : Disk} (s : Sec) (q : StateFiles) (pd : Option PatchesDir) :
      EReach env cfg offers d0 false d → Settled d cfg.version → s.ok offers →
      (q ∈ crashPairs (files d) (s.saves env cfg d) ∨ q ∈ faultPairs (files d) (s.saves env cfg d)) →
      EReach env cfg offers d0 true { stateJson := q.1, patchesJson := q.2, patches := pd }
  | faultReset {d : Disk} (s : Sec) (fp fr fs : Bool) :
      EReach env cfg offers d0 false d → ¬ Settled d cfg.version → s.ok offers →
      ((fp && fr) = false ∧ (fp && fs) = false ∧ (fr && fs) = false) →
      EReach env cfg offers d0 true (resetThen env cfg d s fp fr fs)

theorem eio_inv (env : Env) (cfg : Config) (offers : List Nat) (d0 : Disk) (b : Bool) (d : Disk)
    (h : EReach env cfg offers d0 b d) : InvE (AllowedE d0 cfg.version offers) cfg.version b d := by
  have hA : ∀ m : Meta, m.number ∈ offers → AllowedE d0 cfg.version offers m := fun m hm => Or.inr hm
  induction h with
  | start => intro hst m hm; exact Or.inl (Or.inl ⟨hst, hm⟩)
  | sec s _ hok ih => exact Sec.inv env cfg _ offers hA _ _ s hok ih
  | @fault d s q pd _ hst hok hq ih =>
    have hd : SlotsOK (AllowedE d0 cfg.version offers) d := by
      intro m hm
      rcases ih hst m hm with h | ⟨h, _⟩
      · exact h
      · cases h
    have := Sec.fault_ok env cfg _ offers hA d s hok hst hd q hq
    intro _ m hm
    exact Or.inl (this m hm)
  | faultReset s fp fr fs _ _ hok hone _ => exact resetThen_inv env cfg _ offers hA _ s hok fp fr fs hone.1

theorem artSub_recover (env : Env) (c : Config) (x : Disk) (hst : Settled x c.version) : ArtSub (recover env c x).1 x :=
  (artSub_secNextBootPatch env c _ (secHandlePrior_settled env c x hst)).trans (artSub_secHandlePrior env c x hst)

/-- **C04 (one I/O error, execution continues), the next launch.** Whatever a process with at most
    one failed file-system operation leaves behind: if the next launch of this release selects a patch,
    its artifact validates at that moment, and it is a record of the state the process started from (a
    readable state of this release) or carries the number of a patch the process was installing. -/
theorem eio_safe_next_launch (env : Env) (cfg : Config) (offers : List Nat) (d0 : Disk) (b : Bool) (d : Disk)
    (h : EReach env cfg offers d0 b d) (cfg' : Config) (hv : cfg'.version = cfg.version) (n : Nat)
    (hsel : (recover env cfg' d).2 = some n) :
    ∃ m : Meta, m.number = n ∧ validate env cfg'.key (recover env cfg' d).1 m = true ∧
      ((Settled d0 cfg.version ∧ InSlot (loadPatchesState d0) m) ∨ n ∈ offers) := by
  obtain ⟨hst, ⟨m, hm, hmn, hval⟩, _⟩ := recover_facts env cfg' d n hsel
  refine ⟨m, hmn, hval, ?_⟩
  have hst' : Settled d cfg.version := by rw [← hv]; exact hst
  rcases eio_inv env cfg offers d0 b d h hst' m hm with hA | ⟨_, hnone⟩
  · rcases hA with hA | hA
    · exact Or.inl hA
    · right; rw [← hmn]; exact hA
  · exfalso
    obtain ⟨bts, hb, _⟩ := validate_spec env cfg'.key _ m hval
    rw [artSub_none (artSub_recover env cfg' d hst) _ hnone] at hb
    cases hb

/-- **… and the same process.** A later query of the process itself (every call reloads the state
    files) selects under the same guarantee. -/
theorem eio_safe_same_process (env : Env) (cfg : Config) (offers : List Nat) (d0 : Disk) (b : Bool) (d : Disk)
    (h : EReach env cfg offers d0 b d) (n : Nat) (hsel : (secNextBootPatch env cfg d).2 = some n) :
    ∃ m : Meta, m.number = n ∧ validate env cfg.key (secNextBootPatch env cfg d).1 m = true ∧
      ((Settled d0 cfg.version ∧ InSlot (loadPatchesState d0) m) ∨ n ∈ offers) := by
  by_cases hst : Settled d cfg.version
  · obtain ⟨m, hm, hmn, hval⟩ := sec_next_facts env cfg d n hsel
    refine ⟨m, hmn, hval, ?_⟩
    have hm' := slots_secNextBootPatch env cfg d hst m (Or.inl hm)
    rcases eio_inv env cfg offers d0 b d h hst m hm' with hA | ⟨_, hnone⟩
    · rcases hA with hA | hA
      · exact Or.inl hA
      · right; rw [← hmn]; exact hA
    · exfalso
      obtain ⟨bts, hb, _⟩ := validate_spec env cfg.key _ m hval
      rw [artSub_none (artSub_secNextBootPatch env cfg d hst) _ hnone] at hb
      cases hb
  · rw [secNextBootPatch_clean env cfg d hst, secNextBootPatch_cleanDisk] at hsel
    cases hsel

/-! ### the section model is the model the other theorems are about -/

/-- Replaying a section's saves gives the state files of its atomic semantics. -/
theorem Sec.saves_apply (env : Env) (cfg : Config) (d : Disk) (s : Sec) :
    applySaves (files d) (s.saves env cfg d) = files (s.run env cfg d) := by
  cases s with
  | handlePrior => exact secHandlePriorSaves_apply env cfg d
  | start => exact secLaunchStartSaves_apply env cfg d
  | success => exact secLaunchSuccessSaves_apply env cfg d
  | failure => exact secLaunchFailureSaves_apply env cfg d
  | nextBoot => exact secNextBootPatchSaves_apply env cfg d
  | load => exact loadSaves_apply d cfg.version
  | clearEvents => exact secClearEventsSaves_apply cfg d
  | rollBack ns =>
    by_cases hne : ns = []
    · subst hne
      simp only [Sec.saves, Sec.run, secRollBackSaves, secRollBack, foldFallBackSaves, List.append_nil, List.foldl]
      exact loadSaves_apply d cfg.version
    · exact secRollBackSaves_apply env cfg d ns hne
  | install o out => exact secInstallSaves_apply cfg d o out

/-- A section that finds no readable state of this release: the reset's two writes, then what it
    does from the empty state. (So a fault AFTER the reset is a fault of the same section started from
    the empty state, which `EReach.sec .load` followed by `EReach.fault` expresses.) -/
theorem Sec.saves_unsettled (env : Env) (cfg : Config) (d : Disk) (s : Sec) (hu : ¬ Settled d cfg.version) :
    s.saves env cfg d =
      [.pj {}, .sj { version := cfg.version, events := [] }] ++ s.saves env cfg (cleanDisk cfg.version) := by
  have h0 : loadSaves (cleanDisk cfg.version) cfg.version = [] := loadSaves_settled _ _ (settled_clean _)
  cases s <;>
    simp only [Sec.saves, secHandlePriorSaves, secLaunchStartSaves, secLaunchSuccessSaves, secLaunchFailureSaves,
      secNextBootPatchSaves, secClearEventsSaves, secRollBackSaves, secInstallSaves,
      loadOrNew_clean d cfg.version hu, loadSaves_unsettled d cfg.version hu, h0, List.nil_append, List.append_nil,
      List.cons_append]

/-- Without a fault, `resetThen` is the section's atomic semantics. -/
theorem resetThen_none (env : Env) (cfg : Config) (d : Disk) (s : Sec) (hu : ¬ Settled d cfg.version) :
    resetThen env cfg d s false false false = s.run env cfg d := by
  have hr : createNewAndSaveF d cfg.version false false false = cleanDisk cfg.version := rfl
  rw [Sec.run_unsettled env cfg d s hu]
  simp only [resetThen, hr]
  have hm : ({ cleanDisk cfg.version with patches := (cleanDisk cfg.version).patches } : Disk) = cleanDisk cfg.version := rfl
  rw [hm, Sec.saves_apply]
  rfl

/-- Every section of every call of the crash model (`opSegs`, whose replay is `step`) is one of
    these sections, started from the storage directory that segment starts from; what it installs is
    what the call's patch check offered. -/
theorem opSegs_sec (env : Env) (cfg : Config) (w : World) (op : Op) :
    ∀ sg ∈ opSegs env cfg w op, ∃ s : Sec, s.ok (offersOf [op]) ∧ sg.2 = s.saves env cfg sg.1 := by
  have rb : ∀ (d : Disk) (r : Option (List Nat)), ∀ sg ∈ rollBackIfNeededSegs env cfg d r,
      ∃ s : Sec, s.ok (offersOf [op]) ∧ sg.2 = s.saves env cfg sg.1 := by
    intro d r sg hsg
    cases r with
    | none => simp [rollBackIfNeededSegs] at hsg
    | some ns =>
      simp only [rollBackIfNeededSegs, List.mem_singleton] at hsg
      subst hsg; exact ⟨.rollBack ns, trivial, rfl⟩
  have si : ∀ (d : Disk) (n : Nat), ∀ sg ∈ shouldInstallSegs env cfg d n,
      ∃ s : Sec, s.ok (offersOf [op]) ∧ sg.2 = s.saves env cfg sg.1 := by
    intro d n sg hsg
    simp only [shouldInstallSegs, List.mem_cons] at hsg
    rcases hsg with rfl | hsg
    · exact ⟨.load, trivial, rfl⟩
    · split at hsg
      · cases hsg
      · simp only [List.mem_singleton] at hsg
        subst hsg; exact ⟨.nextBoot, trivial, rfl⟩
  intro sg hsg
  cases op with
  | start => simp only [opSegs, List.mem_singleton] at hsg; subst hsg; exact ⟨.start, trivial, rfl⟩
  | success => simp only [opSegs, List.mem_singleton] at hsg; subst hsg; exact ⟨.success, trivial, rfl⟩
  | failure => simp only [opSegs, List.mem_singleton] at hsg; subst hsg; exact ⟨.failure, trivial, rfl⟩
  | nextN => simp only [opSegs, List.mem_singleton] at hsg; subst hsg; exact ⟨.nextBoot, trivial, rfl⟩
  | nextP => simp only [opSegs, List.mem_singleton] at hsg; subst hsg; exact ⟨.nextBoot, trivial, rfl⟩
  | curN => simp only [opSegs, List.mem_singleton] at hsg; subst hsg; exact ⟨.load, trivial, rfl⟩
  | init p => simp [opSegs] at hsg
  | restart => simp [opSegs] at hsg
  | auto => simp [opSegs] at hsg
  | damage dm => simp [opSegs] at hsg
  | check chan resp =>
    simp only [opSegs] at hsg
    cases resp with
    | none => simp [checkCoreSegs] at hsg
    | some r =>
      simp only [checkCoreSegs, List.mem_append] at hsg
      rcases hsg with hsg | hsg
      · exact rb _ _ sg hsg
      · cases hp : r.patch with
        | none => simp [hp] at hsg
        | some o => simp only [hp] at hsg; exact si _ _ sg hsg
  | update chan sc =>
    simp only [opSegs, updateCoreSegs, List.mem_cons] at hsg
    rcases hsg with rfl | rfl | hsg
    · exact ⟨.load, trivial, rfl⟩
    · exact ⟨.clearEvents, trivial, rfl⟩
    · cases hr : sc.resp with
      | none => simp [hr] at hsg
      | some r =>
        simp only [hr, afterCheckSegs, List.mem_append] at hsg
        rcases hsg with hsg | hsg
        · exact rb _ _ sg hsg
        · split at hsg
          · cases hsg
          · cases hp : r.patch with
            | none => simp [hp] at hsg
            | some o =>
              simp only [hp, List.mem_append] at hsg
              rcases hsg with hsg | hsg
              · exact si _ _ sg hsg
              · have hoff : o.number ∈ offersOf [Op.update chan sc] := by
                  simp [offersOf, Op.offer, Op.respOf, hr, hp]
                split at hsg
                · simp only [installStageSegs] at hsg
                  split at hsg
                  · split at hsg
                    · cases hsg
                    · split at hsg
                      · cases hsg
                      · split at hsg
                        · cases hsg
                        · simp only [List.mem_singleton] at hsg
                          subst hsg
                          exact ⟨.install o _, hoff, rfl⟩
                  · cases hsg
                · cases hsg

/-! ### every sequence of calls is such a process -/

section
variable (env : Env) (cfg : Config) (offers : List Nat) (d0 : Disk) (b : Bool)

theorem reach_shouldInstall (d : Disk) (n : Nat) (h : EReach env cfg offers d0 b d) :
    EReach env cfg offers d0 b (shouldInstall env cfg d n).1 := by
  have h1 : EReach env cfg offers d0 b (secIsKnownBad cfg d n).1 := EReach.sec .load h trivial
  unfold shouldInstall
  simp only []
  split
  · exact h1
  · have h2 : EReach env cfg offers d0 b (secNextBootPatch env cfg (secIsKnownBad cfg d n).1).1 := EReach.sec .nextBoot h1 trivial
    split <;> exact h2

theorem reach_rollBackIfNeeded (d : Disk) (rb : Option (List Nat)) (h : EReach env cfg offers d0 b d) :
    EReach env cfg offers d0 b (rollBackIfNeeded env cfg d rb) := by
  cases rb with
  | none => exact h
  | some ns => exact EReach.sec (.rollBack ns) h trivial

theorem reach_checkCore (d : Disk) (resp : Option CheckResp) (h : EReach env cfg offers d0 b d) :
    EReach env cfg offers d0 b (checkCore env cfg d resp).1 := by
  unfold checkCore
  cases resp with
  | none => exact h
  | some r =>
    simp only []
    have h1 := reach_rollBackIfNeeded env cfg offers d0 b d r.rolledBack h
    cases r.patch with
    | none => exact h1
    | some o => exact reach_shouldInstall env cfg offers d0 b _ o.number h1

theorem reach_installStage (base : Option Bytes) (d : Disk) (o : Offer) (dl : Option Bytes) (ho : o.number ∈ offers)
    (h : EReach env cfg offers d0 b d) : EReach env cfg offers d0 b (installStage env cfg base d o dl).1 := by
  unfold installStage
  cases dl with
  | none => exact h
  | some stream =>
    cases base with
    | none => exact h
    | some bs =>
      simp only []
      cases bipatchDecode stream bs with
      | error e => exact h
      | ok out =>
        simp only []
        split
        · exact h
        · split
          · exact h
          · exact EReach.sec (.install o out) h ho

theorem reach_updateCore (base : Option Bytes) (d : Disk) (sc : UpdateScript)
    (ho : ∀ o, sc.resp.bind (·.patch) = some o → o.number ∈ offers) (h : EReach env cfg offers d0 b d) :
    EReach env cfg offers d0 b (updateCore env cfg base d sc).1 := by
  unfold updateCore
  simp only []
  have h1 : EReach env cfg offers d0 b (secCopyEvents cfg d).1 := EReach.sec .load h trivial
  have h2 : EReach env cfg offers d0 b (secClearEvents cfg (secCopyEvents cfg d).1) := EReach.sec .clearEvents h1 trivial
  cases hr : sc.resp with
  | none => exact h2
  | some r =>
    simp only []
    unfold afterCheck
    simp only []
    have h3 := reach_rollBackIfNeeded env cfg offers d0 b _ r.rolledBack h2
    split
    · exact h3
    · cases hp : r.patch with
      | none => exact h3
      | some o =>
        simp only []
        have h4 := reach_shouldInstall env cfg offers d0 b _ o.number h3
        split
        · exact h4
        · exact h4
        · exact reach_installStage env cfg offers d0 b base _ o sc.dl (ho o (by simp [hr, hp])) h4

/-- Every call of a configured process of this release keeps the storage directory inside `EReach`:
    the theorem's processes include every sequence of calls the model `step` can make. -/
theorem reach_step (w : World) (op : Op) (hc : w.config = some cfg) (hop : LaunchOp op)
    (ho : ∀ o, op.offer = some o → o.number ∈ offers) (h : EReach env cfg offers d0 b w.disk) :
    EReach env cfg offers d0 b (step env w op).1.disk := by
  cases he : entersWith w.config op with
  | none =>
    rw [step_disk_noenter env w op he]
    cases op <;> first | exact h | exact hop.elim
  | some c =>
    rw [step_disk_enter env w op c he]
    have hcc : c = cfg := by
      cases op with
      | init p => simp [entersWith, hc] at he
      | check chan resp =>
        cases resp with
        | none => simp [entersWith] at he
        | some r => simp only [entersWith, hc] at he; split at he <;> first | (cases he; rfl) | cases he
      | restart => simp [entersWith] at he
      | auto => simp [entersWith] at he
      | damage d => simp [entersWith] at he
      | start => simp only [entersWith, hc] at he; cases he; rfl
      | success => simp only [entersWith, hc] at he; cases he; rfl
      | failure => simp only [entersWith, hc] at he; cases he; rfl
      | nextN => simp only [entersWith, hc] at he; cases he; rfl
      | nextP => simp only [entersWith, hc] at he; cases he; rfl
      | curN => simp only [entersWith, hc] at he; cases he; rfl
      | update chan sc => simp only [entersWith, hc] at he; cases he; rfl
    subst hcc
    cases op with
    | init p => exact EReach.sec .handlePrior h trivial
    | start => exact EReach.sec .start h trivial
    | success => exact EReach.sec .success h trivial
    | failure => exact EReach.sec .failure h trivial
    | nextN => exact EReach.sec .nextBoot h trivial
    | nextP => exact EReach.sec .nextBoot h trivial
    | curN => exact EReach.sec .load h trivial
    | check chan resp => exact reach_checkCore env c offers d0 b _ resp h
    | update chan sc =>
      exact reach_updateCore env c offers d0 b _ _ sc (fun o hoo => ho o (by simpa [Op.offer, Op.respOf] using hoo)) h
    | restart => exact h
    | auto => exact h
    | damage dm => exact h

/-- … and so does every sequence of calls of a process. -/
theorem reach_ops (ops : List Op) : ∀ (w : World), w.config = some cfg → (∀ op ∈ ops, LaunchOp op) →
    (∀ op ∈ ops, ∀ o, op.offer = some o → o.number ∈ offers) → EReach env cfg offers d0 b w.disk →
    EReach env cfg offers d0 b (ops.foldl (fun w op => (step env w op).1) w).disk := by
  induction ops with
  | nil => intro w _ _ _ h; exact h
  | cons op rest ih =>
    intro w hc hops ho h
    simp only [List.foldl]
    have hop := hops op List.mem_cons_self
    have hc' : (step env w op).1.config = some cfg := by
      rw [step_config, hc]; cases op <;> first | rfl | exact hop.elim
    exact ih _ hc' (fun x hx => hops x (List.mem_cons_of_mem _ hx)) (fun x hx => ho x (List.mem_cons_of_mem _ hx))
      (reach_step env cfg offers d0 b w op hc hop (ho op List.mem_cons_self) h)

end

/-! ### a failed removal of artifacts does not change what is saved

  `EReach.fault` lets an operation on `patches/` fail by leaving `patches/` in ANY state while the
  section's saves are the ones of the atomic semantics (cut at some point). That presupposes that what a
  section saves does not depend on whether its artifact operations succeeded. For the fallback — the
  only place where a decision (is the last good patch still valid?) is taken AFTER artifacts were removed
  — this is proved here: the code ignores the errors of `delete_patch_artifacts`, and the records it
  saves are the same whether or not anything was removed. (The success sweep decides nothing after
  removing: `deleteOlderThan_ps`. `add_patch` gives up before saving when placing the file fails.) -/

/-- `try_fall_back_from_patch` when no removal of artifacts works (`remove_dir_all` fails, errors ignored). -/
def PM.tryFallBackKeep (env : Env) (key : Option String) (pm : PM) (badN : Nat) : PM :=
  let pm : PM :=
    match pm.ps.next with
    | some nx => if nx.number = badN then { pm with ps := { pm.ps with next := none } } else pm
    | none => pm
  let pm : PM :=
    match pm.ps.last with
    | some lb =>
      if lb.number ≠ badN ∧ validate env key pm.disk lb then
        (match pm.ps.next with
        | none => { pm with ps := { pm.ps with next := some lb } }
        | some _ => pm)
      else { pm with ps := { pm.ps with last := none } }
    | none => pm
  pm.save

theorem validate_of_art (env : Env) (key : Option String) (d d' : Disk) (m : Meta) (h : d'.art m.number = d.art m.number) :
    validate env key d' m = validate env key d m := by
  unfold validate; rw [h]

theorem tryFallBackKeep_ps (env : Env) (key : Option String) (pm : PM) (n : Nat) :
    (pm.tryFallBackKeep env key n).ps = (pm.tryFallBack env key n).ps := by
  rw [tryFallBack_ps]
  obtain ⟨disk, ⟨last, next, booting, bad⟩⟩ := pm
  unfold PM.tryFallBackKeep fallBackPS lastValidAfter
  have hv : ∀ lb : Meta, lb.number ≠ n → validate env key (disk.deleteArtifacts n) lb = validate env key disk lb := by
    intro lb hne
    apply validate_of_art
    rw [art_deleteArtifacts]; simp [hne]
  cases next with
  | none =>
    cases last with
    | none => simp [PM.save]
    | some lb =>
      by_cases hne : lb.number = n
      · simp [PM.save, hne]
      · simp only [PM.save, hne, ne_eq, not_false_eq_true, true_and, hv lb hne]
        split <;> simp
  | some nx =>
    cases last with
    | none => by_cases hx : nx.number = n <;> simp [PM.save, hx]
    | some lb =>
      by_cases hne : lb.number = n
      · by_cases hx : nx.number = n <;> simp [PM.save, hne, hx]
      · by_cases hx : nx.number = n
        · simp only [PM.save, hne, hx, ne_eq, not_false_eq_true, true_and, hv lb hne, if_true]
          split <;> simp
        · simp only [PM.save, hne, hx, ne_eq, not_false_eq_true, true_and, hv lb hne, if_false]
          split <;> simp

end Updater
