/-
  C06  Network failure or malformed server traffic never harms what is installed.

  The model sees the network only through classified results: every event post, the check and
  the download are `error | ok value`, and a parsed response is arbitrary (contradictory
  `patch_available` / `patch`, any rollback list). `step` is total, so every call returns.
-/
import UpdaterModel.Props.C05

namespace Updater

/-- A failed patch-check request: error status, nothing but the event queue changes. -/
theorem C06_check_failed (env : Env) (c : Config) (base) (d : Disk) (dl) (hst : Settled d c.version) :
    (updateCore env c base d { resp := none, dl := dl }).2.1 = .errCheck ∧
    (updateCore env c base d { resp := none, dl := dl }).1 = secClearEvents c d := by
  unfold updateCore; simp [secCopyEvents_disk c d hst]

/-- `check_for_downloadable_update` with a failed request touches nothing and answers false. -/
theorem C06_explicit_check_failed (env : Env) (c : Config) (d : Disk) : checkCore env c d none = (d, false) := rfl

/-- Contradictory response: `patch_available` without a patch is an error, after its rollbacks. -/
theorem C06_bad_response (env : Env) (c : Config) (base) (d : Disk) (r : CheckResp) (dl)
    (ha : r.available = true) (hp : r.patch = none) :
    (afterCheck env c base d r dl).2.1 = .errBadResponse ∧
    (afterCheck env c base d r dl).1 = rollBackIfNeeded env c d r.rolledBack := by
  unfold afterCheck; simp [ha, hp]

/-- A failed download (or any later failure) leaves the disk as the install decision left it. -/
theorem C06_download_failed (env : Env) (c : Config) (base) (d : Disk) (o : Offer) :
    installStage env c base d o none = (d, .errDownload) := rfl

/-- The "installed iff everything succeeded" direction not already in `update_installed_sound`:
    good content + healthy response ⇒ installed or already selected (`afterCheck_healthy`), and
    the monitor-level statement over all histories is `C05_holds`. -/
theorem C06_holds (env : Env) (libs : List (String × Bytes)) (ops : List Op) :
    (mon05 libs).accepts env (viewTrace env (World.fresh libs) ops) = true := C05_holds env libs ops

end Updater
