/-
  C06  Network failure or malformed server traffic never harms what is installed.

  The model sees the network only through classified results: every event post, the check and
  the download are `error | ok value`, and a parsed response is arbitrary (contradictory
  `patch_available` / `patch`, any rollback list). `step` is total, so every call returns.
-/
import UpdaterModel.Props.C05

namespace Updater

/-- A failed patch-check request: error status, nothing but the event queue changes. -/
theorem C06_check_failed (env : Env) (c : Config) (base) (d : Disk) (dl) (hst : Settled d c.version) :
    (updateCore env c base d { resp := none, dl := dl }).2.1 = .errCheck ∧
    (updateCore env c base d { resp := none, dl := dl }).1 = secClearEvents c d := by
  unfold updateCore; simp [secCopyEvents_disk c d hst]

/-- `check_for_downloadable_update` with a failed request touches nothing and answers false. -/
theorem C06_explicit_check_failed (env : Env) (c : Config) (d : Disk) : checkCore env c d none = (d, false) := rfl

/-- Contradictory response: `patch_available` without a patch is an error, after its rollbacks. -/
theorem C06_bad_response (env : Env) (c : Config) (base) (d : Disk) (r : CheckResp) (dl)
    (ha : r.available = true) (hp : r.patch = none) :
    (afterCheck env c base d r dl).2.1 = .errBadResponse ∧
    (afterCheck env c base d r dl).1 = rollBackIfNeeded env c d r.rolledBack := by
  unfold afterCheck; simp [ha, hp]

/-- A failed download (or any later failure) leaves the disk as the install decision left it. -/
theorem C06_download_failed (env : Env) (c : Config) (base) (d : Disk) (o : Offer) :
    installStage env c base d o none = (d, .errDownload) := rfl

/-- The "installed iff everything succeeded" direction not already in `update_installed_sound`:
    good content + healthy response ⇒ installed or already selected (`afterCheck_healthy`), and
    the monitor-level statement over all histories is `C05_holds`. -/
theorem C06_holds (env : Env) (libs : List (String × Bytes)) (ops : List Op) :
    (mon05 libs).accepts env (viewTrace env (World.fresh libs) ops) = true := C05_holds env libs ops

/-! ### the request clauses as a monitor (evaluated on implementation traces, incl. real HTTP) -/

theorem updateCore_installed_needs (env : Env) (c : Config) (base) (d : Disk) (sc : UpdateScript)
    (h : (updateCore env c base d sc).2.1 = .installed) : sc.resp.isSome = true ∧ sc.dl.isSome = true := by
  unfold updateCore at h
  simp only [] at h
  cases hr : sc.resp with
  | none => simp [hr] at h
  | some r =>
    simp only [hr] at h
    refine ⟨rfl, ?_⟩
    cases hd : sc.dl with
    | some b => rfl
    | none =>
      exfalso
      unfold afterCheck at h
      simp only [hd] at h
      split at h
      · cases h
      · split at h
        · cases h
        · split at h
          · cases h
          · cases h
          · simp [installStage] at h

theorem updateCore_installed_available (env : Env) (c : Config) (base) (d : Disk) (sc : UpdateScript)
    (h : (updateCore env c base d sc).2.1 = .installed) : (sc.resp.map (·.available)).getD false = true := by
  unfold updateCore at h
  simp only [] at h
  cases hr : sc.resp with
  | none => simp [hr] at h
  | some r =>
    simp only [hr] at h
    cases ha : r.available with
    | true => simp [ha]
    | false =>
      exfalso
      unfold afterCheck at h
      simp [ha] at h

theorem updateCore_check_failed_acts (env : Env) (c : Config) (base) (d : Disk) (sc : UpdateScript) (hr : sc.resp = none) :
    (updateCore env c base d sc).2.1 = .errCheck ∧ (updateCore env c base d sc).2.2.2 = false := by
  unfold updateCore; simp [hr]

/-- **C06, the request clauses, over all histories.** -/
theorem C06_requests_hold (env : Env) (libs : List (String × Bytes)) (ops : List Op) :
    mon06.accepts env (viewTrace env (World.fresh libs) ops) = true := by
  apply Monitor.accepts_of_inv mon06 env libs (fun w g => g.cfg = w.config)
  · rfl
  · intro w g op pre hinv hshow
    refine ⟨?_, by simp only [mon06]; rw [step_config, hinv]⟩
    simp only [mon06, hinv]
    cases op with
    | update chan sc =>
      cases hc : w.config with
      | none => rfl
      | some c =>
        have hret := update_ret env w c hc chan sc
        have hnet : (postView env w (.update chan sc)).net =
            updateActs env (withChannel c chan) sc (updateCore env c (w.base c) w.disk sc).2.1
              (updateCore env c (w.base c) w.disk sc).2.2.1 (updateCore env c (w.base c) w.disk sc).2.2.2 := by
          simp [postView, step, update, hc, World.view]
        simp only [hret]
        rw [firstFail_none_iff]
        intro ck hck
        simp only [List.mem_cons, List.mem_nil_iff, or_false] at hck
        rcases hck with rfl | rfl | rfl
        · cases hr : sc.resp with
          | some r => rfl
          | none =>
            obtain ⟨h1, h2⟩ := updateCore_check_failed_acts env c (w.base c) w.disk sc hr
            simp only [Option.isSome, Bool.false_or, h1, decide_true, Bool.true_and, hnet, h2, updateActs, hr]
            simp [isDownload]
        · cases hi : decide ((updateCore env c (w.base c) w.disk sc).2.1 = UpdateOut.installed) with
          | false => rfl
          | true =>
            have := updateCore_installed_needs env c (w.base c) w.disk sc (of_decide_eq_true hi)
            simp [this.1, this.2]
        · cases hi : decide ((updateCore env c (w.base c) w.disk sc).2.1 = UpdateOut.installed) with
          | false => rfl
          | true =>
            have := updateCore_installed_available env c (w.base c) w.disk sc (of_decide_eq_true hi)
            simp [this]
    | check chan resp =>
      cases hc : w.config with
      | none => rfl
      | some c =>
        cases resp with
        | some r => simp [postView, step, check, hc, World.view, firstFail]
        | none => simp [postView, step, check, hc, World.view, firstFail, checkCore]
    | _ => rfl

end Updater
