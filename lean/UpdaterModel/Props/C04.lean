/-
  C04  Process death at any point leaves a safe state.

  If the process is killed at any instant inside any updater call, the next launch still
  initialises and selects either no patch or an intact, previously verified patch of the currently
  installed release that had not been banned before the interrupted call and whose own launch was
  not in progress when the process died.

  Proved here for process death (crash points = the states of `Model/Crash.lean`: before, between
  and in the middle of the rewrites of the two state files, with ARBITRARY contents of `patches/`).
  The property's second sentence (a single I/O error with continued execution) is not covered by
  these theorems.
-/
import UpdaterModel.Model.Crash
import UpdaterModel.Lemmas.Running
import UpdaterModel.Props.C03

namespace Updater

/-! ### what any next launch selects, from any disk -/

theorem secHandlePrior_unsettled_clean (env : Env) (c : Config) (x : Disk) (hu : ¬ Settled x c.version) :
    secHandlePriorBootFailure env c x = cleanDisk c.version := by
  rw [secHandlePrior_clean env c x hu, secHandlePrior_cleanDisk]

/-- **Recovery, for every disk.** If the launch after a process death (initialisation with its
    crash detection, then the next-boot query) selects patch `n`, then the stored state was a readable
    state of this release, `n` is the number of a record that was in one of the three slots at death,
    it was not the patch whose boot was in progress at death, and its artifact validates. -/
theorem recover_facts (env : Env) (c : Config) (x : Disk) (n : Nat) (h : (recover env c x).2 = some n) :
    Settled x c.version ∧
    (∃ m, InSlot (loadPatchesState x) m ∧ m.number = n ∧ validate env c.key (recover env c x).1 m = true) ∧
    (loadPatchesState x).booting.map (·.number) ≠ some n := by
  unfold recover at h ⊢
  by_cases hst : Settled x c.version
  · have h1 := secHandlePrior_settled env c x hst
    obtain ⟨m, hm, hmn, hv⟩ := sec_next_facts env c _ n h
    have s2 := slots_secNextBootPatch env c _ h1 m (Or.inl hm)
    have s1 := slots_secHandlePrior env c x hst m s2
    refine ⟨hst, ⟨m, s1, hmn, hv⟩, ?_⟩
    -- the patch that was booting is banned by the crash detection
    have hb1 := secHandlePrior_ban env c x [] hst (BanD_nil _)
    intro hbt
    cases hbo : (loadPatchesState x).booting with
    | none => rw [hbo] at hbt; cases hbt
    | some p =>
      rw [hbo] at hbt hb1
      have hpn : p.number = n := by simpa using hbt
      have hb2 := (secNextBootPatch_ban env c _ _ h1 hb1).1
      exact hb2.2.1 m hm (by rw [hmn, ← hpn]; exact List.mem_cons_self)
  · rw [secHandlePrior_unsettled_clean env c x hst, secNextBootPatch_cleanDisk] at h
    cases h

/-! ### the records a dying process can leave in the state files -/

/-- The records the next launch may select: those recorded before the interrupted launch — if
    that state was a readable state of this release — or the one the interrupted call was installing. -/
def Allowed (dpre : Disk) (v : String) (offers : List Nat) (m : Meta) : Prop :=
  (Settled dpre v ∧ InSlot (loadPatchesState dpre) m) ∨
  (m.number ∈ offers ∧ (Settled dpre v → m.number ∉ (loadPatchesState dpre).bad))

def PjOK (A : Meta → Prop) (pj : JFile PatchesState) : Prop := ∀ m, InSlot (pj.getD {}) m → A m

def SettledF (sj : JFile SState) (v : String) : Prop := ∃ s, sj = .ok s ∧ s.version = v

/-- A pair of state files is harmless if, whenever it reads as a state of this release, it only
    records allowed patches. -/
def FilesOK (A : Meta → Prop) (v : String) (q : StateFiles) : Prop := SettledF q.1 v → PjOK A q.2

theorem PjOK_garbage (A) : PjOK A .garbage := by intro m h; simp [JFile.getD, InSlot] at h
theorem PjOK_empty (A) : PjOK A (.ok {}) := by intro m h; simp [JFile.getD, InSlot] at h

/-- Every element of the crash pairs of a list of saves: the start, a torn save, or a completed one. -/
theorem crashPairs_all (P : StateFiles → Prop) :
    ∀ (evs : List SaveEv) (cur : StateFiles), P cur →
      (∀ (pre : List SaveEv) (e : SaveEv) (post : List SaveEv), evs = pre ++ e :: post →
        P (e.torn (applySaves cur pre)) ∧ P (e.apply (applySaves cur pre))) →
      ∀ q ∈ crashPairs cur evs, P q := by
  intro evs
  induction evs with
  | nil => intro cur hc _ q hq; simp only [crashPairs, List.mem_singleton] at hq; rw [hq]; exact hc
  | cons e es ih =>
    intro cur hc hstep q hq
    simp only [crashPairs, List.mem_cons] at hq
    have h0 := hstep [] e es rfl
    simp only [applySaves, List.foldl] at h0
    rcases hq with rfl | rfl | hq
    · exact hc
    · exact h0.1
    · apply ih (e.apply cur) h0.2 _ q hq
      intro pre e' post he
      have := hstep (e :: pre) e' post (by rw [he]; rfl)
      simpa [applySaves, List.foldl] using this

/-- Saves that only write allowed records (and never touch state.json's release) keep every crash
    pair harmless. -/
theorem crashPairs_pjok (A : Meta → Prop) (cur : StateFiles) (evs : List SaveEv) (hc : PjOK A cur.2)
    (hev : ∀ e ∈ evs, match e with | .pj v => PjOK A (.ok v) | .sj _ => True) :
    ∀ q ∈ crashPairs cur evs, PjOK A q.2 := by
  -- the patches file of every intermediate state is the start, garbage, or a saved value
  have key : ∀ (pre : List SaveEv) (c0 : StateFiles), PjOK A c0.2 →
      (∀ e ∈ pre, match e with | .pj v => PjOK A (.ok v) | .sj _ => True) → PjOK A (applySaves c0 pre).2 := by
    intro pre
    induction pre with
    | nil => intro c0 h0 _; exact h0
    | cons e es ih =>
      intro c0 h0 h
      simp only [applySaves, List.foldl]
      apply ih (e.apply c0) _ (fun x hx => h x (List.mem_cons_of_mem _ hx))
      have he := h e List.mem_cons_self
      cases e with
      | pj v => exact he
      | sj s => exact h0
  apply crashPairs_all (fun q => PjOK A q.2) evs cur hc
  intro pre e post heq
  have hpre := key pre cur hc (fun x hx => hev x (by rw [heq]; exact List.mem_append_left _ hx))
  have he := hev e (by rw [heq]; exact List.mem_append_right _ List.mem_cons_self)
  cases e with
  | pj v => exact ⟨PjOK_garbage A, he⟩
  | sj s => exact ⟨hpre, hpre⟩

end Updater

namespace Updater

/-! ### every section, from a readable state of this release -/

/-- Every record of the storage directory is allowed. -/
def SlotsOK (A : Meta → Prop) (d : Disk) : Prop := ∀ m, InSlot (loadPatchesState d) m → A m

theorem SlotsOK_sub {A} {d d' : Disk} (h : SlotsSubD d' d) (hd : SlotsOK A d) : SlotsOK A d' := fun m hm => hd m (h m hm)

theorem PjOK_files {A} {d : Disk} (h : SlotsOK A d) : PjOK A (files d).2 := h

theorem PjOK_of_sub {A} {ps : PatchesState} {d : Disk} (hs : SlotsSub ps (loadPatchesState d)) (hd : SlotsOK A d) :
    PjOK A (.ok ps) := fun m hm => hd m (hs m hm)

theorem loadSaves_settled (d : Disk) (v : String) (h : Settled d v) : loadSaves d v = [] := by
  obtain ⟨s, hs, hv⟩ := h
  simp [loadSaves, hs, hv]

section
variable (env : Env) (cfg : Config) (A : Meta → Prop) (d : Disk) (hst : Settled d cfg.version) (hd : SlotsOK A d)
include hst hd

theorem seg_nextBootPatch : ∀ q ∈ crashPairs (files d) (secNextBootPatchSaves env cfg d), PjOK A q.2 := by
  obtain ⟨s, hs, hv⟩ := hst
  apply crashPairs_pjok A _ _ (PjOK_files hd)
  intro e he
  simp only [secNextBootPatchSaves, loadSaves_settled d _ ⟨s, hs, hv⟩, loadOrNew_settled d _ s hs hv, List.nil_append,
    PM.nextBootPatchSaves] at he
  cases hnx : (PM.new d).ps.next with
  | none => simp [hnx] at he
  | some nx =>
    simp only [hnx] at he
    split at he
    · cases he
    · simp only [List.mem_singleton] at he; subst he
      exact PjOK_of_sub (tryFallBack_slots env cfg.key (PM.new d) nx.number) hd

theorem seg_launchStart : ∀ q ∈ crashPairs (files d) (secLaunchStartSaves env cfg d), PjOK A q.2 := by
  obtain ⟨s, hs, hv⟩ := hst
  apply crashPairs_pjok A _ _ (PjOK_files hd)
  intro e he
  simp only [secLaunchStartSaves, loadSaves_settled d _ ⟨s, hs, hv⟩, loadOrNew_settled d _ s hs hv, List.nil_append,
    List.mem_append] at he
  have hn := nextBootPatch_slots env cfg.key (PM.new d)
  rcases he with he | he
  · simp only [PM.nextBootPatchSaves] at he
    cases hnx : (PM.new d).ps.next with
    | none => simp [hnx] at he
    | some nx =>
      simp only [hnx] at he
      split at he
      · cases he
      · simp only [List.mem_singleton] at he; subst he
        exact PjOK_of_sub (tryFallBack_slots env cfg.key (PM.new d) nx.number) hd
  · cases hr : ((PM.new d).nextBootPatch env cfg.key).2 with
    | none => simp [hr] at he
    | some n =>
      simp only [hr, PM.recordBootStartSaves] at he
      cases hnx : ((PM.new d).nextBootPatch env cfg.key).1.ps.next with
      | none => simp [hnx] at he
      | some nx =>
        simp only [hnx] at he
        split at he
        · cases he
        · simp only [List.mem_singleton] at he; subst he
          exact PjOK_of_sub ((recordBootStart_slots _ n).trans hn) hd

theorem seg_launchSuccess : ∀ q ∈ crashPairs (files d) (secLaunchSuccessSaves cfg d), PjOK A q.2 := by
  obtain ⟨s, hs, hv⟩ := hst
  apply crashPairs_pjok A _ _ (PjOK_files hd)
  intro e he
  simp only [secLaunchSuccessSaves, loadSaves_settled d _ ⟨s, hs, hv⟩, loadOrNew_settled d _ s hs hv, List.nil_append,
    PM.recordBootSuccessSaves] at he
  cases hb : (PM.new d).ps.booting with
  | none => simp [hb] at he
  | some bp =>
    simp only [hb, List.mem_singleton] at he; subst he
    exact PjOK_of_sub (recordBootSuccess_slots (PM.new d)) hd

theorem seg_failure (msg : Nat → String) :
    ∀ q ∈ crashPairs (files d) (loadSaves d cfg.version ++ failureSaves env cfg (loadOrNew d cfg.version) msg), PjOK A q.2 := by
  obtain ⟨s, hs, hv⟩ := hst
  apply crashPairs_pjok A _ _ (PjOK_files hd)
  intro e he
  simp only [loadSaves_settled d _ ⟨s, hs, hv⟩, loadOrNew_settled d _ s hs hv, List.nil_append, failureSaves] at he
  cases hb : (PM.new d).ps.booting with
  | none => simp [hb] at he
  | some p =>
    simp only [hb, List.mem_cons, List.mem_nil_iff, or_false] at he
    rcases he with rfl | rfl
    · exact PjOK_of_sub (recordBootFailure_slots env cfg.key (PM.new d) p.number) hd
    · trivial

theorem seg_clearEvents : ∀ q ∈ crashPairs (files d) (secClearEventsSaves cfg d), PjOK A q.2 := by
  apply crashPairs_pjok A _ _ (PjOK_files hd)
  intro e he
  simp only [secClearEventsSaves, loadSaves_settled d _ hst, List.nil_append, List.mem_singleton] at he
  subst he; trivial

theorem seg_load : ∀ q ∈ crashPairs (files d) (loadSaves d cfg.version), PjOK A q.2 := by
  apply crashPairs_pjok A _ _ (PjOK_files hd)
  intro e he
  simp [loadSaves_settled d _ hst] at he

theorem foldFallBackSaves_ok (key : Option String) (ns : List Nat) (pm : PM) (hpm : SlotsSub pm.ps (loadPatchesState d)) :
    ∀ e ∈ foldFallBackSaves env key ns pm, match e with | .pj v => PjOK A (.ok v) | .sj _ => True := by
  induction ns generalizing pm with
  | nil => intro e he; simp [foldFallBackSaves] at he
  | cons n ns ih =>
    intro e he
    simp only [foldFallBackSaves, List.mem_cons] at he
    have hs := (tryFallBack_slots env key pm n).trans hpm
    rcases he with rfl | he
    · exact PjOK_of_sub hs hd
    · exact ih _ hs e he

theorem seg_rollBack (ns : List Nat) : ∀ q ∈ crashPairs (files d) (secRollBackSaves env cfg d ns), PjOK A q.2 := by
  obtain ⟨s, hs, hv⟩ := hst
  apply crashPairs_pjok A _ _ (PjOK_files hd)
  intro e he
  simp only [secRollBackSaves, loadSaves_settled d _ ⟨s, hs, hv⟩, loadOrNew_settled d _ s hs hv, List.nil_append] at he
  exact foldFallBackSaves_ok env cfg A d ⟨s, hs, hv⟩ hd cfg.key ns (PM.new d) (SlotsSub.refl _) e he

theorem seg_install (o : Offer) (out : Bytes) (hnew : ∀ m : Meta, m.number = o.number → A m) :
    ∀ q ∈ crashPairs (files d) (secInstallSaves cfg d o out), PjOK A q.2 := by
  obtain ⟨s, hs, hv⟩ := hst
  apply crashPairs_pjok A _ _ (PjOK_files hd)
  intro e he
  simp only [secInstallSaves, loadSaves_settled d _ ⟨s, hs, hv⟩, loadOrNew_settled d _ s hs hv, List.nil_append,
    List.mem_singleton] at he
  subst he
  intro m hm
  simp only [JFile.getD, addPatch_ps, InSlot] at hm
  rcases hm with h | h | h
  · have : m = { number := o.number, size := out.length, hash := o.hash, sig := o.sig } := by simpa using h.symm
    exact hnew m (by rw [this])
  · exact hd m (Or.inr (Or.inl h))
  · exact hd m (Or.inr (Or.inr h))

end

end Updater

namespace Updater

theorem mem_segCrashPairs (segs : List Segment) (q : StateFiles) :
    q ∈ segCrashPairs segs ↔ ∃ sg ∈ segs, q ∈ crashPairs (files sg.1) sg.2 := by
  simp [segCrashPairs, List.mem_flatMap]

section
variable (env : Env) (cfg : Config) (A : Meta → Prop) (d : Disk) (hst : Settled d cfg.version) (hd : SlotsOK A d)
include hst hd

theorem segs_rollBackIfNeeded (rb : Option (List Nat)) :
    ∀ q ∈ segCrashPairs (rollBackIfNeededSegs env cfg d rb), PjOK A q.2 := by
  intro q hq
  cases rb with
  | none => simp [rollBackIfNeededSegs, segCrashPairs] at hq
  | some ns =>
    simp only [rollBackIfNeededSegs, segCrashPairs, List.flatMap_cons, List.flatMap_nil, List.append_nil] at hq
    exact seg_rollBack env cfg A d hst hd ns q hq

theorem segs_shouldInstall (n : Nat) : ∀ q ∈ segCrashPairs (shouldInstallSegs env cfg d n), PjOK A q.2 := by
  intro q hq
  rw [mem_segCrashPairs] at hq
  obtain ⟨sg, hsg, hq⟩ := hq
  simp only [shouldInstallSegs, secIsKnownBad_eq cfg d n hst, List.mem_cons] at hsg
  rcases hsg with rfl | hsg
  · exact seg_load cfg A d hst hd q hq
  · split at hsg
    · cases hsg
    · simp only [List.mem_singleton] at hsg; subst hsg
      exact seg_nextBootPatch env cfg A d hst hd q hq

theorem segs_installStage (base : Option Bytes) (o : Offer) (dl : Option Bytes) (hnew : ∀ m : Meta, m.number = o.number → A m) :
    ∀ q ∈ segCrashPairs (installStageSegs env cfg base d o dl), PjOK A q.2 := by
  intro q hq
  rw [mem_segCrashPairs] at hq
  obtain ⟨sg, hsg, hq⟩ := hq
  unfold installStageSegs at hsg
  cases dl with
  | none => simp at hsg
  | some stream =>
    cases base with
    | none => simp at hsg
    | some bs =>
      simp only at hsg
      cases hdec : bipatchDecode stream bs with
      | error e => simp [hdec] at hsg
      | ok out =>
        simp only [hdec] at hsg
        split at hsg
        · simp at hsg
        · split at hsg
          · simp at hsg
          · simp only [List.mem_singleton] at hsg; subst hsg
            exact seg_install cfg A d hst hd o out hnew q hq

theorem segs_afterCheck (base : Option Bytes) (r : CheckResp) (dl : Option Bytes) (F : List Nat) (hF : BanD d F)
    (hnew : ∀ o, r.patch = some o → o.number ∉ F → ∀ m : Meta, m.number = o.number → A m) :
    ∀ q ∈ segCrashPairs (afterCheckSegs env cfg base d r dl), PjOK A q.2 := by
  intro q hq
  have h1 := rollBackIfNeeded_settled env cfg d r.rolledBack hst
  have a1 : SlotsOK A (rollBackIfNeeded env cfg d r.rolledBack) := SlotsOK_sub (slots_rollBackIfNeeded env cfg d r.rolledBack hst) hd
  simp only [afterCheckSegs, segCrashPairs, List.flatMap_append, List.mem_append] at hq
  rcases hq with hq | hq
  · exact segs_rollBackIfNeeded env cfg A d hst hd r.rolledBack q hq
  · split at hq
    · simp at hq
    · cases hp : r.patch with
      | none => simp [hp] at hq
      | some o =>
        simp only [hp, List.flatMap_append, List.mem_append] at hq
        rcases hq with hq | hq
        · exact segs_shouldInstall env cfg A _ h1 a1 o.number q hq
        · have h2 := shouldInstall_settled env cfg _ o.number h1
          have a2 : SlotsOK A (shouldInstall env cfg (rollBackIfNeeded env cfg d r.rolledBack) o.number).1 :=
            SlotsOK_sub (slots_shouldInstall env cfg _ o.number h1) a1
          cases hs : (shouldInstall env cfg (rollBackIfNeeded env cfg d r.rolledBack) o.number).2 with
          | ok =>
            simp only [hs] at hq
            have hnotF : o.number ∉ F := fun hm =>
              shouldInstall_ok_notBad env cfg _ o.number h1 hs ((rollBackIfNeeded_ban env cfg d F r.rolledBack hst hF).1 _ hm)
            exact segs_installStage env cfg A _ h2 a2 base o dl (hnew o hp hnotF) q hq
          | knownBad => simp [hs] at hq
          | alreadyInstalled => simp [hs] at hq

theorem segs_updateCore (base : Option Bytes) (sc : UpdateScript) (F : List Nat) (hF : BanD d F)
    (hnew : ∀ o, sc.resp.bind (·.patch) = some o → o.number ∉ F → ∀ m : Meta, m.number = o.number → A m) :
    ∀ q ∈ segCrashPairs (updateCoreSegs env cfg base d sc), PjOK A q.2 := by
  intro q hq
  have e1 := secCopyEvents_disk cfg d hst
  simp only [updateCoreSegs, e1, segCrashPairs, List.flatMap_cons, List.mem_append] at hq
  rcases hq with hq | hq | hq
  · exact seg_load cfg A d hst hd q hq
  · exact seg_clearEvents cfg A d hst hd q hq
  · cases hr : sc.resp with
    | none => simp [hr] at hq
    | some r =>
      simp only [hr] at hq
      exact segs_afterCheck env cfg A _ (secClearEvents_settled cfg d hst) (SlotsOK_sub (slots_secClearEvents cfg d hst) hd)
        base r sc.dl F (secClearEvents_ban cfg d F hst hF) (fun o ho => hnew o (by simp [hr, ho])) q hq

theorem segs_checkCore (resp : Option CheckResp) : ∀ q ∈ segCrashPairs (checkCoreSegs env cfg d resp), PjOK A q.2 := by
  intro q hq
  cases resp with
  | none => simp [checkCoreSegs, segCrashPairs] at hq
  | some r =>
    simp only [checkCoreSegs, segCrashPairs, List.flatMap_append, List.mem_append] at hq
    rcases hq with hq | hq
    · exact segs_rollBackIfNeeded env cfg A d hst hd r.rolledBack q hq
    · cases hp : r.patch with
      | none => simp [hp] at hq
      | some o =>
        simp only [hp] at hq
        exact segs_shouldInstall env cfg A _ (rollBackIfNeeded_settled env cfg d r.rolledBack hst)
          (SlotsOK_sub (slots_rollBackIfNeeded env cfg d r.rolledBack hst) hd) o.number q hq

end

/-- Every section of every call, from a readable state of this release whose records are allowed. -/
theorem segs_op (env : Env) (cfg : Config) (A : Meta → Prop) (w : World) (op : Op)
    (hst : Settled w.disk cfg.version) (hd : SlotsOK A w.disk) (F : List Nat) (hF : BanD w.disk F)
    (hnew : ∀ o, op.offer = some o → o.number ∉ F → ∀ m : Meta, m.number = o.number → A m) :
    ∀ q ∈ segCrashPairs (opSegs env cfg w op), PjOK A q.2 := by
  intro q hq
  cases op with
  | start =>
    simp only [opSegs, segCrashPairs, List.flatMap_cons, List.flatMap_nil, List.append_nil] at hq
    exact seg_launchStart env cfg A _ hst hd q hq
  | success =>
    simp only [opSegs, segCrashPairs, List.flatMap_cons, List.flatMap_nil, List.append_nil] at hq
    exact seg_launchSuccess cfg A _ hst hd q hq
  | failure =>
    simp only [opSegs, segCrashPairs, List.flatMap_cons, List.flatMap_nil, List.append_nil, secLaunchFailureSaves] at hq
    exact seg_failure env cfg A _ hst hd _ q hq
  | nextN =>
    simp only [opSegs, segCrashPairs, List.flatMap_cons, List.flatMap_nil, List.append_nil] at hq
    exact seg_nextBootPatch env cfg A _ hst hd q hq
  | nextP =>
    simp only [opSegs, segCrashPairs, List.flatMap_cons, List.flatMap_nil, List.append_nil] at hq
    exact seg_nextBootPatch env cfg A _ hst hd q hq
  | curN =>
    simp only [opSegs, segCrashPairs, List.flatMap_cons, List.flatMap_nil, List.append_nil] at hq
    exact seg_load cfg A _ hst hd q hq
  | check chan resp => exact segs_checkCore env cfg A _ hst hd resp q hq
  | update chan sc =>
    exact segs_updateCore env cfg A _ hst hd (w.base cfg) sc F hF (fun o ho => hnew o (by simpa [Op.offer, Op.respOf] using ho)) q hq
  | init p => simp [opSegs, segCrashPairs] at hq
  | restart => simp [opSegs, segCrashPairs] at hq
  | auto => simp [opSegs, segCrashPairs] at hq
  | damage dm => simp [opSegs, segCrashPairs] at hq

end Updater

namespace Updater

theorem settledF_files (d : Disk) (v : String) : SettledF (files d).1 v ↔ Settled d v := Iff.rfl

theorem loadSaves_unsettled (d : Disk) (v : String) (h : ¬ Settled d v) :
    loadSaves d v = [.pj {}, .sj { version := v, events := [] }] := by
  unfold loadSaves
  cases hs : d.stateJson with
  | ok ss =>
    by_cases hv : ss.version = v
    · exact absurd ⟨ss, hs, hv⟩ h
    · simp [hv]
  | missing => rfl
  | garbage => rfl

/-- The calls a launch may contain (a restart ends the process; damage is not a call). -/
def LaunchOp : Op → Prop
  | .restart | .damage _ => False
  | _ => True

/-- One call of a configured process keeps the state readable and its records allowed. -/
theorem step_launch_inv (env : Env) (cfg : Config) (A : Meta → Prop) (w : World) (op : Op)
    (hc : w.config = some cfg) (hst : Settled w.disk cfg.version) (hd : SlotsOK A w.disk) (hop : LaunchOp op)
    (F : List Nat) (hF : BanD w.disk F)
    (hnew : ∀ o, op.offer = some o → o.number ∉ F → ∀ m : Meta, m.number = o.number → A m) :
    (step env w op).1.config = some cfg ∧ Settled (step env w op).1.disk cfg.version ∧ SlotsOK A (step env w op).1.disk ∧
      BanD (step env w op).1.disk F := by
  -- bans are kept by every call of a launch
  have hban : BanD (step env w op).1.disk F := by
    have hs : ShowsDisk w (w.view .unit []) := showsDisk_view w .unit []
    have h := step_ban env w op F (w.view .unit []) hs hF
    apply BanD_mono _ h
    intro x hx
    have hnr : resetsState w.config op (w.view .unit []) = false := by
      cases he : entersWith w.config op with
      | none => simp [resetsState, he]
      | some c =>
        have : c = cfg := by
          cases op <;> simp [entersWith, hc] at he <;> first | exact he.symm | skip
          case check chan resp =>
            cases resp with
            | none => simp [entersWith] at he
            | some r => simp only [entersWith, hc] at he; split at he <;> first | (cases he; rfl) | cases he
        subst this
        exact not_resets_of_settled w _ hs op c he hst
    have hsd : op.isStateDamage = false := by cases op <;> first | rfl | exact hop.elim
    simp only [failedAfter, G02.next, hsd, hnr, Bool.or_self, Bool.false_eq_true, if_false]
    split
    · split
      · exact hx
      · exact List.mem_cons_of_mem _ hx
    · exact hx
  refine ⟨?_, ?_⟩
  · rw [step_config, hc]; cases op <;> first | rfl | exact hop.elim
  · suffices h : Settled (step env w op).1.disk cfg.version ∧ SlotsOK A (step env w op).1.disk from ⟨h.1, h.2, hban⟩
    cases he : entersWith w.config op with
    | none =>
      rw [step_disk_noenter env w op he]
      cases op <;> first | exact ⟨hst, hd⟩ | exact hop.elim
    | some c =>
      rw [step_disk_enter env w op c he]
      have hcc : c = cfg := by
        cases op with
        | init p => simp [entersWith, hc] at he
        | check chan resp =>
          cases resp with
          | none => simp [entersWith] at he
          | some r => simp only [entersWith, hc] at he; split at he <;> first | (cases he; rfl) | cases he
        | restart => simp [entersWith] at he
        | auto => simp [entersWith] at he
        | damage d => simp [entersWith] at he
        | start => simp only [entersWith, hc] at he; cases he; rfl
        | success => simp only [entersWith, hc] at he; cases he; rfl
        | failure => simp only [entersWith, hc] at he; cases he; rfl
        | nextN => simp only [entersWith, hc] at he; cases he; rfl
        | nextP => simp only [entersWith, hc] at he; cases he; rfl
        | curN => simp only [entersWith, hc] at he; cases he; rfl
        | update chan sc => simp only [entersWith, hc] at he; cases he; rfl
      subst hcc
      have hsettled : Settled (opDisk env c w op) c.version := by
        cases op with
        | init p => simp [entersWith, hc] at he
        | start => exact secLaunchStart_settled env c _ hst
        | success => exact secLaunchSuccess_settled env c _ hst
        | failure => exact secLaunchFailure_settled env c _ hst
        | nextN => exact secNextBootPatch_settled env c _ hst
        | nextP => exact secNextBootPatch_settled env c _ hst
        | curN => simp only [opDisk]; rw [secCurrentBootPatch_disk c w.disk hst]; exact hst
        | check chan resp => exact checkCore_settled env c _ resp hst
        | update chan sc => exact updateCore_settled env c _ (w.base c) sc hst
        | restart => exact hst
        | auto => exact hst
        | damage dm => exact hst
      refine ⟨hsettled, ?_⟩
      by_cases hinst : ∃ chan sc, op = .update chan sc ∧ (updateCore env c (w.base c) w.disk sc).2.1 = .installed
      · obtain ⟨chan, sc, rfl, hi⟩ := hinst
        obtain ⟨o, out, ho, _, hslots, _⟩ := updateCore_install_spec env c (w.base c) w.disk sc hst hi
        -- the installed record is the selection afterwards, and no banned number is selected
        have hnotF : o.number ∉ F := by
          obtain ⟨o', out', ho', _, _, hnx⟩ := update_installed_sound env c (w.base c) w.disk sc hst hi
          have hoo : o' = o := by
            have h1 : sc.resp.bind (·.patch) = some o := by simpa [Op.offer, Op.respOf] using ho
            rw [h1] at ho'; exact (Option.some.inj ho').symm
          subst hoo
          have hd' : (step env w (.update chan sc)).1.disk = (updateCore env c (w.base c) w.disk sc).1 := by
            simp [step, update, hc]
          rw [hd'] at hban
          exact hban.2.1 _ hnx
        intro m hm
        rcases hslots m hm with h | h
        · exact hnew o (by simpa [Op.offer, Op.respOf] using ho) hnotF m (by rw [h])
        · exact hd m h
      · exact SlotsOK_sub (slots_opDisk env c w op hst (fun chan sc h hi => hinst ⟨chan, sc, h, hi⟩)) hd

/-- Every section of every call of a launch. -/
theorem segs_ops (env : Env) (cfg : Config) (A : Meta → Prop) (ops : List Op) :
    ∀ (w : World) (F : List Nat), w.config = some cfg → Settled w.disk cfg.version → SlotsOK A w.disk → BanD w.disk F →
      (∀ op ∈ ops, LaunchOp op) →
      (∀ op ∈ ops, ∀ o, op.offer = some o → o.number ∉ F → ∀ m : Meta, m.number = o.number → A m) →
      ∀ q ∈ segCrashPairs (opsSegs env cfg w ops), PjOK A q.2 := by
  induction ops with
  | nil => intro w F _ _ _ _ _ _ q hq; simp [opsSegs, segCrashPairs] at hq
  | cons op rest ih =>
    intro w F hc hst hd hF hops hnew q hq
    simp only [opsSegs, segCrashPairs, List.flatMap_append, List.mem_append] at hq
    rcases hq with hq | hq
    · exact segs_op env cfg A w op hst hd F hF (hnew op List.mem_cons_self) q hq
    · obtain ⟨h1, h2, h3, h4⟩ := step_launch_inv env cfg A w op hc hst hd (hops op List.mem_cons_self) F hF (hnew op List.mem_cons_self)
      exact ih _ F h1 h2 h3 h4 (fun x hx => hops x (List.mem_cons_of_mem _ hx)) (fun x hx => hnew x (List.mem_cons_of_mem _ hx)) q hq

theorem mem_offersOf (ops : List Op) (op : Op) (o : Offer) (h : op ∈ ops) (ho : op.offer = some o) : o.number ∈ offersOf ops := by
  simp only [offersOf, List.mem_filterMap]
  exact ⟨op, h, by rw [ho]; rfl⟩

/-- The state files a process can leave behind when it dies anywhere in a launch
    (initialisation, then any calls): all harmless. -/
theorem launch_files_ok (env : Env) (cfg : Config) (libs : List (String × Bytes)) (d : Disk) (p : InitParams) (ops : List Op)
    (hp : mkConfig p = some cfg) (hops : ∀ op ∈ ops, LaunchOp op)
    (hban : Settled d cfg.version → BanD d (loadPatchesState d).bad) :
    ∀ q ∈ files d :: segCrashPairs (launchSegs env cfg { disk := d, config := none, libs := libs } p ops),
      FilesOK (Allowed d cfg.version (offersOf ops)) cfg.version q := by
  intro q hq
  have hnewS : Settled d cfg.version → ∀ op ∈ ops, ∀ o, op.offer = some o → o.number ∉ (loadPatchesState d).bad →
      ∀ m : Meta, m.number = o.number → Allowed d cfg.version (offersOf ops) m := by
    intro _ op hop o ho hnb m hm; right; rw [hm]; exact ⟨mem_offersOf ops op o hop ho, fun _ => hnb⟩
  have hnewU : ¬ Settled d cfg.version → ∀ op ∈ ops, ∀ o, op.offer = some o → o.number ∉ ([] : List Nat) →
      ∀ m : Meta, m.number = o.number → Allowed d cfg.version (offersOf ops) m := by
    intro hu op hop o ho _ m hm; right; rw [hm]; exact ⟨mem_offersOf ops op o hop ho, fun h => absurd h hu⟩
  have hw1 : (step env { disk := d, config := none, libs := libs } (.init p)).1 =
      { disk := secHandlePriorBootFailure env cfg d, config := some cfg, libs := libs } := by
    simp [step, init_effective env { disk := d, config := none, libs := libs } p cfg rfl hp]
  simp only [List.mem_cons, launchSegs, segCrashPairs, List.flatMap_cons, List.mem_append] at hq
  by_cases hst : Settled d cfg.version
  · have hd : SlotsOK (Allowed d cfg.version (offersOf ops)) d := fun m hm => Or.inl ⟨hst, hm⟩
    intro _
    rcases hq with rfl | hq | hq
    · exact PjOK_files hd
    · exact seg_failure env cfg _ d hst hd _ q hq
    · rw [hw1] at hq
      have hb1 : BanD (secHandlePriorBootFailure env cfg d) (loadPatchesState d).bad := by
        apply BanD_mono _ (secHandlePrior_ban env cfg d _ hst (hban hst))
        intro x hx; split
        · exact List.mem_cons_of_mem _ hx
        · exact hx
      exact segs_ops env cfg _ ops _ _ rfl (secHandlePrior_settled env cfg d hst) (SlotsOK_sub (slots_secHandlePrior env cfg d hst) hd) hb1 hops (hnewS hst) q hq
  · rcases hq with rfl | hq | hq
    · intro hs; exact absurd ((settledF_files d cfg.version).1 hs) hst
    · -- the reset: patches_state.json is emptied before state.json records this release
      have hb : (loadOrNew d cfg.version).pm.ps.booting = none := by
        rw [loadOrNew_clean d cfg.version hst, loadOrNew_cleanDisk]
      simp only [secHandlePriorSaves, loadSaves_unsettled d _ hst, failureSaves, hb, List.append_nil, crashPairs,
        SaveEv.torn, SaveEv.apply, List.mem_cons, List.mem_nil_iff, or_false] at hq
      rcases hq with rfl | rfl | rfl | rfl | rfl
      · intro hs; exact absurd hs hst
      · intro _; exact PjOK_garbage _
      · intro _; exact PjOK_empty _
      · intro _; exact PjOK_empty _
      · intro _; exact PjOK_empty _
    · rw [hw1, secHandlePrior_unsettled_clean env cfg d hst] at hq
      intro _
      refine segs_ops env cfg _ ops { disk := cleanDisk cfg.version, config := some cfg, libs := libs } [] rfl (settled_clean _) ?_ (BanD_nil _) hops (hnewU hst) q hq
      intro m hm; simp [InSlot, loadPatchesState, cleanDisk, JFile.getD] at hm

/-- **C04 (process death).** Let a launch — an effective initialisation followed by any calls,
    with any server behaviour — start from ANY storage directory `d` (any state files, any
    `patches/`), and let the process die anywhere in it: before, between or in the middle of any of the
    rewrites of the two state files (`q`), with ANY contents of `patches/` at that moment (`pd`:
    artifacts half moved, half deleted, torn — anything). If the next launch of the same release
    (initialisation with crash detection, then the next-boot query) selects a patch `n`, then
    * its artifact validates at that moment (exists, recorded size, signature if a key is configured);
    * `n` was recorded in `d` before the interrupted launch and `d` was a readable state of this
      release, or `n` is a patch an update of the interrupted launch was installing and was not
      banned in `d` — so nothing of another release's (or an unreadable) state is ever selected, and
      (with `crash_safe_not_banned`) nothing that was banned before the interrupted launch;
      (`hban`: in a readable state no slot holds a banned number — C02's invariant of reachable states)
    * `n` is not the patch recorded as booting at the moment of death. -/
theorem crash_safe (env : Env) (cfg : Config) (libs : List (String × Bytes)) (d : Disk) (p : InitParams) (ops : List Op)
    (hp : mkConfig p = some cfg) (hops : ∀ op ∈ ops, LaunchOp op)
    (hban : Settled d cfg.version → BanD d (loadPatchesState d).bad) (q : StateFiles)
    (hq : q ∈ files d :: segCrashPairs (launchSegs env cfg { disk := d, config := none, libs := libs } p ops))
    (pd : Option PatchesDir) (cfg' : Config) (hv : cfg'.version = cfg.version) (n : Nat)
    (h : (recover env cfg' { stateJson := q.1, patchesJson := q.2, patches := pd }).2 = some n) :
    ∃ m : Meta, m.number = n ∧
      validate env cfg'.key (recover env cfg' { stateJson := q.1, patchesJson := q.2, patches := pd }).1 m = true ∧
      ((Settled d cfg.version ∧ InSlot (loadPatchesState d) m) ∨
        (n ∈ offersOf ops ∧ (Settled d cfg.version → n ∉ (loadPatchesState d).bad))) ∧
      (q.2.getD {}).booting.map (·.number) ≠ some n := by
  obtain ⟨hs, ⟨m, hm, hmn, hval⟩, hboot⟩ := recover_facts env cfg' _ n h
  have hok := launch_files_ok env cfg libs d p ops hp hops hban q hq
  have hsf : SettledF q.1 cfg.version := by rw [← hv]; exact hs
  have hA := hok hsf m hm
  refine ⟨m, hmn, hval, ?_, hboot⟩
  rcases hA with hA | hA
  · exact Or.inl hA
  · right; rw [← hmn]; exact hA

/-- … and with the ban invariant of reachable states (C02: no slot holds a banned number), a patch
    recorded before the interrupted launch that the next launch selects was not banned before it. -/
theorem crash_safe_not_banned (d : Disk) (v : String) (m : Meta) (hb : BanD d (loadPatchesState d).bad)
    (h : Settled d v ∧ InSlot (loadPatchesState d) m) : m.number ∉ (loadPatchesState d).bad := by
  obtain ⟨_, hn, hl, hbo⟩ := hb
  rcases h.2 with h' | h' | h'
  · exact hn m h'
  · exact hl m h'
  · exact hbo m h'

end Updater

namespace Updater

/-! ### the save events are faithful to the atomic semantics

  Replaying a section's save events on the state files it starts from gives exactly the state files
  of the section function's result: the crash semantics and `step` are two readings of one model. -/

theorem applySaves_append (cur : StateFiles) (a b : List SaveEv) :
    applySaves cur (a ++ b) = applySaves (applySaves cur a) b := by
  simp [applySaves, List.foldl_append]

theorem tryFallBack_files (env key) (pm : PM) (n : Nat) :
    files (pm.tryFallBack env key n).disk = ((files pm.disk).1, .ok (pm.tryFallBack env key n).ps) := by
  simp only [files, tryFallBack_sj]
  rw [tryFallBack_disk]

theorem loadSaves_apply (d : Disk) (v : String) : applySaves (files d) (loadSaves d v) = files (loadOrNew d v).pm.disk := by
  by_cases h : Settled d v
  · obtain ⟨s, hs, hv⟩ := h
    rw [loadSaves_settled d v ⟨s, hs, hv⟩, loadOrNew_settled d v s hs hv]; rfl
  · rw [loadSaves_unsettled d v h, loadOrNew_unsettled d v h]; rfl

theorem nextBootPatchSaves_apply (env key) (pm : PM) (hco : pm.disk.patchesJson = .ok pm.ps ∨ pm.nextBootPatchSaves env key = [] ∨ True) :
    applySaves (files pm.disk) (pm.nextBootPatchSaves env key) = files (pm.nextBootPatch env key).1.disk := by
  unfold PM.nextBootPatchSaves PM.nextBootPatch
  cases pm.ps.next with
  | none => rfl
  | some nx =>
    simp only
    split
    · rfl
    · simp only [applySaves, List.foldl, SaveEv.apply, tryFallBack_files]

theorem recordBootStartSaves_apply (pm : PM) (n : Nat) :
    applySaves (files pm.disk) (pm.recordBootStartSaves n) = files (pm.recordBootStart n).1.disk := by
  unfold PM.recordBootStartSaves PM.recordBootStart
  cases pm.ps.next with
  | none => rfl
  | some nx => simp only; split <;> rfl

theorem recordBootSuccessSaves_apply (pm : PM) :
    applySaves (files pm.disk) pm.recordBootSuccessSaves = files pm.recordBootSuccess.1.disk := by
  unfold PM.recordBootSuccessSaves PM.recordBootSuccess
  cases pm.ps.booting with
  | none => rfl
  | some bp =>
    simp only [applySaves, List.foldl, SaveEv.apply, files, PM.save]
    have := deleteOlderThan_sj ({ pm with ps := { pm.ps with booting := none, last := some bp } } : PM) bp.number
    simp only [this]

theorem foldFallBackSaves_apply (env key) (ns : List Nat) (pm : PM) :
    applySaves (files pm.disk) (foldFallBackSaves env key ns pm) =
      (if ns = [] then files pm.disk else ((files pm.disk).1, .ok (ns.foldl (fun pm x => pm.tryFallBack env key x) pm).ps)) ∧
    (files (ns.foldl (fun pm x => pm.tryFallBack env key x) pm).disk).1 = (files pm.disk).1 := by
  induction ns generalizing pm with
  | nil => exact ⟨rfl, rfl⟩
  | cons n ns ih =>
    obtain ⟨h1, h2⟩ := ih (pm.tryFallBack env key n)
    have hsj : (files (pm.tryFallBack env key n).disk).1 = (files pm.disk).1 := by simp [files, tryFallBack_sj]
    refine ⟨?_, by simp only [List.foldl]; rw [h2, hsj]⟩
    simp only [foldFallBackSaves, applySaves, List.foldl, SaveEv.apply, List.cons_ne_nil, if_false]
    have h1' : List.foldl SaveEv.apply (files (pm.tryFallBack env key n).disk) (foldFallBackSaves env key ns (pm.tryFallBack env key n)) = _ := h1
    rw [tryFallBack_files] at h1'
    rw [h1']
    by_cases hns : ns = []
    · subst hns; simp
    · simp only [hns, if_false]

section
variable (env : Env) (cfg : Config) (d : Disk)

theorem secNextBootPatchSaves_apply :
    applySaves (files d) (secNextBootPatchSaves env cfg d) = files (secNextBootPatch env cfg d).1 := by
  simp only [secNextBootPatchSaves, secNextBootPatch, applySaves_append, loadSaves_apply]
  exact nextBootPatchSaves_apply env cfg.key _ (Or.inr (Or.inr trivial))

theorem secLaunchStartSaves_apply :
    applySaves (files d) (secLaunchStartSaves env cfg d) = files (secLaunchStart env cfg d) := by
  simp only [secLaunchStartSaves, secLaunchStart, applySaves_append, loadSaves_apply]
  rw [nextBootPatchSaves_apply env cfg.key _ (Or.inr (Or.inr trivial))]
  cases ((loadOrNew d cfg.version).pm.nextBootPatch env cfg.key).2 with
  | none => rfl
  | some n => exact recordBootStartSaves_apply _ n

theorem secLaunchSuccessSaves_apply :
    applySaves (files d) (secLaunchSuccessSaves cfg d) = files (secLaunchSuccess env cfg d).1 := by
  simp only [secLaunchSuccessSaves, secLaunchSuccess, applySaves_append, loadSaves_apply]
  rw [recordBootSuccessSaves_apply]
  cases hb : (loadOrNew d cfg.version).pm.ps.booting with
  | none =>
    have : (loadOrNew d cfg.version).pm.recordBootSuccess.1 = (loadOrNew d cfg.version).pm := by
      unfold PM.recordBootSuccess; simp [hb]
    simp only [this]; rfl
  | some bp => simp only; split <;> (try split) <;> rfl

theorem failureSaves_apply (us : US) (msg : Nat → String) (hsj : us.pm.disk.stateJson = .ok us.ss ∨ True) :
    applySaves (files us.pm.disk) (failureSaves env cfg us msg) =
      files (match us.pm.ps.booting with
        | some p => (({ us with pm := us.pm.recordBootFailure env cfg.key p.number } : US).queueEvent
            (mkEvent env cfg .installFailure p.number (some (msg p.number)))).disk
        | none => us.disk) := by
  unfold failureSaves
  cases us.pm.ps.booting with
  | none => rfl
  | some p =>
    simp only [applySaves, List.foldl, SaveEv.apply, US.queueEvent, US.save, US.disk, files]
    unfold PM.recordBootFailure
    rw [tryFallBack_disk]

theorem secHandlePriorSaves_apply :
    applySaves (files d) (secHandlePriorSaves env cfg d) = files (secHandlePriorBootFailure env cfg d) := by
  simp only [secHandlePriorSaves, secHandlePriorBootFailure, applySaves_append, loadSaves_apply]
  rw [failureSaves_apply env cfg _ _ (Or.inr trivial)]
  cases (loadOrNew d cfg.version).pm.ps.booting <;> rfl

theorem secLaunchFailureSaves_apply :
    applySaves (files d) (secLaunchFailureSaves env cfg d) = files (secLaunchFailure env cfg d) := by
  simp only [secLaunchFailureSaves, secLaunchFailure, applySaves_append, loadSaves_apply]
  rw [failureSaves_apply env cfg _ _ (Or.inr trivial)]
  cases (loadOrNew d cfg.version).pm.ps.booting <;> rfl

theorem secClearEventsSaves_apply :
    applySaves (files d) (secClearEventsSaves cfg d) = files (secClearEvents cfg d) := by
  simp only [secClearEventsSaves, secClearEvents, applySaves_append, loadSaves_apply]
  rfl

theorem secInstallSaves_apply (o : Offer) (out : Bytes) :
    applySaves (files d) (secInstallSaves cfg d o out) = files (secInstall cfg d o out) := by
  simp only [secInstallSaves, secInstall, applySaves_append, loadSaves_apply]
  simp only [applySaves, List.foldl, SaveEv.apply, files, addPatch_sj]
  congr 1

theorem secRollBackSaves_apply (ns : List Nat) (hne : ns ≠ []) :
    applySaves (files d) (secRollBackSaves env cfg d ns) = files (secRollBack env cfg d ns) := by
  simp only [secRollBackSaves, secRollBack, applySaves_append, loadSaves_apply]
  obtain ⟨h1, h2⟩ := foldFallBackSaves_apply env cfg.key ns (loadOrNew d cfg.version).pm
  rw [h1]
  simp only [hne, if_false]
  have hco := (foldFallBack_ban env cfg.key ns (loadOrNew d cfg.version).pm [] (loadOrNew_coherent d cfg.version) (BanPS_nil _)).1
  apply Prod.ext
  · exact h2.symm
  · -- the last fallback saved the record
    have last_saved : ∀ (ns : List Nat) (pm : PM), ns ≠ [] →
        (ns.foldl (fun pm x => pm.tryFallBack env cfg.key x) pm).disk.patchesJson =
          .ok (ns.foldl (fun pm x => pm.tryFallBack env cfg.key x) pm).ps := by
      intro ns
      induction ns with
      | nil => intro pm h; exact absurd rfl h
      | cons n rest ih =>
        intro pm _
        simp only [List.foldl]
        by_cases hr : rest = []
        · subst hr; simp only [List.foldl]; rw [tryFallBack_disk]
        · exact ih _ hr
    exact (last_saved ns _ hne).symm

end

end Updater

namespace Updater

/-! ### the patch whose launch is in progress is never selected after a process death -/

/-- Generic version of `crashPairs_pjok`: a predicate on the patches file that holds for an
    unreadable file, for the start and for every saved value holds for every crash pair. -/
theorem crashPairs_pred (P : JFile PatchesState → Prop) (hg : P .garbage) (cur : StateFiles) (evs : List SaveEv)
    (hc : P cur.2) (hev : ∀ e ∈ evs, match e with | .pj v => P (.ok v) | .sj _ => True) :
    ∀ q ∈ crashPairs cur evs, P q.2 := by
  have key : ∀ (pre : List SaveEv) (c0 : StateFiles), P c0.2 →
      (∀ e ∈ pre, match e with | .pj v => P (.ok v) | .sj _ => True) → P (applySaves c0 pre).2 := by
    intro pre
    induction pre with
    | nil => intro c0 h0 _; exact h0
    | cons e es ih =>
      intro c0 h0 h
      simp only [applySaves, List.foldl]
      apply ih (e.apply c0) _ (fun x hx => h x (List.mem_cons_of_mem _ hx))
      have he := h e List.mem_cons_self
      cases e with
      | pj v => exact he
      | sj s => exact h0
  apply crashPairs_all (fun q => P q.2) evs cur hc
  intro pre e post heq
  have hpre := key pre cur hc (fun x hx => hev x (by rw [heq]; exact List.mem_append_left _ hx))
  have he := hev e (by rw [heq]; exact List.mem_append_right _ List.mem_cons_self)
  cases e with
  | pj v => exact ⟨hg, he⟩
  | sj s => exact ⟨hpre, hpre⟩

/-- The booting marker `bm` is still there, or no record numbered like it is left. -/
def Marked (bm : Meta) (pj : JFile PatchesState) : Prop :=
  (pj.getD {}).booting = some bm ∨ ∀ m, InSlot (pj.getD {}) m → m.number ≠ bm.number

theorem Marked_garbage (bm : Meta) : Marked bm .garbage := Or.inr (by intro m h; simp [JFile.getD, InSlot] at h)

theorem Marked_keep (bm : Meta) (ps v : PatchesState) (hb : v.booting = ps.booting) (hs : SlotsSub v ps)
    (h : Marked bm (.ok ps)) : Marked bm (.ok v) := by
  rcases h with h | h
  · left; simp only [JFile.getD] at h ⊢; rw [hb]; exact h
  · right; intro m hm; exact h m (hs m hm)

theorem foldFallBackSaves_marked (env : Env) (key : Option String) (bm : Meta) (ns : List Nat) (pm : PM) (h : Marked bm (.ok pm.ps)) :
    ∀ e ∈ foldFallBackSaves env key ns pm, match e with | .pj v => Marked bm (.ok v) | .sj _ => True := by
  induction ns generalizing pm with
  | nil => intro e he; simp [foldFallBackSaves] at he
  | cons n ns ih =>
    intro e he
    simp only [foldFallBackSaves, List.mem_cons] at he
    have h1 := Marked_keep bm pm.ps _ (tryFallBack_boot env key pm n) (tryFallBack_slots env key pm n) h
    rcases he with rfl | he
    · exact h1
    · exact ih _ h1 e he

section
variable (env : Env) (cfg : Config) (bm : Meta) (d : Disk) (hst : Settled d cfg.version) (hd : Marked bm (files d).2)
include hst hd

theorem files_marked_ok : Marked bm (.ok (loadPatchesState d)) := by
  rcases hd with h | h
  · exact Or.inl h
  · exact Or.inr h

theorem mk_nextBootPatch : ∀ q ∈ crashPairs (files d) (secNextBootPatchSaves env cfg d), Marked bm q.2 := by
  obtain ⟨s, hs, hv⟩ := hst
  apply crashPairs_pred _ (Marked_garbage bm) _ _ hd
  intro e he
  simp only [secNextBootPatchSaves, loadSaves_settled d _ ⟨s, hs, hv⟩, loadOrNew_settled d _ s hs hv, List.nil_append,
    PM.nextBootPatchSaves] at he
  cases hnx : (PM.new d).ps.next with
  | none => simp [hnx] at he
  | some nx =>
    simp only [hnx] at he
    split at he
    · cases he
    · simp only [List.mem_singleton] at he; subst he
      exact Marked_keep bm _ _ (tryFallBack_boot env cfg.key (PM.new d) nx.number) (tryFallBack_slots env cfg.key (PM.new d) nx.number)
        (files_marked_ok cfg bm d ⟨s, hs, hv⟩ hd)

theorem mk_load : ∀ q ∈ crashPairs (files d) (loadSaves d cfg.version), Marked bm q.2 := by
  apply crashPairs_pred _ (Marked_garbage bm) _ _ hd
  intro e he; simp [loadSaves_settled d _ hst] at he

theorem mk_clearEvents : ∀ q ∈ crashPairs (files d) (secClearEventsSaves cfg d), Marked bm q.2 := by
  apply crashPairs_pred _ (Marked_garbage bm) _ _ hd
  intro e he
  simp only [secClearEventsSaves, loadSaves_settled d _ hst, List.nil_append, List.mem_singleton] at he
  subst he; trivial

theorem mk_rollBack (ns : List Nat) : ∀ q ∈ crashPairs (files d) (secRollBackSaves env cfg d ns), Marked bm q.2 := by
  obtain ⟨s, hs, hv⟩ := hst
  apply crashPairs_pred _ (Marked_garbage bm) _ _ hd
  intro e he
  simp only [secRollBackSaves, loadSaves_settled d _ ⟨s, hs, hv⟩, loadOrNew_settled d _ s hs hv, List.nil_append] at he
  exact foldFallBackSaves_marked env cfg.key bm ns (PM.new d) (files_marked_ok cfg bm d ⟨s, hs, hv⟩ hd) e he

theorem mk_install (o : Offer) (out : Bytes) (ho : o.number ≠ bm.number ∨ (loadPatchesState d).booting = some bm) :
    ∀ q ∈ crashPairs (files d) (secInstallSaves cfg d o out), Marked bm q.2 := by
  obtain ⟨s, hs, hv⟩ := hst
  apply crashPairs_pred _ (Marked_garbage bm) _ _ hd
  intro e he
  simp only [secInstallSaves, loadSaves_settled d _ ⟨s, hs, hv⟩, loadOrNew_settled d _ s hs hv, List.nil_append,
    List.mem_singleton] at he
  subst he
  have h0 := files_marked_ok cfg bm d ⟨s, hs, hv⟩ hd
  simp only [Marked, JFile.getD, addPatch_ps] at h0 ⊢
  rcases ho with ho | ho
  · rcases h0 with h | h
    · exact Or.inl h
    · right
      intro m hm
      simp only [InSlot] at hm
      rcases hm with h' | h' | h'
      · have : m = { number := o.number, size := out.length, hash := o.hash, sig := o.sig } := by simpa using h'.symm
        rw [this]; exact ho
      · exact h m (Or.inr (Or.inl h'))
      · exact h m (Or.inr (Or.inr h'))
  · exact Or.inl ho

theorem mk_failure (msg : Nat → String) (hb : (loadPatchesState d).booting = some bm) :
    ∀ q ∈ crashPairs (files d) (loadSaves d cfg.version ++ failureSaves env cfg (loadOrNew d cfg.version) msg), Marked bm q.2 := by
  obtain ⟨s, hs, hv⟩ := hst
  apply crashPairs_pred _ (Marked_garbage bm) _ _ hd
  intro e he
  have hb' : (PM.new d).ps.booting = some bm := hb
  simp only [loadSaves_settled d _ ⟨s, hs, hv⟩, loadOrNew_settled d _ s hs hv, List.nil_append, failureSaves, hb',
    List.mem_cons, List.mem_nil_iff, or_false] at he
  rcases he with rfl | rfl
  · -- the failure is recorded: the patch is banned and in no slot
    right
    have hban := recordBootFailure_ban env cfg.key (PM.new d) bm.number [] (BanPS_nil _)
    obtain ⟨_, hn, hl, hbo⟩ := hban
    intro m hm
    simp only [JFile.getD] at hm
    intro hmn
    rcases hm with h' | h' | h'
    · exact hn m h' (by rw [hmn]; exact List.mem_cons_self)
    · exact hl m h' (by rw [hmn]; exact List.mem_cons_self)
    · exact hbo m h' (by rw [hmn]; exact List.mem_cons_self)
  · trivial

end

theorem rollBackIfNeeded_booting (env : Env) (cfg : Config) (d : Disk) (rb : Option (List Nat)) (hst : Settled d cfg.version) :
    (loadPatchesState (rollBackIfNeeded env cfg d rb)).booting = (loadPatchesState d).booting := by
  cases rb with
  | none => rfl
  | some ns =>
    obtain ⟨s, hs, hv⟩ := hst
    simp only [rollBackIfNeeded, secRollBack, loadOrNew_settled d _ s hs hv]
    rw [(foldFallBack_ban env cfg.key ns (PM.new d) [] (PM.new_coherent _) (BanPS_nil _)).1, foldFallBack_boot]; rfl

theorem secNextBootPatch_booting (env : Env) (cfg : Config) (d : Disk) (hst : Settled d cfg.version) :
    (loadPatchesState (secNextBootPatch env cfg d).1).booting = (loadPatchesState d).booting := by
  obtain ⟨s, hs, hv⟩ := hst
  simp only [secNextBootPatch, loadOrNew_settled d _ s hs hv]
  rw [nextBootPatch_coherent _ _ _ (PM.new_coherent d), nextBootPatch_boot]; rfl

theorem shouldInstall_booting (env : Env) (cfg : Config) (d : Disk) (n : Nat) (hst : Settled d cfg.version) :
    (loadPatchesState (shouldInstall env cfg d n).1).booting = (loadPatchesState d).booting := by
  unfold shouldInstall
  rw [secIsKnownBad_eq cfg d n hst]
  simp only
  split
  · rfl
  · split <;> exact secNextBootPatch_booting env cfg d hst

theorem secClearEvents_booting (cfg : Config) (d : Disk) (hst : Settled d cfg.version) :
    (loadPatchesState (secClearEvents cfg d)).booting = (loadPatchesState d).booting := by
  unfold loadPatchesState; rw [secClearEvents_pj cfg d hst]

/-- The sections of `should_install_patch` keep the marker. -/
theorem mk_shouldInstall (env : Env) (cfg : Config) (bm : Meta) (d : Disk) (hst : Settled d cfg.version)
    (hb : (loadPatchesState d).booting = some bm) (n : Nat) :
    ∀ q ∈ segCrashPairs (shouldInstallSegs env cfg d n), Marked bm q.2 := by
  intro q hq
  rw [mem_segCrashPairs] at hq
  obtain ⟨sg, hsg, hq⟩ := hq
  simp only [shouldInstallSegs, secIsKnownBad_eq cfg d n hst, List.mem_cons] at hsg
  rcases hsg with rfl | hsg
  · exact mk_load cfg bm _ hst (Or.inl hb) q hq
  · split at hsg
    · cases hsg
    · simp only [List.mem_singleton] at hsg; subst hsg
      exact mk_nextBootPatch env cfg bm _ hst (Or.inl hb) q hq

theorem mk_rollBackIfNeeded (env : Env) (cfg : Config) (bm : Meta) (d : Disk) (hst : Settled d cfg.version)
    (hb : (loadPatchesState d).booting = some bm) (rb : Option (List Nat)) :
    ∀ q ∈ segCrashPairs (rollBackIfNeededSegs env cfg d rb), Marked bm q.2 := by
  intro q hq
  cases rb with
  | none => simp [rollBackIfNeededSegs, segCrashPairs] at hq
  | some ns =>
    simp only [rollBackIfNeededSegs, segCrashPairs, List.flatMap_cons, List.flatMap_nil, List.append_nil] at hq
    exact mk_rollBack env cfg bm _ hst (Or.inl hb) ns q hq

/-- Every section of an update keeps the marker of the patch that is booting. -/
theorem mk_updateCore (env : Env) (cfg : Config) (bm : Meta) (d : Disk) (hst : Settled d cfg.version)
    (hb : (loadPatchesState d).booting = some bm) (base : Option Bytes) (sc : UpdateScript) :
    ∀ q ∈ segCrashPairs (updateCoreSegs env cfg base d sc), Marked bm q.2 := by
  intro q hq
  have e1 := secCopyEvents_disk cfg d hst
  simp only [updateCoreSegs, e1, segCrashPairs, List.flatMap_cons, List.mem_append] at hq
  rcases hq with hq | hq | hq
  · exact mk_load cfg bm _ hst (Or.inl hb) q hq
  · exact mk_clearEvents cfg bm _ hst (Or.inl hb) q hq
  · cases hr : sc.resp with
    | none => simp [hr] at hq
    | some r =>
      simp only [hr] at hq
      have h1 := secClearEvents_settled cfg d hst
      have hb1 : (loadPatchesState (secClearEvents cfg d)).booting = some bm := by rw [secClearEvents_booting cfg d hst]; exact hb
      have hq' : q ∈ segCrashPairs (afterCheckSegs env cfg base (secClearEvents cfg d) r sc.dl) := hq
      simp only [afterCheckSegs, segCrashPairs, List.flatMap_append, List.mem_append] at hq'
      have h2 := rollBackIfNeeded_settled env cfg _ r.rolledBack h1
      have hb2 : (loadPatchesState (rollBackIfNeeded env cfg (secClearEvents cfg d) r.rolledBack)).booting = some bm := by
        rw [rollBackIfNeeded_booting env cfg _ r.rolledBack h1]; exact hb1
      rcases hq' with hq' | hq'
      · exact mk_rollBackIfNeeded env cfg bm _ h1 hb1 r.rolledBack q hq'
      · split at hq'
        · simp at hq'
        · cases hp : r.patch with
          | none => simp [hp] at hq'
          | some o =>
            simp only [hp, List.flatMap_append, List.mem_append] at hq'
            rcases hq' with hq' | hq'
            · exact mk_shouldInstall env cfg bm _ h2 hb2 o.number q hq'
            · have h3 := shouldInstall_settled env cfg _ o.number h2
              have hb3 : (loadPatchesState (shouldInstall env cfg (rollBackIfNeeded env cfg (secClearEvents cfg d) r.rolledBack) o.number).1).booting = some bm := by
                rw [shouldInstall_booting env cfg _ o.number h2]; exact hb2
              cases hs : (shouldInstall env cfg (rollBackIfNeeded env cfg (secClearEvents cfg d) r.rolledBack) o.number).2 with
              | knownBad => simp [hs] at hq'
              | alreadyInstalled => simp [hs] at hq'
              | ok =>
                simp only [hs] at hq'
                have hq2 : q ∈ segCrashPairs (installStageSegs env cfg base _ o sc.dl) := hq'
                rw [mem_segCrashPairs] at hq2
                obtain ⟨sg, hsg, hq2⟩ := hq2
                unfold installStageSegs at hsg
                cases hdl : sc.dl with
                | none => simp [hdl] at hsg
                | some stream =>
                  cases hbs : base with
                  | none => simp [hdl, hbs] at hsg
                  | some bs =>
                    simp only [hdl, hbs] at hsg
                    cases hdec : bipatchDecode stream bs with
                    | error e => simp [hdec] at hsg
                    | ok out =>
                      simp only [hdec] at hsg
                      split at hsg
                      · simp at hsg
                      · split at hsg
                        · simp at hsg
                        · simp only [List.mem_singleton] at hsg; subst hsg
                          exact mk_install cfg bm _ h3 (Or.inl hb3) o out (Or.inr hb3) q hq2

/-- **C04, "whose own launch was not in progress".** Let a call other than a launch start or a
    success report find patch `bm` marked as booting (its launch is in progress), in a readable state
    of this release. If the process dies anywhere in that call — any crash state `q`, any contents of
    `patches/` — the next launch does not select `bm`'s number: either the marker is still there and
    crash detection bans it, or the call was the failure report and had already banned it. -/
theorem crash_in_progress (env : Env) (cfg : Config) (w : World) (op : Op) (bm : Meta)
    (hst : Settled w.disk cfg.version) (hb : (loadPatchesState w.disk).booting = some bm)
    (hop : match op with | .failure | .nextN | .nextP | .curN => True | .check _ _ => True | .update _ _ => True | _ => False)
    (q : StateFiles) (hq : q ∈ segCrashPairs (opSegs env cfg w op))
    (pd : Option PatchesDir) (cfg' : Config) (n : Nat)
    (h : (recover env cfg' { stateJson := q.1, patchesJson := q.2, patches := pd }).2 = some n) :
    n ≠ bm.number := by
  have hd0 : Marked bm (files w.disk).2 := Or.inl hb
  have hmark : Marked bm q.2 := by
    cases op with
    | failure =>
      simp only [opSegs, segCrashPairs, List.flatMap_cons, List.flatMap_nil, List.append_nil, secLaunchFailureSaves] at hq
      exact mk_failure env cfg bm _ hst hd0 _ hb q hq
    | nextN =>
      simp only [opSegs, segCrashPairs, List.flatMap_cons, List.flatMap_nil, List.append_nil] at hq
      exact mk_nextBootPatch env cfg bm _ hst hd0 q hq
    | nextP =>
      simp only [opSegs, segCrashPairs, List.flatMap_cons, List.flatMap_nil, List.append_nil] at hq
      exact mk_nextBootPatch env cfg bm _ hst hd0 q hq
    | curN =>
      simp only [opSegs, segCrashPairs, List.flatMap_cons, List.flatMap_nil, List.append_nil] at hq
      exact mk_load cfg bm _ hst hd0 q hq
    | check chan resp =>
      -- rollbacks, then the install decision: every section keeps the marker
      cases resp with
      | none => simp [opSegs, checkCoreSegs, segCrashPairs] at hq
      | some r =>
        simp only [opSegs, checkCoreSegs, segCrashPairs, List.flatMap_append, List.mem_append] at hq
        have h1 := rollBackIfNeeded_settled env cfg w.disk r.rolledBack hst
        have hb1 : (loadPatchesState (rollBackIfNeeded env cfg w.disk r.rolledBack)).booting = some bm := by
          rcases boot_rollBackIfNeeded env cfg w.disk r.rolledBack hst with e | e
          · rw [e]; exact hb
          · -- a rollback never clears the marker
            cases hrb : r.rolledBack with
            | none => rw [hrb] at e; simp only [rollBackIfNeeded] at e; rw [hb] at e; cases e
            | some ns =>
              obtain ⟨s, hs, hv⟩ := hst
              have : (loadPatchesState (rollBackIfNeeded env cfg w.disk (some ns))).booting = (loadPatchesState w.disk).booting := by
                simp only [rollBackIfNeeded, secRollBack, loadOrNew_settled w.disk _ s hs hv]
                rw [(foldFallBack_ban env cfg.key ns (PM.new w.disk) [] (PM.new_coherent _) (BanPS_nil _)).1, foldFallBack_boot]; rfl
              rw [this]; exact hb
        rcases hq with hq | hq
        · cases hrb : r.rolledBack with
          | none => simp [hrb, rollBackIfNeededSegs] at hq
          | some ns =>
            simp only [hrb, rollBackIfNeededSegs, List.flatMap_cons, List.flatMap_nil, List.append_nil] at hq
            exact mk_rollBack env cfg bm _ hst hd0 ns q hq
        · cases hp : r.patch with
          | none => simp [hp] at hq
          | some o =>
            simp only [hp] at hq
            have hq' : q ∈ segCrashPairs (shouldInstallSegs env cfg (rollBackIfNeeded env cfg w.disk r.rolledBack) o.number) := hq
            rw [mem_segCrashPairs] at hq'
            obtain ⟨sg, hsg, hq'⟩ := hq'
            simp only [shouldInstallSegs, secIsKnownBad_eq cfg _ o.number h1, List.mem_cons] at hsg
            rcases hsg with rfl | hsg
            · exact mk_load cfg bm _ h1 (Or.inl hb1) q hq'
            · split at hsg
              · cases hsg
              · simp only [List.mem_singleton] at hsg; subst hsg
                exact mk_nextBootPatch env cfg bm _ h1 (Or.inl hb1) q hq'
    | start => exact hop.elim
    | success => exact hop.elim
    | init p => exact hop.elim
    | restart => exact hop.elim
    | auto => exact hop.elim
    | update chan sc => exact mk_updateCore env cfg bm _ hst hb (w.base cfg) sc q hq
    | damage dm => exact hop.elim
  obtain ⟨_, ⟨m, hm, hmn, _⟩, hboot⟩ := recover_facts env cfg' _ n h
  have hps : loadPatchesState { stateJson := q.1, patchesJson := q.2, patches := pd } = q.2.getD {} := rfl
  rw [hps] at hm hboot
  rcases hmark with hk | hk
  · intro e; apply hboot; rw [hk]; simp [e]
  · intro e; exact hk m hm (by rw [hmn, e])

end Updater

namespace Updater

/-! ### one I/O error during the release-change reset (the property's second sentence, for this transition)

  `create_new_and_save` = reset the patch state (write the emptied `patches_state.json`, remove
  `patches/`), then record the new release version in `state.json`. A fault model of exactly these
  three file-system steps: each may fail (nothing written / removed) while execution continues. -/

/-- The storage directory after `create_new_and_save d v` when the marked steps fail. -/
def createNewAndSaveF (d : Disk) (v : String) (failPj failRm failSj : Bool) : Disk :=
  let d1 : Disk := if failPj then d else { d with patchesJson := .ok {} }
  let d2 : Disk := if failRm then d1 else { d1 with patches := none }
  if failSj then d2 else { d2 with stateJson := .ok { version := v, events := [] } }

/-- Without faults this is the atomic semantics. -/
theorem createNewAndSaveF_none (d : Disk) (v : String) :
    createNewAndSaveF d v false false false = (createNewAndSave d v).pm.disk := by
  rw [createNewAndSave_eq]; rfl

/-- Nothing can be selected from a directory without `patches/`. -/
theorem recover_nopatches (env : Env) (c : Config) (x : Disk) (hp : x.patches = none) : (recover env c x).2 = none := by
  cases h : (recover env c x).2 with
  | none => rfl
  | some n =>
    exfalso
    obtain ⟨hst, ⟨m, _, _, hv⟩, _⟩ := recover_facts env c x n h
    -- the selected artifact validates after recovery, but recovery never creates artifacts
    obtain ⟨b, hb, _⟩ := validate_spec env c.key _ m hv
    have h1 := artSub_secHandlePrior env c x hst m.number
    have h2 := artSub_secNextBootPatch env c _ (secHandlePrior_settled env c x hst) m.number
    have hx : x.art m.number = none := by simp [Disk.art, hp]
    unfold recover at hb
    rcases h2 with h2 | h2
    · rw [h2] at hb; cases hb
    · rw [h2] at hb
      rcases h1 with h1 | h1
      · rw [h1] at hb; cases hb
      · rw [h1, hx] at hb; cases hb

/-- **C04, second sentence, for the release change.** Let the first call of a new release (or one
    that finds `state.json` unreadable) hit at most one I/O error among the three steps of the reset,
    and go on. Then what any later load of the stored state selects — in the same process (every call
    reloads the state) or at the next launch — is nothing: either the state files still do not read as a
    state of this release (and the reset is simply run again), or the patch records are emptied, or
    `patches/` is gone and no stale record can validate. -/
theorem reset_fault_safe (env : Env) (c : Config) (d : Disk) (hu : ¬ Settled d c.version)
    (failPj failRm failSj : Bool)
    (hone : (failPj && failRm) = false ∧ (failPj && failSj) = false ∧ (failRm && failSj) = false) :
    (recover env c (createNewAndSaveF d c.version failPj failRm failSj)).2 = none := by
  cases failPj <;> cases failRm <;> cases failSj <;> simp at hone
  · -- no fault
    apply recover_nopatches; rfl
  · -- state.json could not be written: still not a state of this release
    have hx : ¬ Settled (createNewAndSaveF d c.version false false true) c.version := by
      intro ⟨s, hs, hv⟩; exact hu ⟨s, hs, hv⟩
    unfold recover
    rw [secHandlePrior_unsettled_clean env c _ hx, secNextBootPatch_cleanDisk]
  · -- patches/ could not be removed, but the records are emptied
    cases h : (recover env c (createNewAndSaveF d c.version false true false)).2 with
    | none => rfl
    | some n =>
      obtain ⟨_, ⟨m, hm, _, _⟩, _⟩ := recover_facts env c _ n h
      simp [createNewAndSaveF, loadPatchesState, JFile.getD, InSlot] at hm
  · -- the emptied patches_state.json could not be written, but patches/ is gone (fix D6b)
    apply recover_nopatches; rfl

end Updater
