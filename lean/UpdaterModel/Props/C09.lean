/-
  C09  An installed patch stays selected until something happens to that patch.

  After an update reports that patch n was installed, n is the next-boot patch, and it remains so
  across restarts and across every later call that does not concern n. Only a later successful
  install, a failed or crashed boot of n, a rollback naming n, or external damage may change it.
-/
import UpdaterModel.Lemmas.Sel
import UpdaterModel.Props.C10
import UpdaterModel.Props.C19

namespace Updater

/-- The selection the C09 monitor tracks after `op`. -/
def selAfter (env : Env) (cfg : Option Config) (sel : Option Nat) (op : Op) (pre post : View) : Option Nat :=
  (G09.next env { cfg := cfg, sel := sel } op pre post).sel

/-- Every effective initialisation of the history configures the same public key `K`
    (the key is compiled into the app: it does not change between launches of one build). -/
def InitKey (K : Option String) (op : Op) : Prop := ∀ p c, op = .init p → mkConfig p = some c → c.key = K

/-! ### what the observer sees is what is on disk -/

theorem slotOk_iff (env key) {w : World} {v : View} (hs : ShowsDisk w v) (n : Nat) (o : Option Meta) :
    slotOk env key v n o = true ↔ ∀ m, o = some m → m.number = n → validate env key w.disk m = true := by
  cases o with
  | none => simp [slotOk]
  | some m =>
    simp only [slotOk, valid_of_shows env key hs, Bool.or_eq_true, bne_iff_ne, ne_eq, Option.some.injEq]
    constructor
    · intro h m' hm' hn; subst hm'
      rcases h with h | h
      · exact absurd hn h
      · exact h
    · intro h
      by_cases hn : m.number = n
      · exact Or.inr (h m rfl hn)
      · exact Or.inl hn

/-- The monitor's establishment condition, read off the disk. -/
theorem selD_of_view (env key) {w : World} {v : View} (hs : ShowsDisk w v) (n : Nat)
    (hn : v.nextNum = some n) (hv : v.slotsValid env key n = true) : SelD env key w.disk n := by
  have hps := ps_of_shows hs
  simp only [View.slotsValid, Bool.and_eq_true, slotOk_iff env key hs, hps] at hv
  simp only [View.nextNum, hps] at hn
  refine ⟨?_, ?_⟩
  · cases hx : (loadPatchesState w.disk).next with
    | none => simp [hx] at hn
    | some m => exact ⟨m, rfl, by simpa [hx] using hn⟩
  · intro x hx hxn
    rcases hx with h | h | h
    · exact hv.1.1 x h hxn
    · exact hv.1.2 x h hxn
    · exact hv.2 x h hxn

/-- What the selection invariant shows to the observer. -/
theorem view_of_selD (env key) {w : World} {v : View} (hs : ShowsDisk w v) (n : Nat) (h : SelD env key w.disk n) :
    v.nextNum = some n ∧ (v.fileOf n).isSome = true := by
  obtain ⟨⟨m, hm, hmn⟩, hall⟩ := h
  subst hmn
  refine ⟨by simp [View.nextNum, ps_of_shows hs, hm], ?_⟩
  obtain ⟨b, hb, _⟩ := validate_spec env key w.disk m (hall m (Or.inl hm) rfl)
  have : v.art m.number = w.disk.art m.number := by
    unfold View.art Disk.art; rw [hs.2.2.2.1]; unfold Disk.artsList; cases w.disk.patches <;> rfl
  simp [View.fileOf, this, hb]

/-! ### damage that does not touch `n` -/

theorem damage_art_other (d : Disk) (dm : Damage) (n : Nat) (h : dm.hitsArt n = false) :
    (d.damage dm).art n = d.art n := by
  cases dm <;> simp only [Disk.damage] <;> try rfl
  case artDel k =>
    have hk : ¬ n = k := by simpa [Damage.hitsArt, eq_comm] using h
    unfold Disk.art
    cases hp : d.patches with
    | none => simp [hp]
    | some p =>
      simp only [hp]
      cases hl : p.arts.lookup k with
      | none => simp [hp]
      | some a => simp [lookup_setArt, hk]
  case artSet k b =>
    have hk : ¬ n = k := by simpa [Damage.hitsArt, eq_comm] using h
    unfold Disk.art
    cases hp : d.patches with
    | none => simp [hp]
    | some p =>
      simp only [hp]
      cases hl : p.arts.lookup k with
      | none => simp [hp]
      | some a => simp [lookup_setArt, hk]
  case dirDel k =>
    have hk : ¬ n = k := by simpa [Damage.hitsArt, eq_comm] using h
    rw [art_deleteArtifacts]; simp [hk]
  case pdirDel => simp [Damage.hitsArt] at h
  case junk name =>
    unfold Disk.art
    cases hp : d.patches with
    | none => simp [hp]
    | some p => simp [hp]

theorem SelD_congr (env key) (d d' : Disk) (n : Nat) (hpj : d'.patchesJson = d.patchesJson)
    (hart : d'.art n = d.art n) (h : SelD env key d n) : SelD env key d' n := by
  have hps : loadPatchesState d' = loadPatchesState d := by unfold loadPatchesState; rw [hpj]
  obtain ⟨hn, hall⟩ := h
  refine ⟨by rw [hps]; exact hn, ?_⟩
  intro x hx hxn
  rw [hps] at hx
  rw [validate_congr env key d d' x (by rw [hxn]; exact hart)]
  exact hall x hx hxn

/-! ### the update path -/

theorem checkCore_sel (env : Env) (c : Config) (d : Disk) (r : CheckResp) (n : Nat) (hst : Settled d c.version)
    (hn : n ∉ r.rolledBack.getD []) (h : SelD env c.key d n) : SelD env c.key (checkCore env c d (some r)).1 n := by
  unfold checkCore
  simp only
  have h1 := rollBackIfNeeded_sel env c d n r.rolledBack hst hn h
  cases r.patch with
  | none => exact h1
  | some o =>
    simp only
    rw [shouldInstall_sel env c _ n o.number (rollBackIfNeeded_settled env c d r.rolledBack hst) h1]
    exact h1

/-- An update that does not install leaves an installed selection alone, unless it rolls it back. -/
theorem updateCore_sel (env : Env) (c : Config) (base) (d : Disk) (sc : UpdateScript) (n : Nat)
    (hst : Settled d c.version) (hn : ∀ r, sc.resp = some r → n ∉ r.rolledBack.getD [])
    (hni : (updateCore env c base d sc).2.1 ≠ .installed) (h : SelD env c.key d n) :
    SelD env c.key (updateCore env c base d sc).1 n := by
  unfold updateCore at hni ⊢
  simp only [] at hni ⊢
  rw [secCopyEvents_disk c d hst] at hni ⊢
  have h1 := secClearEvents_settled c d hst
  have s1 := secClearEvents_sel env c d n hst h
  cases hresp : sc.resp with
  | none => exact s1
  | some r =>
    simp only [hresp] at hni ⊢
    have h2 := rollBackIfNeeded_settled env c _ r.rolledBack h1
    have s2 := rollBackIfNeeded_sel env c _ n r.rolledBack h1 (hn r hresp) s1
    rcases afterCheck_cases env c base (secClearEvents c d) r sc.dl with ⟨_, hd⟩ | ⟨o, stream, b, out, _, _, _, _, _, _, _, _, e6⟩
    · rcases hd with hd | ⟨o, _, hd⟩
      · rw [hd]; exact s2
      · rw [hd, shouldInstall_sel env c _ n o.number h2 s2]; exact s2
    · rw [e6] at hni; exact absurd rfl hni

/-- "Installed" means selected: the record of the offered number is the selection. For every disk. -/
theorem updateCore_installed_next (env : Env) (c : Config) (base) (d : Disk) (sc : UpdateScript)
    (hi : (updateCore env c base d sc).2.1 = .installed) :
    ∃ o, (sc.resp.bind (·.patch)) = some o ∧
      (loadPatchesState (updateCore env c base d sc).1).next.map (·.number) = some o.number := by
  by_cases hst : Settled d c.version
  · obtain ⟨o, out, ho, _, _, hnx⟩ := update_installed_sound env c base d sc hst hi
    exact ⟨o, ho, by rw [hnx]; rfl⟩
  · rw [updateCore_clean env c d hst] at hi ⊢
    obtain ⟨o, out, ho, _, _, hnx⟩ := update_installed_sound env c base _ sc (settled_clean c.version) hi
    exact ⟨o, ho, by rw [hnx]; rfl⟩

theorem installedBy_spec (env : Env) (w : World) (op : Op) (k : Nat)
    (h : installedBy op (postView env w op) = some k) :
    ∃ chan sc c, op = .update chan sc ∧ w.config = some c ∧
      (updateCore env c (w.base c) w.disk sc).2.1 = .installed ∧ (sc.resp.bind (·.patch)).map (·.number) = some k := by
  cases op <;> simp only [installedBy] at h <;> try cases h
  case update chan sc =>
    cases hc : w.config with
    | none => simp [postView, step, update, hc, World.view] at h
    | some c =>
      refine ⟨chan, sc, c, rfl, rfl, ?_⟩
      have hret : (postView env w (.update chan sc)).ret = .upd (updateCore env c (w.base c) w.disk sc).2.1 := by
        simp [postView, step, update, hc, World.view]
      rw [hret] at h
      cases hout : (updateCore env c (w.base c) w.disk sc).2.1 <;> simp only [hout] at h <;> try cases h
      exact ⟨rfl, by simpa [Op.offer, Op.respOf] using h⟩

/-- First clause of C09: after an update reported patch `k` installed, `k` is the selection. -/
theorem installed_is_next (env : Env) (w : World) (op : Op) (k : Nat)
    (h : installedBy op (postView env w op) = some k) : (postView env w op).nextNum = some k := by
  obtain ⟨chan, sc, c, rfl, hc, hi, hk⟩ := installedBy_spec env w op k h
  obtain ⟨o, ho, hnx⟩ := updateCore_installed_next env c (w.base c) w.disk sc hi
  have hd : (step env w (.update chan sc)).1.disk = (updateCore env c (w.base c) w.disk sc).1 := by
    simp [step, update, hc]
  have : (postView env w (.update chan sc)).ps = loadPatchesState (step env w (.update chan sc)).1.disk := rfl
  simp only [View.nextNum, this, hd, hnx]
  rw [ho] at hk; simpa using hk

/-- What an update that reports 'installed' leaves selected passes the boot-time validation
    (size on disk, and signature over the file's own hash when a key is configured). -/
theorem installed_next_valid (env : Env) (w : World) (op : Op) (k : Nat)
    (h : installedBy op (postView env w op) = some k) :
    ∃ m, (postView env w op).ps.next = some m ∧
      (postView env w op).valid env (w.config.bind (·.key)) m = true := by
  obtain ⟨chan, sc, c, rfl, hc, hi, _⟩ := installedBy_spec env w op k h
  rw [updateCore_norm env c (w.base c) w.disk sc] at hi
  have hst := normDisk_settled w.disk c.version
  obtain ⟨o, out, _, hgood, hart, hnext⟩ := update_installed_sound env c (w.base c) _ sc hst hi
  have hd : (step env w (.update chan sc)).1.disk = (updateCore env c (w.base c) (normDisk w.disk c.version) sc).1 := by
    rw [← updateCore_norm]; simp [step, update, hc]
  have hshow := showsDisk_view (step env w (.update chan sc)).1 (step env w (.update chan sc)).2.1 (step env w (.update chan sc)).2.2
  have hps : (postView env w (.update chan sc)).ps = loadPatchesState (step env w (.update chan sc)).1.disk := rfl
  refine ⟨_, by rw [hps, hd]; exact hnext, ?_⟩
  have hv : (postView env w (.update chan sc)).valid env (w.config.bind (·.key))
      { number := o.number, size := out.length, hash := o.hash, sig := o.sig } =
      validate env (w.config.bind (·.key)) (step env w (.update chan sc)).1.disk
        { number := o.number, size := out.length, hash := o.hash, sig := o.sig } := valid_of_shows env _ hshow _
  rw [hv, hd]
  obtain ⟨stream, b, _, _, _, _, hsig⟩ := hgood
  unfold validate
  simp only [hart, hc, Option.bind_some, ne_eq, not_true_eq_false, if_false]
  unfold signatureOk at hsig
  exact hsig

theorem entersWith_key (K : Option String) (w : World) (op : Op) (c : Config)
    (hK : ∀ c, w.config = some c → c.key = K) (hop : InitKey K op) (he : entersWith w.config op = some c) : c.key = K := by
  cases op with
  | init p =>
    simp only [entersWith] at he
    cases hc : w.config with
    | some c0 => simp [hc] at he
    | none => simp only [hc] at he; exact hop p c rfl he
  | restart => simp [entersWith] at he
  | auto => simp [entersWith] at he
  | damage d => simp [entersWith] at he
  | check chan resp =>
    cases resp with
    | none => simp [entersWith] at he
    | some r => simp only [entersWith] at he; split at he <;> first | exact hK c he | cases he
  | start => exact hK c he
  | success => exact hK c he
  | failure => exact hK c he
  | nextN => exact hK c he
  | nextP => exact hK c he
  | curN => exact hK c he
  | update chan sc => exact hK c he

theorem bootingNum_of_shows {w : World} {v : View} (hs : ShowsDisk w v) :
    v.bootingNum = (loadPatchesState w.disk).booting.map (·.number) := by
  simp [View.bootingNum, ps_of_shows hs]

/-- **The step.** Whatever selection the monitor tracks after `op` satisfies the selection invariant on
    the disk after `op`. -/
theorem step_sel (env : Env) (K : Option String) (w : World) (op : Op) (sel : Option Nat) (pre : View)
    (hs : ShowsDisk w pre) (hK : ∀ c, w.config = some c → c.key = K) (hop : InitKey K op)
    (hsel : ∀ n, sel = some n → SelD env K w.disk n) :
    ∀ n, selAfter env w.config sel op pre (postView env w op) = some n → SelD env K (step env w op).1.disk n := by
  intro n hn
  cases hinst : installedBy op (postView env w op) with
  | some k =>
    obtain ⟨chan, sc, c, rfl, hc, _, _⟩ := installedBy_spec env w op k hinst
    simp only [selAfter, G09.next, hinst] at hn
    split at hn
    · rename_i hcond
      have hkn : k = n := by simpa using hn
      subst hkn
      have hkey : (w.config.bind (·.key)) = K := by rw [hc]; exact hK c hc
      rw [hkey] at hcond
      exact selD_of_view env K (showsDisk_view _ _ _) k hcond.1 hcond.2
    · cases hn
  | none =>
    simp only [selAfter, G09.next, hinst] at hn
    cases hsl : sel with
    | none => simp [hsl] at hn
    | some m =>
      simp only [hsl] at hn
      split at hn
      · cases hn
      · rename_i hflags
        have hmn : m = n := by simpa using hn
        subst hmn
        simp only [Bool.or_eq_true, not_or, Bool.not_eq_true, decide_eq_false_iff_not] at hflags
        obtain ⟨⟨⟨⟨hnr, hnsd⟩, hnhit⟩, hnfail⟩, hnrb⟩ := hflags
        have h0 := hsel m hsl
        cases he : entersWith w.config op with
        | none =>
          rw [step_disk_noenter env w op he]
          cases op <;> try exact h0
          case damage dm =>
            simp only [noenterDisk]
            exact SelD_congr env K _ _ m (damage_pj _ _ (by simpa [Op.isStateDamage] using hnsd))
              (damage_art_other _ _ _ (by simpa [Op.hitsArt] using hnhit)) h0
        | some c =>
          rw [step_disk_enter env w op c he]
          have hck := entersWith_key K w op c hK hop he
          have hst : Settled w.disk c.version := by
            by_cases hst : Settled w.disk c.version
            · exact hst
            · rw [resets_of_unsettled w pre hs op c he hst] at hnr; cases hnr
          rw [← hck] at h0 ⊢
          have hboot : ∀ (hfb : failedBy w.config op pre = pre.bootingNum),
              (loadPatchesState w.disk).booting.map (·.number) ≠ some m := by
            intro hfb; rw [← bootingNum_of_shows hs, ← hfb]; exact hnfail
          cases op with
          | restart => simp [entersWith] at he
          | auto => simp [entersWith] at he
          | damage dm => simp [entersWith] at he
          | init p =>
            refine secHandlePrior_sel env c w.disk m hst h0 (hboot ?_)
            simp only [failedBy, hnr, Bool.false_eq_true, if_false, he]
          | start => exact secLaunchStart_sel env c w.disk m hst h0
          | success => exact secLaunchSuccess_sel env c w.disk m hst h0
          | failure =>
            refine secLaunchFailure_sel env c w.disk m hst h0 (hboot ?_)
            have hc : w.config = some c := he
            rw [hc] at hnr
            simp only [failedBy, hc, hnr, Bool.false_eq_true, if_false]
          | nextN => simp only [opDisk]; rw [secNextBootPatch_sel env c w.disk m hst h0]; exact h0
          | nextP => simp only [opDisk]; rw [secNextBootPatch_sel env c w.disk m hst h0]; exact h0
          | curN => simp only [opDisk]; rw [secCurrentBootPatch_disk c w.disk hst]; exact h0
          | check chan resp =>
            cases resp with
            | none => simp [entersWith] at he
            | some r =>
              have hc : w.config = some c := by
                simp only [entersWith] at he; split at he <;> first | exact he | cases he
              refine checkCore_sel env c w.disk r m hst ?_ h0
              intro hmem
              have : (rolledBackBy w.config (.check chan (some r))).contains m = true := by
                simp [rolledBackBy, hc, Op.respOf, hmem]
              rw [this] at hnrb; cases hnrb
          | update chan sc =>
            have hc : w.config = some c := he
            refine updateCore_sel env c (w.base c) w.disk sc m hst ?_ ?_ h0
            · intro r hr hmem
              have : (rolledBackBy w.config (.update chan sc)).contains m = true := by
                simp [rolledBackBy, hc, Op.respOf, hr, hmem]
              rw [this] at hnrb; cases hnrb
            · intro hi
              have hret : (postView env w (.update chan sc)).ret = .upd .installed := by
                simp [postView, step, update, hc, World.view, hi]
              obtain ⟨o, ho, _⟩ := updateCore_installed_next env c (w.base c) w.disk sc hi
              simp [installedBy, hret, Op.offer, Op.respOf, ho] at hinst

/-- While `n` is the tracked selection, a query on a configured process reports `n`. -/
theorem query_reports (env : Env) (K : Option String) (w : World) (op : Op) (n : Nat) (pre : View) (c : Config)
    (hs : ShowsDisk w pre) (hc : w.config = some c) (hck : c.key = K)
    (hnr : resetsState w.config op pre = false) (h : SelD env K w.disk n) :
    queryReports op (postView env w op) n = true := by
  have hst : ∀ (he : entersWith w.config op = some c), Settled w.disk c.version := by
    intro he
    by_cases hst : Settled w.disk c.version
    · exact hst
    · rw [resets_of_unsettled w pre hs op c he hst] at hnr; cases hnr
  rw [← hck] at h
  cases op <;> simp only [queryReports]
  case nextN =>
    have := secNextBootPatch_sel env c w.disk n (hst hc) h
    simp [postView, step, nextBootPatch, hc, World.view, this]
  case nextP =>
    have := secNextBootPatch_sel env c w.disk n (hst hc) h
    simp [postView, step, nextBootPatch, hc, World.view, this]

/-- **C09.** For every model history whose effective initialisations configure one public key `K`
    (possibly none), the C09 monitor accepts: after an update reported patch `n` installed, `n` is
    the next-boot patch; and when every record of number `n` then matches the artifact in place,
    `n` stays the next-boot patch, its artifact stays a file, and every next-boot query of a
    configured process reports `n` — after every later call (restarts, launch reports, checks,
    failed and no-op updates, rollbacks of other numbers, damage elsewhere) until another install, a
    failed or crashed boot of `n`, a rollback naming `n`, a release change, or outside damage to the
    state files or to `n`'s artifact. -/
theorem C09_holds (env : Env) (K : Option String) (libs : List (String × Bytes)) (ops : List Op)
    (hkey : ∀ op ∈ ops, InitKey K op) :
    mon09.accepts env (viewTrace env (World.fresh libs) ops) = true := by
  apply Monitor.accepts_of_inv' mon09 env libs
    (fun w g => g.cfg = w.config ∧ (∀ c, w.config = some c → c.key = K) ∧ ∀ n, g.sel = some n → SelD env K w.disk n)
    (InitKey K) _ _ ops hkey
  · exact ⟨rfl, by intro c hc; simp [World.fresh] at hc, by intro n hn; simp [mon09] at hn⟩
  · intro w g op pre hop hinv hshow
    obtain ⟨hcfg, hK, hsel⟩ := hinv
    have hg : g = { cfg := w.config, sel := g.sel } := by cases g; simp_all
    have hnext : (G09.next env g op pre (postView env w op)).sel = selAfter env w.config g.sel op pre (postView env w op) := by
      rw [hg]; rfl
    have hncfg : (G09.next env g op pre (postView env w op)).cfg = trackCfg w.config op := by
      simp only [G09.next, hcfg]; split <;> (try split) <;> (try split) <;> rfl
    have hpost := step_sel env K w op g.sel pre hshow hK hop hsel
    have hK' : ∀ c, (step env w op).1.config = some c → c.key = K := by
      intro c hc
      rw [step_config] at hc
      cases op <;> simp only [trackCfg] at hc <;> try exact hK c hc
      case restart => cases hc
      case init p =>
        cases hw : w.config with
        | some c0 => rw [hw] at hc; exact hK c (by rw [hw]; exact hc)
        | none => rw [hw] at hc; exact hop p c rfl hc
    refine ⟨?_, ?_, hK', ?_⟩
    · simp only [mon09]
      rw [firstFail_append]
      refine ⟨?_, ?_⟩
      · cases hinst : installedBy op (postView env w op) with
        | none => rfl
        | some k =>
          simp only [firstFail_none_iff, List.mem_cons, List.mem_nil_iff, or_false]
          rintro c (rfl | rfl)
          · simp only [decide_eq_true_eq]
            exact installed_is_next env w op k hinst
          · obtain ⟨m, hm, hval⟩ := installed_next_valid env w op k hinst
            simp only [hm, hcfg]; exact hval
      · rw [hnext]
        cases hsa : selAfter env w.config g.sel op pre (postView env w op) with
        | none => rfl
        | some n =>
          have hS := hpost n hsa
          have hv := view_of_selD env K (showsDisk_view (step env w op).1 (step env w op).2.1 (step env w op).2.2) n hS
          simp only [firstFail_none_iff, List.mem_cons, List.mem_nil_iff, or_false]
          rintro c (rfl | rfl | rfl)
          · simp only [decide_eq_true_eq]; exact hv.1
          · exact hv.2
          · simp only [Bool.or_eq_true, hcfg]
            cases hc : w.config with
            | none => left; rfl
            | some c =>
              right
              -- a query does not install: the tracked selection was already `n`, and no reset happened
              cases op <;> try rfl
              case nextN =>
                have hinst : installedBy .nextN (postView env w .nextN) = none := by simp [installedBy]
                simp only [selAfter, G09.next, hinst] at hsa
                cases hsl : g.sel with
                | none => simp [hsl] at hsa
                | some m =>
                  simp only [hsl] at hsa
                  split at hsa
                  · cases hsa
                  · rename_i hflags
                    have hmn : m = n := by simpa using hsa
                    subst hmn
                    simp only [Bool.or_eq_true, not_or, Bool.not_eq_true] at hflags
                    exact query_reports env K w .nextN m pre c hshow hc (hK c hc) hflags.1.1.1.1 (hsel m hsl)
              case nextP =>
                have hinst : installedBy .nextP (postView env w .nextP) = none := by simp [installedBy]
                simp only [selAfter, G09.next, hinst] at hsa
                cases hsl : g.sel with
                | none => simp [hsl] at hsa
                | some m =>
                  simp only [hsl] at hsa
                  split at hsa
                  · cases hsa
                  · rename_i hflags
                    have hmn : m = n := by simpa using hsa
                    subst hmn
                    simp only [Bool.or_eq_true, not_or, Bool.not_eq_true] at hflags
                    exact query_reports env K w .nextP m pre c hshow hc (hK c hc) hflags.1.1.1.1 (hsel m hsl)
    · simp only [mon09]; rw [hncfg]; exact (step_config env w op).symm
    · intro n hn
      simp only [mon09] at hn
      rw [hnext] at hn
      exact hpost n hn

end Updater
