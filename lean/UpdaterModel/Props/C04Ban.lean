/-
  C04, first sentence, the clause "… that had not been banned before the interrupted call".

  `crash_safe` proves it under the hypothesis `hban`: in the state the interrupted launch started
  from, no slot holds a number of the persisted ban list (C02's invariant, stated for the list on disk).
  This file discharges that hypothesis for every state a history can reach: `SelfBanD` (no slot holds a
  persisted banned number) is kept by every call from every configured world, holds in the empty
  storage directory, and is therefore an invariant of every history that does not overwrite the state
  files from outside (`reachable_selfBan`); `crash_safe_reachable` is `crash_safe` without `hban`.
-/
import UpdaterModel.Props.C04

namespace Updater

/-- No slot holds a number of the ban list stored next to it. -/
def SelfBan (ps : PatchesState) : Prop := BanPS ps ps.bad

def SelfBanD (d : Disk) : Prop := BanD d (loadPatchesState d).bad

theorem SelfBan_empty : SelfBan {} := by
  refine ⟨fun n h => h, ?_, ?_, ?_⟩ <;> intro x hx <;> cases hx

theorem selfBanD_of_pm (pm : PM) (hc : pm.Coherent) (h : SelfBan pm.ps) : SelfBanD pm.disk := by
  unfold SelfBanD BanD; rw [hc]; exact h

theorem selfBan_of_D (d : Disk) (h : SelfBanD d) : SelfBan (PM.new d).ps := h

/-! ### the patch manager keeps it -/

theorem tryFallBack_bad (env key) (pm : PM) (n : Nat) : (pm.tryFallBack env key n).ps.bad = pm.ps.bad := by
  rw [tryFallBack_ps, fallBackPS_bad]

theorem tryFallBack_self (env key) (pm : PM) (n : Nat) (h : SelfBan pm.ps) : SelfBan (pm.tryFallBack env key n).ps := by
  unfold SelfBan; rw [tryFallBack_bad]; exact tryFallBack_ban _ _ _ _ _ h

theorem recordBootFailure_self (env key) (pm : PM) (n : Nat) (h : SelfBan pm.ps) :
    SelfBan (pm.recordBootFailure env key n).ps := by
  have hb := recordBootFailure_ban env key pm n pm.ps.bad h
  obtain ⟨v, hv⟩ := recordBootFailure_ps env key pm n
  have hbad : (pm.recordBootFailure env key n).ps.bad = insertBad pm.ps.bad n := by rw [hv, fallBackPS_bad]
  unfold SelfBan
  apply BanPS_mono _ hb
  intro x hx
  rw [hbad] at hx
  rcases (mem_insertBad _ _ _).1 hx with rfl | hx
  · exact List.mem_cons_self
  · exact List.mem_cons_of_mem _ hx

theorem nextBootPatch_bad (env key) (pm : PM) : (pm.nextBootPatch env key).1.ps.bad = pm.ps.bad := by
  unfold PM.nextBootPatch
  cases pm.ps.next with
  | none => rfl
  | some nx => simp only; split <;> first | rfl | exact tryFallBack_bad _ _ _ _

theorem nextBootPatch_self (env key) (pm : PM) (h : SelfBan pm.ps) : SelfBan (pm.nextBootPatch env key).1.ps := by
  unfold SelfBan; rw [nextBootPatch_bad]; exact nextBootPatch_ban _ _ _ _ h

theorem recordBootStart_bad (pm : PM) (n : Nat) : (pm.recordBootStart n).1.ps.bad = pm.ps.bad := by
  unfold PM.recordBootStart
  cases pm.ps.next with
  | none => rfl
  | some nx => simp only; split <;> rfl

theorem recordBootStart_self (pm : PM) (n : Nat) (h : SelfBan pm.ps) : SelfBan (pm.recordBootStart n).1.ps := by
  unfold SelfBan; rw [recordBootStart_bad]; exact recordBootStart_ban _ _ _ h

theorem recordBootSuccess_bad (pm : PM) : pm.recordBootSuccess.1.ps.bad = pm.ps.bad := by
  unfold PM.recordBootSuccess
  cases pm.ps.booting with
  | none => rfl
  | some bp => simp only [save_ps, deleteOlderThan_ps]

theorem recordBootSuccess_self (pm : PM) (h : SelfBan pm.ps) : SelfBan pm.recordBootSuccess.1.ps := by
  unfold SelfBan; rw [recordBootSuccess_bad]; exact recordBootSuccess_ban _ _ h

theorem addPatch_self (pm : PM) (n : Nat) (b : Bytes) (hs : String) (s : Option String) (h : SelfBan pm.ps)
    (hn : n ∉ pm.ps.bad) : SelfBan (pm.addPatch n b hs s).ps := by
  have := addPatch_ban pm n b hs s pm.ps.bad h hn
  unfold SelfBan
  have hb : (pm.addPatch n b hs s).ps.bad = pm.ps.bad := by rw [addPatch_ps]
  rw [hb]; exact this

theorem foldFallBack_self (env key) (ns : List Nat) (pm : PM) (h : SelfBan pm.ps) :
    SelfBan (ns.foldl (fun pm n => pm.tryFallBack env key n) pm).ps := by
  induction ns generalizing pm with
  | nil => exact h
  | cons n ns ih => simp only [List.foldl]; exact ih _ (tryFallBack_self env key pm n h)

theorem foldFallBack_coherent (env key) (ns : List Nat) (pm : PM) (hc : pm.Coherent) :
    (ns.foldl (fun pm n => pm.tryFallBack env key n) pm).Coherent := by
  induction ns generalizing pm with
  | nil => exact hc
  | cons n ns ih => simp only [List.foldl]; exact ih _ (tryFallBack_coherent env key pm n)

/-! ### every section keeps it -/

section
variable (env : Env) (cfg : Config) (d : Disk) (hst : Settled d cfg.version) (hb : SelfBanD d)
include hst hb

theorem self_secNextBootPatch : SelfBanD (secNextBootPatch env cfg d).1 := by
  obtain ⟨s, hs, hv⟩ := hst
  simp only [secNextBootPatch, loadOrNew_settled d _ s hs hv]
  exact selfBanD_of_pm _ (nextBootPatch_coherent env cfg.key (PM.new d) (PM.new_coherent d)) (nextBootPatch_self _ _ _ hb)

omit hb in
theorem bad_secNextBootPatch : (loadPatchesState (secNextBootPatch env cfg d).1).bad = (loadPatchesState d).bad := by
  obtain ⟨s, hs, hv⟩ := hst
  simp only [secNextBootPatch, loadOrNew_settled d _ s hs hv]
  rw [nextBootPatch_coherent env cfg.key (PM.new d) (PM.new_coherent d), nextBootPatch_bad]
  rfl

theorem self_secLaunchStart : SelfBanD (secLaunchStart env cfg d) := by
  obtain ⟨s, hs, hv⟩ := hst
  simp only [secLaunchStart, loadOrNew_settled d _ s hs hv]
  have hc := nextBootPatch_coherent env cfg.key (PM.new d) (PM.new_coherent d)
  have hn := nextBootPatch_self env cfg.key (PM.new d) hb
  split
  · exact selfBanD_of_pm _ (recordBootStart_coherent _ _ hc) (recordBootStart_self _ _ hn)
  · exact selfBanD_of_pm _ hc hn

theorem self_secLaunchSuccess : SelfBanD (secLaunchSuccess env cfg d).1 := by
  obtain ⟨s, hs, hv⟩ := hst
  simp only [secLaunchSuccess, loadOrNew_settled d _ s hs hv]
  split
  · exact hb
  · have : SelfBanD (PM.new d).recordBootSuccess.1.disk :=
      selfBanD_of_pm _ (recordBootSuccess_coherent _ (PM.new_coherent d)) (recordBootSuccess_self _ hb)
    split <;> (try split) <;> exact this

theorem self_secLaunchFailure : SelfBanD (secLaunchFailure env cfg d) := by
  obtain ⟨s, hs, hv⟩ := hst
  simp only [secLaunchFailure, loadOrNew_settled d _ s hs hv]
  cases hbt : (PM.new d).ps.booting with
  | none => exact hb
  | some p =>
    simp only []
    exact selfBanD_of_pm _ (recordBootFailure_coherent _ _ _ _) (recordBootFailure_self _ _ _ _ hb)

theorem self_secHandlePrior : SelfBanD (secHandlePriorBootFailure env cfg d) := by
  obtain ⟨s, hs, hv⟩ := hst
  simp only [secHandlePriorBootFailure, loadOrNew_settled d _ s hs hv]
  cases hbt : (PM.new d).ps.booting with
  | none => exact hb
  | some p =>
    simp only []
    exact selfBanD_of_pm _ (recordBootFailure_coherent _ _ _ _) (recordBootFailure_self _ _ _ _ hb)

theorem self_secClearEvents : SelfBanD (secClearEvents cfg d) := by
  have h := secClearEvents_pj cfg d hst
  unfold SelfBanD BanD loadPatchesState at *
  rw [h]; exact hb

theorem self_secRollBack (ns : List Nat) : SelfBanD (secRollBack env cfg d ns) := by
  obtain ⟨s, hs, hv⟩ := hst
  simp only [secRollBack, loadOrNew_settled d _ s hs hv]
  exact selfBanD_of_pm _ (foldFallBack_coherent env cfg.key ns _ (PM.new_coherent d)) (foldFallBack_self env cfg.key ns _ hb)

theorem self_rollBackIfNeeded (rb : Option (List Nat)) : SelfBanD (rollBackIfNeeded env cfg d rb) := by
  cases rb with
  | none => exact hb
  | some ns => exact self_secRollBack env cfg d hst hb ns

theorem self_secInstall (o : Offer) (out : Bytes) (hn : o.number ∉ (loadPatchesState d).bad) :
    SelfBanD (secInstall cfg d o out) := by
  obtain ⟨s, hs, hv⟩ := hst
  simp only [secInstall, loadOrNew_settled d _ s hs hv]
  exact selfBanD_of_pm _ (addPatch_coherent _ _ _ _ _) (addPatch_self _ _ _ _ _ hb hn)

theorem self_shouldInstall (n : Nat) : SelfBanD (shouldInstall env cfg d n).1 := by
  unfold shouldInstall
  rw [secIsKnownBad_eq cfg d n hst]
  simp only []
  split
  · exact hb
  · split <;> exact self_secNextBootPatch env cfg d hst hb

omit hb in
theorem bad_shouldInstall (n : Nat) : (loadPatchesState (shouldInstall env cfg d n).1).bad = (loadPatchesState d).bad := by
  unfold shouldInstall
  rw [secIsKnownBad_eq cfg d n hst]
  simp only []
  split
  · rfl
  · split <;> exact bad_secNextBootPatch env cfg d hst

theorem self_checkCore (resp : Option CheckResp) : SelfBanD (checkCore env cfg d resp).1 := by
  unfold checkCore
  cases resp with
  | none => exact hb
  | some r =>
    simp only []
    have h1 := rollBackIfNeeded_settled env cfg d r.rolledBack hst
    have b1 := self_rollBackIfNeeded env cfg d hst hb r.rolledBack
    cases r.patch with
    | none => exact b1
    | some o => exact self_shouldInstall env cfg _ h1 b1 o.number

theorem self_installStage (base : Option Bytes) (o : Offer) (dl : Option Bytes) (hn : o.number ∉ (loadPatchesState d).bad) :
    SelfBanD (installStage env cfg base d o dl).1 := by
  unfold installStage
  cases dl with
  | none => exact hb
  | some stream =>
    cases base with
    | none => exact hb
    | some b =>
      simp only
      cases bipatchDecode stream b with
      | error e => exact hb
      | ok out =>
        simp only
        split
        · exact hb
        · split
          · exact hb
          · exact self_secInstall cfg d hst hb o out hn

theorem self_afterCheck (base : Option Bytes) (r : CheckResp) (dl : Option Bytes) :
    SelfBanD (afterCheck env cfg base d r dl).1 := by
  unfold afterCheck
  simp only []
  have h1 := rollBackIfNeeded_settled env cfg d r.rolledBack hst
  have b1 := self_rollBackIfNeeded env cfg d hst hb r.rolledBack
  split
  · exact b1
  · cases hp : r.patch with
    | none => exact b1
    | some o =>
      simp only []
      have h2 := shouldInstall_settled env cfg _ o.number h1
      have b2 := self_shouldInstall env cfg _ h1 b1 o.number
      split
      · exact b2
      · exact b2
      · rename_i hok
        have hnb := shouldInstall_ok_notBad env cfg _ o.number h1 hok
        rw [← bad_shouldInstall env cfg _ h1 o.number] at hnb
        exact self_installStage env cfg _ h2 b2 base o dl hnb

theorem self_updateCore (base : Option Bytes) (sc : UpdateScript) : SelfBanD (updateCore env cfg base d sc).1 := by
  unfold updateCore
  simp only []
  rw [secCopyEvents_disk cfg d hst]
  have h1 := secClearEvents_settled cfg d hst
  have b1 := self_secClearEvents cfg d hst hb
  cases sc.resp with
  | none => exact b1
  | some r => exact self_afterCheck env cfg _ h1 b1 base r sc.dl

end

/-! ### every call keeps it; every reachable state has it -/

theorem selfBanD_clean (v : String) : SelfBanD (cleanDisk v) := SelfBan_empty

theorem selfBanD_of_pj {d d' : Disk} (h : d'.patchesJson = d.patchesJson) (hb : SelfBanD d) : SelfBanD d' := by
  unfold SelfBanD BanD loadPatchesState at *
  rw [h]; exact hb

theorem self_opDisk (env : Env) (c : Config) (w : World) (op : Op) (hst : Settled w.disk c.version) (hb : SelfBanD w.disk) :
    SelfBanD (opDisk env c w op) := by
  cases op with
  | init p => exact self_secHandlePrior env c _ hst hb
  | start => exact self_secLaunchStart env c _ hst hb
  | success => exact self_secLaunchSuccess env c _ hst hb
  | failure => exact self_secLaunchFailure env c _ hst hb
  | nextN => exact self_secNextBootPatch env c _ hst hb
  | nextP => exact self_secNextBootPatch env c _ hst hb
  | curN => simp only [opDisk]; rw [secCurrentBootPatch_disk c w.disk hst]; exact hb
  | check chan resp => exact self_checkCore env c _ hst hb resp
  | update chan sc => exact self_updateCore env c _ hst hb (w.base c) sc
  | restart => exact hb
  | auto => exact hb
  | damage dm => exact hb

/-- One call (or restart, or outside damage to artifacts) keeps the invariant; only an outside
    rewrite of the state files can break it. -/
theorem step_selfBan (env : Env) (w : World) (op : Op) (hsd : op.isStateDamage = false) (hb : SelfBanD w.disk) :
    SelfBanD (step env w op).1.disk := by
  cases he : entersWith w.config op with
  | none =>
    rw [step_disk_noenter env w op he]
    cases op with
    | damage dm => exact selfBanD_of_pj (damage_pj w.disk dm hsd) hb
    | _ => exact hb
  | some c =>
    rw [step_disk_enter env w op c he]
    by_cases hst : Settled w.disk c.version
    · exact self_opDisk env c w op hst hb
    · rw [opDisk_unsettled env c w op he hst]
      exact self_opDisk env c { w with disk := cleanDisk c.version } op (settled_clean _) (selfBanD_clean _)

/-- The world after a history. -/
def runOps (env : Env) (w : World) (ops : List Op) : World := ops.foldl (fun w op => (step env w op).1) w

/-- **Every reachable storage directory satisfies `crash_safe`'s hypothesis.** After any history
    from the empty storage directory — any calls in any order, restarts, any server behaviour, outside
    damage to artifacts — no slot holds a number of the stored ban list. -/
theorem reachable_selfBan (env : Env) (libs : List (String × Bytes)) (ops : List Op)
    (hops : ∀ op ∈ ops, op.isStateDamage = false) : SelfBanD (runOps env (World.fresh libs) ops).disk := by
  have gen : ∀ (ops : List Op) (w : World), (∀ op ∈ ops, op.isStateDamage = false) → SelfBanD w.disk →
      SelfBanD (runOps env w ops).disk := by
    intro ops
    induction ops with
    | nil => intro w _ h; exact h
    | cons op rest ih =>
      intro w hops h
      simp only [runOps, List.foldl]
      exact ih _ (fun x hx => hops x (List.mem_cons_of_mem _ hx)) (step_selfBan env w op (hops op List.mem_cons_self) h)
  exact gen ops _ hops SelfBan_empty

/-- **C04 (process death), for reachable states, with the ban clause.** Let `d` be the storage
    directory after ANY history (no outside rewrite of the state files), and let a launch from `d` — an
    effective initialisation followed by any calls — die anywhere. If the next launch of this release
    selects patch `n`, then its artifact validates, `n` was recorded in `d` (a readable state of this
    release) or is a patch the interrupted launch was installing, `n` is not the patch recorded as
    booting at death — and `n` was not banned in `d`. -/
theorem crash_safe_reachable (env : Env) (cfg : Config) (libs : List (String × Bytes)) (hist : List Op)
    (hhist : ∀ op ∈ hist, op.isStateDamage = false) (p : InitParams) (ops : List Op)
    (hp : mkConfig p = some cfg) (hops : ∀ op ∈ ops, LaunchOp op) (q : StateFiles)
    (hq : q ∈ files (runOps env (World.fresh libs) hist).disk ::
      segCrashPairs (launchSegs env cfg { disk := (runOps env (World.fresh libs) hist).disk, config := none, libs := libs } p ops))
    (pd : Option PatchesDir) (cfg' : Config) (hv : cfg'.version = cfg.version) (n : Nat)
    (h : (recover env cfg' { stateJson := q.1, patchesJson := q.2, patches := pd }).2 = some n) :
    ∃ m : Meta, m.number = n ∧
      validate env cfg'.key (recover env cfg' { stateJson := q.1, patchesJson := q.2, patches := pd }).1 m = true ∧
      ((Settled (runOps env (World.fresh libs) hist).disk cfg.version ∧
          InSlot (loadPatchesState (runOps env (World.fresh libs) hist).disk) m) ∨ n ∈ offersOf ops) ∧
      (Settled (runOps env (World.fresh libs) hist).disk cfg.version →
        n ∉ (loadPatchesState (runOps env (World.fresh libs) hist).disk).bad) ∧
      (q.2.getD {}).booting.map (·.number) ≠ some n := by
  have hself := reachable_selfBan env libs hist hhist
  obtain ⟨m, hmn, hval, hA, hboot⟩ :=
    crash_safe env cfg libs _ p ops hp hops (fun _ => hself) q hq pd cfg' hv n h
  refine ⟨m, hmn, hval, ?_, ?_, hboot⟩
  · rcases hA with hA | hA
    · exact Or.inl hA
    · exact Or.inr hA.1
  · intro hst
    rcases hA with hA | hA
    · rw [← hmn]; exact crash_safe_not_banned _ cfg.version m hself hA
    · exact hA.2 hst

end Updater
