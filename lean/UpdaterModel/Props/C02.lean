/-
  C02  A patch that failed to boot is never booted or installed again.

  Once a launch from patch n has been reported as failed, or the process ended after launch start
  for n without any report, n is never again the next-boot patch, is never downloaded or installed
  again, and an update or check that is offered n answers 'bad patch' / 'nothing to download' —
  across restarts, while the release stays and the state files are not damaged from outside.
-/
import UpdaterModel.Lemmas.Steps

namespace Updater

theorem BanPS_mono {ps : PatchesState} {F F' : List Nat} (hsub : ∀ x ∈ F', x ∈ F) (h : BanPS ps F) : BanPS ps F' := by
  obtain ⟨hb, hn, hl, hbo⟩ := h
  exact ⟨fun n hn' => hb n (hsub n hn'), fun x hx hm => hn x hx (hsub _ hm), fun x hx hm => hl x hx (hsub _ hm),
    fun x hx hm => hbo x hx (hsub _ hm)⟩

theorem ps_of_shows {w : World} {pre : View} (hs : ShowsDisk w pre) : pre.ps = loadPatchesState w.disk := by
  unfold View.ps loadPatchesState; rw [hs.2.1]

theorem post_ps (env : Env) (w : World) (op : Op) :
    (postView env w op).ps = loadPatchesState (step env w op).1.disk := rfl

/-- The ghost set of failed patches after `op`, as the monitor computes it. -/
def failedAfter (cfg : Option Config) (F : List Nat) (op : Op) (pre : View) : List Nat :=
  (G02.next { cfg := cfg, failed := F } op pre).failed

theorem resets_of_unsettled (w : World) (pre : View) (hs : ShowsDisk w pre) (op : Op) (c : Config)
    (he : entersWith w.config op = some c) (hu : ¬ Settled w.disk c.version) :
    resetsState w.config op pre = true := by
  unfold resetsState; rw [he]; simp only
  exact decide_eq_true ((resets_iff w pre hs c).2 hu)

theorem not_resets_of_settled (w : World) (pre : View) (hs : ShowsDisk w pre) (op : Op) (c : Config)
    (he : entersWith w.config op = some c) (hu : Settled w.disk c.version) :
    resetsState w.config op pre = false := by
  unfold resetsState; rw [he]; simp only
  exact decide_eq_false (fun h => (resets_iff w pre hs c).1 h hu)

theorem failedAfter_reset (cfg F op pre) (h : resetsState cfg op pre = true) : failedAfter cfg F op pre = [] := by
  simp [failedAfter, G02.next, h, failedBy]

theorem BanD_mono {d : Disk} {F F' : List Nat} (hsub : ∀ x ∈ F', x ∈ F) (h : BanD d F) : BanD d F' :=
  BanPS_mono hsub h

theorem damage_pj (d : Disk) (dm : Damage) (h : dm.isStateFile = false) : (d.damage dm).patchesJson = d.patchesJson := by
  cases dm <;> simp [Damage.isStateFile] at h <;> simp only [Disk.damage, deleteArtifacts_pj]
  all_goals (cases d.patches with
    | none => rfl
    | some p => first | rfl | (simp only []; split <;> rfl))

/-- The disk after every operation satisfies the ban invariant for the monitor's updated set. -/
theorem step_ban (env : Env) (w : World) (op : Op) (F : List Nat) (pre : View)
    (hs : ShowsDisk w pre) (hb : BanD w.disk F) :
    BanD (step env w op).1.disk (failedAfter w.config F op pre) := by
  have hps := ps_of_shows hs
  -- generic treatment of a call that enters the state lock with configuration `c`
  have enter : ∀ (c : Config) (f : Disk → Disk) (Fs : List Nat),
      entersWith w.config op = some c →
      (Settled w.disk c.version → BanD (f w.disk) Fs) →
      (Settled w.disk c.version → ∀ x ∈ failedAfter w.config F op pre, x ∈ Fs) →
      BanD (f w.disk) (failedAfter w.config F op pre) := by
    intro c f Fs he h1 h2
    by_cases hst : Settled w.disk c.version
    · exact BanD_mono (h2 hst) (h1 hst)
    · rw [failedAfter_reset _ _ _ _ (resets_of_unsettled w pre hs op c he hst)]; exact BanD_nil _
  cases op with
  | damage dm =>
    simp only [step]
    cases hsf : dm.isStateFile with
    | true => simp [failedAfter, G02.next, Op.isStateDamage, hsf, failedBy, resetsState, entersWith]; exact BanD_nil _
    | false =>
      have : failedAfter w.config F (.damage dm) pre = F := by
        simp [failedAfter, G02.next, Op.isStateDamage, hsf, failedBy, resetsState, entersWith]
      rw [this]; unfold BanD loadPatchesState; rw [damage_pj _ _ hsf]; exact hb
  | restart =>
    have : failedAfter w.config F .restart pre = F := by
      simp [failedAfter, G02.next, Op.isStateDamage, failedBy, resetsState, entersWith]
    rw [this]; exact hb
  | auto =>
    have : failedAfter w.config F .auto pre = F := by
      simp [failedAfter, G02.next, Op.isStateDamage, failedBy, resetsState, entersWith]
    rw [this]; exact hb
  | init p =>
    simp only [step]
    cases hc : w.config with
    | some c0 =>
      have : failedAfter (some c0) F (.init p) pre = F := by
        simp [failedAfter, G02.next, Op.isStateDamage, failedBy, resetsState, entersWith]
      rw [init_configured env w p c0 hc, this]; exact hb
    | none =>
      cases hm : mkConfig p with
      | none =>
        have : failedAfter none F (.init p) pre = F := by
          simp [failedAfter, G02.next, Op.isStateDamage, failedBy, resetsState, entersWith, hm]
        rw [init_ineffective env w p hm, this]; exact hb
      | some cfg =>
        rw [init_effective env w p cfg hc hm]
        simp only
        have he : entersWith w.config (.init p) = some cfg := by simp [entersWith, hc, hm]
        rw [← hc]
        apply enter cfg (secHandlePriorBootFailure env cfg) _ he
          (fun hst => secHandlePrior_ban env cfg w.disk F hst hb)
        intro hst x hx
        have hnr := not_resets_of_settled w pre hs _ cfg he hst
        simp only [failedAfter, G02.next, Op.isStateDamage, hnr, failedBy, he, View.bootingNum, hps] at hx
        cases hbt : (loadPatchesState w.disk).booting with
        | none => simp [hbt] at hx ⊢; exact hx
        | some m =>
          simp only [hbt, Option.map] at hx ⊢
          by_cases hin : m.number ∈ F <;> simp_all
  | start =>
    simp only [step, launchStart]
    cases hc : w.config with
    | none =>
      have : failedAfter none F .start pre = F := by
        simp [failedAfter, G02.next, Op.isStateDamage, failedBy, resetsState, entersWith]
      rw [this]; exact hb
    | some c =>
      simp only
      have he : entersWith w.config .start = some c := by simp [entersWith, hc]
      rw [← hc]
      apply enter c (secLaunchStart env c) F he (fun hst => secLaunchStart_ban env c w.disk F hst hb)
      intro hst x hx
      have hnr := not_resets_of_settled w pre hs _ c he hst
      simpa [failedAfter, G02.next, Op.isStateDamage, hnr, failedBy] using hx
  | success =>
    simp only [step, launchSuccess]
    cases hc : w.config with
    | none =>
      have : failedAfter none F .success pre = F := by
        simp [failedAfter, G02.next, Op.isStateDamage, failedBy, resetsState, entersWith]
      rw [this]; exact hb
    | some c =>
      simp only
      have he : entersWith w.config .success = some c := by simp [entersWith, hc]
      rw [← hc]
      apply enter c (fun d => (secLaunchSuccess env c d).1) F he (fun hst => secLaunchSuccess_ban env c w.disk F hst hb)
      intro hst x hx
      have hnr := not_resets_of_settled w pre hs _ c he hst
      simpa [failedAfter, G02.next, Op.isStateDamage, hnr, failedBy] using hx
  | failure =>
    simp only [step, launchFailure]
    cases hc : w.config with
    | none =>
      have : failedAfter none F .failure pre = F := by
        simp [failedAfter, G02.next, Op.isStateDamage, failedBy, resetsState, entersWith]
      rw [this]; exact hb
    | some c =>
      simp only
      have he : entersWith w.config .failure = some c := by simp [entersWith, hc]
      rw [← hc]
      apply enter c (secLaunchFailure env c) _ he (fun hst => secLaunchFailure_ban env c w.disk F hst hb)
      intro hst x hx
      have hnr := not_resets_of_settled w pre hs _ c he hst
      rw [hc] at hnr
      simp only [failedAfter, G02.next, Op.isStateDamage, hnr, failedBy, hc, View.bootingNum, hps] at hx
      cases hbt : (loadPatchesState w.disk).booting with
      | none => simp [hbt] at hx ⊢; exact hx
      | some m =>
        simp only [hbt, Option.map] at hx ⊢
        by_cases hin : m.number ∈ F <;> simp_all
  | nextN =>
    simp only [step, nextBootPatch]
    cases hc : w.config with
    | none =>
      have : failedAfter none F .nextN pre = F := by
        simp [failedAfter, G02.next, Op.isStateDamage, failedBy, resetsState, entersWith]
      rw [this]; exact hb
    | some c =>
      simp only
      have he : entersWith w.config .nextN = some c := by simp [entersWith, hc]
      rw [← hc]
      apply enter c (fun d => (secNextBootPatch env c d).1) F he (fun hst => (secNextBootPatch_ban env c w.disk F hst hb).1)
      intro hst x hx
      have hnr := not_resets_of_settled w pre hs _ c he hst
      simpa [failedAfter, G02.next, Op.isStateDamage, hnr, failedBy] using hx
  | nextP =>
    simp only [step, nextBootPatch]
    cases hc : w.config with
    | none =>
      have : failedAfter none F .nextP pre = F := by
        simp [failedAfter, G02.next, Op.isStateDamage, failedBy, resetsState, entersWith]
      rw [this]; exact hb
    | some c =>
      simp only
      have he : entersWith w.config .nextP = some c := by simp [entersWith, hc]
      rw [← hc]
      apply enter c (fun d => (secNextBootPatch env c d).1) F he (fun hst => (secNextBootPatch_ban env c w.disk F hst hb).1)
      intro hst x hx
      have hnr := not_resets_of_settled w pre hs _ c he hst
      simpa [failedAfter, G02.next, Op.isStateDamage, hnr, failedBy] using hx
  | curN =>
    simp only [step, currentBootPatch]
    cases hc : w.config with
    | none =>
      have : failedAfter none F .curN pre = F := by
        simp [failedAfter, G02.next, Op.isStateDamage, failedBy, resetsState, entersWith]
      rw [this]; exact hb
    | some c =>
      simp only
      have he : entersWith w.config .curN = some c := by simp [entersWith, hc]
      rw [← hc]
      apply enter c (fun d => (secCurrentBootPatch c d).1) F he
        (fun hst => by rw [secCurrentBootPatch_disk c w.disk hst]; exact hb)
      intro hst x hx
      have hnr := not_resets_of_settled w pre hs _ c he hst
      simpa [failedAfter, G02.next, Op.isStateDamage, hnr, failedBy] using hx
  | check chan resp =>
    simp only [step, check]
    cases hc : w.config with
    | none =>
      have : failedAfter none F (.check chan resp) pre = F := by
        cases resp <;> simp [failedAfter, G02.next, Op.isStateDamage, failedBy, resetsState, entersWith]
      rw [this]; exact hb
    | some c =>
      simp only
      cases resp with
      | none =>
        have : failedAfter (some c) F (.check chan none) pre = F := by
          simp [failedAfter, G02.next, Op.isStateDamage, failedBy, resetsState, entersWith]
        rw [this]; exact hb
      | some r =>
        cases hen : (r.rolledBack.isSome || r.patch.isSome) with
        | false =>
          have : failedAfter (some c) F (.check chan (some r)) pre = F := by
            simp [failedAfter, G02.next, Op.isStateDamage, failedBy, resetsState, entersWith, hen]
          rw [this, checkCore_noenter env c w.disk r hen]; exact hb
        | true =>
          have he : entersWith w.config (.check chan (some r)) = some c := by simp [entersWith, hc, hen]
          rw [← hc]
          apply enter c (fun d => (checkCore env c d (some r)).1) F he (fun hst => checkCore_ban env c w.disk F (some r) hst hb)
          intro hst x hx
          have hnr := not_resets_of_settled w pre hs _ c he hst
          simpa [failedAfter, G02.next, Op.isStateDamage, hnr, failedBy] using hx
  | update chan sc =>
    simp only [step, update]
    cases hc : w.config with
    | none =>
      have : failedAfter none F (.update chan sc) pre = F := by
        simp [failedAfter, G02.next, Op.isStateDamage, failedBy, resetsState, entersWith]
      rw [this]; exact hb
    | some c =>
      simp only
      have he : entersWith w.config (.update chan sc) = some c := by simp [entersWith, hc]
      rw [← hc]
      apply enter c (fun d => (updateCore env c (w.base c) d sc).1) F he (fun hst => updateCore_ban env c w.disk F (w.base c) sc hst hb)
      intro hst x hx
      have hnr := not_resets_of_settled w pre hs _ c he hst
      simpa [failedAfter, G02.next, Op.isStateDamage, hnr, failedBy] using hx


theorem any_isDownload_events (l : List Event) : (l.map NetAct.event).any isDownload = false := by
  induction l with
  | nil => rfl
  | cons e l ih => simp [List.any, isDownload, ih]

theorem contains_iff_mem (l : List Nat) (n : Nat) : l.contains n = true ↔ n ∈ l := by simp

/-- The reported next-boot patch is the selection left on disk (initialised, settled). -/
theorem reported_next_settled (env : Env) (w : World) (c : Config) (hc : w.config = some c)
    (hst : Settled w.disk c.version) (op : Op) (hop : op = .nextN ∨ op = .nextP) :
    ∀ n, reportedNext op (postView env w op) = some n → (postView env w op).nextNum = some n := by
  intro n hn
  have hb := (secNextBootPatch_ban env c w.disk [] hst (BanD_nil _)).2
  rcases hop with rfl | rfl
  · simp only [reportedNext, postView, step, nextBootPatch, hc, World.view] at hn
    simp only [postView, step, nextBootPatch, hc, View.nextNum, World.view, View.ps]
    rw [hb] at hn
    change (loadPatchesState (secNextBootPatch env c w.disk).1).next.map (·.number) = some n
    cases hx : (loadPatchesState (secNextBootPatch env c w.disk).1).next.map (·.number) with
    | none => simp [hx] at hn
    | some k => simp [hx] at hn; rw [hn.2]
  · simp only [reportedNext, postView, step, nextBootPatch, hc, World.view] at hn
    rw [hb] at hn
    simp only [postView, step, nextBootPatch, hc, View.nextNum, World.view, View.ps]
    exact hn

/-- **C02.** Every model history is accepted by the C02 monitor: once the failure of a launch from
    `n` has been reported, or detected at the next initialisation after a crash, then — for as long
    as the release stays and the state files are not damaged from outside — `n` is never the
    selection on disk, never reported by a query, an update offered `n` requests no download and
    answers 'bad patch' (or 'no update' if the response says nothing is available), and a check
    offered `n` answers `false`. Histories are arbitrary: any call order, restarts, artifact damage. -/
theorem C02_holds (env : Env) (libs : List (String × Bytes)) (ops : List Op) :
    mon02.accepts env (viewTrace env (World.fresh libs) ops) = true := by
  apply Monitor.accepts_of_inv mon02 env libs (fun w g => g.cfg = w.config ∧ BanD w.disk g.failed)
  · exact ⟨rfl, BanD_nil _⟩
  · intro w g op pre hinv hshow
    obtain ⟨hcfg, hban⟩ := hinv
    have hgn : G02.next g op pre = { cfg := trackCfg w.config op, failed := failedAfter w.config g.failed op pre } := by
      simp [G02.next, failedAfter, hcfg]
    have hpost : BanD (step env w op).1.disk (failedAfter w.config g.failed op pre) :=
      step_ban env w op g.failed pre hshow hban
    refine ⟨?_, ?_⟩
    · -- the checks
      simp only [mon02, hgn]
      rw [firstFail_append]
      refine ⟨?_, ?_⟩
      · -- never selected / never reported
        have hnext : ∀ n, (postView env w op).nextNum = some n → n ∉ failedAfter w.config g.failed op pre := by
          intro n hn
          simp only [View.nextNum, post_ps] at hn
          cases hx : (loadPatchesState (step env w op).1.disk).next with
          | none => simp [hx] at hn
          | some m => simp [hx] at hn; subst hn; exact hpost.2.1 m hx
        have hrep : ∀ n, reportedNext op (postView env w op) = some n → n ∉ failedAfter w.config g.failed op pre := by
          intro n hr
          -- only queries report; they report the selection unless the state was just reset
          have hop : (op = .nextN ∨ op = .nextP) := by
            cases op <;> simp [reportedNext] at hr <;> simp
          cases hc : w.config with
          | none =>
            rcases hop with rfl | rfl <;> simp [reportedNext, postView, step, nextBootPatch, hc, World.view] at hr
          | some c =>
            by_cases hst : Settled w.disk c.version
            · rw [← hc]; exact hnext n (reported_next_settled env w c hc hst op hop n hr)
            · have he : entersWith w.config op = some c := by rcases hop with rfl | rfl <;> simp [entersWith, hc]
              rw [← hc, failedAfter_reset _ _ _ _ (resets_of_unsettled w pre hshow op c he hst)]; simp
        rw [firstFail_none_iff]
        intro c hc
        simp only [List.mem_cons, List.mem_nil_iff, or_false] at hc
        rcases hc with rfl | rfl
        · simp only
          split
          · rename_i n hx; simpa using hnext n hx
          · rfl
        · simp only
          split
          · rename_i n hx; simpa using hrep n hx
          · rfl
      · -- offers of a failed number
        cases op with
        | update chan sc =>
          cases hc : w.config with
          | none => simp [hcfg, hc, firstFail]
          | some c =>
            cases ho : (Op.update chan sc).offer with
            | none => simp [hcfg, hc, ho, firstFail, postView, step, update, World.view]
            | some o =>
              simp only [hcfg, hc, ho, postView, step, update, World.view]
              by_cases hf : (failedAfter (some c) g.failed (.update chan sc) pre).contains o.number = true
              · simp only [hf, if_true]
                have he : entersWith w.config (.update chan sc) = some c := by simp [entersWith, hc]
                by_cases hst : Settled w.disk c.version
                · have hnr := not_resets_of_settled w pre hshow _ c he hst
                  rw [hc] at hnr
                  have hF : failedAfter (some c) g.failed (.update chan sc) pre = g.failed := by
                    simp [failedAfter, G02.next, Op.isStateDamage, hnr, failedBy]
                  rw [hF] at hf
                  have hmem : o.number ∈ g.failed := (contains_iff_mem _ _).1 hf
                  obtain ⟨r, hr, hp⟩ : ∃ r, sc.resp = some r ∧ r.patch = some o := by
                    simp only [Op.offer, Op.respOf] at ho
                    cases hr : sc.resp with
                    | none => simp [hr] at ho
                    | some r => exact ⟨r, rfl, by simpa [hr] using ho⟩
                  have hb := updateCore_banned env c w.disk g.failed (w.base c) sc r o hr hp hst hban hmem
                  simp only [firstFail, updateActs, hb.1, hb.2, hr, Option.map]
                  by_cases ha : r.available <;>
                    simp [ha, List.any_append, any_isDownload_events, isDownload]
                · rw [hc] at he
                  have := failedAfter_reset (some c) g.failed (.update chan sc) pre
                    (by have := resets_of_unsettled w pre hshow _ c (by rw [hc]; exact he) hst; rwa [hc] at this)
                  rw [this] at hf; simp at hf
              · have hf' : o.number ∉ failedAfter (some c) g.failed (.update chan sc) pre := by simpa using hf
                simp [hf', firstFail]
        | check chan resp =>
          cases hc : w.config with
          | none => simp [hcfg, hc, firstFail]
          | some c =>
            cases ho : (Op.check chan resp).offer with
            | none => simp [hcfg, hc, ho, firstFail, postView, step, check, World.view]
            | some o =>
              simp only [hcfg, hc, ho, postView, step, check, World.view]
              by_cases hf : (failedAfter (some c) g.failed (.check chan resp) pre).contains o.number = true
              · simp only [hf, if_true]
                obtain ⟨r, hr, hp⟩ : ∃ r, resp = some r ∧ r.patch = some o := by
                  simp only [Op.offer, Op.respOf] at ho
                  cases hr : resp with
                  | none => simp [hr] at ho
                  | some r => exact ⟨r, rfl, by simpa [hr] using ho⟩
                subst hr
                have he : entersWith w.config (.check chan (some r)) = some c := by simp [entersWith, hc, hp]
                by_cases hst : Settled w.disk c.version
                · have hnr := not_resets_of_settled w pre hshow _ c he hst
                  rw [hc] at hnr
                  have hF : failedAfter (some c) g.failed (.check chan (some r)) pre = g.failed := by
                    simp [failedAfter, G02.next, Op.isStateDamage, hnr, failedBy]
                  rw [hF] at hf
                  have hmem : o.number ∈ g.failed := (contains_iff_mem _ _).1 hf
                  have hb := checkCore_banned env c w.disk g.failed r o hp hst hban hmem
                  simp [firstFail, hb]
                · have := failedAfter_reset (some c) g.failed (.check chan (some r)) pre
                    (by have := resets_of_unsettled w pre hshow _ c he hst; rwa [hc] at this)
                  rw [this] at hf; simp at hf
              · have hf' : o.number ∉ failedAfter (some c) g.failed (.check chan resp) pre := by simpa using hf
                simp [hf', firstFail]
        | _ => simp [firstFail]
    · -- the invariant
      simp only [mon02, hgn]
      exact ⟨(step_config env w op).symm, hpost⟩

end Updater
