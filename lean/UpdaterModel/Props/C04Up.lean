/-
  C04, the launch after the death is a launch of ANOTHER release.

  "… the next launch still initialises without crashing and selects either no patch or an intact,
  previously verified patch of the currently installed release …" — the process may die under release
  v and the app may be upgraded (or downgraded) before it is launched again. `state.json` is the only
  record of the release the cache belongs to, and it is rewritten in place (truncate, then write): the
  theorem below says that whatever prefix of its file-system operations the dying process completed,
  a launch of a release v' ≠ v selects NO patch — provided the directory the dying launch started from
  was not itself a readable state of v' (a downgrade back to a release whose state is still there is
  the one case in which patches of v' exist to be selected).
-/
import UpdaterModel.Props.C04Eio

namespace Updater

theorem loadOrNew_version (d : Disk) (v : String) : (loadOrNew d v).ss.version = v := by
  unfold loadOrNew
  cases h : d.stateJson with
  | ok ss =>
    simp only
    by_cases hv : ss.version = v
    · simp [hv]
    · simp only [ne_eq, hv, not_false_eq_true, if_true]; rfl
  | missing => rfl
  | garbage => rfl

/-- Every rewrite of `state.json` a section performs records the release of the running process. -/
theorem Sec.saves_sjver (env : Env) (cfg : Config) (d : Disk) (s : Sec) :
    ∀ e ∈ s.saves env cfg d, ∀ x, e = .sj x → x.version = cfg.version := by
  have hload : ∀ e ∈ loadSaves d cfg.version, ∀ x, e = .sj x → x.version = cfg.version := by
    intro e he x hx
    unfold loadSaves at he
    split at he
    · split at he
      · simp only [List.mem_cons, List.mem_nil_iff, or_false] at he
        rcases he with rfl | rfl
        · cases hx
        · cases hx; rfl
      · cases he
    · simp only [List.mem_cons, List.mem_nil_iff, or_false] at he
      rcases he with rfl | rfl
      · cases hx
      · cases hx; rfl
  have hfail : ∀ msg, ∀ e ∈ failureSaves env cfg (loadOrNew d cfg.version) msg, ∀ x, e = .sj x → x.version = cfg.version := by
    intro msg e he x hx
    unfold failureSaves at he
    split at he
    · simp only [List.mem_cons, List.mem_nil_iff, or_false] at he
      rcases he with rfl | rfl
      · cases hx
      · cases hx; exact loadOrNew_version d cfg.version
    · cases he
  have hpj : ∀ (l : List SaveEv), (∀ e ∈ l, ∃ v, e = .pj v) → ∀ e ∈ l, ∀ x, e = .sj x → x.version = cfg.version := by
    intro l hl e he x hx
    obtain ⟨v, hv⟩ := hl e he
    rw [hv] at hx; cases hx
  have hnb : ∀ pm : PM, ∀ e ∈ pm.nextBootPatchSaves env cfg.key, ∃ v, e = .pj v := by
    intro pm e he
    unfold PM.nextBootPatchSaves at he
    split at he
    · cases he
    · split at he
      · cases he
      · simp only [List.mem_singleton] at he; exact ⟨_, he⟩
  have hfold : ∀ (ns : List Nat) (pm : PM), ∀ e ∈ foldFallBackSaves env cfg.key ns pm, ∃ v, e = .pj v := by
    intro ns
    induction ns with
    | nil => intro pm e he; cases he
    | cons n ns ih =>
      intro pm e he
      simp only [foldFallBackSaves, List.mem_cons] at he
      rcases he with rfl | he
      · exact ⟨_, rfl⟩
      · exact ih _ e he
  intro e he x hx
  cases s with
  | handlePrior =>
    simp only [Sec.saves, secHandlePriorSaves, List.mem_append] at he
    rcases he with he | he
    · exact hload e he x hx
    · exact hfail _ e he x hx
  | failure =>
    simp only [Sec.saves, secLaunchFailureSaves, List.mem_append] at he
    rcases he with he | he
    · exact hload e he x hx
    · exact hfail _ e he x hx
  | nextBoot =>
    simp only [Sec.saves, secNextBootPatchSaves, List.mem_append] at he
    rcases he with he | he
    · exact hload e he x hx
    · exact hpj _ (hnb _) e he x hx
  | start =>
    simp only [Sec.saves, secLaunchStartSaves, List.mem_append] at he
    rcases he with (he | he) | he
    · exact hload e he x hx
    · exact hpj _ (hnb _) e he x hx
    · split at he
      · unfold PM.recordBootStartSaves at he
        split at he
        · cases he
        · split at he
          · cases he
          · simp only [List.mem_singleton] at he; rw [he] at hx; cases hx
      · cases he
  | success =>
    simp only [Sec.saves, secLaunchSuccessSaves, List.mem_append] at he
    rcases he with he | he
    · exact hload e he x hx
    · unfold PM.recordBootSuccessSaves at he
      split at he
      · cases he
      · simp only [List.mem_singleton] at he; rw [he] at hx; cases hx
  | load => exact hload e he x hx
  | clearEvents =>
    simp only [Sec.saves, secClearEventsSaves, List.mem_append, List.mem_singleton] at he
    rcases he with he | he
    · exact hload e he x hx
    · rw [he] at hx; cases hx; exact loadOrNew_version d cfg.version
  | rollBack ns =>
    simp only [Sec.saves, secRollBackSaves, List.mem_append] at he
    rcases he with he | he
    · exact hload e he x hx
    · exact hpj _ (hfold ns _) e he x hx
  | install o out =>
    simp only [Sec.saves, secInstallSaves, List.mem_append, List.mem_singleton] at he
    rcases he with he | he
    · exact hload e he x hx
    · rw [he] at hx; cases hx

/-- A process that only ever records release `v` cannot turn `state.json` into a readable state of another
    release, at any crash point. -/
theorem crashPairs_notOf (v' : String) (evs : List SaveEv) (cur : StateFiles) (h0 : ¬ SettledF cur.1 v')
    (hev : ∀ e ∈ evs, ∀ x, e = .sj x → x.version ≠ v') :
    ∀ q ∈ crashPairs cur evs, ¬ SettledF q.1 v' := by
  have key : ∀ (pre : List SaveEv) (c0 : StateFiles), ¬ SettledF c0.1 v' →
      (∀ e ∈ pre, ∀ x, e = .sj x → x.version ≠ v') → ¬ SettledF (applySaves c0 pre).1 v' := by
    intro pre
    induction pre with
    | nil => intro c0 h _; exact h
    | cons e es ih =>
      intro c0 h hp
      simp only [applySaves, List.foldl]
      apply ih (e.apply c0) _ (fun y hy => hp y (List.mem_cons_of_mem _ hy))
      cases e with
      | pj v => exact h
      | sj s =>
        intro ⟨s', hs', hv'⟩
        simp only [SaveEv.apply, JFile.ok.injEq] at hs'
        subst hs'
        exact hp (.sj s) List.mem_cons_self s rfl hv'
  apply crashPairs_all (fun q => ¬ SettledF q.1 v') evs cur h0
  intro pre e post heq
  have hpre := key pre cur h0 (fun y hy => hev y (by rw [heq]; exact List.mem_append_left _ hy))
  have he := hev e (by rw [heq]; exact List.mem_append_right _ List.mem_cons_self)
  cases e with
  | pj v => exact ⟨hpre, hpre⟩
  | sj s =>
    refine ⟨?_, ?_⟩
    · intro ⟨s', hs', _⟩; simp [SaveEv.torn] at hs'
    · intro ⟨s', hs', hv'⟩
      simp only [SaveEv.apply, JFile.ok.injEq] at hs'
      subst hs'
      exact he s rfl hv'

theorem notOf_of_settled {d : Disk} {v v' : String} (h : Settled d v) (hne : v ≠ v') : ¬ SettledF (files d).1 v' := by
  obtain ⟨s, hs, hv⟩ := h
  intro ⟨s', hs', hv'⟩
  simp only [files] at hs'
  rw [hs] at hs'
  cases hs'
  exact hne (hv.symm.trans hv')

/-- One section from a directory that is not a state of `v'`. -/
theorem Sec.crash_notOf (env : Env) (cfg : Config) (d : Disk) (s : Sec) (v' : String) (hne : cfg.version ≠ v')
    (h0 : ¬ SettledF (files d).1 v') :
    ∀ q ∈ crashPairs (files d) (s.saves env cfg d), ¬ SettledF q.1 v' :=
  crashPairs_notOf v' _ _ h0 (fun e he x hx hv => hne ((Sec.saves_sjver env cfg d s e he x hx).symm.trans hv))

/-! ### the start of every section of a launch is a readable state of the running release -/

section
variable (env : Env) (cfg : Config) (d : Disk) (hst : Settled d cfg.version)
include hst

theorem starts_rollBackIfNeeded (rb : Option (List Nat)) :
    ∀ sg ∈ rollBackIfNeededSegs env cfg d rb, Settled sg.1 cfg.version := by
  intro sg hsg
  cases rb with
  | none => simp [rollBackIfNeededSegs] at hsg
  | some ns => simp only [rollBackIfNeededSegs, List.mem_singleton] at hsg; subst hsg; exact hst

theorem starts_shouldInstall (n : Nat) : ∀ sg ∈ shouldInstallSegs env cfg d n, Settled sg.1 cfg.version := by
  intro sg hsg
  simp only [shouldInstallSegs, secIsKnownBad_eq cfg d n hst, List.mem_cons] at hsg
  rcases hsg with rfl | hsg
  · exact hst
  · split at hsg
    · cases hsg
    · simp only [List.mem_singleton] at hsg; subst hsg; exact hst

theorem starts_installStage (base : Option Bytes) (o : Offer) (dl : Option Bytes) :
    ∀ sg ∈ installStageSegs env cfg base d o dl, Settled sg.1 cfg.version := by
  intro sg hsg
  unfold installStageSegs at hsg
  cases dl with
  | none => simp at hsg
  | some stream =>
    cases base with
    | none => simp at hsg
    | some bs =>
      simp only at hsg
      cases hdec : bipatchDecode stream bs with
      | error e => simp [hdec] at hsg
      | ok out =>
        simp only [hdec] at hsg
        split at hsg
        · simp at hsg
        · split at hsg
          · simp at hsg
          · simp only [List.mem_singleton] at hsg; subst hsg; exact hst

theorem starts_afterCheck (base : Option Bytes) (r : CheckResp) (dl : Option Bytes) :
    ∀ sg ∈ afterCheckSegs env cfg base d r dl, Settled sg.1 cfg.version := by
  intro sg hsg
  have h1 := rollBackIfNeeded_settled env cfg d r.rolledBack hst
  simp only [afterCheckSegs, List.mem_append] at hsg
  rcases hsg with hsg | hsg
  · exact starts_rollBackIfNeeded env cfg d hst r.rolledBack sg hsg
  · split at hsg
    · simp at hsg
    · cases hp : r.patch with
      | none => simp [hp] at hsg
      | some o =>
        simp only [hp, List.mem_append] at hsg
        rcases hsg with hsg | hsg
        · exact starts_shouldInstall env cfg _ h1 o.number sg hsg
        · have h2 := shouldInstall_settled env cfg _ o.number h1
          cases hs : (shouldInstall env cfg (rollBackIfNeeded env cfg d r.rolledBack) o.number).2 with
          | ok => simp only [hs] at hsg; exact starts_installStage env cfg _ h2 base o dl sg hsg
          | knownBad => simp [hs] at hsg
          | alreadyInstalled => simp [hs] at hsg

theorem starts_updateCore (base : Option Bytes) (sc : UpdateScript) :
    ∀ sg ∈ updateCoreSegs env cfg base d sc, Settled sg.1 cfg.version := by
  intro sg hsg
  have e1 := secCopyEvents_disk cfg d hst
  simp only [updateCoreSegs, e1, List.mem_cons] at hsg
  rcases hsg with rfl | rfl | hsg
  · exact hst
  · exact hst
  · cases hr : sc.resp with
    | none => simp [hr] at hsg
    | some r =>
      simp only [hr] at hsg
      exact starts_afterCheck env cfg _ (secClearEvents_settled cfg d hst) base r sc.dl sg hsg

theorem starts_checkCore (resp : Option CheckResp) : ∀ sg ∈ checkCoreSegs env cfg d resp, Settled sg.1 cfg.version := by
  intro sg hsg
  cases resp with
  | none => simp [checkCoreSegs] at hsg
  | some r =>
    simp only [checkCoreSegs, List.mem_append] at hsg
    rcases hsg with hsg | hsg
    · exact starts_rollBackIfNeeded env cfg d hst r.rolledBack sg hsg
    · cases hp : r.patch with
      | none => simp [hp] at hsg
      | some o =>
        simp only [hp] at hsg
        exact starts_shouldInstall env cfg _ (rollBackIfNeeded_settled env cfg d r.rolledBack hst) o.number sg hsg

end

theorem starts_op (env : Env) (cfg : Config) (w : World) (op : Op) (hst : Settled w.disk cfg.version) :
    ∀ sg ∈ opSegs env cfg w op, Settled sg.1 cfg.version := by
  intro sg hsg
  cases op with
  | start => simp only [opSegs, List.mem_singleton] at hsg; subst hsg; exact hst
  | success => simp only [opSegs, List.mem_singleton] at hsg; subst hsg; exact hst
  | failure => simp only [opSegs, List.mem_singleton] at hsg; subst hsg; exact hst
  | nextN => simp only [opSegs, List.mem_singleton] at hsg; subst hsg; exact hst
  | nextP => simp only [opSegs, List.mem_singleton] at hsg; subst hsg; exact hst
  | curN => simp only [opSegs, List.mem_singleton] at hsg; subst hsg; exact hst
  | check chan resp => exact starts_checkCore env cfg _ hst resp sg hsg
  | update chan sc => exact starts_updateCore env cfg _ hst (w.base cfg) sc sg hsg
  | init p => simp [opSegs] at hsg
  | restart => simp [opSegs] at hsg
  | auto => simp [opSegs] at hsg
  | damage dm => simp [opSegs] at hsg

theorem starts_ops (env : Env) (cfg : Config) (ops : List Op) :
    ∀ (w : World), w.config = some cfg → Settled w.disk cfg.version → (∀ op ∈ ops, LaunchOp op) →
      ∀ sg ∈ opsSegs env cfg w ops, Settled sg.1 cfg.version := by
  induction ops with
  | nil => intro w _ _ _ sg hsg; simp [opsSegs] at hsg
  | cons op rest ih =>
    intro w hc hst hops sg hsg
    simp only [opsSegs, List.mem_append] at hsg
    rcases hsg with hsg | hsg
    · exact starts_op env cfg w op hst sg hsg
    · obtain ⟨h1, h2, _, _⟩ := step_launch_inv env cfg (fun _ => True) w op hc hst (fun _ _ => trivial)
        (hops op List.mem_cons_self) [] (BanD_nil _) (fun _ _ _ _ _ => trivial)
      exact ih _ h1 h2 (fun x hx => hops x (List.mem_cons_of_mem _ hx)) sg hsg

/-- Every segment of a call is a section (`opSegs_sec`), for a list of calls. -/
theorem opsSegs_sec (env : Env) (cfg : Config) (ops : List Op) :
    ∀ (w : World), ∀ sg ∈ opsSegs env cfg w ops, ∃ s : Sec, sg.2 = s.saves env cfg sg.1 := by
  induction ops with
  | nil => intro w sg hsg; simp [opsSegs] at hsg
  | cons op rest ih =>
    intro w sg hsg
    simp only [opsSegs, List.mem_append] at hsg
    rcases hsg with hsg | hsg
    · obtain ⟨s, _, hs⟩ := opSegs_sec env cfg w op sg hsg; exact ⟨s, hs⟩
    · exact ih _ sg hsg

/-- **C04, the app is upgraded before it is launched again.** Let a launch of release `v` (`cfg`) — an effective
    initialisation followed by any calls, with any server behaviour — start from ANY storage directory `d` that
    is not a readable state of release `v'`, and let the process die anywhere in it (`q`: before, between or in the
    middle of any rewrite of the two state files; `pd`: anything in `patches/`). Then the next launch, if it
    is a launch of release `v' ≠ v` (any key, any other configuration), selects no patch: nothing of the
    release whose process died is ever booted by another release, whichever prefix of the rewrite of
    `state.json` — the only record of the release — reached the disk. -/
theorem crash_then_other_release (env : Env) (cfg : Config) (libs : List (String × Bytes)) (d : Disk) (p : InitParams)
    (ops : List Op) (hp : mkConfig p = some cfg) (hops : ∀ op ∈ ops, LaunchOp op) (q : StateFiles)
    (hq : q ∈ files d :: segCrashPairs (launchSegs env cfg { disk := d, config := none, libs := libs } p ops))
    (pd : Option PatchesDir) (cfg' : Config) (hv : cfg.version ≠ cfg'.version)
    (hd : ¬ SettledF (files d).1 cfg'.version) :
    (recover env cfg' { stateJson := q.1, patchesJson := q.2, patches := pd }).2 = none := by
  -- state.json at death is not a readable state of v'
  have hq' : ¬ SettledF q.1 cfg'.version := by
    simp only [List.mem_cons] at hq
    rcases hq with rfl | hq
    · exact hd
    · rw [mem_segCrashPairs] at hq
      obtain ⟨sg, hsg, hq⟩ := hq
      simp only [launchSegs, List.mem_cons] at hsg
      rcases hsg with rfl | hsg
      · exact Sec.crash_notOf env cfg d .handlePrior cfg'.version hv hd q hq
      · have hw1 : (step env { disk := d, config := none, libs := libs } (.init p)).1 =
            { disk := secHandlePriorBootFailure env cfg d, config := some cfg, libs := libs } := by
          simp [step, init_effective env { disk := d, config := none, libs := libs } p cfg rfl hp]
        rw [hw1] at hsg
        have hst1 : Settled (secHandlePriorBootFailure env cfg d) cfg.version := by
          by_cases hst : Settled d cfg.version
          · exact secHandlePrior_settled env cfg d hst
          · rw [secHandlePrior_unsettled_clean env cfg d hst]; exact settled_clean _
        have hs := starts_ops env cfg ops _ rfl hst1 hops sg hsg
        obtain ⟨s, hsv⟩ := opsSegs_sec env cfg ops _ sg hsg
        rw [hsv] at hq
        exact Sec.crash_notOf env cfg sg.1 s cfg'.version hv (notOf_of_settled hs hv) q hq
  cases h : (recover env cfg' { stateJson := q.1, patchesJson := q.2, patches := pd }).2 with
  | none => rfl
  | some n =>
    obtain ⟨hs, _, _⟩ := recover_facts env cfg' _ n h
    exact absurd hs hq'

end Updater
