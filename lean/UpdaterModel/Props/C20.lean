/-
  C20  Requests identify exactly this app, release and the selected channel.
-/
import UpdaterModel.Props.C17
import UpdaterModel.Gen.Consts

namespace Updater

/-- Every queued event was created by this app under the release the state file belongs to. -/
def EvOK (env : Env) (app : String) (d : Disk) : Prop :=
  ∀ s, d.stateJson = .ok s → ∀ e ∈ s.events,
    e.appId = app ∧ e.version = s.version ∧ e.platform = env.platform ∧ e.arch = env.arch

/-- Hypothesis on a history: the compiled-in app id is the same at every initialisation, and a
    stale state.json dropped in from outside is an earlier state file of this same app. -/
def AppConsistent (env : Env) (app : String) (op : Op) : Prop :=
  (∀ p cfg, op = .init p → mkConfig p = some cfg → cfg.appId = app) ∧
  (∀ v, op = .damage (.sjSet v) → ∀ e ∈ v.events,
    e.appId = app ∧ e.version = v.version ∧ e.platform = env.platform ∧ e.arch = env.arch)

theorem EvOK_of_sj {env app} {d : Disk} {s : SState} (h : d.stateJson = .ok s)
    (he : ∀ e ∈ s.events, e.appId = app ∧ e.version = s.version ∧ e.platform = env.platform ∧ e.arch = env.arch) :
    EvOK env app d := by
  intro s' hs' e hm
  rw [h] at hs'; cases hs'; exact he e hm

theorem EvOK_norm (env app) (d : Disk) (v : String) (h : EvOK env app d) : EvOK env app (normDisk d v) := by
  unfold normDisk; split
  · exact h
  · intro s hs e he; simp [cleanDisk] at hs; subst hs; simp at he

theorem damage_sj (d : Disk) (dm : Damage) (h : dm.isStateFile = false) : (d.damage dm).stateJson = d.stateJson := by
  cases dm <;> simp [Damage.isStateFile] at h <;> simp only [Disk.damage, deleteArtifacts_sj]
  all_goals (cases d.patches with
    | none => rfl
    | some p => first | rfl | (simp only []; split <;> rfl))

/-- The per-call channel argument of an operation. -/
def Op.chanArg : Op → Option String
  | .check ch _ => ch
  | .update ch _ => ch
  | _ => none

/-- **C20.** Under `AppConsistent`, every model history is accepted by the C20 monitor: every
    patch-check request carries the configured app id, the release version given at initialisation,
    this build's platform and architecture, and the channel chosen by precedence (call argument,
    else YAML, else "stable" — the per-call channel never enters the stored configuration); every
    event (queued ones included) carries the same app id and release version. -/
theorem C20_holds (env : Env) (libs : List (String × Bytes)) (app : String) (ops : List Op)
    (hP : ∀ op ∈ ops, AppConsistent env app op) :
    mon20.accepts env (viewTrace env (World.fresh libs) ops) = true := by
  apply Monitor.accepts_of_inv' mon20 env libs
    (fun w g => g.cfg = w.config ∧ (∀ c, w.config = some c → c.appId = app) ∧ EvOK env app w.disk)
    (AppConsistent env app) _ _ ops hP
  · refine ⟨rfl, ?_, ?_⟩
    · intro c h; cases h
    · intro s hs; simp [World.fresh, Disk.empty] at hs
  · intro w g op pre hp hinv hshow
    obtain ⟨hcfg, happ, hev⟩ := hinv
    -- the invariant
    have hinv' : (∀ c, (step env w op).1.config = some c → c.appId = app) ∧ EvOK env app (step env w op).1.disk := by
      constructor
      · intro c hc
        rw [step_config] at hc
        cases op with
        | init p =>
          simp only [trackCfg] at hc
          cases hw : w.config with
          | some c0 => rw [hw] at hc; cases hc; exact happ _ hw
          | none => rw [hw] at hc; exact hp.1 p c rfl hc
        | restart => simp [trackCfg] at hc
        | _ => exact happ c (by simpa [trackCfg] using hc)
      · cases hen : entersWith w.config op with
        | none =>
          rw [step_disk_noenter env w op hen]
          cases op with
          | damage dm =>
            simp only [noenterDisk]
            cases hsf : dm.isStateFile with
            | false => intro s hs; rw [damage_sj _ _ hsf] at hs; exact hev s hs
            | true =>
              cases dm <;> simp [Damage.isStateFile] at hsf
              case sjSet v => exact EvOK_of_sj rfl (hp.2 v rfl)
              case sjDel => intro s hs; simp [Disk.damage] at hs
              case sjGarbage => intro s hs; simp [Disk.damage] at hs
              case pjDel => intro s hs; exact hev s hs
              case pjGarbage => intro s hs; exact hev s hs
              case pjSet v => intro s hs; exact hev s hs
          | _ => exact hev
        | some c =>
          have hca : c.appId = app := by
            cases op with
            | init p =>
              cases hw : w.config with
              | some c0 => simp [entersWith, hw] at hen
              | none => exact hp.1 p c rfl (by simpa [entersWith, hw] using hen)
            | _ => exact happ c (entersWith_config w _ c hen (by intro p h; cases h))
          obtain ⟨s0, hs0, hv0, _, _⟩ := norm_state w pre hshow op c hen
          have hev0 := EvOK_norm env app w.disk c.version hev s0 hs0
          rw [step_disk_enter env w op c hen, opDisk_norm env c w op hen]
          have same : ∀ d', d'.stateJson = .ok s0 → EvOK env app d' := fun d' h => EvOK_of_sj h hev0
          have fresh : ∀ n m, (mkEvent env c .installFailure n m).appId = app ∧
              (mkEvent env c .installFailure n m).version = s0.version ∧
              (mkEvent env c .installFailure n m).platform = env.platform ∧
              (mkEvent env c .installFailure n m).arch = env.arch := by
            intro n m; simp [mkEvent, hca, hv0]
          cases op with
          | restart => simp [entersWith] at hen
          | auto => simp [entersWith] at hen
          | damage dm => simp [entersWith] at hen
          | start => exact same _ (sj_secLaunchStart env c _ s0 hs0 hv0)
          | success => exact same _ (sj_secLaunchSuccess env c _ s0 hs0 hv0)
          | nextN => exact same _ (sj_secNextBootPatch env c _ s0 hs0 hv0)
          | nextP => exact same _ (sj_secNextBootPatch env c _ s0 hs0 hv0)
          | curN => simp only [opDisk]; rw [secCurrentBootPatch_disk c _ ⟨s0, hs0, hv0⟩]; exact same _ hs0
          | check chan resp => exact same _ (sj_checkCore env c _ s0 hs0 hv0 resp)
          | update chan sc =>
            exact EvOK_of_sj (sj_updateCore env c _ s0 hs0 hv0 (w.base c) sc) (by intro e he; simp at he)
          | failure =>
            have h := sj_secLaunchFailure env c _ s0 hs0 hv0
            cases hb : (loadPatchesState (normDisk w.disk c.version)).booting with
            | none => rw [hb] at h; exact same _ h
            | some p =>
              rw [hb] at h
              refine EvOK_of_sj h ?_
              intro e he
              simp only [List.mem_append, List.mem_singleton] at he
              rcases he with he | rfl
              · exact hev0 e he
              · exact fresh _ _
          | init p =>
            have h := sj_secHandlePrior env c _ s0 hs0 hv0
            cases hb : (loadPatchesState (normDisk w.disk c.version)).booting with
            | none => rw [hb] at h; exact same _ h
            | some q =>
              rw [hb] at h
              refine EvOK_of_sj h ?_
              intro e he
              simp only [List.mem_append, List.mem_singleton] at he
              rcases he with he | rfl
              · exact hev0 e he
              · exact fresh _ _
    refine ⟨?_, by simp only [mon20]; exact ⟨by rw [step_config, hcfg], hinv'⟩⟩
    -- the checks
    simp only [mon20, hcfg]
    cases hc : w.config with
    | none =>
      simp only [firstFail]
      have : (postView env w op).net = [] ∨ op.isDamage = true := by
        cases op with
        | damage dm => right; rfl
        | init p =>
          left
          cases hm : mkConfig p with
          | none => simp [postView, step, init_ineffective env w p hm, World.view]
          | some cfg => simp [postView, step, init_effective env w p cfg hc hm, World.view]
        | _ => left; simp [postView, step, launchStart, launchSuccess, launchFailure, nextBootPatch, currentBootPatch, check, update, hc, World.view]
      simp [this]
    | some c =>
      simp only
      have hca := happ c hc
      rw [firstFail_none_iff]
      intro ck hck
      simp only [List.mem_map] at hck
      obtain ⟨a, ha, rfl⟩ := hck
      -- which actions can an operation emit?
      have hnet : ∀ a ∈ (postView env w op).net,
          (∃ r, a = .check r ∧ r = mkCheckReq env (withChannel c op.chanArg)) ∨
          (∃ e, a = .event e ∧ e.appId = c.appId ∧ e.version = c.version ∧ e.platform = env.platform ∧ e.arch = env.arch) ∨
          (∃ u, a = .download u) := by
        intro a ha
        cases op with
        | init p => simp [postView, step, init_configured env w p c hc, World.view] at ha
        | restart => simp [postView, step, World.view] at ha
        | auto => simp [postView, step, World.view] at ha
        | damage dm => simp [postView, step, World.view] at ha
        | start => simp [postView, step, World.view] at ha
        | failure => simp [postView, step, World.view] at ha
        | nextN => simp [postView, step, World.view] at ha
        | nextP => simp [postView, step, World.view] at ha
        | curN => simp [postView, step, World.view] at ha
        | check chan resp =>
          simp only [postView, step, check, hc, World.view, List.mem_singleton] at ha
          exact Or.inl ⟨_, ha, rfl⟩
        | success =>
          simp only [postView, step, launchSuccess, hc, World.view] at ha
          rw [secLaunchSuccess_norm env c w.disk] at ha
          have hen : entersWith w.config .success = some c := by simp [entersWith, hc]
          obtain ⟨s0, hs0, hv0, _, _⟩ := norm_state w pre hshow .success c hen
          rw [ev_secLaunchSuccess env c _ s0 hs0 hv0] at ha
          right; left
          cases hb : (loadPatchesState (normDisk w.disk c.version)).booting with
          | none => simp [hb, evList] at ha
          | some bp =>
            simp only [hb] at ha
            split at ha
            · simp [evList] at ha
            · simp only [evList, List.mem_singleton] at ha
              exact ⟨_, ha, by simp [mkEvent]⟩
        | update chan sc =>
          have hen : entersWith w.config (.update chan sc) = some c := by simp [entersWith, hc]
          obtain ⟨s0, hs0, hv0, _, _⟩ := norm_state w pre hshow _ c hen
          have hev0 := EvOK_norm env app w.disk c.version hev s0 hs0
          simp only [postView, step, update, hc, World.view] at ha
          rw [updateCore_norm env c (w.base c) w.disk sc, sent_updateCore env c _ s0 hs0 hv0] at ha
          unfold updateActs at ha
          simp only [List.mem_append, List.mem_map, List.mem_singleton] at ha
          rcases ha with (⟨e, he, rfl⟩ | rfl) | ha
          · right; left
            have := hev0 e (List.mem_of_mem_take he)
            exact ⟨e, rfl, by rw [this.1, hca], by rw [this.2.1, hv0], this.2.2.1, this.2.2.2⟩
          · exact Or.inl ⟨_, rfl, rfl⟩
          · split at ha
            · simp only [List.mem_cons] at ha
              rcases ha with rfl | ha
              · exact Or.inr (Or.inr ⟨_, rfl⟩)
              · split at ha
                · simp only [List.mem_singleton] at ha
                  right; left
                  subst ha
                  exact ⟨_, rfl, by cases chan <;> simp [withChannel, mkEvent]⟩
                · simp at ha
            · simp at ha
      rcases hnet a ha with ⟨r, rfl, hr⟩ | ⟨e, rfl, h1, h2, h3, h4⟩ | ⟨u, rfl⟩
      · subst hr
        simp only [decide_eq_true_eq]
        have hw : ∀ ch, (withChannel c ch).appId = c.appId ∧ (withChannel c ch).version = c.version := by
          intro ch; cases ch <;> exact ⟨rfl, rfl⟩
        refine ⟨(hw _).1, (hw _).2, rfl, rfl, ?_⟩
        cases op with
        | check ch resp => cases ch <;> rfl
        | update ch sc => cases ch <;> rfl
        | _ => rfl
      · simp [h1, h2, h3, h4]
      · rfl

/-! ### the defaults are the ones in the sources (table regenerated from /repo on every run) -/

theorem default_channel_agrees : Gen.defaultChannel = DEFAULT_CHANNEL := rfl
theorem default_base_url_agrees : Gen.defaultBaseUrl = DEFAULT_BASE_URL := rfl

end Updater
