/-
  C07  With a signing key configured, only correctly signed content boots.
-/
import UpdaterModel.Props.C05

namespace Updater

/-- With a key configured, whatever is reported as next-boot patch carries a recorded signature that
    verifies, under that key, over the SHA-256 of the artifact's CURRENT bytes (so a file modified
    after installation — even keeping its size — is never handed out). Every world. -/
theorem C07_signed_only (env : Env) (w : World) (c : Config) (k : String) (hc : w.config = some c)
    (hk : c.key = some k) (n : Nat) (h : (nextBootPatch env w).2 = some n) :
    ∃ m b s, (loadPatchesState (nextBootPatch env w).1.disk).next = some m ∧ m.number = n ∧
      (nextBootPatch env w).1.disk.art n = some (.file b) ∧ m.sig = some s ∧
      env.verify k (hexEncode (sha256 b)) s = true := by
  obtain ⟨m, b, h1, h2, h3, _, h5⟩ := next_boot_patch_sound env w c hc n h
  obtain ⟨s, hs, hv⟩ := h5 k hk
  exact ⟨m, b, s, h1, h2, h3, hs, hv⟩

/-- A missing signature is never handed out under a key. -/
theorem C07_missing_signature (env : Env) (w : World) (c : Config) (k : String) (hc : w.config = some c)
    (hk : c.key = some k) (n : Nat) (h : (nextBootPatch env w).2 = some n) :
    ∀ m, (loadPatchesState (nextBootPatch env w).1.disk).next = some m → m.sig ≠ none := by
  intro m hm
  obtain ⟨m', b, s, h1, _, _, hs, _⟩ := C07_signed_only env w c k hc hk n h
  rw [hm] at h1; cases h1; rw [hs]; simp

/-- An unparsable key (nothing verifies under it) rejects every patch. -/
theorem C07_bad_key (env : Env) (w : World) (c : Config) (k : String) (hc : w.config = some c)
    (hk : c.key = some k) (hbad : ∀ msg s, env.verify k msg s = false) : (nextBootPatch env w).2 = none :=
  bad_key_rejects_all env w c k hc hk hbad

/-- Rejection triggers exactly the fallback of any other invalid patch. -/
theorem C07_rejection_is_fallback (env : Env) (key : Option String) (pm : PM) (nx : Meta)
    (hn : pm.ps.next = some nx) (hinv : validate env key pm.disk nx = false) :
    (pm.nextBootPatch env key).1 = pm.tryFallBack env key nx.number := by
  unfold PM.nextBootPatch; simp [hn, hinv]

/-- The install gate: with a key configured, an update answers 'installed' only for an offer whose
    signature verifies over the inflated file. -/
theorem C07_install_requires_signature (env : Env) (cfg : Config) (k : String) (base) (d : Disk) (sc : UpdateScript)
    (hk : cfg.key = some k) (hst : Settled d cfg.version) (hi : (updateCore env cfg base d sc).2.1 = .installed) :
    ∃ o out s, sc.resp.bind (·.patch) = some o ∧ o.sig = some s ∧
      (updateCore env cfg base d sc).1.art o.number = some (.file out) ∧
      env.verify k (hexEncode (sha256 out)) s = true := by
  obtain ⟨o, out, ho, ⟨_, _, _, _, _, _, hsig⟩, hart, _⟩ := update_installed_sound env cfg base d sc hst hi
  unfold signatureOk at hsig
  rw [hk] at hsig
  cases hs : o.sig with
  | none => simp [hs] at hsig
  | some s => exact ⟨o, out, s, ho, hs, hart, by simpa [hs, hashFile] using hsig⟩

end Updater
