/-
  C03  Fallback reaches the last good patch, which the updater never destroys.

  After a patch has booted successfully it stays bootable: until a different patch boots
  successfully, or it is itself reported failed, rolled back by the server or damaged from outside,
  no updater operation removes or alters its artifact. Whenever the selected next-boot patch is lost,
  the updater selects that last good patch if it is still intact, and the bundled release otherwise.
-/
import UpdaterModel.Lemmas.Good
import UpdaterModel.Props.C09

namespace Updater

/-! ### observer and disk -/

theorem art_of_shows {w : World} {v : View} (hs : ShowsDisk w v) (n : Nat) : v.art n = w.disk.art n := by
  unfold View.art Disk.art; rw [hs.2.2.2.1]; unfold Disk.artsList; cases w.disk.patches <;> rfl

theorem fileOf_of_shows {w : World} {v : View} (hs : ShowsDisk w v) (n : Nat) (b : Bytes) :
    v.fileOf n = some b ↔ w.disk.art n = some (.file b) := by
  unfold View.fileOf; rw [art_of_shows hs]
  cases w.disk.art n with
  | none => simp
  | some a => cases a <;> simp

/-- The monitor's establishment condition at a success report, read off the disk. -/
theorem goodD_of_view (env key) {w : World} {v : View} (hs : ShowsDisk w v) (n : Nat) (b : Bytes) (m : Meta)
    (hf : v.fileOf n = some b) (hl : v.ps.last = some m) (hmn : m.number = n) (hv : v.slotsValid env key n = true) :
    GoodD env key w.disk n b := by
  have hps := ps_of_shows hs
  simp only [View.slotsValid, Bool.and_eq_true, slotOk_iff env key hs, hps] at hv
  refine ⟨(fileOf_of_shows hs n b).1 hf, ⟨m, by rw [← hps]; exact hl, hmn⟩, ?_⟩
  intro x hx hxn
  rcases hx with h | h | h
  · exact hv.1.1 x h hxn
  · exact hv.1.2 x h hxn
  · exact hv.2 x h hxn

theorem GoodD_congr (env key) (d d' : Disk) (n : Nat) (b : Bytes) (hpj : d'.patchesJson = d.patchesJson)
    (hart : d'.art n = d.art n) (h : GoodD env key d n b) : GoodD env key d' n b := by
  have hps : loadPatchesState d' = loadPatchesState d := by unfold loadPatchesState; rw [hpj]
  obtain ⟨ha, hl, hall⟩ := h
  refine ⟨by rw [hart]; exact ha, by rw [hps]; exact hl, ?_⟩
  intro x hx hxn
  rw [hps] at hx
  rw [validate_congr env key d d' x (by rw [hxn]; exact hart)]
  exact hall x hx hxn

/-! ### the success report -/

section
variable (env : Env) (cfg : Config) (d : Disk)

theorem secLaunchSuccess_next (hst : Settled d cfg.version) :
    (loadPatchesState (secLaunchSuccess env cfg d).1).next = (loadPatchesState d).next := by
  obtain ⟨s, hs, hv⟩ := hst
  simp only [secLaunchSuccess, loadOrNew_settled d _ s hs hv]
  cases hb : (PM.new d).ps.booting with
  | none => rfl
  | some bp =>
    have h1 : (loadPatchesState (PM.new d).recordBootSuccess.1.disk).next = (loadPatchesState d).next := by
      rw [recordBootSuccess_coherent _ (PM.new_coherent d), recordBootSuccess_ps_next]; rfl
    simp only
    split <;> (try split) <;> exact h1

/-- A success report records the patch that was booting as the last good one. -/
theorem secLaunchSuccess_last (hst : Settled d cfg.version) (bp : Meta) (hb : (loadPatchesState d).booting = some bp) :
    (loadPatchesState (secLaunchSuccess env cfg d).1).last = some bp := by
  obtain ⟨s, hs, hv⟩ := hst
  have hb' : (PM.new d).ps.booting = some bp := hb
  simp only [secLaunchSuccess, loadOrNew_settled d _ s hs hv, hb']
  have h1 : (loadPatchesState (PM.new d).recordBootSuccess.1.disk).last = some bp := by
    rw [recordBootSuccess_coherent _ (PM.new_coherent d)]
    unfold PM.recordBootSuccess
    simp [hb', PM.save, deleteOlderThan_ps]
  split <;> (try split) <;> exact h1

theorem secLaunchSuccess_nobooting (hst : Settled d cfg.version) (hb : (loadPatchesState d).booting = none) :
    (secLaunchSuccess env cfg d).1 = d := by
  obtain ⟨s, hs, hv⟩ := hst
  have : (PM.new d).ps.booting = none := hb
  simp only [secLaunchSuccess, loadOrNew_settled d _ s hs hv, this]
  rfl

/-- A success report leaves the artifact of the patch that booted in place. -/
theorem secLaunchSuccess_art (hst : Settled d cfg.version) (bp : Meta) (hb : (loadPatchesState d).booting = some bp) :
    (secLaunchSuccess env cfg d).1.art bp.number = d.art bp.number := by
  obtain ⟨s, hs, hv⟩ := hst
  have hb' : (PM.new d).ps.booting = some bp := hb
  simp only [secLaunchSuccess, loadOrNew_settled d _ s hs hv, hb']
  have h1 : (PM.new d).recordBootSuccess.1.disk.art bp.number = d.art bp.number := by
    rw [art_recordBootSuccess _ bp hb']; simp; rfl
  split <;> (try split) <;> exact h1

/-! ### rollbacks name the last good patch -/

theorem foldFallBack_last_free (key) (ns : List Nat) (pm : PM) (n : Nat) (hn : n ∈ ns) :
    ∀ m, (ns.foldl (fun pm x => pm.tryFallBack env key x) pm).ps.last = some m → m.number ≠ n := by
  induction ns generalizing pm with
  | nil => cases hn
  | cons x ns ih =>
    simp only [List.foldl]
    by_cases hx : x = n
    · subst hx
      intro m hm
      have hr := (foldFallBack_rel env key ns (pm.tryFallBack env key x)).1
      rw [hm] at hr
      rcases hr with hr | hr
      · have := (fallBackPS_free pm.ps x (lastValidAfter env key pm x)).2 m (by rw [← tryFallBack_ps]; exact hr.symm)
        simpa using this
      · cases hr
    · exact ih _ (by rcases List.mem_cons.1 hn with h | h; exact absurd h.symm hx; exact h)

theorem rollBackIfNeeded_last_free (ns : List Nat) (n : Nat) (hn : n ∈ ns) (hst : Settled d cfg.version) :
    ∀ m, (loadPatchesState (rollBackIfNeeded env cfg d (some ns))).last = some m → m.number ≠ n := by
  obtain ⟨s, hs, hv⟩ := hst
  simp only [rollBackIfNeeded, secRollBack, loadOrNew_settled d _ s hs hv]
  rw [(foldFallBack_ban env cfg.key ns (PM.new d) [] (PM.new_coherent d) (BanPS_nil _)).1]
  exact foldFallBack_last_free env cfg.key ns (PM.new d) n hn

/-! ### installs -/

theorem validate_new (key) (d' : Disk) (k : Nat) (out : Bytes) (hs : String) (sg : Option String)
    (ha : d'.art k = some (.file out)) (hsig : signatureOk env key sg out = true) :
    validate env key d' { number := k, size := out.length, hash := hs, sig := sg } = true := by
  unfold validate signatureOk at *
  simp only [ha]
  cases key with
  | none => simp
  | some kk =>
    cases sg with
    | none => simp at hsig
    | some s => simpa using hsig

theorem secInstall_good (n : Nat) (b : Bytes) (o : Offer) (out : Bytes) (hst : Settled d cfg.version)
    (hsame : o.number = n → out = b) (hsig : signatureOk env cfg.key o.sig out = true)
    (h : GoodD env cfg.key d n b) : GoodD env cfg.key (secInstall cfg d o out) n b := by
  obtain ⟨s, hs, hv⟩ := hst
  simp only [secInstall, loadOrNew_settled d _ s hs hv]
  apply GoodD_of_pm env cfg.key _ n b (addPatch_coherent _ _ _ _ _)
  apply addPatch_good env cfg.key (PM.new d) o.number n b out o.hash o.sig h
  intro hk
  exact ⟨hsame hk, validate_new env cfg.key _ _ _ _ _ (art_addPatch_self _ _ _ _ _) hsig⟩

/-- An update keeps the last good patch unless its response rolls it back; an install of the same
    number must carry the same bytes. -/
theorem updateCore_good (base) (sc : UpdateScript) (n : Nat) (b : Bytes) (hst : Settled d cfg.version)
    (hn : ∀ r, sc.resp = some r → n ∉ r.rolledBack.getD [])
    (hsame : (updateCore env cfg base d sc).2.1 = .installed → ∀ o, sc.resp.bind (·.patch) = some o → o.number = n →
      (updateCore env cfg base d sc).1.art n = some (.file b))
    (h : GoodD env cfg.key d n b) : GoodD env cfg.key (updateCore env cfg base d sc).1 n b := by
  unfold updateCore at hsame ⊢
  simp only [] at hsame ⊢
  rw [secCopyEvents_disk cfg d hst] at hsame ⊢
  have h1 := secClearEvents_settled cfg d hst
  have s1 := secClearEvents_good env cfg d n b hst h
  cases hresp : sc.resp with
  | none => exact s1
  | some r =>
    simp only [hresp] at hsame ⊢
    have h2 := rollBackIfNeeded_settled env cfg _ r.rolledBack h1
    have s2 := rollBackIfNeeded_good env cfg _ n b r.rolledBack h1 (hn r hresp) s1
    rcases afterCheck_cases env cfg base (secClearEvents cfg d) r sc.dl with ⟨_, hd⟩ | ⟨o, stream, bb, out, hp, _, _, e1, e2, e3, _, e5, e6⟩
    · rcases hd with hd | ⟨o, _, hd⟩
      · rw [hd]; exact s2
      · rw [hd]; exact shouldInstall_good env cfg _ n b o.number h2 s2
    · rw [e6] at hsame ⊢
      have h3 := shouldInstall_settled env cfg _ o.number h2
      have s3 := shouldInstall_good env cfg _ n b o.number h2 s2
      refine secInstall_good env cfg _ n b o out h3 ?_ e5 s3
      intro hk
      have ha := hsame rfl o (by simp [hp]) hk
      rw [← hk, art_secInstall cfg _ o out h3, art_addPatch_self] at ha
      simpa using ha

end

/-! ### per-operation movement -/

/-- Every call that enters on a settled disk, other than a success report or an installing update,
    moves the selection and the last-good record as `RelD` allows. -/
theorem opDisk_rel (env : Env) (c : Config) (w : World) (op : Op) (hst : Settled w.disk c.version)
    (hns : op ≠ .success)
    (hni : ∀ chan sc, op = .update chan sc → (updateCore env c (w.base c) w.disk sc).2.1 ≠ .installed) :
    RelD w.disk (opDisk env c w op) := by
  cases op with
  | init p => exact rel_secHandlePrior env c w.disk hst
  | start => exact rel_secLaunchStart env c w.disk hst
  | success => exact absurd rfl hns
  | failure => exact rel_secLaunchFailure env c w.disk hst
  | nextN => exact rel_secNextBootPatch env c w.disk hst
  | nextP => exact rel_secNextBootPatch env c w.disk hst
  | curN => simp only [opDisk]; rw [secCurrentBootPatch_disk c w.disk hst]; exact RelD.refl _
  | check chan resp => exact rel_checkCore env c w.disk resp hst
  | update chan sc => exact rel_updateCore env c w.disk (w.base c) sc hst (hni chan sc rfl)
  | restart => exact RelD.refl _
  | auto => exact RelD.refl _
  | damage dm => exact RelD.refl _

/-- Every such call, installs included, keeps or drops the last-good record. -/
theorem opDisk_last (env : Env) (c : Config) (w : World) (op : Op) (hst : Settled w.disk c.version) (hns : op ≠ .success) :
    (loadPatchesState (opDisk env c w op)).last = (loadPatchesState w.disk).last ∨
    (loadPatchesState (opDisk env c w op)).last = none := by
  cases op with
  | update chan sc => exact last_updateCore env c w.disk (w.base c) sc hst
  | success => exact absurd rfl hns
  | init p => exact (opDisk_rel env c w _ hst (by simp) (by intro _ _ h; cases h)).1
  | start => exact (opDisk_rel env c w _ hst (by simp) (by intro _ _ h; cases h)).1
  | failure => exact (opDisk_rel env c w _ hst (by simp) (by intro _ _ h; cases h)).1
  | nextN => exact (opDisk_rel env c w _ hst (by simp) (by intro _ _ h; cases h)).1
  | nextP => exact (opDisk_rel env c w _ hst (by simp) (by intro _ _ h; cases h)).1
  | curN => exact (opDisk_rel env c w _ hst (by simp) (by intro _ _ h; cases h)).1
  | check chan resp => exact (opDisk_rel env c w _ hst (by simp) (by intro _ _ h; cases h)).1
  | restart => exact Or.inl rfl
  | auto => exact Or.inl rfl
  | damage dm => exact Or.inl rfl

theorem not_installed_of_installedBy_none (env : Env) (w : World) (chan) (sc : UpdateScript) (c : Config)
    (hc : w.config = some c) (h : installedBy (.update chan sc) (postView env w (.update chan sc)) = none) :
    (updateCore env c (w.base c) w.disk sc).2.1 ≠ .installed := by
  intro hi
  have hret : (postView env w (.update chan sc)).ret = .upd .installed := by
    simp [postView, step, update, hc, World.view, hi]
  obtain ⟨o, ho, _⟩ := updateCore_installed_next env c (w.base c) w.disk sc hi
  simp [installedBy, hret, Op.offer, Op.respOf, ho] at h

end Updater

namespace Updater

/-! ### admissible histories and the invariant -/

/-- Admissible histories: one public key per history (it is compiled into the app). -/
def Adm03 (K : Option String) (_g : G03) (op : Op) : Prop := InitKey K op

def Inv03 (env : Env) (K : Option String) (w : World) (g : G03) : Prop :=
  g.cfg = w.config ∧ (∀ c, w.config = some c → c.key = K) ∧
  (∀ n b, g.good = some (n, b) → GoodD env K w.disk n b) ∧
  (g.good = none → g.blind = false → (loadPatchesState w.disk).last = none)

theorem artChecks_ok (good good' : Option (Nat × Bytes)) (op : Op) (post : View)
    (h : ∀ n b b', good = some (n, b) → good' = some (n, b') → post.fileOf n = some b) :
    firstFail (artChecks good good' op post) = none := by
  unfold artChecks
  cases good with
  | none => rfl
  | some nb =>
    obtain ⟨n, b⟩ := nb
    cases good' with
    | none => rfl
    | some nb' =>
      obtain ⟨n', b'⟩ := nb'
      simp only
      split
      · rename_i hn; subst hn
        simp [firstFail, h n b b' rfl rfl]
      · rfl

theorem fallChecks_ok (cfg : Option Config) (blind blind' : Bool) (good' : Option (Nat × Bytes)) (op : Op) (pre post : View)
    (h : ∀ x c, pre.ps.next = some x → entersWith cfg op = some c → blind' = false → blind = false →
      installedBy op post = none → post.nextNum ≠ some x.number → firstFail (fallTarget good' x.number post) = none) :
    firstFail (fallChecks cfg blind blind' good' op pre post) = none := by
  unfold fallChecks
  cases hx : pre.ps.next with
  | none => rfl
  | some x =>
    cases he : entersWith cfg op with
    | none => rfl
    | some c =>
      simp only
      split
      · rename_i hcond
        simp only [Bool.and_eq_true, Bool.not_eq_true', decide_eq_true_eq] at hcond
        exact h x c hx he hcond.1.1.1.1 hcond.1.1.1.2 hcond.1.2 hcond.2
      · rfl

theorem fallTarget_some (n x : Nat) (b : Bytes) (post : View) (h : post.nextNum = some n) (hx : post.nextNum ≠ some x) :
    firstFail (fallTarget (some (n, b)) x post) = none := by
  unfold fallTarget
  simp only
  split
  · simp [firstFail, h]
  · rename_i hn
    have : n = x := by simpa using hn
    rw [h, this] at hx; exact absurd rfl hx

theorem fallTarget_none (x : Nat) (post : View) (h : post.nextNum = none) :
    firstFail (fallTarget none x post) = none := by
  simp [fallTarget, firstFail, h]

/-! ### facts about operations that do not load the stored state -/

theorem rolledBackBy_noenter (w : World) (op : Op) (he : entersWith w.config op = none) : rolledBackBy w.config op = [] := by
  unfold rolledBackBy
  cases hc : w.config with
  | none => rfl
  | some c =>
    cases op <;> simp [Op.respOf, entersWith, hc] at he ⊢
    case check chan resp =>
      cases resp with
      | none => rfl
      | some r =>
        simp only [entersWith, hc] at he
        split at he
        · cases he
        · rename_i hen; simp at hen; simp [hen.1]

theorem succeededBy_noenter (w : World) (op : Op) (pre : View) (he : entersWith w.config op = none) :
    succeededBy w.config op pre = none := by
  unfold succeededBy
  split
  · rfl
  · cases op <;> try rfl
    case success =>
      have : w.config = none := he
      simp [this]

theorem failedBy_noenter (w : World) (op : Op) (pre : View) (he : entersWith w.config op = none) :
    failedBy w.config op pre = none := by
  unfold failedBy
  split
  · rfl
  · cases op <;> try rfl
    case failure =>
      have : w.config = none := he
      simp [this]
    case init p => simp [he]

theorem succeededBy_ne_success (cfg : Option Config) (op : Op) (pre : View) (h : op ≠ .success) :
    succeededBy cfg op pre = none := by
  unfold succeededBy
  split
  · rfl
  · cases op <;> first | rfl | exact absurd rfl h

theorem enters_not_damage (cfg : Option Config) (op : Op) (c : Config) (he : entersWith cfg op = some c) :
    op.isDamage = false ∧ op.isStateDamage = false ∧ ∀ n, op.hitsArt n = false := by
  cases op <;> simp [entersWith] at he <;> simp [Op.isDamage, Op.isStateDamage, Op.hitsArt]

theorem clean_last (v : String) : (loadPatchesState (cleanDisk v)).last = none := by
  simp [loadPatchesState, cleanDisk, JFile.getD]

theorem clean_next (v : String) : (loadPatchesState (cleanDisk v)).next = none := by
  simp [loadPatchesState, cleanDisk, JFile.getD]

/-! ### the last good patch across one settled, non-success call -/

theorem booting_ne_of_failedBy (w : World) (op : Op) (pre : View) (n : Nat) (c : Config) (hs : ShowsDisk w pre)
    (he : entersWith w.config op = some c) (hnr : resetsState w.config op pre = false)
    (hop : (∃ p, op = .init p) ∨ op = .failure) (hf : failedBy w.config op pre ≠ some n) :
    (loadPatchesState w.disk).booting.map (·.number) ≠ some n := by
  rw [← bootingNum_of_shows hs]
  rcases hop with ⟨p, rfl⟩ | rfl
  · simpa [failedBy, hnr, he] using hf
  · have hc : w.config = some c := he
    rw [hc] at hnr
    simpa [failedBy, hc, hnr] using hf

theorem opDisk_good (env : Env) (K : Option String) (c : Config) (w : World) (op : Op) (n : Nat) (b : Bytes) (pre : View)
    (hs : ShowsDisk w pre) (he : entersWith w.config op = some c) (hck : c.key = K)
    (hst : Settled w.disk c.version) (hns : op ≠ .success)
    (hnr : resetsState w.config op pre = false) (hf : failedBy w.config op pre ≠ some n)
    (hrb : (rolledBackBy w.config op).contains n = false)
    (hsame : ∀ chan sc, op = .update chan sc → (updateCore env c (w.base c) w.disk sc).2.1 = .installed →
      ∀ o, sc.resp.bind (·.patch) = some o → o.number = n → (updateCore env c (w.base c) w.disk sc).1.art n = some (.file b))
    (h : GoodD env K w.disk n b) : GoodD env K (opDisk env c w op) n b := by
  rw [← hck] at h ⊢
  cases op with
  | restart => simp [entersWith] at he
  | auto => simp [entersWith] at he
  | damage dm => simp [entersWith] at he
  | success => exact absurd rfl hns
  | init p =>
    exact secHandlePrior_good env c w.disk n b hst h (booting_ne_of_failedBy w _ pre n c hs he hnr (Or.inl ⟨p, rfl⟩) hf)
  | start => exact secLaunchStart_good env c w.disk n b hst h
  | failure =>
    exact secLaunchFailure_good env c w.disk n b hst h (booting_ne_of_failedBy w _ pre n c hs he hnr (Or.inr rfl) hf)
  | nextN => exact secNextBootPatch_good env c w.disk n b hst h
  | nextP => exact secNextBootPatch_good env c w.disk n b hst h
  | curN => simp only [opDisk]; rw [secCurrentBootPatch_disk c w.disk hst]; exact h
  | check chan resp =>
    cases resp with
    | none => simp [entersWith] at he
    | some r =>
      have hc : w.config = some c := by
        simp only [entersWith] at he; split at he <;> first | exact he | cases he
      refine checkCore_good env c w.disk n b r hst ?_ h
      intro hmem
      have : (rolledBackBy w.config (.check chan (some r))).contains n = true := by
        simp [rolledBackBy, hc, Op.respOf, hmem]
      rw [this] at hrb; cases hrb
  | update chan sc =>
    have hc : w.config = some c := he
    refine updateCore_good env c w.disk (w.base c) sc n b hst ?_ (hsame chan sc rfl) h
    intro r hr hmem
    have : (rolledBackBy w.config (.update chan sc)).contains n = true := by
      simp [rolledBackBy, hc, Op.respOf, hr, hmem]
    rw [this] at hrb; cases hrb

/-- After a call whose response rolls back `n`, `n` is not the last good patch. -/
theorem opDisk_last_rolled (env : Env) (c : Config) (w : World) (op : Op) (n : Nat)
    (he : entersWith w.config op = some c) (hst : Settled w.disk c.version)
    (hrb : (rolledBackBy w.config op).contains n = true) :
    ∀ m, (loadPatchesState (opDisk env c w op)).last = some m → m.number ≠ n := by
  have hmem : n ∈ rolledBackBy w.config op := by simpa using hrb
  have keep : ∀ (d d' : Disk), (∀ m, (loadPatchesState d).last = some m → m.number ≠ n) →
      ((loadPatchesState d').last = (loadPatchesState d).last ∨ (loadPatchesState d').last = none) →
      ∀ m, (loadPatchesState d').last = some m → m.number ≠ n := by
    intro d d' hd hl m hm
    rcases hl with hl | hl
    · exact hd m (by rw [← hl]; exact hm)
    · rw [hl] at hm; cases hm
  cases op with
  | check chan resp =>
    cases resp with
    | none => simp [entersWith] at he
    | some r =>
      have hc : w.config = some c := by
        simp only [entersWith] at he; split at he <;> first | exact he | cases he
      simp only [rolledBackBy, hc, Op.respOf] at hmem
      cases hrl : r.rolledBack with
      | none => simp [hrl] at hmem
      | some ns =>
        simp only [hrl, Option.getD] at hmem
        simp only [opDisk, checkCore, hrl]
        have f1 := rollBackIfNeeded_last_free env c w.disk ns n hmem hst
        cases r.patch with
        | none => exact f1
        | some o =>
          exact keep _ _ f1 (rel_shouldInstall env c _ o.number (rollBackIfNeeded_settled env c w.disk (some ns) hst)).1
  | update chan sc =>
    have hc : w.config = some c := he
    simp only [rolledBackBy, hc, Op.respOf] at hmem
    cases hresp : sc.resp with
    | none => simp [hresp] at hmem
    | some r =>
      simp only [hresp] at hmem
      cases hrl : r.rolledBack with
      | none => simp [hrl] at hmem
      | some ns =>
        simp only [hrl, Option.getD] at hmem
        simp only [opDisk, updateCore, hresp]
        rw [secCopyEvents_disk c w.disk hst]
        have h1 := secClearEvents_settled c w.disk hst
        have f1 := rollBackIfNeeded_last_free env c (secClearEvents c w.disk) ns n hmem h1
        have h2 := rollBackIfNeeded_settled env c (secClearEvents c w.disk) (some ns) h1
        rcases afterCheck_cases env c (w.base c) (secClearEvents c w.disk) r sc.dl with ⟨_, hd⟩ | ⟨o, stream, bb, out, _, _, _, _, _, _, _, _, e6⟩
        · rcases hd with hd | ⟨o, _, hd⟩
          · rw [hd, hrl]; exact f1
          · rw [hd, hrl]; exact keep _ _ f1 (rel_shouldInstall env c _ o.number h2).1
        · rw [e6, hrl]
          have h3 := shouldInstall_settled env c _ o.number h2
          intro m hm
          rw [secInstall_last c _ o out h3] at hm
          exact keep _ _ f1 (rel_shouldInstall env c _ o.number h2).1 m hm
  | init p => simp [rolledBackBy, Op.respOf] at hmem
  | start => simp [rolledBackBy, Op.respOf] at hmem
  | success => simp [rolledBackBy, Op.respOf] at hmem
  | failure => simp [rolledBackBy, Op.respOf] at hmem
  | nextN => simp [rolledBackBy, Op.respOf] at hmem
  | nextP => simp [rolledBackBy, Op.respOf] at hmem
  | curN => simp [rolledBackBy, Op.respOf] at hmem
  | restart => simp [entersWith] at he
  | auto => simp [entersWith] at he
  | damage dm => simp [entersWith] at he

end Updater

namespace Updater

theorem key_step (env : Env) (K : Option String) (w : World) (op : Op)
    (hK : ∀ c, w.config = some c → c.key = K) (hop : InitKey K op) :
    ∀ c, (step env w op).1.config = some c → c.key = K := by
  intro c hc
  rw [step_config] at hc
  cases op <;> simp only [trackCfg] at hc <;> try exact hK c hc
  case restart => cases hc
  case init p =>
    cases hw : w.config with
    | some c0 => rw [hw] at hc; exact hK c (by rw [hw]; exact hc)
    | none => rw [hw] at hc; exact hop p c rfl hc

theorem noenter_pj (w : World) (op : Op) (hsd : op.isStateDamage = false) :
    (noenterDisk w op).patchesJson = w.disk.patchesJson := by
  cases op <;> try rfl
  case damage dm => exact damage_pj _ _ (by simpa [Op.isStateDamage] using hsd)

theorem noenter_art (w : World) (op : Op) (n : Nat) (hh : op.hitsArt n = false) :
    (noenterDisk w op).art n = w.disk.art n := by
  cases op <;> try rfl
  case damage dm => exact damage_art_other _ _ _ (by simpa [Op.hitsArt] using hh)

/-- What one step must establish about the next ghost state `g'`. -/
structure Step03 (env : Env) (K : Option String) (w : World) (g : G03) (op : Op) (pre : View) (g' : G03) : Prop where
  cfg : g'.cfg = trackCfg w.config op
  good : ∀ n b, g'.good = some (n, b) → GoodD env K (step env w op).1.disk n b
  nolast : g'.good = none → g'.blind = false → (loadPatchesState (step env w op).1.disk).last = none
  art : ∀ n b b', g.good = some (n, b) → g'.good = some (n, b') → (postView env w op).fileOf n = some b
  fall : ∀ x c, pre.ps.next = some x → entersWith g.cfg op = some c → g'.blind = false → g.blind = false →
    installedBy op (postView env w op) = none → (postView env w op).nextNum ≠ some x.number →
    firstFail (fallTarget g'.good x.number (postView env w op)) = none

theorem post_fileOf (env : Env) (w : World) (op : Op) (n : Nat) (b : Bytes)
    (h : (step env w op).1.disk.art n = some (.file b)) : (postView env w op).fileOf n = some b :=
  (fileOf_of_shows (showsDisk_view (step env w op).1 (step env w op).2.1 (step env w op).2.2) n b).2 h

theorem post_nextNum (env : Env) (w : World) (op : Op) :
    (postView env w op).nextNum = (loadPatchesState (step env w op).1.disk).next.map (·.number) := rfl

theorem Step03.blind (env : Env) (K : Option String) (w : World) (g : G03) (op : Op) (pre : View) :
    Step03 env K w g op pre { cfg := trackCfg w.config op, good := none, blind := true } where
  cfg := rfl
  good := by intro n b h; cases h
  nolast := by intro _ h; cases h
  art := by intro n b b' _ h; cases h
  fall := by intro x c _ _ h; cases h

theorem installedBy_noenter (env : Env) (w : World) (op : Op) (he : entersWith w.config op = none) :
    installedBy op (postView env w op) = none := by
  cases op <;> simp [installedBy]
  case update chan sc =>
    simp only [entersWith] at he
    simp [postView, step, update, he, World.view]

/-- Operations that do not load the stored state. -/
theorem step03_noenter (env : Env) (K : Option String) (w : World) (g : G03) (op : Op) (pre : View)
    (hinv : Inv03 env K w g) (he : entersWith w.config op = none) :
    Step03 env K w g op pre (G03.next env g op pre (postView env w op)) := by
  obtain ⟨hcfg, hK, hgood, hnolast⟩ := hinv
  have hd := step_disk_noenter env w op he
  have hnr : resetsState g.cfg op pre = false := by simp [resetsState, hcfg, he]
  have hsucc : succeededBy g.cfg op pre = none := by rw [hcfg]; exact succeededBy_noenter w op pre he
  have hfail : failedBy g.cfg op pre = none := by rw [hcfg]; exact failedBy_noenter w op pre he
  have hrbe : rolledBackBy g.cfg op = [] := by rw [hcfg]; exact rolledBackBy_noenter w op he
  have hre : ∀ n b, reissued op (postView env w op) n b = false := by
    intro n b; simp [reissued, installedBy_noenter env w op he]
  have nofall : ∀ (c : Config), entersWith g.cfg op = some c → False := by
    intro c hc; rw [hcfg, he] at hc; cases hc
  cases hsd : op.isStateDamage with
  | true =>
    have hg' : G03.next env g op pre (postView env w op) = { cfg := trackCfg g.cfg op, good := none, blind := true } := by
      simp [G03.next, hnr, hsucc, hsd]
    rw [hg', hcfg]
    exact Step03.blind env K w g op pre
  | false =>
    cases hg : g.good with
    | none =>
      have hg' : G03.next env g op pre (postView env w op) = { g with cfg := trackCfg g.cfg op } := by
        simp [G03.next, hnr, hsucc, hsd, hg]
      rw [hg']
      refine ⟨(by rw [hcfg]), (by intro n b h; simp [hg] at h), ?_, (by intro n b b' h; rw [hg] at h; cases h),
        (by intro x c _ hc; exact (nofall c hc).elim)⟩
      intro _ hb
      rw [hd]; unfold loadPatchesState; rw [noenter_pj w op hsd]
      exact hnolast hg hb
    | some nb =>
      obtain ⟨n, b⟩ := nb
      cases hh : op.hitsArt n with
      | true =>
        have hg' : G03.next env g op pre (postView env w op) = { cfg := trackCfg g.cfg op, good := none, blind := true } := by
          simp [G03.next, hnr, hsucc, hsd, hg, hh]
        rw [hg', hcfg]
        exact Step03.blind env K w g op pre
      | false =>
        have hg' : G03.next env g op pre (postView env w op) = { cfg := trackCfg g.cfg op, good := some (n, b), blind := g.blind } := by
          simp [G03.next, hnr, hsucc, hsd, hg, hh, hfail, hrbe, hre]
        rw [hg']
        have hG : GoodD env K (step env w op).1.disk n b := by
          rw [hd]; exact GoodD_congr env K _ _ n b (noenter_pj w op hsd) (noenter_art w op n hh) (hgood n b hg)
        refine ⟨(by rw [hcfg]), ?_, (by intro h; cases h), ?_, (by intro x c _ hc; exact (nofall c hc).elim)⟩
        · intro n' b' h; simp only [Option.some.injEq, Prod.mk.injEq] at h; obtain ⟨rfl, rfl⟩ := h; exact hG
        · intro n' b0 b' h0 h1
          rw [hg] at h0
          simp only [Option.some.injEq, Prod.mk.injEq] at h0
          obtain ⟨rfl, rfl⟩ := h0
          exact post_fileOf env w op _ _ hG.1

end Updater

namespace Updater

/-- A call that finds the stored state unreadable or of another release. -/
theorem step03_unsettled (env : Env) (K : Option String) (w : World) (g : G03) (op : Op) (pre : View) (c : Config)
    (hinv : Inv03 env K w g) (hs : ShowsDisk w pre) (he : entersWith w.config op = some c)
    (hu : ¬ Settled w.disk c.version) :
    Step03 env K w g op pre (G03.next env g op pre (postView env w op)) := by
  obtain ⟨hcfg, hK, hgood, hnolast⟩ := hinv
  have hrs : resetsState g.cfg op pre = true := by rw [hcfg]; exact resets_of_unsettled w pre hs op c he hu
  have hg' : G03.next env g op pre (postView env w op) = { cfg := trackCfg g.cfg op, good := none, blind := false } := by
    simp [G03.next, hrs]
  have hd : (step env w op).1.disk = opDisk env c { w with disk := cleanDisk c.version } op := by
    rw [step_disk_enter env w op c he, opDisk_unsettled env c w op he hu]
  rw [hg']
  refine ⟨(by rw [hcfg]), (by intro n b h; cases h), ?_, (by intro n b b' _ h; cases h), ?_⟩
  · intro _ _
    rw [hd]
    by_cases hup : ∃ chan sc, op = .update chan sc
    · obtain ⟨chan, sc, rfl⟩ := hup
      simp only [opDisk]
      rcases last_updateCore env c (cleanDisk c.version) (World.base { w with disk := cleanDisk c.version } c) sc (settled_clean c.version) with h | h
      · rw [h]; exact clean_last _
      · exact h
    · rw [opDisk_cleanDisk env c w op (by intro chan sc h; exact absurd ⟨chan, sc, h⟩ hup)]
      exact clean_last _
  · intro x c' _ _ _ _ hinst _
    apply fallTarget_none
    rw [post_nextNum, hd]
    rw [opDisk_cleanDisk env c w op ?_, clean_next]; rfl
    intro chan sc hop
    subst hop
    have hc : w.config = some c := he
    have := not_installed_of_installedBy_none env w chan sc c hc hinst
    rw [updateCore_clean env c w.disk hu] at this
    exact this

/-- A success report on a settled disk. -/
theorem step03_success (env : Env) (K : Option String) (w : World) (g : G03) (pre : View) (c : Config)
    (hinv : Inv03 env K w g) (hs : ShowsDisk w pre) (hc : w.config = some c) (hst : Settled w.disk c.version) :
    Step03 env K w g .success pre (G03.next env g .success pre (postView env w .success)) := by
  obtain ⟨hcfg, hK, hgood, hnolast⟩ := hinv
  have he : entersWith w.config .success = some c := hc
  have hnr : resetsState g.cfg .success pre = false := by rw [hcfg]; exact not_resets_of_settled w pre hs _ c he hst
  have hd : (step env w .success).1.disk = (secLaunchSuccess env c w.disk).1 := step_disk_enter env w _ c he
  have hps := ps_of_shows hs
  have hgc : g.cfg = some c := hcfg.trans hc
  have hnr' : resetsState (some c) .success pre = false := by rw [← hgc]; exact hnr
  -- a success report never moves the selection
  have hnext : ∀ x, pre.ps.next = some x → (postView env w .success).nextNum = some x.number := by
    intro x hx
    rw [post_nextNum, hd, secLaunchSuccess_next env c w.disk hst, ← hps, hx]; rfl
  have nofall : ∀ (g' : Option (Nat × Bytes)) x, pre.ps.next = some x →
      (postView env w .success).nextNum ≠ some x.number → firstFail (fallTarget g' x.number (postView env w .success)) = none := by
    intro g' x hx hne; exact absurd (hnext x hx) hne
  have hfail : failedBy g.cfg .success pre = none := by simp [failedBy, hnr]
  have hrbe : rolledBackBy g.cfg .success = [] := by unfold rolledBackBy; cases g.cfg <;> simp [Op.respOf]
  have hre : ∀ n b, reissued .success (postView env w .success) n b = false := by intro n b; simp [reissued, installedBy]
  cases hb : (loadPatchesState w.disk).booting with
  | none =>
    have hsucc : succeededBy g.cfg .success pre = none := by
      simp [succeededBy, hgc, hnr', bootingNum_of_shows hs, hb]
    have hsame : (step env w .success).1.disk = w.disk := by rw [hd, secLaunchSuccess_nobooting env c w.disk hst hb]
    cases hg : g.good with
    | none =>
      have hg' : G03.next env g .success pre (postView env w .success) = { g with cfg := trackCfg g.cfg .success } := by
        simp [G03.next, hnr, hsucc, hg, Op.isStateDamage]
      rw [hg']
      refine ⟨(by rw [hcfg]), (by intro n b h; simp [hg] at h), ?_, (by intro n b b' h; rw [hg] at h; cases h), ?_⟩
      · intro _ hbl; rw [hsame]; exact hnolast hg hbl
      · intro x c' hx _ _ _ _ hne; exact nofall _ x hx hne
    | some nb =>
      obtain ⟨n, b⟩ := nb
      have hg' : G03.next env g .success pre (postView env w .success) =
          { cfg := trackCfg g.cfg .success, good := some (n, b), blind := g.blind } := by
        simp [G03.next, hnr, hsucc, hg, Op.isStateDamage, Op.hitsArt, hfail, hrbe, hre]
      rw [hg']
      have hG : GoodD env K (step env w .success).1.disk n b := by rw [hsame]; exact hgood n b hg
      refine ⟨(by rw [hcfg]), ?_, (by intro h; cases h), ?_, ?_⟩
      · intro n' b' h; simp only [Option.some.injEq, Prod.mk.injEq] at h; obtain ⟨rfl, rfl⟩ := h; exact hG
      · intro n' b0 b' h0 h1
        rw [hg] at h0
        simp only [Option.some.injEq, Prod.mk.injEq] at h0
        obtain ⟨rfl, rfl⟩ := h0
        exact post_fileOf env w _ _ _ hG.1
      · intro x c' hx _ _ _ _ hne; exact nofall _ x hx hne
  | some bp =>
    have hsucc : succeededBy g.cfg .success pre = some bp.number := by
      simp [succeededBy, hgc, hnr', bootingNum_of_shows hs, hb]
    have hkey : g.cfg.bind (·.key) = K := by rw [hcfg, hc]; exact hK c hc
    have hshow' := showsDisk_view (step env w .success).1 (step env w .success).2.1 (step env w .success).2.2
    cases hf : (postView env w .success).fileOf bp.number with
    | none =>
      have hg' : G03.next env g .success pre (postView env w .success) = { cfg := trackCfg g.cfg .success, good := none, blind := true } := by
        simp [G03.next, hnr, hsucc, hf]
      rw [hg', hcfg]; exact Step03.blind env K w g _ pre
    | some b' =>
      have hl : (postView env w .success).ps.last = some bp := by
        rw [post_ps, hd]; exact secLaunchSuccess_last env c w.disk hst bp hb
      by_cases hcond : (postView env w .success).slotsValid env K bp.number = true
      · have hg' : G03.next env g .success pre (postView env w .success) =
            { cfg := trackCfg g.cfg .success, good := some (bp.number, b'), blind := false } := by
          simp [G03.next, hnr, hsucc, hf, hkey, hcond]
        rw [hg']
        have hG : GoodD env K (step env w .success).1.disk bp.number b' :=
          goodD_of_view env K hshow' bp.number b' bp hf hl rfl hcond
        refine ⟨(by rw [hcfg]), ?_, (by intro h; cases h), ?_, ?_⟩
        · intro n' b0 h; simp only [Option.some.injEq, Prod.mk.injEq] at h; obtain ⟨rfl, rfl⟩ := h; exact hG
        · intro n b b0 h0 h1
          simp only [Option.some.injEq, Prod.mk.injEq] at h1
          obtain ⟨rfl, _⟩ := h1
          apply post_fileOf
          rw [hd, secLaunchSuccess_art env c w.disk hst bp hb]
          exact (hgood _ b h0).1
        · intro x c' hx _ _ _ _ hne; exact nofall _ x hx hne
      · have hg' : G03.next env g .success pre (postView env w .success) = { cfg := trackCfg g.cfg .success, good := none, blind := true } := by
          simp only [G03.next, hnr, hsucc, hf, hkey]
          simp [hcond]
        rw [hg', hcfg]; exact Step03.blind env K w g _ pre

end Updater

namespace Updater

theorem failedAfter_single (w : World) (op : Op) (pre : View) (n : Nat)
    (hnr : resetsState w.config op pre = false) (hsd : op.isStateDamage = false)
    (hf : failedBy w.config op pre = some n) : failedAfter w.config [] op pre = [n] := by
  simp [failedAfter, G02.next, hnr, hsd, hf]

/-- Any other call on a settled disk. -/
theorem step03_enter (env : Env) (K : Option String) (w : World) (g : G03) (op : Op) (pre : View) (c : Config)
    (hinv : Inv03 env K w g) (hs : ShowsDisk w pre) (he : entersWith w.config op = some c)
    (hck : c.key = K) (hst : Settled w.disk c.version) (hns : op ≠ .success) :
    Step03 env K w g op pre (G03.next env g op pre (postView env w op)) := by
  obtain ⟨hcfg, hK, hgood, hnolast⟩ := hinv
  have hnr0 : resetsState w.config op pre = false := not_resets_of_settled w pre hs op c he hst
  have hnr : resetsState g.cfg op pre = false := by rw [hcfg]; exact hnr0
  have hsucc : succeededBy g.cfg op pre = none := succeededBy_ne_success _ _ _ hns
  obtain ⟨hnd, hsd, hhit⟩ := enters_not_damage w.config op c he
  have hd : (step env w op).1.disk = opDisk env c w op := step_disk_enter env w op c he
  have hps := ps_of_shows hs
  have hlast := opDisk_last env c w op hst hns
  -- when nothing was installed, the selection moved as `RelD` allows
  have hrel : installedBy op (postView env w op) = none → RelD w.disk (opDisk env c w op) := by
    intro hinst
    apply opDisk_rel env c w op hst hns
    intro chan sc hop; subst hop
    exact not_installed_of_installedBy_none env w chan sc c he hinst
  cases hg : g.good with
  | none =>
    have hg' : G03.next env g op pre (postView env w op) = { g with cfg := trackCfg g.cfg op } := by
      simp [G03.next, hnr, hsucc, hsd, hg]
    rw [hg']
    refine ⟨(by rw [hcfg]), (by intro n b h; simp [hg] at h), ?_, (by intro n b b' h; rw [hg] at h; cases h), ?_⟩
    · intro _ hbl
      rw [hd]
      rcases hlast with h | h
      · rw [h]; exact hnolast hg hbl
      · exact h
    · intro x c' hx _ _ hbl hinst hne
      simp only [hg]
      apply fallTarget_none
      rw [post_nextNum, hd]
      have hr := hrel hinst
      rcases hr.2.1 with h | h | h
      · exfalso; apply hne
        rw [post_nextNum, hd, h, ← hps, hx]; rfl
      · rw [h]; rfl
      · rw [h, hnolast hg hbl]; rfl
  | some nb =>
    obtain ⟨n, b⟩ := nb
    have hG0 := hgood n b hg
    obtain ⟨ha0, ⟨m0, hm0, hm0n⟩, _⟩ := hG0
    by_cases hre : reissued op (postView env w op) n b = true
    · -- the server re-issued the number of the last good patch with other bytes: tracking ends
      have hg' : G03.next env g op pre (postView env w op) = { cfg := trackCfg g.cfg op, good := none, blind := true } := by
        simp [G03.next, hnr, hsucc, hsd, hg, hhit n, hre]
      rw [hg', hcfg]; exact Step03.blind env K w g op pre
    have hre : reissued op (postView env w op) n b = false := by simpa using hre
    by_cases hf : failedBy g.cfg op pre = some n
    · -- the last good patch itself failed to boot
      have hg' : G03.next env g op pre (postView env w op) = { cfg := trackCfg g.cfg op, good := none, blind := g.blind } := by
        simp [G03.next, hnr, hsucc, hsd, hg, hhit n, hf, hre]
      rw [hg']
      have hban := step_ban env w op [] pre hs (BanD_nil _)
      rw [failedAfter_single w op pre n hnr0 hsd (by rw [← hcfg]; exact hf), hd] at hban
      obtain ⟨_, hbn, hbl, _⟩ := hban
      have hl : (loadPatchesState (opDisk env c w op)).last = none := by
        rcases hlast with h | h
        · exfalso
          exact hbl m0 (by rw [h]; exact hm0) (by rw [hm0n]; exact List.mem_cons_self)
        · exact h
      refine ⟨(by rw [hcfg]), (by intro n b h; cases h), (by intro _ _; rw [hd]; exact hl), (by intro n b b' _ h; cases h), ?_⟩
      intro x c' hx _ _ _ hinst hne
      apply fallTarget_none
      rw [post_nextNum, hd]
      rcases (hrel hinst).2.1 with h | h | h
      · exfalso; apply hne
        rw [post_nextNum, hd, h, ← hps, hx]; rfl
      · rw [h]; rfl
      · exfalso
        exact hbn m0 (by rw [h]; exact hm0) (by rw [hm0n]; exact List.mem_cons_self)
    · by_cases hrbn : (rolledBackBy g.cfg op).contains n = true
      · -- the last good patch was rolled back by the server
        have hg' : G03.next env g op pre (postView env w op) = { cfg := trackCfg g.cfg op, good := none, blind := g.blind } := by
          have hmem : n ∈ rolledBackBy g.cfg op := by simpa using hrbn
          simp only [G03.next, hnr, hsucc, hsd, hg, hhit n, hf, hre]
          simp [hmem]
        rw [hg']
        have hfree := opDisk_last_rolled env c w op n he hst (by rw [← hcfg]; exact hrbn)
        have hl : (loadPatchesState (opDisk env c w op)).last = none := by
          rcases hlast with h | h
          · exfalso; exact hfree m0 (by rw [h]; exact hm0) hm0n
          · exact h
        refine ⟨(by rw [hcfg]), (by intro n b h; cases h), (by intro _ _; rw [hd]; exact hl), (by intro n b b' _ h; cases h), ?_⟩
        intro x c' hx _ _ _ hinst hne
        apply fallTarget_none
        rw [post_nextNum, hd]
        rcases (hrel hinst).2.1 with h | h | h
        · exfalso; apply hne
          rw [post_nextNum, hd, h, ← hps, hx]; rfl
        · rw [h]; rfl
        · exfalso
          have hroll := step_roll env w op [] pre hs (RollD_nil _)
          have hmem : n ∈ rolledAfter w.config [] op pre (postView env w op) := by
            have hn : n ∈ rolledBackBy w.config op := by rw [← hcfg]; simpa using hrbn
            simp only [rolledAfter, G10.next, hnr0, hsd, Bool.or_self, Bool.false_eq_true, if_false, hinst, mem_foldl_insert]
            exact Or.inl hn
          have := (hroll n hmem).2
          rw [hd, h, hm0] at this
          simp [hm0n] at this
      · -- the last good patch is kept
        have hrbf : (rolledBackBy g.cfg op).contains n = false := by simpa using hrbn
        have hg' : G03.next env g op pre (postView env w op) = { cfg := trackCfg g.cfg op, good := some (n, b), blind := g.blind } := by
          have hnmem : n ∉ rolledBackBy g.cfg op := by simpa using hrbn
          simp only [G03.next, hnr, hsucc, hsd, hg, hhit n, hf, hre]
          simp [hnmem]
        rw [hg']
        have hG : GoodD env K (step env w op).1.disk n b := by
          rw [hd]
          refine opDisk_good env K c w op n b pre hs he hck hst hns hnr0 (by rw [← hcfg]; exact hf) (by rw [← hcfg]; exact hrbf)
            ?_ (hgood n b hg)
          -- a re-install of n put exactly the bytes b in place (otherwise the monitor stopped tracking)
          intro chan sc hop hi o ho hon
          subst hop
          have hc : w.config = some c := he
          have hret : (postView env w (.update chan sc)).ret = .upd .installed := by
            simp [postView, step, update, hc, World.view, hi]
          have hinst : installedBy (.update chan sc) (postView env w (.update chan sc)) = some n := by
            simp [installedBy, hret, Op.offer, Op.respOf, ho, hon]
          have hfile : (postView env w (.update chan sc)).fileOf n = some b := by
            simpa [reissued, hinst] using hre
          have := (fileOf_of_shows (showsDisk_view (step env w (.update chan sc)).1 (step env w (.update chan sc)).2.1
            (step env w (.update chan sc)).2.2) n b).1 hfile
          rw [hd] at this
          exact this
        refine ⟨(by rw [hcfg]), ?_, (by intro h; cases h), ?_, ?_⟩
        · intro n' b' h; simp only [Option.some.injEq, Prod.mk.injEq] at h; obtain ⟨rfl, rfl⟩ := h; exact hG
        · intro n' b0 b' h0 h1
          rw [hg] at h0
          simp only [Option.some.injEq, Prod.mk.injEq] at h0
          obtain ⟨rfl, rfl⟩ := h0
          exact post_fileOf env w op _ _ hG.1
        · intro x c' hx _ _ _ hinst hne
          obtain ⟨_, ⟨m1, hm1, hm1n⟩, _⟩ := hG
          rw [hd] at hm1
          have hr := hrel hinst
          -- the selection changed, so it is not empty (the fallback found the last good patch) …
          have hnn : (loadPatchesState (opDisk env c w op)).next = (loadPatchesState w.disk).last := by
            rcases hr.2.2 with h | h
            · exfalso; apply hne; rw [post_nextNum, hd, h, ← hps, hx]; rfl
            · rcases hr.2.1 with h' | h' | h'
              · exfalso; apply hne; rw [post_nextNum, hd, h', ← hps, hx]; rfl
              · have := h h'; rw [hm1] at this; cases this
              · exact h'
          -- … and the last good record was kept
          have hll : (loadPatchesState (opDisk env c w op)).last = (loadPatchesState w.disk).last := by
            rcases hr.1 with h | h
            · exact h
            · rw [hm1] at h; cases h
          apply fallTarget_some
          · rw [post_nextNum, hd, hnn, ← hll, hm1]; simp [hm1n]
          · exact hne

/-- What a query reports is the selection, and it validates (every world). -/
theorem intactChecks_ok (env : Env) (w : World) (op : Op) :
    firstFail (intactChecks env w.config op (postView env w op)) = none := by
  unfold intactChecks
  cases hc : w.config with
  | none => rfl
  | some c =>
    cases hr : reportedNext op (postView env w op) with
    | none => rfl
    | some n =>
      simp only
      have hop : (op = .nextN ∨ op = .nextP) := by
        cases op <;> simp [reportedNext] at hr <;> simp
      have hen : entersWith w.config op = some c := by rcases hop with rfl | rfl <;> simp [entersWith, hc]
      have hret : (secNextBootPatch env c w.disk).2 = some n := by
        rcases hop with rfl | rfl
        · simp only [reportedNext, postView, step, nextBootPatch, hc, World.view] at hr
          cases hx : (secNextBootPatch env c w.disk).2 with
          | none => simp [hx] at hr
          | some k => simp [hx] at hr; rw [hr.2]
        · simpa [reportedNext, postView, step, nextBootPatch, hc, World.view] using hr
      have hdisk : (step env w op).1.disk = (secNextBootPatch env c w.disk).1 := by
        rw [step_disk_enter env w op c hen]; rcases hop with rfl | rfl <;> rfl
      obtain ⟨m, hm, hmn, hv⟩ := sec_next_facts env c w.disk n hret
      have hps : (postView env w op).ps = loadPatchesState (step env w op).1.disk := rfl
      have hshow := showsDisk_view (step env w op).1 (step env w op).2.1 (step env w op).2.2
      have hval : (postView env w op).valid env c.key m = true := by
        have : (postView env w op).valid env c.key m = validate env c.key (step env w op).1.disk m := valid_of_shows env _ hshow _
        rw [this, hdisk]; exact hv
      simp [firstFail, hps, hdisk, hm, hmn, hval]

/-- **C03.** For every model history that configures one public key, the C03 monitor accepts:
    (a) from the success report of patch `n` on — every record of `n` then matching its artifact —
    the artifact of `n` keeps exactly its bytes through every later call (installs of newer and older
    numbers, re-installs of `n`, channel switches, rollbacks of other numbers, restarts, damage
    elsewhere) until a different patch boots successfully, `n` is reported failed or crashes, the
    server rolls `n` back, the release changes, or `n`'s artifact or the state files are damaged from
    outside; (b) whenever a call loses the selected patch (failure, crash, rollback, invalid
    artifact), the selection afterwards is that last good patch, and nothing if there is none. -/
theorem C03_holds (env : Env) (K : Option String) (libs : List (String × Bytes)) (ops : List Op)
    (hadm : mon03.admissible env (Adm03 K) mon03.init View.empty (viewTrace env (World.fresh libs) ops)) :
    mon03.accepts env (viewTrace env (World.fresh libs) ops) = true := by
  apply Monitor.accepts_of_inv_adm mon03 env libs (Inv03 env K) (Adm03 K) _ _ ops hadm
  · refine ⟨rfl, (by intro c hc; simp [World.fresh] at hc), (by intro n b h; simp [mon03] at h), ?_⟩
    intro _ _
    simp [World.fresh, Disk.empty, loadPatchesState, JFile.getD]
  · intro w g op pre hadm hinv hshow
    have hop : InitKey K op := hadm
    have hK' := key_step env K w op hinv.2.1 hop
    have H : Step03 env K w g op pre (G03.next env g op pre (postView env w op)) := by
      cases he : entersWith w.config op with
      | none => exact step03_noenter env K w g op pre hinv he
      | some c =>
        by_cases hst : Settled w.disk c.version
        · by_cases hsu : op = .success
          · subst hsu; exact step03_success env K w g pre c hinv hshow he hst
          · exact step03_enter env K w g op pre c hinv hshow he (entersWith_key K w op c hinv.2.1 hop he) hst hsu
        · exact step03_unsettled env K w g op pre c hinv hshow he hst
    obtain ⟨h1, h2, h3, h4, h5⟩ := H
    refine ⟨?_, ?_, hK', h2, h3⟩
    · simp only [mon03]
      rw [firstFail_append, firstFail_append]
      refine ⟨⟨artChecks_ok _ _ _ _ h4, fallChecks_ok _ _ _ _ _ _ _ h5⟩, ?_⟩
      rw [hinv.1]; exact intactChecks_ok env w op
    · simp only [mon03]; rw [h1]; exact (step_config env w op).symm

end Updater
