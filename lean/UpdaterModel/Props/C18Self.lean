/-
  C18, the part the monitor of `C18_holds` stops tracking (DESIGN.md section 11, C18-h): what happens
  to the RUNNING patch itself.

  `C18_holds` follows the running patch n through a monitor whose invariant carries the validity of
  n's records, so it ends the tracking when n is rolled back, re-issued or its artifact is damaged.
  The property text makes no such exception ("until the process ends or the launch is reported
  failed"). The theorems here need no validity: in the model, NO call of one process other than a
  launch report, and no outside damage other than a rewrite of the state files, changes the booting
  record - whatever it does to the running patch's selection, artifact or last-good record - so the
  current patch recorded and reported stays the one the launch start recorded.

  These are statements about the model's World steps; they are tied to the code by the same
  correspondence runs as `C18_holds` (field `pj` of every step is compared).
-/
import UpdaterModel.Props.C18
import UpdaterModel.Props.C02b

namespace Updater

/-- Calls and outside events during which the launch neither ends nor is reported on, the stored
    state is not discarded (release change / unreadable `state.json`) and the state files are not
    rewritten from outside. Rollbacks, re-installs and artifact damage of ANY patch, the running
    one included, are calm. -/
def Calm (w : World) (op : Op) : Prop :=
  op.isStateDamage = false ∧ resetsState w.config op (w.view .unit []) = false ∧
  op ≠ .restart ∧ op ≠ .start ∧ op ≠ .success ∧ op ≠ .failure ∧ (∀ p, op ≠ .init p)

def runOps (env : Env) (w : World) (ops : List Op) : World :=
  ops.foldl (fun w op => (step env w op).1) w

def CalmRun (env : Env) : World → List Op → Prop
  | _, [] => True
  | w, op :: ops => Calm w op ∧ CalmRun env (step env w op).1 ops

theorem calm_step_booting (env : Env) (w : World) (op : Op) (h : Calm w op) :
    (loadPatchesState (step env w op).1.disk).booting = (loadPatchesState w.disk).booting := by
  obtain ⟨hsd, hrs, hr, hst, hsu, hfa, hin⟩ := h
  apply step_keeps_booting env w op (w.view .unit []) (showsDisk_view w .unit []) hsd hrs
  intro c he
  cases op with
  | init p => exact absurd rfl (hin p)
  | restart => exact absurd rfl hr
  | start => exact absurd rfl hst
  | success => exact absurd rfl hsu
  | failure => exact absurd rfl hfa
  | nextN => exact Or.inl rfl
  | nextP => exact Or.inr (Or.inl rfl)
  | curN => exact Or.inr (Or.inr (Or.inl rfl))
  | auto => simp [entersWith] at he
  | check ch r => exact Or.inr (Or.inr (Or.inr (Or.inl ⟨ch, r, rfl⟩)))
  | update ch sc => exact Or.inr (Or.inr (Or.inr (Or.inr ⟨ch, sc, rfl⟩)))
  | damage dm => simp [entersWith] at he

theorem calm_step_config (env : Env) (w : World) (op : Op) (h : Calm w op) :
    (step env w op).1.config = w.config := by
  obtain ⟨_, _, hr, _, _, _, hin⟩ := h
  rw [step_config]
  cases op with
  | init p => exact absurd rfl (hin p)
  | restart => exact absurd rfl hr
  | _ => rfl

/-- **C18, the running patch itself (model).** Over any calm run - installs, checks, rollbacks and
    artifact damage of any patch, the running one included - the booting record, hence the current
    patch `current_boot_patch` computes, and the process configuration are unchanged. -/
theorem C18_self_run (env : Env) (w : World) (ops : List Op) (h : CalmRun env w ops) :
    (loadPatchesState (runOps env w ops).disk).booting = (loadPatchesState w.disk).booting ∧
    (runOps env w ops).config = w.config := by
  induction ops generalizing w with
  | nil => exact ⟨rfl, rfl⟩
  | cons op ops ih =>
    obtain ⟨h1, h2⟩ := h
    obtain ⟨hb, hc⟩ := ih (step env w op).1 h2
    simp only [runOps, List.foldl_cons] at hb hc ⊢
    exact ⟨hb.trans (calm_step_booting env w op h1), hc.trans (calm_step_config env w op h1)⟩

/-- … so while patch m is recorded as booting, the recorded current patch is m after the run, and a
    `current_boot_patch` call made then (release still settled) reports m. -/
theorem C18_self_reports (env : Env) (w : World) (ops : List Op) (m : Meta) (c : Config)
    (hb : (loadPatchesState w.disk).booting = some m) (hc : w.config = some c)
    (h : CalmRun env w ops) (hst : Settled (runOps env w ops).disk c.version) :
    curOf (loadPatchesState (runOps env w ops).disk) = some m.number ∧
    (postView env (runOps env w ops) .curN).ret = .num m.number := by
  obtain ⟨hb', hc'⟩ := C18_self_run env w ops h
  have hcur : curOf (loadPatchesState (runOps env w ops).disk) = some m.number := by
    unfold curOf; rw [hb', hb]
  refine ⟨hcur, ?_⟩
  rw [ret_curN env _ c (hc'.trans hc), secCurrentBootPatch_settled c _ hst, hcur]
  rfl

/-! Non-vacuity: the events `C18_holds` stops at are calm whenever the release is settled. -/

/-- A check or update whose response rolls back anything at all (the running patch included) is
    calm in a process whose release is the stored one. -/
theorem calm_check (w : World) (c : Config) (ch : Option String) (r : Option CheckResp)
    (hc : w.config = some c) (hst : Settled w.disk c.version) : Calm w (.check ch r) := by
  refine ⟨rfl, ?_, by simp, by simp, by simp, by simp, by simp⟩
  cases he : entersWith w.config (.check ch r) with
  | none => simp [resetsState, he]
  | some c' =>
    exact not_resets_of_settled w _ (showsDisk_view w .unit []) _ c' he (by
      have : c' = c := by
        cases r with
        | none => simp [entersWith] at he
        | some r =>
          simp only [entersWith, hc] at he
          split at he
          · exact (Option.some.inj he).symm
          · cases he
      rw [this]; exact hst)

theorem calm_update (w : World) (c : Config) (ch : Option String) (sc : UpdateScript)
    (hc : w.config = some c) (hst : Settled w.disk c.version) : Calm w (.update ch sc) := by
  refine ⟨rfl, ?_, by simp, by simp, by simp, by simp, by simp⟩
  have he : entersWith w.config (.update ch sc) = some c := by simp [entersWith, hc]
  exact not_resets_of_settled w _ (showsDisk_view w .unit []) _ c he hst

/-- Outside damage that is not a rewrite of the state files - deleting, truncating or replacing the
    running patch's artifact, removing `patches/` - is calm. -/
theorem calm_damage (w : World) (dm : Damage) (h : (Op.damage dm).isStateDamage = false) :
    Calm w (.damage dm) := by
  refine ⟨h, ?_, by simp, by simp, by simp, by simp, by simp⟩
  simp [resetsState, entersWith]

/-! ### the same as a monitor, run on real traces too -/

theorem calm_of_calmB (w : World) (op : Op) (pre : View) (hs : ShowsDisk w pre)
    (h : calmB w.config op pre = true) : Calm w op := by
  simp only [calmB, Bool.and_eq_true, Bool.not_eq_true'] at h
  obtain ⟨⟨h1, h2⟩, h3⟩ := h
  have hrel : (w.view .unit []).release = pre.release := by
    unfold View.release; rw [hs.1]; rfl
  refine ⟨h1, ?_, ?_, ?_, ?_, ?_, ?_⟩
  · unfold resetsState at h2 ⊢; rw [hrel]; exact h2
  all_goals (intros; intro he; subst he; simp at h3)

/-- **C18 (running patch itself).** Every model history, with no admissibility condition at all, is
    accepted by `mon18s`. -/
theorem C18_self_holds (env : Env) (libs : List (String × Bytes)) (ops : List Op) :
    mon18s.accepts env (viewTrace env (World.fresh libs) ops) = true := by
  apply Monitor.accepts_of_inv mon18s env libs (fun w g => g.cfg = w.config)
  · rfl
  · intro w g op pre hinv hshow
    refine ⟨?_, ?_⟩
    · simp only [mon18s]
      split
      · rename_i hc
        rw [hinv] at hc
        have hb := calm_step_booting env w op (calm_of_calmB w op pre hshow hc)
        have hpost : (postView env w op).ps = loadPatchesState (step env w op).1.disk := rfl
        have hpre : pre.ps = loadPatchesState w.disk := by
          unfold View.ps loadPatchesState; rw [hshow.2.1]
        rw [firstFail_none_iff]
        intro c hcm
        simp only [List.mem_singleton] at hcm
        subst hcm
        simp only [decide_eq_true_eq]
        rw [hpost, hpre]; exact hb
      · rfl
    · show trackCfg g.cfg op = (step env w op).1.config
      rw [step_config, hinv]

end Updater
