/-
  C10  A server rollback is honoured and sticks.

  After a patch check or update whose well-formed response lists patch n as rolled back, n is no
  longer the next-boot patch and its artifact is gone. This persists across restarts and later
  calls until the server offers n for installation again.
-/
import UpdaterModel.Lemmas.Roll
import UpdaterModel.Props.C02

namespace Updater

theorem mem_foldl_insert (ns acc : List Nat) (x : Nat) :
    x ∈ ns.foldl (fun acc n => if acc.contains n then acc else n :: acc) acc ↔ x ∈ ns ∨ x ∈ acc := by
  induction ns generalizing acc with
  | nil => simp
  | cons n ns ih =>
    simp only [List.foldl, ih, List.mem_cons]
    by_cases hc : acc.contains n = true
    · simp only [hc, if_true]
      have : n ∈ acc := by simpa using hc
      constructor
      · rintro (h | h); exact Or.inl (Or.inr h); exact Or.inr h
      · rintro ((rfl | h) | h); exact Or.inr this; exact Or.inl h; exact Or.inr h
    · simp only [hc]
      constructor
      · rintro (h | h)
        · exact Or.inl (Or.inr h)
        · rcases List.mem_cons.1 h with rfl | h
          · exact Or.inl (Or.inl rfl)
          · exact Or.inr h
      · rintro ((rfl | h) | h)
        · exact Or.inr (List.mem_cons_self)
        · exact Or.inl h
        · exact Or.inr (List.mem_cons_of_mem _ h)

theorem postView_art (env : Env) (w : World) (op : Op) (n : Nat) :
    (postView env w op).art n = (step env w op).1.disk.art n := by
  simp only [postView, View.art, World.view, Disk.art, Disk.artsList]
  cases (step env w op).1.disk.patches <;> rfl

/-- The ghost set of rolled-back patches after `op`, as the monitor computes it. -/
def rolledAfter (cfg : Option Config) (R : List Nat) (op : Op) (pre post : View) : List Nat :=
  (G10.next { cfg := cfg, rolled := R } op pre post).rolled

theorem damage_art_none (d : Disk) (dm : Damage) (n : Nat) (h : d.art n = none) : (d.damage dm).art n = none := by
  cases dm <;> simp only [Disk.damage] <;> try exact h
  case artDel k =>
    unfold Disk.art at h ⊢
    cases hp : d.patches with
    | none => simp [hp]
    | some p =>
      simp only [hp] at h ⊢
      cases hl : p.arts.lookup k with
      | none => simpa [hp] using h
      | some a =>
        simp only [lookup_setArt]
        by_cases hk : n = k
        · subst hk; rw [h] at hl; cases hl
        · simpa [hk] using h
  case artSet k b =>
    unfold Disk.art at h ⊢
    cases hp : d.patches with
    | none => simp [hp]
    | some p =>
      simp only [hp] at h ⊢
      cases hl : p.arts.lookup k with
      | none => simpa [hp] using h
      | some a =>
        simp only [lookup_setArt]
        by_cases hk : n = k
        · subst hk; rw [h] at hl; cases hl
        · simpa [hk] using h
  case dirDel k => rw [art_deleteArtifacts]; split <;> simp [h]
  case pdirDel => simp [Disk.art]
  case junk name =>
    unfold Disk.art at h ⊢
    cases hp : d.patches with
    | none => simp [hp]
    | some p => simpa [hp] using h

theorem installedBy_none_of_ne (env : Env) (w : World) (op : Op) (h : ∀ c sc, op ≠ .update c sc) :
    installedBy op (postView env w op) = none := by
  cases op <;> simp [installedBy] <;> exact absurd rfl (h _ _)

/-- The disk after every operation satisfies the rollback invariant for the monitor's updated set. -/
theorem step_roll (env : Env) (w : World) (op : Op) (R : List Nat) (pre : View)
    (hs : ShowsDisk w pre) (hr : RollD w.disk R) :
    RollD (step env w op).1.disk (rolledAfter w.config R op pre (postView env w op)) := by
  cases he : entersWith w.config op with
  | none =>
    rw [step_disk_noenter env w op he]
    have hnr : resetsState w.config op pre = false := by simp [resetsState, he]
    have hrb : rolledBackBy w.config op = [] := by
      unfold rolledBackBy
      cases hc : w.config with
      | none => rfl
      | some c =>
        cases op <;> simp [Op.respOf, entersWith, hc] at he ⊢
        case check chan resp =>
          cases resp with
          | none => rfl
          | some r =>
            simp only [entersWith, hc] at he
            split at he
            · cases he
            · rename_i hen; simp at hen; simp [hen.1]
    have hinst : installedBy op (postView env w op) = none := by
      cases op <;> simp [installedBy]
      case update chan sc =>
        simp only [entersWith] at he
        simp [postView, step, update, he, World.view]
    have hra : rolledAfter w.config R op pre (postView env w op) = if op.isStateDamage then [] else R := by
      simp [rolledAfter, G10.next, hnr, hrb, hinst]
      split <;> rfl
    rw [hra]
    cases hsd : op.isStateDamage with
    | true => exact RollD_nil _
    | false =>
      simp only [Bool.false_eq_true, if_false]
      cases op <;> try exact hr
      case damage dm =>
        have hsf : dm.isStateFile = false := by simpa [Op.isStateDamage] using hsd
        intro n hn
        simp only [noenterDisk]
        refine ⟨damage_art_none _ _ _ (hr n hn).1, ?_⟩
        unfold loadPatchesState; rw [damage_pj _ _ hsf]; exact (hr n hn).2
  | some c =>
    rw [step_disk_enter env w op c he]
    by_cases hst : Settled w.disk c.version
    · have hnr := not_resets_of_settled w pre hs op c he hst
      have hnr' : ∀ c', w.config = some c' → resetsState (some c') op pre = false := by
        intro c' hc'; rw [← hc']; exact hnr
      -- ops that carry no response: the set is unchanged
      have plain : ∀ (f : Disk), rolledBackBy w.config op = [] → installedBy op (postView env w op) = none →
          op.isStateDamage = false → RollD f R → RollD f (rolledAfter w.config R op pre (postView env w op)) := by
        intro f h1 h2 h3 h4
        have : rolledAfter w.config R op pre (postView env w op) = R := by
          simp [rolledAfter, G10.next, hnr, h1, h2, h3]
        rw [this]; exact h4
      cases op with
      | restart => simp [entersWith] at he
      | auto => simp [entersWith] at he
      | damage dm => simp [entersWith] at he
      | init p =>
        exact plain _ (by unfold rolledBackBy; cases w.config <;> simp [Op.respOf]) (by simp [installedBy]) rfl
          (secHandlePrior_roll env c w.disk R hst hr)
      | start =>
        exact plain _ (by unfold rolledBackBy; cases w.config <;> simp [Op.respOf]) (by simp [installedBy]) rfl
          (secLaunchStart_roll env c w.disk R hst hr)
      | success =>
        exact plain _ (by unfold rolledBackBy; cases w.config <;> simp [Op.respOf]) (by simp [installedBy]) rfl
          (secLaunchSuccess_roll env c w.disk R hst hr)
      | failure =>
        exact plain _ (by unfold rolledBackBy; cases w.config <;> simp [Op.respOf]) (by simp [installedBy]) rfl
          (secLaunchFailure_roll env c w.disk R hst hr)
      | nextN =>
        exact plain _ (by unfold rolledBackBy; cases w.config <;> simp [Op.respOf]) (by simp [installedBy]) rfl
          (secNextBootPatch_roll env c w.disk R hst hr)
      | nextP =>
        exact plain _ (by unfold rolledBackBy; cases w.config <;> simp [Op.respOf]) (by simp [installedBy]) rfl
          (secNextBootPatch_roll env c w.disk R hst hr)
      | curN =>
        refine plain _ (by unfold rolledBackBy; cases w.config <;> simp [Op.respOf]) (by simp [installedBy]) rfl ?_
        simp only [opDisk]; rw [secCurrentBootPatch_disk c w.disk hst]; exact hr
      | check chan resp =>
        have hc : w.config = some c := by
          cases resp with
          | none => simp [entersWith] at he
          | some r => simp only [entersWith] at he; split at he <;> first | exact he | cases he
        cases resp with
        | none => simp [entersWith] at he
        | some r =>
          have hra : ∀ x, x ∈ rolledAfter w.config R (.check chan (some r)) pre (postView env w (.check chan (some r))) →
              x ∈ r.rolledBack.getD [] ++ R := by
            intro x hx
            simp only [rolledAfter, G10.next, hc, hnr' c hc, Op.isStateDamage, Bool.or_self, Bool.false_eq_true, if_false,
              installedBy, rolledBackBy, Op.respOf, mem_foldl_insert] at hx
            simpa using hx
          exact RollD_mono hra (checkCore_roll env c w.disk R r hst hr)
      | update chan sc =>
        have hc : w.config = some c := by simpa [entersWith] using he
        simp only [opDisk, updateCore]
        rw [secCopyEvents_disk c w.disk hst]
        have h1 := secClearEvents_settled c w.disk hst
        have r1 := secClearEvents_roll c w.disk R hst hr
        cases hresp : sc.resp with
        | none =>
          refine plain _ (by unfold rolledBackBy; cases w.config <;> simp [Op.respOf, hresp]) ?_ rfl r1
          simp [installedBy, postView, step, update, hc, updateCore, hresp, World.view]
        | some r =>
          simp only
          have h2 := rollBackIfNeeded_settled env c _ r.rolledBack h1
          have r2 := rollBackIfNeeded_roll env c _ R r.rolledBack h1 r1
          have hret : (postView env w (.update chan sc)).ret =
              .upd (afterCheck env c (w.base c) (secClearEvents c w.disk) r sc.dl).2.1 := by
            simp [postView, step, update, hc, updateCore, hresp, World.view, secCopyEvents_disk c w.disk hst]
          rcases afterCheck_cases env c (w.base c) (secClearEvents c w.disk) r sc.dl with
            ⟨hni, hd⟩ | ⟨o, stream, b, out, hp, hav, hok, e1, e2, e3, e4, e5, e6⟩
          · have hinst : installedBy (.update chan sc) (postView env w (.update chan sc)) = none := by
              simp only [installedBy, hret]
              cases hout : (afterCheck env c (w.base c) (secClearEvents c w.disk) r sc.dl).2.1 <;> simp_all
            have hra : ∀ x, x ∈ rolledAfter w.config R (.update chan sc) pre (postView env w (.update chan sc)) →
                x ∈ r.rolledBack.getD [] ++ R := by
              intro x hx
              simp only [rolledAfter, G10.next, hc, hnr' c hc, Op.isStateDamage, Bool.or_self, Bool.false_eq_true, if_false,
                hinst, rolledBackBy, Op.respOf, hresp, mem_foldl_insert] at hx
              simpa using hx
            rcases hd with hd | ⟨o, hp, hd⟩
            · rw [hd]; exact RollD_mono hra r2
            · rw [hd]; exact RollD_mono hra (shouldInstall_roll env c _ _ o.number h2 r2)
          · have hinst : installedBy (.update chan sc) (postView env w (.update chan sc)) = some o.number := by
              simp [installedBy, hret, e6, Op.offer, Op.respOf, hresp, hp]
            have hra : ∀ x, x ∈ rolledAfter w.config R (.update chan sc) pre (postView env w (.update chan sc)) →
                x ∈ (r.rolledBack.getD [] ++ R).filter (· ≠ o.number) := by
              intro x hx
              simp only [rolledAfter, G10.next, hc, hnr' c hc, Op.isStateDamage, Bool.or_self, Bool.false_eq_true, if_false,
                hinst, rolledBackBy, Op.respOf, hresp, List.mem_filter, mem_foldl_insert] at hx
              simp only [List.mem_filter, List.mem_append]
              exact ⟨by simpa using hx.1, hx.2⟩
            rw [e6]
            exact RollD_mono hra (secInstall_roll c _ _ o out (shouldInstall_settled env c _ o.number h2)
              (shouldInstall_roll env c _ _ o.number h2 r2))
    · have hrs := resets_of_unsettled w pre hs op c he hst
      have : rolledAfter w.config R op pre (postView env w op) = [] := by
        simp only [rolledAfter, G10.next, hrs, Bool.true_or, if_true]
      rw [this]; exact RollD_nil _

/-- **C10.** Every model history is accepted by the C10 monitor: a number listed as rolled back by a
    well-formed check or update response has no artifact and is not the next-boot patch after that
    call and after every later call (restarts included), until an update installs it again, the
    release changes, or the state files are damaged from outside. -/
theorem C10_holds (env : Env) (libs : List (String × Bytes)) (ops : List Op) :
    mon10.accepts env (viewTrace env (World.fresh libs) ops) = true := by
  apply Monitor.accepts_of_inv mon10 env libs (fun w g => g.cfg = w.config ∧ RollD w.disk g.rolled)
  · exact ⟨rfl, RollD_nil _⟩
  · intro w g op pre hinv hshow
    obtain ⟨hcfg, hroll⟩ := hinv
    have hgn : G10.next g op pre (postView env w op) =
        { cfg := trackCfg w.config op, rolled := rolledAfter w.config g.rolled op pre (postView env w op) } := by
      simp only [rolledAfter, G10.next, hcfg]
      split <;> rfl
    have hpost := step_roll env w op g.rolled pre hshow hroll
    refine ⟨?_, ?_⟩
    · simp only [mon10, hgn]
      rw [firstFail_none_iff]
      intro c hc
      simp only [List.mem_flatMap, List.mem_cons, List.mem_nil_iff, or_false] at hc
      obtain ⟨n, hn, hc⟩ := hc
      have h := hpost n hn
      rcases hc with rfl | rfl
      · simp only [decide_eq_true_eq]
        exact h.2
      · simp only [decide_eq_true_eq]
        rw [postView_art]; exact h.1
    · simp only [mon10, hgn]
      exact ⟨(step_config env w op).symm, hpost⟩

end Updater
