/-
  C15  The C ABI seen by the engine and the Dart bindings matches the library.

  The tables in `Gen/Abi.lean` are REGENERATED from /repo on every run (tools/extract_abi.py):
  a change to a signature, a struct field, a constant or the order of `enum UpdateStatus` changes
  the statement that `decide` has to re-establish here.
-/
import UpdaterModel.Gen.Abi

namespace Updater
open Updater.Abi Updater.Gen

/-! ### status codes -/

/-- `enum UpdateStatus` is declared in the documented order, so `status as i32` yields
    no update 0, installed 1, had error 2, bad patch 3. -/
theorem status_discriminants : statusVariants = documentedVariants ∧ statusIsCast = true := by decide

/-- Errors are reported through the constant whose value is -1. -/
theorem error_code : rustConsts.lookup errorConst = some (-1) := by decide

/-- The five constants have their documented values in the Rust source, in the generated header
    and in the Dart bindings. -/
theorem status_constants :
    (∀ c ∈ documentedCodes, c ∈ rustConsts) ∧ (∀ c ∈ rustConsts, c ∈ documentedCodes) ∧
    (∀ c ∈ documentedCodes, c ∈ headerConsts) ∧ (∀ c ∈ headerConsts, c ∈ documentedCodes) ∧
    (∀ c ∈ documentedCodes, c ∈ dartConsts) := by decide

/-! ### symbols and signatures -/

/-- Header and Rust export exactly the same functions with ABI-equal signatures. -/
theorem header_agrees_with_rust :
    (∀ f ∈ rustFns, f ∈ headerFns) ∧ (∀ f ∈ headerFns, f ∈ rustFns) := by decide

/-- Every symbol the Dart bindings look up exists in the library with an ABI-equal signature
    (`usize↔uintptr_t↔UintPtr`, `*const c_char↔const char*↔Pointer<Char>`, `i32↔int32_t↔Int32`,
    `c_int↔int↔Int`, `bool`, struct by value). -/
theorem dart_agrees_with_rust : ∀ f ∈ dartFns, f ∈ rustFns := by decide

/-- No symbol is exported twice. -/
theorem exported_names_distinct : (rustFns.map (·.name)).Nodup := by decide

/-! ### struct layouts -/

/-- The three C-visible structs have the same field lists (names, order, types) in the header and
    in the Dart bindings as in Rust. -/
theorem structs_agree :
    (∀ s ∈ rustStructs, s ∈ headerStructs) ∧ (∀ s ∈ headerStructs, s ∈ rustStructs) ∧
    (∀ s ∈ dartStructs, s ∈ rustStructs) ∧ dartStructs.length = rustStructs.length := by decide

/-- Hence equal layouts under the model's `repr(C)` layout function … -/
theorem layouts_agree (a b : Struct) (h : a.fields = b.fields) : layout a = layout b := layout_congr a b h

/-- … and every one of them has a layout at all (no by-value struct field, no void). -/
theorem layouts_defined : ∀ s ∈ rustStructs, (layout s).isSome = true := by decide

/-- `UpdateResult { status: i32, message: *const c_char }`: offsets 0 and 8, size 16, align 8. -/
theorem update_result_layout :
    ∀ s ∈ rustStructs, s.fields.length = 2 → layout s = some ([0, 8], 16, 8) := by decide

/-! ### ownership of returned memory -/

/-- NULL is accepted by both free functions and frees nothing. -/
theorem free_null (h : Heap) : (h.step (.freeString none)).1 = h ∧ (h.step (.freeResult none)).1 = h := ⟨rfl, rfl⟩

theorem lookup_filter_ne (l : List (Nat × Block)) (p : Nat) : (l.filter (fun e => decide (e.1 ≠ p))).lookup p = none := by
  induction l with
  | nil => rfl
  | cons e l ih =>
    by_cases hp : e.1 = p
    · have : decide (e.1 ≠ p) = false := by simp [hp]
      rw [List.filter_cons, this]; exact ih
    · have h1 : decide (e.1 ≠ p) = true := by simp [hp]
      have h2 : (p == e.1) = false := by simp; exact fun h => hp h.symm
      rw [List.filter_cons, h1]; simp only [if_true]; rw [List.lookup_cons, h2]; exact ih

/-- A returned string released with `shorebird_free_string` leaves the heap as it was before the
    string was handed out. -/
theorem path_roundtrip (h : Heap) (hf : ∀ e ∈ h.live, e.1 < h.next) :
    ((h.step (.getPath true)).1.step (.freeString (h.step (.getPath true)).2)).1.live = h.live ∧
    ((h.step (.getPath true)).1.step (.freeString (h.step (.getPath true)).2)).1.invalidFree = h.invalidFree := by
  simp only [Heap.step, Heap.alloc, Heap.free, List.lookup_cons, beq_self_eq_true, if_true]
  simp only [List.filter_cons, ne_eq, not_true_eq_false, decide_false, Bool.false_eq_true, if_false, and_true]
  rw [List.filter_eq_self]
  intro e he
  have := hf e he
  simp; omega

/-- A result released with `shorebird_free_update_result` releases the box AND its message,
    each exactly once. -/
theorem result_roundtrip (h : Heap) (hf : ∀ e ∈ h.live, e.1 < h.next) (msgOk : Bool) :
    ((h.step (.getResult msgOk)).1.step (.freeResult (h.step (.getResult msgOk)).2)).1.live = h.live ∧
    ((h.step (.getResult msgOk)).1.step (.freeResult (h.step (.getResult msgOk)).2)).1.invalidFree = h.invalidFree := by
  have hne : ∀ (a : Nat) (b : Block), (a, b) ∈ h.live → ¬ a = h.next + 1 ∧ ¬ a = h.next := by
    intro a b hab; have := hf (a, b) hab; simp at this; omega
  cases msgOk with
  | true =>
    simp only [Heap.step, Heap.alloc, Heap.free, if_true, List.lookup_cons, beq_self_eq_true]
    have h1 : (h.next == h.next + 1) = false := by simp
    simp [h1]
    exact hne
  | false =>
    simp only [Heap.step, Heap.alloc, Heap.free, List.lookup_cons, beq_self_eq_true, Bool.false_eq_true, if_false]
    simp
    exact fun a b hab => (hne a b hab).2

/-- Releasing the same string twice is an invalid free (and is flagged). -/
theorem double_free_flagged (h : Heap) (p : Nat) (hl : h.live.lookup p = some .str) :
    ((h.step (.freeString (some p))).1.step (.freeString (some p))).1.invalidFree = true := by
  simp only [Heap.step, Heap.free, hl, if_true, lookup_filter_ne]

end Updater
