/-
  C13  No call panics, whatever the inputs, stored state or call order.

  What a total functional model can carry of this property:
    * `step` is a total function on ALL worlds, operations and oracle answers (any yaml class,
      any response, any bytes, any disk contents, any call order): every modelled path returns a
      value; the Rust panic sites that exist are enumerated by the translator (Gen/PanicSites.lean)
      and shown unreachable there;
    * use before initialisation returns the documented defaults and touches nothing (below);
    * a failing call leaves the process usable: the configuration is never lost (`step_config`).
-/
import UpdaterModel.Lemmas.Steps
import UpdaterModel.Model.Panic
import UpdaterModel.Gen.Consts

namespace Updater

/-- Without a configuration every exported call returns its documented default, performs no
    network request and leaves the disk untouched — for every world, every op. -/
theorem uninit_defaults (env : Env) (w : World) (op : Op) (hc : w.config = none)
    (hop : ∀ p, op = .init p → mkConfig p = none) (hd : ∀ dm, op ≠ .damage dm) :
    (step env w op).1.disk = w.disk ∧ (step env w op).2.2 = [] ∧
    (step env w op).2.1 = (match op with
      | .nextN | .curN => .num 0
      | .nextP => .path none
      | .check _ _ => .bool false
      | .update _ _ => .upd .errNotInit
      | .auto => .bool true
      | .init _ => .bool false
      | _ => .unit) := by
  cases op with
  | init p => simp [step, init_ineffective env w p (hop p rfl)]
  | damage dm => exact absurd rfl (hd dm)
  | restart => simp [step, restart]
  | start => simp [step, launchStart, hc]
  | success => simp [step, launchSuccess, hc]
  | failure => simp [step, launchFailure, hc]
  | nextN => simp [step, nextBootPatch, hc]
  | nextP => simp [step, nextBootPatch, hc]
  | curN => simp [step, currentBootPatch, hc]
  | auto => simp [step, shouldAutoUpdate, hc]
  | check chan resp => simp [step, check, hc]
  | update chan sc => simp [step, update, hc]

/-- Every model history is accepted by the C13 monitor (defaults before initialisation, after a
    restart, and for an `init` whose parameters are rejected). -/
theorem C13_holds (env : Env) (libs : List (String × Bytes)) (ops : List Op) :
    mon13.accepts env (viewTrace env (World.fresh libs) ops) = true := by
  apply Monitor.accepts_of_inv mon13 env libs (fun w g => g.cfg = w.config)
  · rfl
  · intro w g op pre hinv hshow
    refine ⟨?_, by simp only [mon13]; rw [step_config, hinv]⟩
    simp only [mon13, hinv]
    cases htc : trackCfg w.config op with
    | some c => rfl
    | none =>
      cases op with
      | damage dm => rfl
      | restart =>
        obtain ⟨h1, h2, h3, h4, h5⟩ := hshow
        simp [postView, step, restart, World.view, firstFail, h1, h2, h3, h4]
      | init p =>
        have hc : w.config = none := by
          cases hcc : w.config with
          | none => rfl
          | some c => simp [trackCfg, hcc] at htc
        obtain ⟨h1, h2, h3, h4, h5⟩ := hshow
        have hm : mkConfig p = none := by simpa [trackCfg, hc] using htc
        simp [postView, step, init_ineffective env w p hm, World.view, firstFail, h1, h2, h3, h4]
      | start =>
        have hc : w.config = none := by
          cases hcc : w.config with
          | none => rfl
          | some c => simp [trackCfg, hcc] at htc
        obtain ⟨h1, h2, h3, h4, h5⟩ := hshow
        simp [postView, step, launchStart, launchSuccess, launchFailure, nextBootPatch, currentBootPatch,
          shouldAutoUpdate, check, update, hc, World.view, firstFail, h1, h2, h3, h4]
      | success =>
        have hc : w.config = none := by
          cases hcc : w.config with
          | none => rfl
          | some c => simp [trackCfg, hcc] at htc
        obtain ⟨h1, h2, h3, h4, h5⟩ := hshow
        simp [postView, step, launchStart, launchSuccess, launchFailure, nextBootPatch, currentBootPatch,
          shouldAutoUpdate, check, update, hc, World.view, firstFail, h1, h2, h3, h4]
      | failure =>
        have hc : w.config = none := by
          cases hcc : w.config with
          | none => rfl
          | some c => simp [trackCfg, hcc] at htc
        obtain ⟨h1, h2, h3, h4, h5⟩ := hshow
        simp [postView, step, launchStart, launchSuccess, launchFailure, nextBootPatch, currentBootPatch,
          shouldAutoUpdate, check, update, hc, World.view, firstFail, h1, h2, h3, h4]
      | nextN =>
        have hc : w.config = none := by
          cases hcc : w.config with
          | none => rfl
          | some c => simp [trackCfg, hcc] at htc
        obtain ⟨h1, h2, h3, h4, h5⟩ := hshow
        simp [postView, step, launchStart, launchSuccess, launchFailure, nextBootPatch, currentBootPatch,
          shouldAutoUpdate, check, update, hc, World.view, firstFail, h1, h2, h3, h4]
      | nextP =>
        have hc : w.config = none := by
          cases hcc : w.config with
          | none => rfl
          | some c => simp [trackCfg, hcc] at htc
        obtain ⟨h1, h2, h3, h4, h5⟩ := hshow
        simp [postView, step, launchStart, launchSuccess, launchFailure, nextBootPatch, currentBootPatch,
          shouldAutoUpdate, check, update, hc, World.view, firstFail, h1, h2, h3, h4]
      | curN =>
        have hc : w.config = none := by
          cases hcc : w.config with
          | none => rfl
          | some c => simp [trackCfg, hcc] at htc
        obtain ⟨h1, h2, h3, h4, h5⟩ := hshow
        simp [postView, step, launchStart, launchSuccess, launchFailure, nextBootPatch, currentBootPatch,
          shouldAutoUpdate, check, update, hc, World.view, firstFail, h1, h2, h3, h4]
      | auto =>
        have hc : w.config = none := by
          cases hcc : w.config with
          | none => rfl
          | some c => simp [trackCfg, hcc] at htc
        obtain ⟨h1, h2, h3, h4, h5⟩ := hshow
        simp [postView, step, launchStart, launchSuccess, launchFailure, nextBootPatch, currentBootPatch,
          shouldAutoUpdate, check, update, hc, World.view, firstFail, h1, h2, h3, h4]
      | check chan resp =>
        have hc : w.config = none := by
          cases hcc : w.config with
          | none => rfl
          | some c => simp [trackCfg, hcc] at htc
        obtain ⟨h1, h2, h3, h4, h5⟩ := hshow
        simp [postView, step, launchStart, launchSuccess, launchFailure, nextBootPatch, currentBootPatch,
          shouldAutoUpdate, check, update, hc, World.view, firstFail, h1, h2, h3, h4]
      | update chan sc =>
        have hc : w.config = none := by
          cases hcc : w.config with
          | none => rfl
          | some c => simp [trackCfg, hcc] at htc
        obtain ⟨h1, h2, h3, h4, h5⟩ := hshow
        simp [postView, step, launchStart, launchSuccess, launchFailure, nextBootPatch, currentBootPatch,
          shouldAutoUpdate, check, update, hc, World.view, firstFail, h1, h2, h3, h4]


/-! ### the panicking semantics -/

/-- The translator's table of panicking expressions is exactly the table the model covers: a new
    `unwrap` / `expect` / `panic!` / index / division in the production code, or a change of the guard
    around a known one, is a new proof obligation. -/
theorem sites_covered : Gen.panicSites = knownSites := rfl

/-- `channel.unwrap()` is guarded by `channel.is_some()`. -/
theorem applyChannel_ok (cfg : Config) (chan : Option String) : applyChannel cfg chan = .ok (withChannel cfg chan) := by
  cases chan <;> rfl

theorem joinPath_utf8 (p : ByteArray) (c : String) (h : p.IsValidUTF8) : (joinPath p c).IsValidUTF8 :=
  (h.append "/".isValidUTF8).append c.isValidUTF8

/-- The artifact path is valid UTF-8 for every storage directory (a `String`) and patch number. -/
theorem artifactPath_utf8 (storage : String) (n : Nat) : (artifactPath storage n).IsValidUTF8 :=
  joinPath_utf8 _ _ (joinPath_utf8 _ _ (joinPath_utf8 _ _ storage.isValidUTF8))

/-- `v.to_str().unwrap()` in `path_to_c_string` never panics on an artifact path. -/
theorem pathToCString_ok (storage : String) (n : Nat) :
    ∃ s, pathToCString (some (artifactPath storage n)) = .ok (some s) := by
  unfold pathToCString
  simp only [String.fromUTF8?, artifactPath_utf8 storage n, dite_true]
  exact ⟨_, rfl⟩

/-- **No panic, one call.** With unpoisoned mutexes, every exported call — any operation, any
    arguments, any stored state, any oracle answers, before or after initialisation — returns what
    the panic-free model returns, and leaves the mutexes unpoisoned. -/
theorem stepP_ok (env : Env) (w : World) (op : Op) :
    stepP env {} w op = (.ok (step env w op), {}) := by
  unfold stepP
  have hl : acquireConfig {} op = .ok () := by
    unfold acquireConfig; cases op.locksConfig <;> rfl
  rw [hl]
  simp only
  cases op with
  | update chan sc =>
    simp only
    cases hc : w.config with
    | none => rfl
    | some cfg => simp only [lockUpdater, applyChannel_ok]; rfl
  | nextP =>
    simp only
    cases hc : w.config with
    | none => rfl
    | some cfg =>
      cases hr : (step env w .nextP).2.1 with
      | path p =>
        cases p with
        | none => rfl
        | some n =>
          obtain ⟨s, hs⟩ := pathToCString_ok cfg.storage n
          simp only [hs]
      | unit => rfl
      | bool b => rfl
      | num n => rfl
      | upd o => rfl
  | init p => rfl
  | restart => rfl
  | start => rfl
  | success => rfl
  | failure => rfl
  | nextN => rfl
  | curN => rfl
  | auto => rfl
  | check chan resp => rfl
  | damage dm => rfl

/-- **No panic, any history**, and a failing call never makes later calls unusable: the mutexes are
    never poisoned, for arbitrary call orders and arbitrary inputs at every step. -/
theorem never_panics (env : Env) (w : World) (ops : List Op) : runP env {} w ops = none := by
  induction ops generalizing w with
  | nil => rfl
  | cons op ops ih =>
    simp only [runP, stepP_ok]
    exact ih _

/-! ### the path components are the ones in the sources (regenerated from /repo on every run) -/

theorem artifactPath_consts (storage : String) (n : Nat) :
    artifactPath storage n =
      joinPath (joinPath (joinPath storage.toByteArray Gen.patchesDirName) (toString n)) Gen.artifactFileName := rfl

end Updater
