/-
  C17, "that attempt sends at most three queued events": why the limit is never reached through calls.

  Between two update attempts (each empties the queue) a boot failure can only be recorded for a patch
  that sits in one of the three slots, and recording it removes that number from all of them; nothing
  but an install — part of an update attempt — puts a new number into a slot. So
      (number of queued events) + (size of any list covering the slot numbers) ≤ 3
  is an invariant of every history that does not rewrite the state files from outside
  (`queue_bound`). The "at most three, oldest first" clause therefore constrains nothing on reachable
  states: the theorem `C17_holds` covers it for every state anyway, and the correspondence campaign
  needs a hand-merged `state.json` (damage `sj-stale k m`, profile `events`) to exercise it.
-/
import UpdaterModel.Props.C17
import UpdaterModel.Props.C04Ban

namespace Updater

def eventsOf (d : Disk) : List Event :=
  match d.stateJson with
  | .ok s => s.events
  | _ => []

/-- `L` lists (at least) every patch number recorded in a slot. -/
def Covers (d : Disk) (L : List Nat) : Prop := ∀ m, InSlot (loadPatchesState d) m → m.number ∈ L

def QInv (d : Disk) : Prop := ∃ L, Covers d L ∧ (eventsOf d).length + L.length ≤ 3

def slotList (ps : PatchesState) : List Nat :=
  (ps.next.toList ++ ps.last.toList ++ ps.booting.toList).map (·.number)

theorem slotList_length (ps : PatchesState) : (slotList ps).length ≤ 3 := by
  unfold slotList
  cases ps.next <;> cases ps.last <;> cases ps.booting <;> simp

theorem covers_slotList (d : Disk) : Covers d (slotList (loadPatchesState d)) := by
  intro m hm
  unfold slotList
  simp only [List.mem_map, List.mem_append, Option.mem_toList]
  rcases hm with h | h | h
  · exact ⟨m, Or.inl (Or.inl h), rfl⟩
  · exact ⟨m, Or.inl (Or.inr h), rfl⟩
  · exact ⟨m, Or.inr h, rfl⟩

/-- With an empty queue the invariant holds whatever the slots hold. -/
theorem QInv_of_noevents (d : Disk) (h : eventsOf d = []) : QInv d :=
  ⟨slotList (loadPatchesState d), covers_slotList d, by rw [h]; simpa using slotList_length _⟩

/-- Fewer records, same queue. -/
theorem QInv_of_sub {d d' : Disk} (hs : SlotsSubD d' d) (he : eventsOf d' = eventsOf d) (h : QInv d) : QInv d' := by
  obtain ⟨L, hc, hl⟩ := h
  exact ⟨L, fun m hm => hc m (hs m hm), by rw [he]; exact hl⟩

/-- One more event, and the number it is about is gone from every slot. -/
theorem QInv_of_failure {d d' : Disk} (n : Nat) (e : Event) (hs : SlotsSubD d' d)
    (hfree : ∀ m, InSlot (loadPatchesState d') m → m.number ≠ n)
    (hin : ∃ m, InSlot (loadPatchesState d) m ∧ m.number = n)
    (he : eventsOf d' = eventsOf d ++ [e]) (h : QInv d) : QInv d' := by
  obtain ⟨L, hc, hl⟩ := h
  obtain ⟨m0, hm0, hn0⟩ := hin
  have hmem : n ∈ L := by rw [← hn0]; exact hc m0 hm0
  refine ⟨L.erase n, ?_, ?_⟩
  · intro m hm
    exact (List.mem_erase_of_ne (hfree m hm)).2 (hc m (hs m hm))
  · rw [he, List.length_append, List.length_erase_of_mem hmem]
    have : 0 < L.length := List.length_pos_of_mem hmem
    simp only [List.length_cons, List.length_nil]
    omega

/-! ### every section of a readable state keeps it -/

theorem eventsOf_of_sj {d' : Disk} {s' : SState} (h : d'.stateJson = .ok s') : eventsOf d' = s'.events := by
  simp [eventsOf, h]

section
variable (env : Env) (cfg : Config) (d : Disk) (s : SState) (hs : d.stateJson = .ok s) (hv : s.version = cfg.version)
  (hq : QInv d)
include hs hv hq

theorem q_secNextBootPatch : QInv (secNextBootPatch env cfg d).1 :=
  QInv_of_sub (slots_secNextBootPatch env cfg d ⟨s, hs, hv⟩)
    (by rw [eventsOf_of_sj (sj_secNextBootPatch env cfg d s hs hv), eventsOf_of_sj hs]) hq

theorem q_secLaunchStart : QInv (secLaunchStart env cfg d) :=
  QInv_of_sub (slots_secLaunchStart env cfg d ⟨s, hs, hv⟩)
    (by rw [eventsOf_of_sj (sj_secLaunchStart env cfg d s hs hv), eventsOf_of_sj hs]) hq

theorem q_secLaunchSuccess : QInv (secLaunchSuccess env cfg d).1 :=
  QInv_of_sub (slots_secLaunchSuccess env cfg d ⟨s, hs, hv⟩)
    (by rw [eventsOf_of_sj (sj_secLaunchSuccess env cfg d s hs hv), eventsOf_of_sj hs]) hq

theorem q_secLaunchFailure : QInv (secLaunchFailure env cfg d) := by
  have hst : Settled d cfg.version := ⟨s, hs, hv⟩
  have hsj := sj_secLaunchFailure env cfg d s hs hv
  have hban := secLaunchFailure_ban env cfg d [] hst (BanD_nil _)
  cases hb : (loadPatchesState d).booting with
  | none =>
    rw [hb] at hsj
    exact QInv_of_sub (slots_secLaunchFailure env cfg d hst) (by rw [eventsOf_of_sj hsj, eventsOf_of_sj hs]) hq
  | some p =>
    rw [hb] at hsj hban
    simp only [] at hsj hban
    refine QInv_of_failure p.number _ (slots_secLaunchFailure env cfg d hst) ?_ ⟨p, Or.inr (Or.inr hb), rfl⟩
      (by rw [eventsOf_of_sj hsj, eventsOf_of_sj hs]) hq
    intro m hm hmn
    obtain ⟨_, hn, hl, hbo⟩ := hban
    rcases hm with h | h | h
    · exact hn m h (by rw [hmn]; exact List.mem_cons_self)
    · exact hl m h (by rw [hmn]; exact List.mem_cons_self)
    · exact hbo m h (by rw [hmn]; exact List.mem_cons_self)

theorem q_secHandlePrior : QInv (secHandlePriorBootFailure env cfg d) := by
  have hst : Settled d cfg.version := ⟨s, hs, hv⟩
  have hsj := sj_secHandlePrior env cfg d s hs hv
  have hban := secHandlePrior_ban env cfg d [] hst (BanD_nil _)
  cases hb : (loadPatchesState d).booting with
  | none =>
    rw [hb] at hsj
    exact QInv_of_sub (slots_secHandlePrior env cfg d hst) (by rw [eventsOf_of_sj hsj, eventsOf_of_sj hs]) hq
  | some p =>
    rw [hb] at hsj hban
    simp only [] at hsj hban
    refine QInv_of_failure p.number _ (slots_secHandlePrior env cfg d hst) ?_ ⟨p, Or.inr (Or.inr hb), rfl⟩
      (by rw [eventsOf_of_sj hsj, eventsOf_of_sj hs]) hq
    intro m hm hmn
    obtain ⟨_, hn, hl, hbo⟩ := hban
    rcases hm with h | h | h
    · exact hn m h (by rw [hmn]; exact List.mem_cons_self)
    · exact hl m h (by rw [hmn]; exact List.mem_cons_self)
    · exact hbo m h (by rw [hmn]; exact List.mem_cons_self)

theorem q_checkCore (resp : Option CheckResp) : QInv (checkCore env cfg d resp).1 :=
  QInv_of_sub (slots_checkCore env cfg d resp ⟨s, hs, hv⟩)
    (by rw [eventsOf_of_sj (sj_checkCore env cfg d s hs hv resp), eventsOf_of_sj hs]) hq

omit hq in
theorem q_updateCore (base : Option Bytes) (sc : UpdateScript) : QInv (updateCore env cfg base d sc).1 :=
  QInv_of_noevents _ (by rw [eventsOf_of_sj (sj_updateCore env cfg d s hs hv base sc)])

end

/-! ### every call, every history -/

theorem QInv_clean (v : String) : QInv (cleanDisk v) := QInv_of_noevents _ rfl

theorem q_opDisk (env : Env) (c : Config) (w : World) (op : Op) (hst : Settled w.disk c.version) (hq : QInv w.disk) :
    QInv (opDisk env c w op) := by
  obtain ⟨s, hs, hv⟩ := hst
  cases op with
  | init p => exact q_secHandlePrior env c _ s hs hv hq
  | start => exact q_secLaunchStart env c _ s hs hv hq
  | success => exact q_secLaunchSuccess env c _ s hs hv hq
  | failure => exact q_secLaunchFailure env c _ s hs hv hq
  | nextN => exact q_secNextBootPatch env c _ s hs hv hq
  | nextP => exact q_secNextBootPatch env c _ s hs hv hq
  | curN => simp only [opDisk]; rw [secCurrentBootPatch_disk c w.disk ⟨s, hs, hv⟩]; exact hq
  | check chan resp => exact q_checkCore env c _ s hs hv hq resp
  | update chan sc => exact q_updateCore env c _ s hs hv (w.base c) sc
  | restart => exact hq
  | auto => exact hq
  | damage dm => exact hq

theorem damage_sj (d : Disk) (dm : Damage) (h : dm.isStateFile = false) : (d.damage dm).stateJson = d.stateJson := by
  cases dm <;> simp [Damage.isStateFile] at h <;> simp only [Disk.damage, deleteArtifacts_sj]
  all_goals (cases d.patches with
    | none => rfl
    | some p => first | rfl | (simp only []; split <;> rfl))

/-- One call, restart or artifact damage keeps the invariant. -/
theorem step_q (env : Env) (w : World) (op : Op) (hsd : op.isStateDamage = false) (hq : QInv w.disk) :
    QInv (step env w op).1.disk := by
  cases he : entersWith w.config op with
  | none =>
    rw [step_disk_noenter env w op he]
    cases op with
    | damage dm =>
      obtain ⟨L, hc, hl⟩ := hq
      have hpj : loadPatchesState (w.disk.damage dm) = loadPatchesState w.disk := by
        unfold loadPatchesState; rw [damage_pj w.disk dm hsd]
      have hev : eventsOf (w.disk.damage dm) = eventsOf w.disk := by
        unfold eventsOf; rw [damage_sj w.disk dm hsd]
      simp only [noenterDisk]
      exact ⟨L, by intro m hm; exact hc m (by rw [← hpj]; exact hm), by rw [hev]; exact hl⟩
    | _ => exact hq
  | some c =>
    rw [step_disk_enter env w op c he]
    by_cases hst : Settled w.disk c.version
    · exact q_opDisk env c w op hst hq
    · rw [opDisk_unsettled env c w op he hst]
      exact q_opDisk env c { w with disk := cleanDisk c.version } op (settled_clean _) (QInv_clean _)

/-- **No sequence of calls queues more than three events.** After any history from the empty storage
    directory — any calls in any order, any server behaviour, restarts, outside damage to artifacts; only
    outside rewrites of the state files excluded — the event queue holds at most three events. -/
theorem queue_bound (env : Env) (libs : List (String × Bytes)) (ops : List Op)
    (hops : ∀ op ∈ ops, op.isStateDamage = false) :
    (eventsOf (runOps env (World.fresh libs) ops).disk).length ≤ 3 := by
  have gen : ∀ (ops : List Op) (w : World), (∀ op ∈ ops, op.isStateDamage = false) → QInv w.disk →
      QInv (runOps env w ops).disk := by
    intro ops
    induction ops with
    | nil => intro w _ h; exact h
    | cons op rest ih =>
      intro w hops h
      simp only [runOps, List.foldl]
      exact ih _ (fun x hx => hops x (List.mem_cons_of_mem _ hx)) (step_q env w op (hops op List.mem_cons_self) h)
  have h0 : QInv (World.fresh libs).disk := QInv_of_noevents _ (by rfl)
  obtain ⟨L, _, hl⟩ := gen ops (World.fresh libs) hops h0
  omega

end Updater
