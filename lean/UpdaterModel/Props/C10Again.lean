/-
  C10, the end of the guarantee: "… until the server offers n for installation again".

  `C10_holds` tracks a rolled-back number until it is offered again and stops there. These theorems
  say what the renewed offer then meets (DESIGN.md section 11, C10-h): while n is rolled back
  (`RollD`: not selected, no artifact) - including a response that rolls n back and offers it in one
  breath - `should_install_patch(n)` never answers "already installed", so an update offering n is
  never answered "no update": it installs n, reports n as a known bad patch, or fails with an error.
-/
import UpdaterModel.Props.C10
import UpdaterModel.Model.Monitor2

namespace Updater

/-- `should_install_patch` never takes a rolled-back number for the installed one. -/
theorem shouldInstall_rolled (env : Env) (cfg : Config) (d : Disk) (R : List Nat) (n : Nat)
    (h : Settled d cfg.version) (hr : RollD d R) (hn : n ∈ R) :
    (shouldInstall env cfg d n).2 ≠ .alreadyInstalled := by
  unfold shouldInstall
  rw [secIsKnownBad_eq cfg d n h]
  simp only
  split
  · simp
  · split
    · rename_i heq
      have h2 := (secNextBootPatch_ban env cfg d [] h (BanD_nil _)).2
      have h3 := (secNextBootPatch_roll env cfg d R h hr) n hn
      rw [h2] at heq
      exact absurd heq h3.2
    · simp

theorem installStage_not_noUpdate (env : Env) (cfg : Config) (base : Option Bytes) (d : Disk) (o : Offer)
    (dl : Option Bytes) : (installStage env cfg base d o dl).2 ≠ .noUpdate := by
  unfold installStage
  repeat' split
  all_goals simp

/-- **C10, renewed offer.** After a well-formed response that offers patch n while n is rolled back
    (earlier, `R`, or by this very response), the update does not answer "no update". -/
theorem afterCheck_rolled_offer (env : Env) (cfg : Config) (base : Option Bytes) (d : Disk) (r : CheckResp)
    (dl : Option Bytes) (R : List Nat) (o : Offer)
    (h : Settled d cfg.version) (hr : RollD d R) (hav : r.available = true) (ho : r.patch = some o)
    (hn : o.number ∈ r.rolledBack.getD [] ++ R) :
    (afterCheck env cfg base d r dl).2.1 ≠ .noUpdate := by
  have hr' := rollBackIfNeeded_roll env cfg d R r.rolledBack h hr
  have hs' := rollBackIfNeeded_settled env cfg d r.rolledBack h
  have hsi := shouldInstall_rolled env cfg _ _ o.number hs' hr' hn
  unfold afterCheck
  simp only [hav, ho, not_true_eq_false, if_false]
  split
  · simp
  · rename_i hc; exact absurd hc hsi
  · exact installStage_not_noUpdate env cfg base _ o dl

/-- **C10 (renewed offer).** Every model history is accepted by `mon10s`. -/
theorem C10_again_holds (env : Env) (libs : List (String × Bytes)) (ops : List Op) :
    mon10s.accepts env (viewTrace env (World.fresh libs) ops) = true := by
  apply Monitor.accepts_of_inv mon10s env libs (fun w g => g.cfg = w.config ∧ RollD w.disk g.rolled)
  · exact ⟨rfl, RollD_nil _⟩
  · intro w g op pre hinv hshow
    obtain ⟨hcfg, hroll⟩ := hinv
    have hgn : G10.next g op pre (postView env w op) =
        { cfg := trackCfg w.config op, rolled := rolledAfter w.config g.rolled op pre (postView env w op) } := by
      simp only [rolledAfter, G10.next, hcfg]
      split <;> rfl
    have hpost := step_roll env w op g.rolled pre hshow hroll
    refine ⟨?_, ?_⟩
    · simp only [mon10s]
      split
      · rename_i chan sc c out hgc hret
        split
        · rename_i r hresp
          split
          · rename_i o hp
            split
            · rename_i hcond
              simp only [Bool.and_eq_true, Bool.not_eq_true', List.contains_iff_mem] at hcond
              obtain ⟨⟨hav, hnr⟩, hmem⟩ := hcond
              have hc : w.config = some c := by rw [← hcfg]; exact hgc
              have he : entersWith w.config (.update chan sc) = some c := by simp [entersWith, hc]
              have hst : Settled w.disk c.version := by
                by_cases hu : Settled w.disk c.version
                · exact hu
                · have := resets_of_unsettled w pre hshow _ c he hu
                  rw [hcfg] at hnr; rw [this] at hnr; cases hnr
              have h1 := secClearEvents_settled c w.disk hst
              have r1 := secClearEvents_roll c w.disk g.rolled hst hroll
              have hret' : (postView env w (.update chan sc)).ret =
                  .upd (afterCheck env c (w.base c) (secClearEvents c w.disk) r sc.dl).2.1 := by
                simp [postView, step, update, hc, updateCore, hresp, World.view, secCopyEvents_disk c w.disk hst]
              rw [hret'] at hret
              have hout := Ret.upd.inj hret
              have := afterCheck_rolled_offer env c (w.base c) (secClearEvents c w.disk) r sc.dl g.rolled o h1 r1 hav hp hmem
              rw [firstFail_none_iff]
              intro x hx
              simp only [List.mem_singleton] at hx
              subst hx
              simp only [decide_eq_true_eq]
              rw [← hout]; exact this
            · rfl
          · rfl
        · rfl
      · rfl
    · simp only [mon10s, hgn]
      exact ⟨(step_config env w op).symm, hpost⟩

end Updater
