/-
  C01  Only an intact, verified patch is ever handed out for boot.
  C07  With a signing key configured, only correctly signed content boots (the key clauses below).
-/
import UpdaterModel.Lemmas.Prov
import UpdaterModel.Props.C17

namespace Updater

theorem loadOrNew_coherent (d : Disk) (v : String) : (loadOrNew d v).pm.Coherent := by
  by_cases h : Settled d v
  · obtain ⟨s, hs, hv⟩ := h; rw [loadOrNew_settled d v s hs hv]; exact PM.new_coherent d
  · rw [loadOrNew_unsettled d v h]; rfl

/-- **Validate on read, at the API.** For EVERY world (any disk contents: damaged, stale, forged)
    and configuration: if `shorebird_next_boot_patch_number/_path` reports patch `n`, then on the
    disk it leaves behind `n` is the recorded selection, its artifact file exists, has exactly the
    recorded size, and — if a key is configured — the recorded signature verifies under that key
    over the SHA-256 of the file's current bytes. Otherwise it reports no patch. -/
theorem next_boot_patch_sound (env : Env) (w : World) (c : Config) (hc : w.config = some c) (n : Nat)
    (h : (nextBootPatch env w).2 = some n) :
    ∃ m b, (loadPatchesState (nextBootPatch env w).1.disk).next = some m ∧ m.number = n ∧
      (nextBootPatch env w).1.disk.art n = some (.file b) ∧ b.length = m.size ∧
      (∀ k, c.key = some k → ∃ s, m.sig = some s ∧ env.verify k (hexEncode (sha256 b)) s = true) := by
  simp only [nextBootPatch, hc, secNextBootPatch] at h ⊢
  have hco := nextBootPatch_coherent env c.key (loadOrNew w.disk c.version).pm (loadOrNew_coherent _ _)
  rw [nextBootPatch_ret] at h
  cases hnx : ((loadOrNew w.disk c.version).pm.nextBootPatch env c.key).1.ps.next with
  | none => simp [hnx] at h
  | some m =>
    simp only [hnx, Option.map, Option.some.injEq] at h
    have hv := nextBootPatch_valid env c.key (loadOrNew w.disk c.version).pm m hnx
    obtain ⟨b, hb, hsz, hsig⟩ := validate_spec env c.key _ m hv
    refine ⟨m, b, by rw [hco]; exact hnx, h, by rw [← h]; exact hb, hsz, hsig⟩

/-- An uninitialised library reports no patch. -/
theorem next_boot_patch_uninit (env : Env) (w : World) (hc : w.config = none) : (nextBootPatch env w).2 = none := by
  simp [nextBootPatch, hc]

/-- C07: an unparsable key (one under which nothing verifies) rejects every patch. -/
theorem bad_key_rejects_all (env : Env) (w : World) (c : Config) (k : String) (hc : w.config = some c)
    (hk : c.key = some k) (hbad : ∀ msg s, env.verify k msg s = false) : (nextBootPatch env w).2 = none := by
  cases h : (nextBootPatch env w).2 with
  | none => rfl
  | some n =>
    obtain ⟨m, b, _, _, _, _, hsig⟩ := next_boot_patch_sound env w c hc n h
    obtain ⟨s, _, hv⟩ := hsig k hk
    rw [hbad] at hv; cases hv

/-! ### the monitor: size provenance over histories -/

/-- Every record in a slot has the (number, size) of a verified install of this history. -/
def ProvD (d : Disk) (S : List (Nat × Nat)) : Prop := ∀ m, InSlot (loadPatchesState d) m → (m.number, m.size) ∈ S

theorem ProvD_sub {d' d : Disk} {S} (h : SlotsSubD d' d) (hp : ProvD d S) : ProvD d' S := fun m hm => hp m (h m hm)
theorem ProvD_mono {d : Disk} {S S' : List (Nat × Nat)} (h : ∀ x ∈ S, x ∈ S') (hp : ProvD d S) : ProvD d S' :=
  fun m hm => h _ (hp m hm)

theorem ProvD_norm (d : Disk) (v : String) (S) (h : ProvD d S) : ProvD (normDisk d v) S := by
  unfold normDisk; split
  · exact h
  · intro m hm; simp [InSlot, loadPatchesState, cleanDisk, JFile.getD] at hm

/-- A stale patches_state.json dropped in from outside only contains records of patches installed
    earlier in this history (it is an earlier version of the file). -/
def StaleOK (g : G01) (op : Op) : Prop :=
  ∀ v, op = .damage (.pjSet v) → ∀ m, InSlot v m → (m.number, m.size) ∈ g.sizes

theorem handedOut_ok (env : Env) (c : Config) (S : List (Nat × Nat)) (n : Nat) (post : View) (d : Disk)
    (hart : ∀ k, post.art k = d.art k) (hps : post.ps = loadPatchesState d)
    (m : Meta) (hm : (loadPatchesState d).next = some m) (hmn : m.number = n)
    (hv : validate env c.key d m = true) (hprov : (m.number, m.size) ∈ S) :
    firstFail (handedOutOk env { cfg := some c, sizes := S } n post) = none := by
  obtain ⟨b, hb, hsz, hsig⟩ := validate_spec env c.key d m hv
  have hf : post.fileOf n = some b := by unfold View.fileOf; rw [hart, ← hmn, hb]
  unfold handedOutOk
  simp only [hf, firstFail]
  have h1 : S.contains (n, b.length) = true := by
    rw [List.contains_iff_mem]; rw [hsz, ← hmn]; exact hprov
  rw [h1]; simp only [if_true]
  cases hk : c.key with
  | none => simp [hk]
  | some k =>
    obtain ⟨s, hs, hver⟩ := hsig k hk
    simp [hk, hps, hm, hs, hmn, hver]

end Updater

namespace Updater

theorem slots_updateCore_noinstall (env : Env) (cfg : Config) (base) (d : Disk) (sc : UpdateScript)
    (hst : Settled d cfg.version) (hni : (updateCore env cfg base d sc).2.1 ≠ .installed) :
    SlotsSubD (updateCore env cfg base d sc).1 d := by
  unfold updateCore at hni ⊢
  simp only [] at hni ⊢
  rw [secCopyEvents_disk cfg d hst] at hni ⊢
  have h1 := secClearEvents_settled cfg d hst
  have a1 := slots_secClearEvents cfg d hst
  cases hresp : sc.resp with
  | none => simpa [hresp] using a1
  | some r =>
    simp only [hresp] at hni ⊢
    have h2 := rollBackIfNeeded_settled env cfg _ r.rolledBack h1
    have a2 := (slots_rollBackIfNeeded env cfg _ r.rolledBack h1).trans a1
    rcases afterCheck_cases env cfg base (secClearEvents cfg d) r sc.dl with ⟨_, hd⟩ | ⟨o, stream, b, out, _, _, _, _, _, _, _, _, e6⟩
    · rcases hd with hd | ⟨o, _, hd⟩
      · rw [hd]; exact a2
      · rw [hd]; exact (slots_shouldInstall env cfg _ o.number h2).trans a2
    · rw [e6] at hni; exact absurd rfl hni

/-- A call that does not install introduces no new record. -/
theorem slots_opDisk (env : Env) (c : Config) (w : World) (op : Op) (hst : Settled w.disk c.version)
    (hni : ∀ chan sc, op = .update chan sc → (updateCore env c (w.base c) w.disk sc).2.1 ≠ .installed) :
    SlotsSubD (opDisk env c w op) w.disk := by
  cases op with
  | init p => exact slots_secHandlePrior env c w.disk hst
  | start => exact slots_secLaunchStart env c w.disk hst
  | success => exact slots_secLaunchSuccess env c w.disk hst
  | failure => exact slots_secLaunchFailure env c w.disk hst
  | nextN => exact slots_secNextBootPatch env c w.disk hst
  | nextP => exact slots_secNextBootPatch env c w.disk hst
  | curN => simp only [opDisk]; rw [secCurrentBootPatch_disk c w.disk hst]; exact SlotsSubD.refl _
  | check chan resp => exact slots_checkCore env c w.disk resp hst
  | update chan sc => exact slots_updateCore_noinstall env c (w.base c) w.disk sc hst (hni chan sc rfl)
  | restart => exact SlotsSubD.refl _
  | auto => exact SlotsSubD.refl _
  | damage dm => exact SlotsSubD.refl _

/-- An installing update: the only new record is that of the verified file now in place. -/
theorem updateCore_install_spec (env : Env) (cfg : Config) (base) (d : Disk) (sc : UpdateScript)
    (hst : Settled d cfg.version) (hi : (updateCore env cfg base d sc).2.1 = .installed) :
    ∃ o out, (Op.update none sc).offer = some o ∧
      (updateCore env cfg base d sc).1.art o.number = some (.file out) ∧
      (∀ m, InSlot (loadPatchesState (updateCore env cfg base d sc).1) m →
        m = { number := o.number, size := out.length, hash := o.hash, sig := o.sig } ∨ InSlot (loadPatchesState d) m) ∧
      checkHash out o.hash = true := by
  unfold updateCore at hi ⊢
  simp only [] at hi ⊢
  rw [secCopyEvents_disk cfg d hst] at hi ⊢
  have h1 := secClearEvents_settled cfg d hst
  have a1 := slots_secClearEvents cfg d hst
  cases hresp : sc.resp with
  | none => simp [hresp] at hi
  | some r =>
    simp only [hresp] at hi ⊢
    have h2 := rollBackIfNeeded_settled env cfg _ r.rolledBack h1
    have a2 := (slots_rollBackIfNeeded env cfg _ r.rolledBack h1).trans a1
    rcases afterCheck_cases env cfg base (secClearEvents cfg d) r sc.dl with ⟨hni, _⟩ | ⟨o, stream, b, out, hp, _, _, _, _, _, hck, _, e6⟩
    · exact absurd hi hni
    · rw [e6]
      have h3 := shouldInstall_settled env cfg _ o.number h2
      have a3 := (slots_shouldInstall env cfg _ o.number h2).trans a2
      refine ⟨o, out, by simp [Op.offer, Op.respOf, hresp, hp], ?_, ?_, hck⟩
      · rw [art_secInstall cfg _ o out h3]; exact art_addPatch_self _ _ _ _ _
      · intro m hm
        rcases slots_secInstall cfg _ o out h3 m hm with h | h
        · exact Or.inl h
        · exact Or.inr (a3 m h)

end Updater

namespace Updater

theorem sec_next_facts (env : Env) (c : Config) (d : Disk) (n : Nat) (h : (secNextBootPatch env c d).2 = some n) :
    ∃ m, (loadPatchesState (secNextBootPatch env c d).1).next = some m ∧ m.number = n ∧
      validate env c.key (secNextBootPatch env c d).1 m = true := by
  simp only [secNextBootPatch] at h ⊢
  have hco := nextBootPatch_coherent env c.key (loadOrNew d c.version).pm (loadOrNew_coherent _ _)
  rw [nextBootPatch_ret] at h
  cases hnx : ((loadOrNew d c.version).pm.nextBootPatch env c.key).1.ps.next with
  | none => simp [hnx] at h
  | some m =>
    simp only [hnx, Option.map, Option.some.injEq] at h
    exact ⟨m, by rw [hco]; exact hnx, h, nextBootPatch_valid env c.key _ m hnx⟩

theorem nextBootPatch_booting (env key) (pm : PM) : (pm.nextBootPatch env key).1.ps.booting = pm.ps.booting := by
  unfold PM.nextBootPatch
  cases pm.ps.next with
  | none => rfl
  | some nx => simp only; split <;> first | rfl | (rw [tryFallBack_ps]; simp)

theorem sec_start_facts (env : Env) (c : Config) (d : Disk) (hst : Settled d c.version) (n : Nat)
    (hpre : (loadPatchesState d).booting = none)
    (h : (loadPatchesState (secLaunchStart env c d)).booting.map (·.number) = some n) :
    ∃ m, (loadPatchesState (secLaunchStart env c d)).next = some m ∧ m.number = n ∧
      validate env c.key (secLaunchStart env c d) m = true := by
  obtain ⟨s, hs, hv⟩ := hst
  simp only [secLaunchStart, loadOrNew_settled d _ s hs hv] at h ⊢
  have hco := nextBootPatch_coherent env c.key (PM.new d) (PM.new_coherent d)
  have hbo := nextBootPatch_booting env c.key (PM.new d)
  cases hret : ((PM.new d).nextBootPatch env c.key).2 with
  | none =>
    simp only [hret] at h
    rw [hco, hbo] at h
    have : (PM.new d).ps.booting = none := hpre
    simp [this] at h
  | some k =>
    simp only [hret] at h ⊢
    rw [nextBootPatch_ret] at hret
    cases hnx : ((PM.new d).nextBootPatch env c.key).1.ps.next with
    | none => simp [hnx] at hret
    | some nx =>
      simp only [hnx, Option.map, Option.some.injEq] at hret
      have hval := nextBootPatch_valid env c.key (PM.new d) nx hnx
      have hrs : (((PM.new d).nextBootPatch env c.key).1.recordBootStart k) =
          (({ ((PM.new d).nextBootPatch env c.key).1 with ps := { ((PM.new d).nextBootPatch env c.key).1.ps with booting := some nx } } : PM).save, true) := by
        unfold PM.recordBootStart; simp [hnx, hret]
      rw [hrs] at h ⊢
      simp only [loadPatchesState, PM.save, JFile.getD, Option.map, Option.some.injEq] at h ⊢
      refine ⟨nx, hnx, h, ?_⟩
      exact (validate_of_patches env c.key ((PM.new d).nextBootPatch env c.key).1.disk _ nx rfl).trans hval

end Updater

namespace Updater

theorem secNextBootPatch_norm (env : Env) (c : Config) (d : Disk) :
    secNextBootPatch env c d = secNextBootPatch env c (normDisk d c.version) := by
  unfold normDisk; split
  · rfl
  · rename_i hu; exact secNextBootPatch_clean env c d hu

theorem postView_ps_art (env : Env) (w : World) (op : Op) :
    (∀ k, (postView env w op).art k = (step env w op).1.disk.art k) ∧
    (postView env w op).ps = loadPatchesState (step env w op).1.disk :=
  ⟨fun k => postView_art env w op k, rfl⟩

/-- **C01 (and the key clauses of C07).** For every model history in which a stale
    patches_state.json dropped in from outside is an earlier version of that file (`StaleOK`), the
    C01 monitor accepts: whenever a query reports patch `n` as next-boot patch, or a launch start
    records a boot of `n`, the artifact file of `n` exists, its size is the size it had at a verified
    install of `n` in this history, and with a key configured the recorded signature verifies over the
    file's current SHA-256. Arbitrary call orders, restarts, and every damage of the alphabet. -/
theorem C01_holds (env : Env) (libs : List (String × Bytes)) (ops : List Op)
    (hadm : mon01.admissible env StaleOK mon01.init View.empty (viewTrace env (World.fresh libs) ops)) :
    mon01.accepts env (viewTrace env (World.fresh libs) ops) = true := by
  apply Monitor.accepts_of_inv_adm mon01 env libs (fun w g => g.cfg = w.config ∧ ProvD w.disk g.sizes) StaleOK _ _ ops hadm
  · refine ⟨rfl, ?_⟩
    intro m hm; simp [InSlot, loadPatchesState, World.fresh, Disk.empty, JFile.getD] at hm
  · intro w g op pre hstale hinv hshow
    obtain ⟨hcfg, hprov⟩ := hinv
    -- the ghost after the step
    have hgn : G01.next g op (postView env w op) =
        { cfg := trackCfg w.config op, sizes := (G01.next g op (postView env w op)).sizes } := by
      simp [G01.next, hcfg]
    have hsub : ∀ x ∈ g.sizes, x ∈ (G01.next g op (postView env w op)).sizes := by
      intro x hx; simp only [G01.next]
      cases installedBy op (postView env w op) with
      | none => exact hx
      | some n => simp only; split <;> (try split) <;> simp [hx]
    -- provenance after the step
    have hpost : ProvD (step env w op).1.disk (G01.next g op (postView env w op)).sizes := by
      cases hen : entersWith w.config op with
      | none =>
        rw [step_disk_noenter env w op hen]
        apply ProvD_mono hsub
        cases op with
        | damage dm =>
          simp only [noenterDisk]
          cases dm with
          | pjSet v => intro m hm; exact hstale v rfl m (by simpa [Disk.damage, loadPatchesState, JFile.getD] using hm)
          | pjDel => intro m hm; simp [InSlot, Disk.damage, loadPatchesState, JFile.getD] at hm
          | pjGarbage => intro m hm; simp [InSlot, Disk.damage, loadPatchesState, JFile.getD] at hm
          | sjDel => exact hprov
          | sjGarbage => exact hprov
          | sjSet v => exact hprov
          | artDel n => intro m hm; unfold loadPatchesState at hm; rw [damage_pj _ _ rfl] at hm; exact hprov m hm
          | artSet n b => intro m hm; unfold loadPatchesState at hm; rw [damage_pj _ _ rfl] at hm; exact hprov m hm
          | dirDel n => intro m hm; unfold loadPatchesState at hm; rw [damage_pj _ _ rfl] at hm; exact hprov m hm
          | pdirDel => intro m hm; unfold loadPatchesState at hm; rw [damage_pj _ _ rfl] at hm; exact hprov m hm
          | junk name => intro m hm; unfold loadPatchesState at hm; rw [damage_pj _ _ rfl] at hm; exact hprov m hm
          | nop => exact hprov
        | _ => exact hprov
      | some c =>
        have hnd := ProvD_norm w.disk c.version g.sizes hprov
        have hst := normDisk_settled w.disk c.version
        rw [step_disk_enter env w op c hen, opDisk_norm env c w op hen]
        by_cases hinst : ∃ chan sc, op = .update chan sc ∧
            (updateCore env c (w.base c) (normDisk w.disk c.version) sc).2.1 = .installed
        · obtain ⟨chan, sc, rfl, hi⟩ := hinst
          have hc : w.config = some c := by simpa [entersWith] using hen
          obtain ⟨o, out, ho, hart, hslots, hck⟩ := updateCore_install_spec env c (w.base c) _ sc hst hi
          have hib : installedBy (.update chan sc) (postView env w (.update chan sc)) = some o.number := by
            rw [installedBy_update env w c hc, updateCore_norm env c (w.base c) w.disk sc, hi]
            simp only [if_true]
            have : (Op.update chan sc).offer = (Op.update none sc).offer := rfl
            rw [this, ho]; rfl
          have hfile : (postView env w (.update chan sc)).fileOf o.number = some out := by
            unfold View.fileOf
            rw [postView_art, step_disk_enter env w _ c hen, opDisk_norm env c w _ hen]
            simp only [opDisk]
            have hbase : World.base { disk := normDisk w.disk c.version, config := w.config, libs := w.libs } c = w.base c := rfl
            rw [hbase, hart]
          have hsz : (G01.next g (.update chan sc) (postView env w (.update chan sc))).sizes = (o.number, out.length) :: g.sizes := by
            have hoff : (Op.update chan sc).offer = some o := ho
            simp [G01.next, hib, hfile, hoff, hck]
          rw [hsz]
          intro m hm
          rcases hslots m hm with h | h
          · subst h; exact List.mem_cons_self
          · exact List.mem_cons_of_mem _ (hnd m h)
        · apply ProvD_mono hsub
          exact ProvD_sub (slots_opDisk env c { w with disk := normDisk w.disk c.version } op hst
            (by intro chan sc hop hi; exact hinst ⟨chan, sc, hop, hi⟩)) hnd
    refine ⟨?_, by simp only [mon01]; rw [hgn]; exact ⟨(step_config env w op).symm, hpost⟩⟩
    -- the checks
    simp only [mon01]
    rw [hgn, firstFail_append]
    obtain ⟨hart, hps⟩ := postView_ps_art env w op
    constructor
    · -- a query that reports a patch
      cases hr : reportedNext op (postView env w op) with
      | none => rfl
      | some n =>
        simp only
        have hop : (op = .nextN ∨ op = .nextP) := by
          cases op <;> simp [reportedNext] at hr <;> simp
        cases hc : w.config with
        | none => rcases hop with rfl | rfl <;> simp [reportedNext, postView, step, nextBootPatch, hc, World.view] at hr
        | some c =>
          have hen : entersWith w.config op = some c := by rcases hop with rfl | rfl <;> simp [entersWith, hc]
          have htc : trackCfg (some c) op = some c := by rcases hop with rfl | rfl <;> simp [trackCfg]
          have hret : (secNextBootPatch env c w.disk).2 = some n := by
            rcases hop with rfl | rfl
            · simp only [reportedNext, postView, step, nextBootPatch, hc, World.view] at hr
              cases hx : (secNextBootPatch env c w.disk).2 with
              | none => simp [hx] at hr
              | some k => simp [hx] at hr; rw [hr.2]
            · simpa [reportedNext, postView, step, nextBootPatch, hc, World.view] using hr
          have hdisk : (step env w op).1.disk = (secNextBootPatch env c w.disk).1 := by
            rw [step_disk_enter env w op c hen]; rcases hop with rfl | rfl <;> rfl
          obtain ⟨m, hm, hmn, hv⟩ := sec_next_facts env c w.disk n hret
          rw [htc]
          exact handedOut_ok env c _ n _ (step env w op).1.disk hart hps m (by rw [hdisk]; exact hm) hmn
            (by rw [hdisk]; exact hv) (hpost m (Or.inl (by rw [hdisk]; exact hm)))
    · -- a launch start that records a boot
      cases op with
      | start =>
        cases hc : w.config with
        | none => simp [trackCfg, firstFail]
        | some c =>
          simp only [trackCfg]
          cases hpb : pre.bootingNum with
          | some k => rfl
          | none =>
            cases hqb : (postView env w .start).bootingNum with
            | none => rfl
            | some n =>
              simp only
              have hen : entersWith w.config .start = some c := by simp [entersWith, hc]
              have hdisk : (step env w .start).1.disk = secLaunchStart env c (normDisk w.disk c.version) := by
                rw [step_disk_enter env w _ c hen, opDisk_norm env c w _ hen]; rfl
              have hst := normDisk_settled w.disk c.version
              obtain ⟨s0, _, _, _, hps0⟩ := norm_state w pre hshow .start c hen
              have hpre0 : (loadPatchesState (normDisk w.disk c.version)).booting = none := by
                rw [hps0]; split
                · rfl
                · unfold View.bootingNum at hpb; cases h : pre.ps.booting <;> simp [h] at hpb ⊢
              have hq : (loadPatchesState (secLaunchStart env c (normDisk w.disk c.version))).booting.map (·.number) = some n := by
                rw [← hdisk]; exact hqb
              obtain ⟨m, hm, hmn, hv⟩ := sec_start_facts env c _ hst n hpre0 hq
              exact handedOut_ok env c _ n _ (step env w .start).1.disk hart hps m (by rw [hdisk]; exact hm) hmn
                (by rw [hdisk]; exact hv) (hpost m (Or.inl (by rw [hdisk]; exact hm)))
      | _ => rfl

end Updater
