/-
  C16  Every patch the packaging tool produces inflates back to the new binary.

  `roundtrip`: for every base, every new binary and every match list that tiles the new binary
  (which is what bidiff's scanner emits; checked at run time on every generated input), decoding
  the encoder's output against the same base yields the new binary, byte for byte.
  zstd is outside the model: under `unzstd (zstd x) = x` the library inflates what the tool wrote.
-/
import UpdaterModel.Lemmas.Varint

namespace Updater

/-! ### bytes -/

theorem UInt8_add_sub_cancel (a b : UInt8) : b + (a - b) = a := by
  rw [UInt8.add_comm, UInt8.sub_add_cancel]

theorem addBytes_subBytes : ∀ (new old : Bytes), new.length = old.length → addBytes old (subBytes new old) = new
  | [], [], _ => rfl
  | a :: new, b :: old, h => by
    simp only [List.length_cons, Nat.add_right_cancel_iff] at h
    simp only [subBytes, addBytes, List.zipWith_cons_cons] at *
    rw [UInt8_add_sub_cancel]
    congr 1
    exact addBytes_subBytes new old h
  | [], _ :: _, h => by simp at h
  | _ :: _, [], h => by simp at h

theorem length_slice (l : Bytes) (a n : Nat) (h : a + n ≤ l.length) : ((l.drop a).take n).length = n := by
  simp [List.length_take, List.length_drop]; omega

theorem length_subBytes (a b : Bytes) : (subBytes a b).length = min a.length b.length := by
  simp [subBytes]

/-! ### one record -/

/-- The matches tile `newer` from `np` on, with add ranges inside `older`. -/
def TilingFrom (older newer : Bytes) : Nat → List Match → Prop
  | np, [] => np = newer.length
  | np, m :: rest =>
    m.addNewStart = np ∧ m.addOldStart + m.addLength ≤ older.length ∧ m.copyStart ≤ m.copyEnd ∧
    m.copyEnd ≤ newer.length ∧ TilingFrom older newer m.copyEnd rest

/-- What bidiff's scanner emits (runtime-checked): the first match starts at old position 0. -/
def Tiling (older newer : Bytes) (ms : List Match) : Prop :=
  (match ms with | [] => True | m :: _ => m.addOldStart = 0) ∧ TilingFrom older newer 0 ms

/-- The bytes of `newer` one record reproduces. -/
def recordOut (newer : Bytes) (m : Match) : Bytes :=
  (newer.drop m.addNewStart).take m.addLength ++ (newer.drop m.copyStart).take (m.copyEnd - m.copyStart)

theorem decode_control (fuel : Nat) (older newer : Bytes) (pm : Match) (next : Option Match) (rest : Bytes)
    (h1 : pm.addOldStart + pm.addLength ≤ older.length) (h2 : pm.copyStart ≤ pm.copyEnd)
    (h3 : pm.copyEnd ≤ newer.length) (hb : older.length < 2 ^ 63) (hb' : newer.length < 2 ^ 63)
    (hnext : ∀ m, next = some m → m.addOldStart ≤ older.length) :
    decodeRecords (fuel + 1) (encodeControl older newer pm next ++ rest) older pm.addOldStart =
      (match decodeRecords fuel rest older
          (match next with | some m => m.addOldStart | none => pm.addOldStart + pm.addLength) with
        | .error e => .error e
        | .ok r => .ok (recordOut newer pm ++ r)) := by
  have hcs : pm.copyStart = pm.addNewStart + pm.addLength := rfl
  -- lengths of the two payloads
  have hlnew : ((newer.drop pm.addNewStart).take pm.addLength).length = pm.addLength :=
    length_slice newer _ _ (by omega)
  have hlold : ((older.drop pm.addOldStart).take pm.addLength).length = pm.addLength :=
    length_slice older _ _ h1
  have hladd : (subBytes ((newer.drop pm.addNewStart).take pm.addLength) ((older.drop pm.addOldStart).take pm.addLength)).length = pm.addLength := by
    rw [length_subBytes, hlnew, hlold]; omega
  have hlcopy : ((newer.drop pm.copyStart).take (pm.copyEnd - pm.copyStart)).length = pm.copyEnd - pm.copyStart :=
    length_slice newer _ _ (by omega)
  -- the seek value
  have hseek_bounds : ∀ m, next = some m →
      -(2 ^ 63 : Int) ≤ (m.addOldStart : Int) - ((pm.addOldStart + pm.addLength : Nat) : Int) ∧
      (m.addOldStart : Int) - ((pm.addOldStart + pm.addLength : Nat) : Int) < 2 ^ 63 := by
    intro m hm; have := hnext m hm; constructor <;> omega
  unfold encodeControl
  simp only [List.append_assoc]
  rw [decodeRecords]
  rw [hladd, readVarint_encode pm.addLength _ (by omega)]
  simp only
  have hc1 : ¬ ¬ (pm.addLength = 0 ∨ pm.addOldStart + pm.addLength ≤ older.length) := by
    intro h; exact h (Or.inr h1)
  simp only [hc1, if_false]
  have hc2 : ∀ T : Bytes, ¬ (pm.addLength > (subBytes ((newer.drop pm.addNewStart).take pm.addLength) ((older.drop pm.addOldStart).take pm.addLength) ++ T).length) := by
    intro T; simp only [List.length_append, hladd]; omega
  simp only [hc2, if_false]
  rw [List.take_left' hladd, List.drop_left' hladd]
  rw [hlcopy, readVarint_encode _ _ (by omega)]
  simp only
  have hc3 : ∀ T : Bytes, ¬ (pm.copyEnd - pm.copyStart > ((newer.drop pm.copyStart).take (pm.copyEnd - pm.copyStart) ++ T).length) := by
    intro T; simp only [List.length_append, hlcopy]; omega
  simp only [hc3, if_false]
  rw [List.take_left' hlcopy, List.drop_left' hlcopy]
  rw [addBytes_subBytes _ _ (by rw [hlnew, hlold])]
  cases next with
  | none =>
    simp only
    rw [readVarint_encodeI 0 rest (by decide) (by decide)]
    simp only [zigzag_roundtrip]
    have hnp : ¬ ((((pm.addOldStart + pm.addLength : Nat) : Int) + 0 < 0) ∨ (((pm.addOldStart + pm.addLength : Nat) : Int) + 0 > MAXOFF)) := by
      unfold MAXOFF; omega
    simp only [hnp, if_false]
    have : (((pm.addOldStart + pm.addLength : Nat) : Int) + 0).toNat = pm.addOldStart + pm.addLength := by omega
    rw [this]
    cases decodeRecords fuel rest older (pm.addOldStart + pm.addLength) <;> simp [recordOut, hcs]
  | some m =>
    simp only
    obtain ⟨hs1, hs2⟩ := hseek_bounds m rfl
    rw [readVarint_encodeI _ rest hs1 hs2]
    simp only [zigzag_roundtrip]
    have hm := hnext m rfl
    have hnp : ¬ ((((pm.addOldStart + pm.addLength : Nat) : Int) + ((m.addOldStart : Int) - ((pm.addOldStart + pm.addLength : Nat) : Int)) < 0) ∨
        (((pm.addOldStart + pm.addLength : Nat) : Int) + ((m.addOldStart : Int) - ((pm.addOldStart + pm.addLength : Nat) : Int)) > MAXOFF)) := by
      unfold MAXOFF; omega
    simp only [hnp, if_false]
    have : (((pm.addOldStart + pm.addLength : Nat) : Int) + ((m.addOldStart : Int) - ((pm.addOldStart + pm.addLength : Nat) : Int))).toNat = m.addOldStart := by omega
    rw [this]
    cases decodeRecords fuel rest older m.addOldStart <;> simp [recordOut, hcs]

end Updater

namespace Updater

theorem slice_concat (l : Bytes) (a n e : Nat) (h1 : a + n ≤ e) :
    (l.drop a).take n ++ ((l.drop (a + n)).take (e - (a + n)) ++ l.drop e) = l.drop a := by
  have h2 : (l.drop (a + n)).take (e - (a + n)) ++ l.drop e = l.drop (a + n) := by
    have : l.drop e = (l.drop (a + n)).drop (e - (a + n)) := by
      rw [List.drop_drop]; congr 1; omega
    rw [this, List.take_append_drop]
  rw [h2]
  have : l.drop (a + n) = (l.drop a).drop n := by rw [List.drop_drop]
  rw [this, List.take_append_drop]

theorem recordOut_append (newer : Bytes) (m : Match) (h : m.copyStart ≤ m.copyEnd) :
    recordOut newer m ++ newer.drop m.copyEnd = newer.drop m.addNewStart := by
  unfold recordOut
  rw [List.append_assoc]
  exact slice_concat newer m.addNewStart m.addLength m.copyEnd h

theorem decodeRecords_nil (fuel : Nat) (old : Bytes) (pos : Nat) : decodeRecords (fuel + 1) [] old pos = .ok [] := by
  rw [decodeRecords]; rfl

/-- Decoding the encoded controls of a tiling reproduces the rest of `newer`. -/
theorem decode_controls (older newer : Bytes) (hb : older.length < 2 ^ 63) (hb' : newer.length < 2 ^ 63) :
    ∀ (ms : List Match) (m : Match) (fuel : Nat), ms.length + 2 ≤ fuel →
      TilingFrom older newer m.addNewStart (m :: ms) →
      decodeRecords fuel (encodeControls older newer (m :: ms)) older m.addOldStart = .ok (newer.drop m.addNewStart) := by
  intro ms
  induction ms with
  | nil =>
    intro m fuel hf ht
    obtain ⟨_, h1, h2, h3, h4⟩ := ht
    simp only [TilingFrom] at h4
    obtain ⟨f, rfl⟩ : ∃ f, fuel = f + 1 := ⟨fuel - 1, by simp at hf; omega⟩
    obtain ⟨f', rfl⟩ : ∃ f', f = f' + 1 := ⟨f - 1, by simp at hf; omega⟩
    have := decode_control (f' + 1) older newer m none [] h1 h2 h3 hb hb' (by intro m' h; cases h)
    simp only [List.append_nil] at this
    simp only [encodeControls]
    rw [this, decodeRecords_nil]
    simp only [List.append_nil]
    have := recordOut_append newer m h2
    rw [h4, List.drop_length, List.append_nil] at this
    rw [this]
  | cons m' ms ih =>
    intro m fuel hf ht
    obtain ⟨_, h1, h2, h3, h4⟩ := ht
    have h4' := h4
    obtain ⟨hns, h1', _, _, _⟩ := h4
    obtain ⟨f, rfl⟩ : ∃ f, fuel = f + 1 := ⟨fuel - 1, by simp at hf; omega⟩
    simp only [encodeControls]
    rw [decode_control f older newer m (some m') _ h1 h2 h3 hb hb' (by intro x hx; cases hx; omega)]
    simp only
    rw [ih m' f (by simp at hf ⊢; omega) (by rw [hns]; exact h4')]
    simp only
    rw [hns, recordOut_append newer m h2]

/-- Each control is at least three bytes, so the decoder's fuel always suffices. -/
theorem length_encodeControl (older newer : Bytes) (m : Match) (next : Option Match) :
    1 ≤ (encodeControl older newer m next).length := by
  unfold encodeControl
  have := encodeVarU_ne_nil (subBytes ((newer.drop m.addNewStart).take m.addLength) ((older.drop m.addOldStart).take m.addLength)).length
  simp only [List.length_append]
  have : 1 ≤ (encodeVarU (subBytes ((newer.drop m.addNewStart).take m.addLength) ((older.drop m.addOldStart).take m.addLength)).length).length := by
    cases h : encodeVarU (subBytes ((newer.drop m.addNewStart).take m.addLength) ((older.drop m.addOldStart).take m.addLength)).length with
    | nil => exact absurd h (encodeVarU_ne_nil _)
    | cons a l => simp
  omega

theorem length_encodeControls (older newer : Bytes) : ∀ ms : List Match, ms.length ≤ (encodeControls older newer ms).length
  | [] => by simp [encodeControls]
  | [m] => by simp only [encodeControls, List.length_singleton]; exact length_encodeControl older newer m none
  | m :: m' :: rest => by
    simp only [encodeControls, List.length_append, List.length_cons]
    have := length_encodeControl older newer m (some m')
    have := length_encodeControls older newer (m' :: rest)
    simp only [List.length_cons] at this
    omega

theorem readU32le_u32le (n : Nat) (h : n < 2 ^ 32) (rest : Bytes) : readU32le (u32le n ++ rest) = some (n, rest) := by
  unfold u32le readU32le
  simp only [List.cons_append, List.nil_append, UInt8_ofNat_toNat]
  congr 1
  simp only [Prod.mk.injEq, and_true]
  omega

/-- **C16.** For every base and new binary (sizes below 2^63) and every match list that tiles the new
    binary, the library's decoder applied to the tool's encoded stream and the same base returns the
    new binary byte for byte. Empty target (header-only stream) included. -/
theorem roundtrip (older newer : Bytes) (ms : List Match) (hb : older.length < 2 ^ 63) (hb' : newer.length < 2 ^ 63)
    (ht : Tiling older newer ms) : bipatchDecode (encodePatch older newer ms) older = .ok newer := by
  unfold bipatchDecode encodePatch header
  rw [List.append_assoc, readU32le_u32le MAGIC (by decide)]
  simp only [ne_eq, not_true_eq_false, if_false]
  rw [readU32le_u32le VERSION (by decide)]
  simp only [ne_eq, not_true_eq_false, if_false]
  cases ms with
  | nil =>
    obtain ⟨_, h⟩ := ht
    simp only [TilingFrom] at h
    simp only [encodeControls, List.length_nil]
    rw [decodeRecords_nil]
    have : newer = [] := List.eq_nil_of_length_eq_zero h.symm
    rw [this]
  | cons m ms =>
    obtain ⟨h0, h⟩ := ht
    simp only at h0
    have hstart : m.addNewStart = 0 := h.1
    have := decode_controls older newer hb hb' ms m ((encodeControls older newer (m :: ms)).length + 1)
      (by have := length_encodeControls older newer (m :: ms); simp only [List.length_cons] at this; omega)
      (by rw [hstart]; exact h)
    rw [h0, hstart, List.drop_zero] at this
    exact this

/-- The hash the tool reports is the hash the library computes: same bytes, same function. -/
theorem roundtrip_hash (older newer : Bytes) (ms : List Match) (hb : older.length < 2 ^ 63) (hb' : newer.length < 2 ^ 63)
    (ht : Tiling older newer ms) :
    (bipatchDecode (encodePatch older newer ms) older).map sha256 = .ok (sha256 newer) := by
  rw [roundtrip older newer ms hb hb' ht]; rfl

end Updater
