/-
  C05  Nothing is installed unless the inflated download matches its hash.
  C06  Network failure or malformed server traffic never harms what is installed.
-/
import UpdaterModel.Props.C01

namespace Updater

/-! ### the install gate -/

/-- What the download must satisfy for an install: it decodes against the base, the result has the
    advertised SHA-256, and (with a key) the offer's signature verifies over it. -/
def GoodDownload (env : Env) (key : Option String) (base dl : Option Bytes) (o : Offer) (out : Bytes) : Prop :=
  ∃ stream b, dl = some stream ∧ base = some b ∧ bipatchDecode stream b = .ok out ∧
    checkHash out o.hash = true ∧ signatureOk env key o.sig out = true

theorem installStage_installed (env cfg base d o dl) (h : (installStage env cfg base d o dl).2 = .installed) :
    ∃ out, GoodDownload env cfg.key base dl o out ∧ (installStage env cfg base d o dl).1 = secInstall cfg d o out := by
  rcases installStage_cases env cfg base d o dl with ⟨_, hni⟩ | ⟨stream, b, out, e1, e2, e3, e4, e5, e6⟩
  · exact absurd h hni
  · exact ⟨out, ⟨stream, b, e1, e2, e3, e4, e5⟩, by rw [e6]⟩

theorem installStage_of_good (env cfg base d o dl out) (h : GoodDownload env cfg.key base dl o out) :
    installStage env cfg base d o dl = (secInstall cfg d o out, .installed) := by
  obtain ⟨stream, b, e1, e2, e3, e4, e5⟩ := h
  unfold installStage
  simp [e1, e2, e3, e4, e5]

/-- Every way the install stage can fail is an error status, and leaves the disk alone. -/
theorem installStage_failed (env cfg base d o dl) (h : (installStage env cfg base d o dl).2 ≠ .installed) :
    (installStage env cfg base d o dl).2.status = -1 ∧ (installStage env cfg base d o dl).1 = d := by
  unfold installStage at h ⊢
  cases dl with
  | none => exact ⟨rfl, rfl⟩
  | some stream =>
    cases base with
    | none => exact ⟨rfl, rfl⟩
    | some b =>
      simp only at h ⊢
      cases hdec : bipatchDecode stream b with
      | error e => exact ⟨rfl, rfl⟩
      | ok out =>
        simp only [hdec] at h ⊢
        by_cases h1 : checkHash out o.hash = true
        · by_cases h2 : signatureOk env cfg.key o.sig out = true
          · simp [h1, h2] at h
          · simp [h1, h2, UpdateOut.status]
        · simp [h1, UpdateOut.status]

/-- **C05, the core.** `update` answers "installed" only if the downloaded bytes, applied to the
    base, gave a file whose SHA-256 is the advertised hash (and whose signature verifies when a key
    is configured); the artifact then in place and selected is exactly that file. For every disk. -/
theorem update_installed_sound (env : Env) (cfg : Config) (base) (d : Disk) (sc : UpdateScript)
    (hst : Settled d cfg.version) (hi : (updateCore env cfg base d sc).2.1 = .installed) :
    ∃ o out, (sc.resp.bind (·.patch)) = some o ∧ GoodDownload env cfg.key base sc.dl o out ∧
      (updateCore env cfg base d sc).1.art o.number = some (.file out) ∧
      (loadPatchesState (updateCore env cfg base d sc).1).next =
        some { number := o.number, size := out.length, hash := o.hash, sig := o.sig } := by
  unfold updateCore at hi ⊢
  simp only [] at hi ⊢
  rw [secCopyEvents_disk cfg d hst] at hi ⊢
  have h1 := secClearEvents_settled cfg d hst
  cases hresp : sc.resp with
  | none => simp [hresp] at hi
  | some r =>
    simp only [hresp] at hi ⊢
    have h2 := rollBackIfNeeded_settled env cfg _ r.rolledBack h1
    rcases afterCheck_cases env cfg base (secClearEvents cfg d) r sc.dl with ⟨hni, _⟩ | ⟨o, stream, b, out, hp, _, _, e1, e2, e3, e4, e5, e6⟩
    · exact absurd hi hni
    · rw [e6]
      have h3 := shouldInstall_settled env cfg _ o.number h2
      refine ⟨o, out, by simp [hp], ⟨stream, b, e1, e2, e3, e4, e5⟩, ?_, ?_⟩
      · rw [art_secInstall cfg _ o out h3]; exact art_addPatch_self _ _ _ _ _
      · obtain ⟨s, hs, hv⟩ := h3
        simp only [secInstall, loadOrNew_settled _ _ s hs hv]
        rw [addPatch_coherent, addPatch_ps]

end Updater

namespace Updater

theorem nextBootPatch_noop (env key) (pm : PM)
    (h : pm.ps.next = none ∨ ∃ m, pm.ps.next = some m ∧ validate env key pm.disk m = true) :
    (pm.nextBootPatch env key).1 = pm := by
  unfold PM.nextBootPatch
  rcases h with h | ⟨m, hm, hv⟩
  · simp [h]
  · simp [hm, hv]

theorem secNextBootPatch_noop (env : Env) (c : Config) (d : Disk) (hst : Settled d c.version)
    (h : (loadPatchesState d).next = none ∨ ∃ m, (loadPatchesState d).next = some m ∧ validate env c.key d m = true) :
    (secNextBootPatch env c d).1 = d := by
  obtain ⟨s, hs, hv⟩ := hst
  simp only [secNextBootPatch, loadOrNew_settled d _ s hs hv]
  rw [nextBootPatch_noop env c.key (PM.new d) h]; rfl

theorem shouldInstall_noop (env : Env) (c : Config) (d : Disk) (n : Nat) (hst : Settled d c.version)
    (h : (loadPatchesState d).next = none ∨ ∃ m, (loadPatchesState d).next = some m ∧ validate env c.key d m = true) :
    (shouldInstall env c d n).1 = d := by
  unfold shouldInstall
  rw [secIsKnownBad_eq c d n hst]
  simp only
  split
  · rfl
  · split <;> exact secNextBootPatch_noop env c d hst h

theorem rollBackIfNeeded_nil (env : Env) (c : Config) (d : Disk) (rb : Option (List Nat)) (hst : Settled d c.version)
    (h : rb.getD [] = []) : rollBackIfNeeded env c d rb = d := by
  cases rb with
  | none => rfl
  | some ns =>
    simp only [Option.getD] at h
    subst h
    obtain ⟨s, hs, hv⟩ := hst
    simp [rollBackIfNeeded, secRollBack, loadOrNew_settled d _ s hs hv, PM.new]

theorem bad_foldFallBack (env key) (ns : List Nat) (pm : PM) :
    (ns.foldl (fun pm n => pm.tryFallBack env key n) pm).ps.bad = pm.ps.bad := by
  induction ns generalizing pm with
  | nil => rfl
  | cons n ns ih => simp only [List.foldl]; rw [ih, tryFallBack_ps, fallBackPS_bad]

theorem bad_rollBackIfNeeded (env : Env) (c : Config) (d : Disk) (rb) (hst : Settled d c.version) :
    (loadPatchesState (rollBackIfNeeded env c d rb)).bad = (loadPatchesState d).bad := by
  cases rb with
  | none => rfl
  | some ns =>
    obtain ⟨s, hs, hv⟩ := hst
    simp only [rollBackIfNeeded, secRollBack, loadOrNew_settled d _ s hs hv]
    rw [(foldFallBack_ban env c.key ns (PM.new d) [] (PM.new_coherent d) (BanPS_nil _)).1, bad_foldFallBack]
    rfl

theorem valid_of_shows (env key) {w : World} {pre : View} (hs : ShowsDisk w pre) (m : Meta) :
    pre.valid env key m = validate env key w.disk m := by
  unfold View.valid validate View.art Disk.art
  rw [hs.2.2.2.1]
  unfold Disk.artsList
  cases w.disk.patches <;> rfl

/-- A failed or no-op update on a settled disk whose selection is valid (or empty), with no
    rollbacks in the response, only empties the event queue. -/
theorem updateCore_quiet (env : Env) (c : Config) (base) (d : Disk) (sc : UpdateScript)
    (hst : Settled d c.version)
    (hnext : (loadPatchesState d).next = none ∨ ∃ m, (loadPatchesState d).next = some m ∧ validate env c.key d m = true)
    (hrb : ∀ r, sc.resp = some r → r.rolledBack.getD [] = [])
    (hni : (updateCore env c base d sc).2.1 ≠ .installed) :
    (updateCore env c base d sc).1 = secClearEvents c d := by
  unfold updateCore at hni ⊢
  simp only [] at hni ⊢
  rw [secCopyEvents_disk c d hst] at hni ⊢
  have h1 := secClearEvents_settled c d hst
  cases hresp : sc.resp with
  | none => rfl
  | some r =>
    simp only [hresp] at hni ⊢
    have hr0 := rollBackIfNeeded_nil env c (secClearEvents c d) r.rolledBack h1 (hrb r hresp)
    -- the selection is still valid after the queue was cleared
    have hpj : loadPatchesState (secClearEvents c d) = loadPatchesState d := by
      unfold loadPatchesState; rw [secClearEvents_pj c d hst]
    have hnext' : (loadPatchesState (secClearEvents c d)).next = none ∨
        ∃ m, (loadPatchesState (secClearEvents c d)).next = some m ∧ validate env c.key (secClearEvents c d) m = true := by
      rw [hpj]
      rcases hnext with h | ⟨m, hm, hv⟩
      · exact Or.inl h
      · refine Or.inr ⟨m, hm, ?_⟩
        have : ∀ k, (secClearEvents c d).art k = d.art k := by
          obtain ⟨s, hs, hv'⟩ := hst
          intro k; simp only [secClearEvents, loadOrNew_settled d _ s hs hv']; rfl
        rw [validate_congr env c.key d _ m (this _)]; exact hv
    rcases afterCheck_cases env c base (secClearEvents c d) r sc.dl with ⟨_, hd⟩ | ⟨o, _, _, _, _, _, _, _, _, _, _, _, e6⟩
    · rcases hd with hd | ⟨o, _, hd⟩
      · rw [hd, hr0]
      · rw [hd, hr0, shouldInstall_noop env c _ o.number h1 hnext']
    · rw [e6] at hni; exact absurd rfl hni

end Updater

namespace Updater

theorem step_libs (env : Env) (w : World) (op : Op) : (step env w op).1.libs = w.libs := by
  cases op with
  | init p =>
    simp only [step, init]
    cases p.yaml <;> cases p.libapps <;> cases hc : w.config <;> simp [hc]
  | restart => rfl
  | auto => rfl
  | damage dm => rfl
  | start => simp only [step, launchStart]; cases w.config <;> rfl
  | success => simp only [step, launchSuccess]; cases w.config <;> rfl
  | failure => simp only [step, launchFailure]; cases w.config <;> rfl
  | nextN => simp only [step, nextBootPatch]; cases w.config <;> rfl
  | nextP => simp only [step, nextBootPatch]; cases w.config <;> rfl
  | curN => simp only [step, currentBootPatch]; cases w.config <;> rfl
  | check c r => simp only [step, check]; cases w.config <;> rfl
  | update c sc => simp only [step, update]; cases w.config <;> rfl

/-- The monitor's `dlGood`, in terms of `GoodDownload`. -/
theorem dlGood_iff (env : Env) (libs : List (String × Bytes)) (c : Config) (sc : UpdateScript) (off : Offer) :
    dlGood env libs c sc (some off) = true ↔ ∃ out, GoodDownload env c.key (libs.lookup c.libapp) sc.dl off out := by
  unfold dlGood dlDecoded
  constructor
  · intro h
    cases hdl : sc.dl with
    | none => simp [hdl] at h
    | some s =>
      cases hb : libs.lookup c.libapp with
      | none => simp [hdl, hb] at h
      | some b =>
        cases hd : bipatchDecode s b with
        | error e => simp [hdl, hb, hd] at h
        | ok o =>
          simp only [hdl, hb, hd, Bool.and_eq_true] at h
          exact ⟨o, s, b, rfl, rfl, hd, h.1, h.2⟩
  · rintro ⟨out, s, b, e1, e2, hd, h1, h2⟩
    simp [e1, e2, hd, h1, h2]

theorem dlDecoded_of_good (env : Env) (libs : List (String × Bytes)) (c : Config) (sc : UpdateScript) (off : Offer) (out : Bytes)
    (h : GoodDownload env c.key (libs.lookup c.libapp) sc.dl off out) : dlDecoded libs c sc = some out := by
  obtain ⟨s, b, e1, e2, hd, _, _⟩ := h
  simp [dlDecoded, e1, e2, hd]

/-- When the download was requested, the outcome is the install stage's. -/
theorem updateCore_requested (env : Env) (c : Config) (base) (d : Disk) (sc : UpdateScript)
    (h : (updateCore env c base d sc).2.2.2 = true) :
    ∃ o d', sc.resp.bind (·.patch) = some o ∧
      (updateCore env c base d sc).2.1 = (installStage env c base d' o sc.dl).2 := by
  unfold updateCore at h ⊢
  simp only [] at h ⊢
  cases hr : sc.resp with
  | none => simp [hr] at h
  | some r =>
    simp only [hr] at h ⊢
    unfold afterCheck at h ⊢
    simp only [] at h ⊢
    by_cases ha : r.available = true
    · simp only [ha, not_true_eq_false, if_false] at h ⊢
      cases hp : r.patch with
      | none => simp [hp] at h
      | some o =>
        simp only [hp] at h ⊢
        cases hs : (shouldInstall env c (rollBackIfNeeded env c (secClearEvents c (secCopyEvents c d).1) r.rolledBack) o.number).2 with
        | knownBad => simp [hs] at h
        | alreadyInstalled => simp [hs] at h
        | ok => exact ⟨o, (shouldInstall env c (rollBackIfNeeded env c (secClearEvents c (secCopyEvents c d).1) r.rolledBack) o.number).1, by simp [hp], by simp only [hs]⟩
    · simp [ha] at h

theorem any_isDownload_updateActs (env cfg sc out sent dlr) :
    (updateActs env cfg sc out sent dlr).any isDownload = true → dlr = true := by
  intro h
  unfold updateActs at h
  simp only [List.any_append, Bool.or_eq_true, any_isDownload_events] at h
  cases dlr with
  | true => rfl
  | false => simp [isDownload] at h

end Updater

namespace Updater

theorem shouldInstall_already (env : Env) (c : Config) (d : Disk) (n : Nat) (hst : Settled d c.version)
    (h : (shouldInstall env c d n).2 = .alreadyInstalled) :
    (loadPatchesState (shouldInstall env c d n).1).next.map (·.number) = some n := by
  unfold shouldInstall at h ⊢
  rw [secIsKnownBad_eq c d n hst] at h ⊢
  simp only at h ⊢
  split at h
  · cases h
  · split at h
    · rename_i hk heq
      simp only [hk, Bool.false_eq_true, if_false, heq, if_true]
      rw [← (secNextBootPatch_ban env c d [] hst (BanD_nil _)).2]; exact heq
    · cases h

/-- A healthy update: the response offers `o`, available, not banned; the download is good.
    Then it installs `o`, unless `o` turns out to be selected already. -/
theorem afterCheck_healthy (env : Env) (c : Config) (base) (d : Disk) (r : CheckResp) (dl) (o : Offer) (out : Bytes)
    (hst : Settled d c.version) (hp : r.patch = some o) (hav : r.available = true)
    (hnb : o.number ∉ (loadPatchesState d).bad) (hgood : GoodDownload env c.key base dl o out) :
    (afterCheck env c base d r dl).2.1 = .installed ∨
      (loadPatchesState (afterCheck env c base d r dl).1).next.map (·.number) = some o.number := by
  unfold afterCheck
  simp only [hav, not_true_eq_false, if_false, hp]
  have h1 := rollBackIfNeeded_settled env c d r.rolledBack hst
  have hb1 : o.number ∉ (loadPatchesState (rollBackIfNeeded env c d r.rolledBack)).bad := by
    rw [bad_rollBackIfNeeded env c d r.rolledBack hst]; exact hnb
  cases hs : (shouldInstall env c (rollBackIfNeeded env c d r.rolledBack) o.number).2 with
  | knownBad =>
    exfalso
    unfold shouldInstall at hs
    rw [secIsKnownBad_eq c _ o.number h1] at hs
    simp only [hb1, decide_false, Bool.false_eq_true, if_false] at hs
    split at hs <;> cases hs
  | alreadyInstalled => right; simp only []; exact shouldInstall_already env c _ o.number h1 hs
  | ok => left; simp only []; rw [installStage_of_good env c base _ o dl out hgood]

/-- **C05 / C06.** Every model history is accepted by the C05 monitor:
    * 'installed' only with a download that decodes against the bundled base to a file whose
      SHA-256 equals the advertised hash (and is correctly signed when a key is configured), and
      then the selected artifact is byte-identical to that file;
    * every other outcome of an update whose response rolls nothing back, issued on readable state
      of this release with an intact (or no) selection, leaves next-boot patch, current patch and ban
      set exactly as they were;
    * a download that does not verify ends in the error status;
    * a healthy response offering an installable, not banned, not yet selected patch with good
      content installs it — in particular after any earlier failed update (the lock is released,
      leftovers are overwritten). -/
theorem C05_holds (env : Env) (libs : List (String × Bytes)) (ops : List Op) :
    (mon05 libs).accepts env (viewTrace env (World.fresh libs) ops) = true := by
  apply Monitor.accepts_of_inv (mon05 libs) env libs (fun w g => g.cfg = w.config ∧ w.libs = libs)
  · exact ⟨rfl, rfl⟩
  · intro w g op pre hinv hshow
    obtain ⟨hcfg, hlibs⟩ := hinv
    refine ⟨?_, by simp only [mon05]; exact ⟨by rw [step_config, hcfg], by rw [step_libs, hlibs]⟩⟩
    simp only [mon05, hcfg]
    cases op with
    | update chan sc =>
      cases hc : w.config with
      | none => rfl
      | some c =>
        have hen : entersWith w.config (.update chan sc) = some c := by simp [entersWith, hc]
        have hret := update_ret env w c hc chan sc
        rw [updateCore_norm env c (w.base c) w.disk sc] at hret
        have hbase : w.base c = libs.lookup c.libapp := by unfold World.base; rw [hlibs]
        have hst := normDisk_settled w.disk c.version
        have hdisk : (step env w (.update chan sc)).1.disk = (updateCore env c (w.base c) (normDisk w.disk c.version) sc).1 := by
          rw [step_disk_enter env w _ c hen, opDisk_norm env c w _ hen]; rfl
        have hoffer : (Op.update chan sc).offer = sc.resp.bind (·.patch) := rfl
        simp only [hret]
        rw [firstFail_append, firstFail_append]
        refine ⟨⟨?_, ?_⟩, ?_⟩
        · -- outcome clause
          cases hout : (updateCore env c (w.base c) (normDisk w.disk c.version) sc).2.1 with
          | installed =>
            obtain ⟨o, out, ho, hgood, hart, hnext⟩ := update_installed_sound env c (w.base c) _ sc hst hout
            rw [hoffer, ho]
            simp only
            rw [hbase] at hgood
            have hg := (dlGood_iff env libs c sc o).2 ⟨out, hgood⟩
            have hdec := dlDecoded_of_good env libs c sc o out hgood
            rw [firstFail_none_iff]
            intro ck hck
            simp only [List.mem_cons, List.mem_nil_iff, or_false] at hck
            rcases hck with rfl | rfl
            · exact hg
            · simp only [decide_eq_true_eq]
              refine ⟨?_, ?_, ?_⟩
              · simp only [View.nextNum, post_ps, hdisk, hnext]; rfl
              · unfold View.fileOf; rw [postView_art, hdisk, hart, hdec]
              · rw [hdec]; rfl
          | _ =>
            all_goals
              (simp only []
               cases hq : quietUpdate env (some c) c (.update chan sc) pre with
               | false => rfl
               | true =>
                 simp only [quietUpdate, Bool.and_eq_true, decide_eq_true_eq, Bool.not_eq_true'] at hq
                 obtain ⟨⟨hrb, hnr⟩, hvalid⟩ := hq
                 have hsett : Settled w.disk c.version := by
                   by_cases hu : Settled w.disk c.version
                   · exact hu
                   · have := resets_of_unsettled w pre hshow _ c hen hu
                     rw [hc] at this; rw [this] at hnr; cases hnr
                 have hnd : normDisk w.disk c.version = w.disk := by simp [normDisk, hsett]
                 have hps := ps_of_shows hshow
                 have hqq := updateCore_quiet env c (w.base c) w.disk sc hsett
                   (by
                     rw [← hps]
                     cases hn : pre.ps.next with
                     | none => exact Or.inl rfl
                     | some m =>
                       refine Or.inr ⟨m, rfl, ?_⟩
                       rw [hn] at hvalid
                       rw [← valid_of_shows env c.key hshow m]; exact hvalid)
                   (by
                     intro r hr
                     simpa [rolledBackBy, Op.respOf, hr] using hrb)
                   (by rw [← hnd, hout]; simp)
                 have hpj : loadPatchesState (step env w (.update chan sc)).1.disk = pre.ps := by
                   rw [hdisk, hnd, hqq, hps]; unfold loadPatchesState; rw [secClearEvents_pj c w.disk hsett]
                 simp [firstFail, View.curNum, View.lastNum, post_ps, hpj])
        · -- a download that does not verify ends in an error
          cases hcond : ((postView env w (.update chan sc)).net.any isDownload && !dlGood env libs c sc (Op.update chan sc).offer) with
          | false => rfl
          | true =>
            simp only [Bool.and_eq_true, Bool.not_eq_true'] at hcond
            obtain ⟨hdl, hng⟩ := hcond
            simp only [if_true, firstFail]
            have hnet : (postView env w (.update chan sc)).net = updateActs env (withChannel c chan) sc
                (updateCore env c (w.base c) (normDisk w.disk c.version) sc).2.1
                (updateCore env c (w.base c) (normDisk w.disk c.version) sc).2.2.1
                (updateCore env c (w.base c) (normDisk w.disk c.version) sc).2.2.2 := by
              simp only [postView, step, update, hc, World.view]
              rw [updateCore_norm env c (w.base c) w.disk sc]
            rw [hnet] at hdl
            have hreq := any_isDownload_updateActs _ _ _ _ _ _ hdl
            obtain ⟨o, d', ho, hio⟩ := updateCore_requested env c (w.base c) _ sc hreq
            have : (updateCore env c (w.base c) (normDisk w.disk c.version) sc).2.1.status = -1 := by
              rw [hio]
              by_cases hi : (installStage env c (w.base c) d' o sc.dl).2 = .installed
              · exfalso
                obtain ⟨out, hgood, _⟩ := installStage_installed env c (w.base c) d' o sc.dl hi
                rw [hoffer, ho] at hng
                rw [hbase] at hgood
                rw [(dlGood_iff env libs c sc o).2 ⟨out, hgood⟩] at hng
                cases hng
              · exact (installStage_failed env c (w.base c) d' o sc.dl hi).1
            simp [this]
        · -- a healthy update installs
          cases hr : sc.resp with
          | none => rfl
          | some r =>
            rw [hoffer, hr]
            cases hp : r.patch with
            | none => simp [Option.bind, hp]; rfl
            | some off =>
              simp only [Option.bind, hp]
              cases hh : healthyOffer env libs (some c) c (.update chan sc) sc r off pre with
              | false => rfl
              | true =>
                simp only [if_true, firstFail]
                simp only [healthyOffer, Bool.and_eq_true, Bool.not_eq_true', decide_eq_true_eq] at hh
                obtain ⟨⟨⟨⟨⟨hg, hav⟩, hnb⟩, hnr⟩, hnn⟩, hnrb⟩ := hh
                have hsett : Settled w.disk c.version := by
                  by_cases hu : Settled w.disk c.version
                  · exact hu
                  · have := resets_of_unsettled w pre hshow _ c hen hu
                    rw [hc] at this; rw [this] at hnr; cases hnr
                have hnd : normDisk w.disk c.version = w.disk := by simp [normDisk, hsett]
                obtain ⟨out, hgood⟩ := (dlGood_iff env libs c sc off).1 hg
                rw [← hbase] at hgood
                have hps := ps_of_shows hshow
                have goal : (updateCore env c (w.base c) (normDisk w.disk c.version) sc).2.1 = .installed ∨
                    (postView env w (.update chan sc)).nextNum = some off.number := by
                  simp only [View.nextNum, post_ps, hdisk]
                  rw [hnd]
                  unfold updateCore
                  simp only [hr]
                  rw [secCopyEvents_disk c w.disk hsett]
                  have h1 := secClearEvents_settled c w.disk hsett
                  have hb : off.number ∉ (loadPatchesState (secClearEvents c w.disk)).bad := by
                    unfold loadPatchesState; rw [secClearEvents_pj c w.disk hsett]
                    have : off.number ∉ pre.ps.bad := by simpa using hnb
                    rw [hps] at this; exact this
                  exact afterCheck_healthy env c (w.base c) _ r sc.dl off out h1 hp hav hb hgood
                rcases goal with h | h <;> simp [h]
    | _ => rfl

end Updater
