/-
  C14  Repeated initialisation is inert.

  Only the first successful initialisation in a process takes effect. Any later init call — with
  any parameters, at any point of the lifecycle, including while a patch is mid-boot — reports
  failure and changes neither the configuration in use nor anything on disk.
-/
import UpdaterModel.Lemmas.Core

namespace Updater

/-- In particular the patch that is mid-boot is not treated as failed: `currently_booting`, the ban
    set and the event queue are literally the same values. -/
theorem second_init_keeps_booting (env : Env) (w : World) (p : InitParams) (c : Config)
    (h : w.config = some c) :
    (step env w (.init p)).1 = w ∧ (step env w (.init p)).2.1 = .bool false ∧ (step env w (.init p)).2.2 = [] := by
  simp [step, init_configured env w p c h]

/-- Every model history is accepted by the C14 monitor (the one the driver also evaluates on the
    implementation's traces): whenever an init arrives while a configuration is in effect, it
    answers `false` and the storage directory is bit-for-bit what it was. No hypothesis on the
    history: arbitrary call orders, damage, restarts. -/
theorem C14_holds (env : Env) (libs : List (String × Bytes)) (ops : List Op) :
    mon14.accepts env (viewTrace env (World.fresh libs) ops) = true := by
  apply Monitor.accepts_of_inv mon14 env libs (fun w g => g.cfg = w.config)
  · rfl
  · intro w g op pre hinv hshow
    refine ⟨?_, ?_⟩
    · -- checks
      simp only [mon14]
      cases op with
      | init p =>
        cases hc : g.cfg with
        | none => simp [firstFail]
        | some c =>
          have hw : w.config = some c := by rw [← hinv, hc]
          obtain ⟨h1, h2, h3, h4, h5⟩ := hshow
          simp [postView, step, init_configured env w p c hw, firstFail, World.view, h1, h2, h3, h4, h5]
      | auto =>
        cases hc : g.cfg with
        | none => simp [firstFail]
        | some c =>
          have hw : w.config = some c := by rw [← hinv, hc]
          simp [postView, step, shouldAutoUpdate, hw, firstFail, World.view]
      | check chan resp =>
        cases hc : g.cfg with
        | none => simp [firstFail]
        | some c =>
          have hw : w.config = some c := by rw [← hinv, hc]
          simp [postView, step, check, hw, firstFail, World.view]
      | update chan sc =>
        cases hc : g.cfg with
        | none => simp [firstFail]
        | some c =>
          have hw : w.config = some c := by rw [← hinv, hc]
          simp [postView, step, update, updateActs, hw, firstFail, World.view]
      | _ => simp [firstFail]
    · -- invariant
      simp only [mon14]
      rw [step_config, hinv]

/-- Non-vacuity: a history in which a second init with other parameters arrives mid-boot. -/
example : ∃ ops : List Op, ops.length = 2 ∧
    mon14.accepts ⟨fun _ _ _ => true, "linux", "x86_64"⟩ (viewTrace ⟨fun _ _ _ => true, "linux", "x86_64"⟩ (World.fresh []) ops) = true :=
  ⟨[.init { version := "1", storage := "s", cache := "c", libapps := ["l"], yaml := some { appId := "a", channel := none, baseUrl := none, autoUpdate := none, key := none } },
    .init { version := "2", storage := "t", cache := "d", libapps := ["m"], yaml := some { appId := "b", channel := some "x", baseUrl := none, autoUpdate := none, key := none } }],
   rfl, C14_holds _ _ _⟩

end Updater
