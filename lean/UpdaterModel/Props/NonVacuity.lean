/-
  Non-vacuity: concrete, non-trivial states that meet the hypotheses and invariants the property
  theorems are stated with (an implication no state satisfies would prove nothing).
-/
import UpdaterModel.Props.C04
import UpdaterModel.Props.C04Eio
import UpdaterModel.Props.C11
import UpdaterModel.Props.C04Up
import UpdaterModel.Props.C18

namespace Updater.NonVacuity
open Updater

def envN : Env := { verify := fun _ _ _ => false, platform := "linux", arch := "x86_64" }
def m1 : Meta := { number := 1, size := 3, hash := "h1", sig := none }
def m2 : Meta := { number := 2, size := 2, hash := "h2", sig := none }

/-- Patch 1 is the last good patch, patch 2 is installed and selected, patch 7 is banned. -/
def d : Disk :=
  { stateJson := .ok { version := "1.0.0+1", events := [] },
    patchesJson := .ok { last := some m1, next := some m2, booting := none, bad := [7] },
    patches := some { arts := [(1, .file [1, 2, 3]), (2, .file [4, 5])], junk := [] } }

/-- The same while patch 2 boots. -/
def dBoot : Disk := { d with patchesJson := .ok { last := some m1, next := some m2, booting := some m2, bad := [7] } }

def cfg : Config :=
  { appId := "app", channel := "stable", version := "1.0.0+1", baseUrl := "u", key := none, autoUpdate := true,
    storage := "/s", cache := "/c", libapp := "libapp.so" }

example : Settled d cfg.version := ⟨_, rfl, rfl⟩

/-- C02's invariant: the banned number is in no slot. -/
example : BanD d [7] := by
  refine ⟨by intro n h; simpa [loadPatchesState, d, JFile.getD] using h, ?_, ?_, ?_⟩ <;>
    intro x hx <;> simp [loadPatchesState, d, JFile.getD, m1, m2] at hx <;> subst hx <;> simp

/-- C03's invariant: patch 1 is the last good patch with bytes [1,2,3] and every record of it validates. -/
example : GoodD envN none d 1 [1, 2, 3] := by
  refine ⟨by simp [d, Disk.art], ⟨m1, by simp [loadPatchesState, d, JFile.getD], rfl⟩, ?_⟩
  intro x hx hxn
  simp only [InSlot, loadPatchesState, d, JFile.getD] at hx
  rcases hx with h | h | h
  · have : x = m2 := by simpa using h.symm
    subst this; simp [m2] at hxn
  · have : x = m1 := by simpa using h.symm
    subst this; simp [validate, d, Disk.art, m1]
  · simp at h

/-- C09's invariant: patch 2 is selected and every record of it validates. -/
example : SelD envN none d 2 := by
  refine ⟨⟨m2, by simp [loadPatchesState, d, JFile.getD], rfl⟩, ?_⟩
  intro x hx hxn
  simp only [InSlot, loadPatchesState, d, JFile.getD] at hx
  rcases hx with h | h | h
  · have : x = m2 := by simpa using h.symm
    subst this; simp [validate, d, Disk.art, m2, List.lookup]
  · have : x = m1 := by simpa using h.symm
    subst this; simp [m1] at hxn
  · simp at h

/-- C18's invariant: patch 2 is running. -/
example : RunD envN none dBoot 2 := by
  refine ⟨Or.inl ⟨m2, by simp [loadPatchesState, dBoot, d, JFile.getD], rfl⟩, ?_⟩
  intro x hx hxn
  simp only [InSlot, loadPatchesState, dBoot, d, JFile.getD] at hx
  rcases hx with h | h | h
  · have : x = m2 := by simpa using h.symm
    subst this; simp [validate, dBoot, d, Disk.art, m2, List.lookup]
  · have : x = m1 := by simpa using h.symm
    subst this; simp [m1] at hxn
  · have : x = m2 := by simpa using h.symm
    subst this; simp [validate, dBoot, d, Disk.art, m2, List.lookup]

/-- C11: the invariant of an episode holds at its start (an update against a failure report and a query). -/
example : Inv11 envN cfg { resp := none, dl := none } [.failure, .nextN]
    (G11.start envN cfg.key { resp := none, dl := none } [.failure, .nextN] (viewOfDisk dBoot))
    { disk := dBoot, upc := .copyCfg, bq := [.failure, .nextN] } :=
  Inv11_start envN cfg _ _ dBoot ⟨_, rfl, rfl⟩ (by intro op h; simp at h; rcases h with rfl | rfl <;> rfl)

/-- C11: a success report in the middle of an episode makes the booting patch 2 (file intact, slots valid,
    not concerned by the episode's responses) a last good patch the monitor tracks from then on. -/
example : (G11.established envN none {} (viewOfDisk dBoot)).map (·.1) = some 2 := by decide

/-- C04: the hypotheses of `crash_in_progress` are met while patch 2 boots and its failure is reported. -/
example : Settled dBoot cfg.version ∧ (loadPatchesState dBoot).booting = some m2 :=
  ⟨⟨_, rfl, rfl⟩, by simp [loadPatchesState, dBoot, d, JFile.getD]⟩

def pInit : InitParams :=
  { version := "1.0.0+1", storage := "s", cache := "c", libapps := ["l"],
    yaml := some { appId := "app", channel := none, baseUrl := none, autoUpdate := none, key := none } }

/-- C04 (`crash_then_other_release`): an update's rewrite of `state.json` cut short after the truncation is one of
    the crash states the theorem quantifies over, and the directory was not a state of the other release. -/
example : ∃ c, mkConfig pInit = some c ∧ c.version ≠ "2.0.0+1" ∧
    (JFile.garbage, d.patchesJson) ∈ segCrashPairs (launchSegs envN c { disk := d, config := none, libs := [] } pInit
      [.update none { resp := none, dl := none }]) ∧
    ¬ SettledF (files d).1 "2.0.0+1" := by
  refine ⟨_, rfl, by decide, by decide, ?_⟩
  intro ⟨s, hs, hv⟩
  simp only [files, d, JFile.ok.injEq] at hs
  subst hs
  exact absurd hv (by decide)

/-- C04: launches consist of calls. -/
example : ∀ op ∈ [Op.start, Op.update none { resp := none, dl := none }, Op.failure], LaunchOp op := by
  intro op h; simp at h; rcases h with rfl | rfl | rfl <;> trivial

/-- C03 / C09 / C18: a history configuring one key (none) is admissible. -/
example : ∀ op ∈ [Op.start, Op.success, Op.nextN], InitKey none op := by
  intro op _ p c h; simp at *; rcases ‹_› with rfl | rfl | rfl <;> cases h

/-- C04 (I/O error): a process whose launch start could not rewrite `patches_state.json` (the file
    was left untouched) is in a faulted reachable state … -/
example : EReach envN cfg [] d true d :=
  EReach.fault (d := d) .start (files d) d.patches EReach.start ⟨_, rfl, rfl⟩ trivial (Or.inl (crashPairs_head _ _))

/-- … from which the next launch does select a patch (so `eio_safe_next_launch` speaks about something). -/
example : (recover envN cfg d).2 = some 2 := by
  have h1 : loadOrNew d cfg.version = { pm := PM.new d, ss := { version := "1.0.0+1", events := [] } } :=
    loadOrNew_settled d cfg.version _ rfl rfl
  have h2 : secHandlePriorBootFailure envN cfg d = d := by
    simp only [secHandlePriorBootFailure, h1]
    simp [PM.new, loadPatchesState, d, JFile.getD, US.disk]
  rw [recover, h2]
  simp only [secNextBootPatch, h1]
  simp [PM.new, loadPatchesState, d, JFile.getD, PM.nextBootPatch, validate, Disk.art, m2, List.lookup, cfg]

/-- A reset whose first step fails (the emptied `patches_state.json` cannot be written) leaves the old
    records under the new release version — with `patches/` gone: the case `InvE`'s second disjunct is for. -/
example : (createNewAndSaveF d "2.0.0+1" true false false).patchesJson = d.patchesJson ∧
    (createNewAndSaveF d "2.0.0+1" true false false).patches = none ∧
    Settled (createNewAndSaveF d "2.0.0+1" true false false) "2.0.0+1" :=
  ⟨rfl, rfl, ⟨_, rfl, rfl⟩⟩

end Updater.NonVacuity
