/-
  C02 from the calls alone (`mon02b`, Model/Monitor2.lean): the launch in progress is tracked from the
  launch reports themselves, not read off the booting record on disk. `C02b_holds`: every model
  history is accepted. The proof reuses C02's: on model traces the call-level launch is the booting
  record on disk (`Linv`), so the call-level set of failed patches is a subset of the disk-level one,
  and C02's checks are monotone in that set.
-/
import UpdaterModel.Model.Monitor2
import UpdaterModel.Props.C04

namespace Updater

theorem mon02_checks_eq (env : Env) (g : G02) (op : Op) (pre post : View) :
    mon02.checks env g op pre post = checks02 (g.next op pre).failed g.cfg op post := rfl

/-- The checks of `mon02` hold after every step from a state satisfying its invariant (the body of
    `C02_holds`, stated separately). -/
theorem step02_checks (env : Env) (w : World) (g : G02) (op : Op) (pre : View)
    (hcfg : g.cfg = w.config) (hban : BanD w.disk g.failed) (hshow : ShowsDisk w pre) :
    firstFail (mon02.checks env g op pre (postView env w op)) = none := by
    have hgn : G02.next g op pre = { cfg := trackCfg w.config op, failed := failedAfter w.config g.failed op pre } := by
      simp [G02.next, failedAfter, hcfg]
    have hpost : BanD (step env w op).1.disk (failedAfter w.config g.failed op pre) :=
      step_ban env w op g.failed pre hshow hban
    simp only [mon02, hgn]
    rw [firstFail_append]
    refine ⟨?_, ?_⟩
    · -- never selected / never reported
      have hnext : ∀ n, (postView env w op).nextNum = some n → n ∉ failedAfter w.config g.failed op pre := by
        intro n hn
        simp only [View.nextNum, post_ps] at hn
        cases hx : (loadPatchesState (step env w op).1.disk).next with
        | none => simp [hx] at hn
        | some m => simp [hx] at hn; subst hn; exact hpost.2.1 m hx
      have hrep : ∀ n, reportedNext op (postView env w op) = some n → n ∉ failedAfter w.config g.failed op pre := by
        intro n hr
        -- only queries report; they report the selection unless the state was just reset
        have hop : (op = .nextN ∨ op = .nextP) := by
          cases op <;> simp [reportedNext] at hr <;> simp
        cases hc : w.config with
        | none =>
          rcases hop with rfl | rfl <;> simp [reportedNext, postView, step, nextBootPatch, hc, World.view] at hr
        | some c =>
          by_cases hst : Settled w.disk c.version
          · rw [← hc]; exact hnext n (reported_next_settled env w c hc hst op hop n hr)
          · have he : entersWith w.config op = some c := by rcases hop with rfl | rfl <;> simp [entersWith, hc]
            rw [← hc, failedAfter_reset _ _ _ _ (resets_of_unsettled w pre hshow op c he hst)]; simp
      rw [firstFail_none_iff]
      intro c hc
      simp only [List.mem_cons, List.mem_nil_iff, or_false] at hc
      rcases hc with rfl | rfl
      · simp only
        split
        · rename_i n hx; simpa using hnext n hx
        · rfl
      · simp only
        split
        · rename_i n hx; simpa using hrep n hx
        · rfl
    · -- offers of a failed number
      cases op with
      | update chan sc =>
        cases hc : w.config with
        | none => simp [hcfg, hc, firstFail]
        | some c =>
          cases ho : (Op.update chan sc).offer with
          | none => simp [hcfg, hc, ho, firstFail, postView, step, update, World.view]
          | some o =>
            simp only [hcfg, hc, ho, postView, step, update, World.view]
            by_cases hf : (failedAfter (some c) g.failed (.update chan sc) pre).contains o.number = true
            · simp only [hf, if_true]
              have he : entersWith w.config (.update chan sc) = some c := by simp [entersWith, hc]
              by_cases hst : Settled w.disk c.version
              · have hnr := not_resets_of_settled w pre hshow _ c he hst
                rw [hc] at hnr
                have hF : failedAfter (some c) g.failed (.update chan sc) pre = g.failed := by
                  simp [failedAfter, G02.next, Op.isStateDamage, hnr, failedBy]
                rw [hF] at hf
                have hmem : o.number ∈ g.failed := (contains_iff_mem _ _).1 hf
                obtain ⟨r, hr, hp⟩ : ∃ r, sc.resp = some r ∧ r.patch = some o := by
                  simp only [Op.offer, Op.respOf] at ho
                  cases hr : sc.resp with
                  | none => simp [hr] at ho
                  | some r => exact ⟨r, rfl, by simpa [hr] using ho⟩
                have hb := updateCore_banned env c w.disk g.failed (w.base c) sc r o hr hp hst hban hmem
                simp only [firstFail, updateActs, hb.1, hb.2, hr, Option.map]
                by_cases ha : r.available <;>
                  simp [ha, List.any_append, any_isDownload_events, isDownload]
              · rw [hc] at he
                have := failedAfter_reset (some c) g.failed (.update chan sc) pre
                  (by have := resets_of_unsettled w pre hshow _ c (by rw [hc]; exact he) hst; rwa [hc] at this)
                rw [this] at hf; simp at hf
            · have hf' : o.number ∉ failedAfter (some c) g.failed (.update chan sc) pre := by simpa using hf
              simp [hf', firstFail]
      | check chan resp =>
        cases hc : w.config with
        | none => simp [hcfg, hc, firstFail]
        | some c =>
          cases ho : (Op.check chan resp).offer with
          | none => simp [hcfg, hc, ho, firstFail, postView, step, check, World.view]
          | some o =>
            simp only [hcfg, hc, ho, postView, step, check, World.view]
            by_cases hf : (failedAfter (some c) g.failed (.check chan resp) pre).contains o.number = true
            · simp only [hf, if_true]
              obtain ⟨r, hr, hp⟩ : ∃ r, resp = some r ∧ r.patch = some o := by
                simp only [Op.offer, Op.respOf] at ho
                cases hr : resp with
                | none => simp [hr] at ho
                | some r => exact ⟨r, rfl, by simpa [hr] using ho⟩
              subst hr
              have he : entersWith w.config (.check chan (some r)) = some c := by simp [entersWith, hc, hp]
              by_cases hst : Settled w.disk c.version
              · have hnr := not_resets_of_settled w pre hshow _ c he hst
                rw [hc] at hnr
                have hF : failedAfter (some c) g.failed (.check chan (some r)) pre = g.failed := by
                  simp [failedAfter, G02.next, Op.isStateDamage, hnr, failedBy]
                rw [hF] at hf
                have hmem : o.number ∈ g.failed := (contains_iff_mem _ _).1 hf
                have hb := checkCore_banned env c w.disk g.failed r o hp hst hban hmem
                simp [firstFail, hb]
              · have := failedAfter_reset (some c) g.failed (.check chan (some r)) pre
                  (by have := resets_of_unsettled w pre hshow _ c he hst; rwa [hc] at this)
                rw [this] at hf; simp at hf
            · have hf' : o.number ∉ failedAfter (some c) g.failed (.check chan resp) pre := by simpa using hf
              simp [hf', firstFail]
      | _ => simp [firstFail]
/-- C02's checks are monotone: what holds for a set of failed patches holds for every subset. -/
theorem checks02_mono (F' F'' : List Nat) (cfg : Option Config) (op : Op) (post : View)
    (hsub : ∀ x ∈ F', x ∈ F'') (h : firstFail (checks02 F'' cfg op post) = none) :
    firstFail (checks02 F' cfg op post) = none := by
  have hc : ∀ n, F''.contains n = false → F'.contains n = false := by
    intro n hn
    cases hx : F'.contains n with
    | false => rfl
    | true =>
      have := hsub n ((contains_iff_mem _ _).1 hx)
      rw [(contains_iff_mem _ _).2 this] at hn; cases hn
  unfold checks02 at h ⊢
  rw [firstFail_append] at h ⊢
  obtain ⟨h1, h2⟩ := h
  refine ⟨?_, ?_⟩
  · rw [firstFail_none_iff] at h1 ⊢
    intro c hcm
    simp only [List.mem_cons, List.mem_nil_iff, or_false] at hcm
    rcases hcm with rfl | rfl
    · have := h1 _ (List.mem_cons_self)
      simp only at this ⊢
      split
      · rename_i n hx
        rw [hx] at this
        simp only [Bool.not_eq_true'] at this ⊢
        exact hc n this
      · rfl
    · have := h1 _ (List.mem_cons_of_mem _ List.mem_cons_self)
      simp only at this ⊢
      split
      · rename_i n hx
        rw [hx] at this
        simp only [Bool.not_eq_true'] at this ⊢
        exact hc n this
      · rfl
  · -- the offer clauses: the same list, or none at all
    cases op with
    | update chan sc =>
      cases cfg with
      | none => rfl
      | some c =>
        cases ho : (Op.update chan sc).offer with
        | none => simp only [ho]; rfl
        | some o =>
          cases hr : post.ret with
          | upd out =>
            simp only [ho, hr] at h2 ⊢
            cases hf : F'.contains o.number with
            | false => simp [firstFail]
            | true =>
              have hf2 : F''.contains o.number = true := (contains_iff_mem _ _).2 (hsub _ ((contains_iff_mem _ _).1 hf))
              simp only [hf2, if_true] at h2
              simpa using h2
          | _ => simp only [ho, hr]; rfl
    | check chan resp =>
      cases cfg with
      | none => rfl
      | some c =>
        cases ho : (Op.check chan resp).offer with
        | none => simp only [ho]; rfl
        | some o =>
          cases hr : post.ret with
          | bool b =>
            simp only [ho, hr] at h2 ⊢
            cases hf : F'.contains o.number with
            | false => simp [firstFail]
            | true =>
              have hf2 : F''.contains o.number = true := (contains_iff_mem _ _).2 (hsub _ ((contains_iff_mem _ _).1 hf))
              simp only [hf2, if_true] at h2
              simpa using h2
          | _ => simp only [ho, hr]; rfl
    | _ => rfl

/-! ### calls that are not launch reports keep the booting record -/

theorem secInstall_booting (cfg : Config) (d : Disk) (o : Offer) (out : Bytes) (hst : Settled d cfg.version) :
    (loadPatchesState (secInstall cfg d o out)).booting = (loadPatchesState d).booting := by
  obtain ⟨s, hs, hv⟩ := hst
  simp only [secInstall, loadOrNew_settled d _ s hs hv]
  rw [addPatch_coherent, addPatch_ps]; rfl

theorem checkCore_booting (env : Env) (cfg : Config) (d : Disk) (resp : Option CheckResp) (hst : Settled d cfg.version) :
    (loadPatchesState (checkCore env cfg d resp).1).booting = (loadPatchesState d).booting := by
  unfold checkCore
  cases resp with
  | none => rfl
  | some r =>
    simp only []
    have h1 := rollBackIfNeeded_settled env cfg d r.rolledBack hst
    have b1 := rollBackIfNeeded_booting env cfg d r.rolledBack hst
    cases r.patch with
    | none => exact b1
    | some o => exact (shouldInstall_booting env cfg _ o.number h1).trans b1

theorem installStage_booting (env : Env) (cfg : Config) (base : Option Bytes) (d : Disk) (o : Offer) (dl : Option Bytes)
    (hst : Settled d cfg.version) :
    (loadPatchesState (installStage env cfg base d o dl).1).booting = (loadPatchesState d).booting := by
  unfold installStage
  cases dl with
  | none => rfl
  | some stream =>
    cases base with
    | none => rfl
    | some b =>
      simp only
      cases bipatchDecode stream b with
      | error e => rfl
      | ok out =>
        simp only
        split
        · rfl
        · split
          · rfl
          · exact secInstall_booting cfg d o out hst

theorem updateCore_booting (env : Env) (cfg : Config) (base : Option Bytes) (d : Disk) (sc : UpdateScript)
    (hst : Settled d cfg.version) :
    (loadPatchesState (updateCore env cfg base d sc).1).booting = (loadPatchesState d).booting := by
  unfold updateCore
  simp only []
  rw [secCopyEvents_disk cfg d hst]
  have h1 := secClearEvents_settled cfg d hst
  have b1 := secClearEvents_booting cfg d hst
  cases sc.resp with
  | none => exact b1
  | some r =>
    simp only []
    unfold afterCheck
    simp only []
    have h2 := rollBackIfNeeded_settled env cfg _ r.rolledBack h1
    have b2 := (rollBackIfNeeded_booting env cfg _ r.rolledBack h1).trans b1
    split
    · exact b2
    · cases r.patch with
      | none => exact b2
      | some o =>
        simp only []
        have h3 := shouldInstall_settled env cfg _ o.number h2
        have b3 := (shouldInstall_booting env cfg _ o.number h2).trans b2
        split
        · exact b3
        · exact b3
        · exact (installStage_booting env cfg base _ o sc.dl h3).trans b3

/-! ### the call-level monitor accepts every model history -/

/-- On model traces the launch tracked from the calls is the booting record on disk. -/
def Linv (w : World) (g : G02b) : Prop :=
  ∀ n, g.launch = some n → (loadPatchesState w.disk).booting.map (·.number) = some n

/-- What the calls establish as failed, the disk-level monitor establishes too. -/
theorem failedByOps_sub (w : World) (g : G02b) (op : Op) (pre : View) (hs : ShowsDisk w pre) (hl : Linv w g) (n : Nat)
    (h : failedByOps g.cfg g.launch op pre = some n) : failedBy g.cfg op pre = some n := by
  unfold failedByOps at h
  unfold failedBy
  split at h
  · cases h
  · rename_i hr
    simp only [hr, if_false, Bool.false_eq_true]
    have hb : g.launch = some n → pre.bootingNum = some n := fun e => by rw [bootingNum_of_shows hs]; exact hl n e
    cases op <;> simp only [] at h ⊢ <;> first | cases h | skip
    case failure =>
      cases hc : g.cfg with
      | none => simp [hc] at h
      | some c => simp only [hc] at h ⊢; exact hb h
    case init p =>
      cases he : entersWith g.cfg (.init p) with
      | none => simp [he] at h
      | some c => simp only [he] at h ⊢; exact hb h

theorem mem_insertFailed (F : List Nat) (o : Option Nat) (x : Nat) :
    x ∈ insertFailed F o ↔ x ∈ F ∨ o = some x := by
  unfold insertFailed
  cases o with
  | none => simp
  | some n =>
    simp only []
    by_cases hn : F.contains n = true
    · simp only [hn, if_true]
      constructor
      · exact Or.inl
      · rintro (h | h)
        · exact h
        · cases h; exact (contains_iff_mem _ _).1 hn
    · simp only [hn, if_false, Bool.false_eq_true, List.mem_cons]
      constructor
      · rintro (h | h)
        · right; rw [h]
        · exact Or.inl h
      · rintro (h | h)
        · exact Or.inr h
        · cases h; exact Or.inl rfl

theorem G02_next_failed (g : G02) (op : Op) (pre : View) :
    (g.next op pre).failed =
      insertFailed (if op.isStateDamage || resetsState g.cfg op pre then [] else g.failed) (failedBy g.cfg op pre) := by
  unfold G02.next insertFailed
  cases failedBy g.cfg op pre <;> rfl

/-- A call that is neither a launch report nor an effective initialisation, does not reset the state and is not an
    outside rewrite of the state files, keeps the booting record. -/
theorem step_keeps_booting (env : Env) (w : World) (op : Op) (pre : View) (hshow : ShowsDisk w pre)
    (hsd : op.isStateDamage = false) (hrs : resetsState w.config op pre = false)
    (hne : ∀ c, entersWith w.config op = some c →
      op = .nextN ∨ op = .nextP ∨ op = .curN ∨ (∃ ch r, op = .check ch r) ∨ (∃ ch sc, op = .update ch sc)) :
    (loadPatchesState (step env w op).1.disk).booting = (loadPatchesState w.disk).booting := by
  cases he : entersWith w.config op with
  | none =>
    rw [step_disk_noenter env w op he]
    cases op with
    | damage dm =>
      simp only [noenterDisk]
      unfold loadPatchesState; rw [damage_pj w.disk dm hsd]
    | _ => rfl
  | some c =>
    rw [step_disk_enter env w op c he]
    have hst : Settled w.disk c.version := by
      by_cases hu : Settled w.disk c.version
      · exact hu
      · have := resets_of_unsettled w pre hshow op c he hu
        rw [this] at hrs; cases hrs
    rcases hne c he with rfl | rfl | rfl | ⟨ch, r, rfl⟩ | ⟨ch, sc, rfl⟩
    · exact secNextBootPatch_booting env c w.disk hst
    · exact secNextBootPatch_booting env c w.disk hst
    · simp only [opDisk]; rw [secCurrentBootPatch_disk c w.disk hst]
    · exact checkCore_booting env c w.disk r hst
    · exact updateCore_booting env c (w.base c) w.disk sc hst

/-- **C02, from the calls alone.** Every model history is accepted by `mon02b`: once a launch from
    `n` was started (launch start recorded `n` as booting) and then reported as failed — or the process
    ended without any report and was initialised again — `n` is never selected, reported, downloaded or
    installed again, and offers of `n` are answered 'bad patch' / 'no update' / 'nothing to download',
    whatever else happened in between (rollbacks of `n`, installs, checks, queries, artifact damage), for
    as long as the release stays and the state files are not rewritten from outside. -/
theorem C02b_holds (env : Env) (libs : List (String × Bytes)) (ops : List Op) :
    mon02b.accepts env (viewTrace env (World.fresh libs) ops) = true := by
  apply Monitor.accepts_of_inv mon02b env libs (fun w g => g.cfg = w.config ∧ BanD w.disk g.failed ∧ Linv w g)
  · exact ⟨rfl, BanD_nil _, by intro n h; cases h⟩
  · intro w g op pre hinv hshow
    obtain ⟨hcfg, hban, hl⟩ := hinv
    have hpost : BanD (step env w op).1.disk (failedAfter w.config g.failed op pre) :=
      step_ban env w op g.failed pre hshow hban
    have hsub : ∀ x ∈ (g.next op pre (postView env w op)).failed, x ∈ failedAfter w.config g.failed op pre := by
      intro x hx
      simp only [G02b.next] at hx
      simp only [failedAfter]
      rw [G02_next_failed]
      simp only []
      rw [mem_insertFailed] at hx ⊢
      rw [← hcfg]
      rcases hx with hx | hx
      · exact Or.inl hx
      · exact Or.inr (failedByOps_sub w g op pre hshow hl x hx)
    refine ⟨?_, ?_, ?_, ?_⟩
    · -- the checks: those of the disk-level monitor for a superset
      show firstFail (checks02 (g.next op pre (postView env w op)).failed g.cfg op (postView env w op)) = none
      apply checks02_mono _ (failedAfter w.config g.failed op pre) _ _ _ hsub
      have := step02_checks env w { cfg := w.config, failed := g.failed } op pre rfl hban hshow
      rw [mon02_checks_eq] at this
      rw [hcfg]; exact this
    · show trackCfg g.cfg op = (step env w op).1.config
      rw [step_config, hcfg]
    · exact BanD_mono hsub hpost
    · -- the launch tracked from the calls is still the booting record
      intro n hn
      have hn' : launchAfter g.cfg g.launch op pre (postView env w op) = some n := hn
      unfold launchAfter at hn'
      split at hn'
      · cases hn'
      · rename_i hnr
        simp only [Bool.or_eq_true, not_or, Bool.not_eq_true] at hnr
        obtain ⟨hsd, hrs⟩ := hnr
        rw [hcfg] at hrs hn'
        have keep : g.launch = some n →
            (∀ c, entersWith w.config op = some c →
              op = .nextN ∨ op = .nextP ∨ op = .curN ∨ (∃ ch r, op = .check ch r) ∨ (∃ ch sc, op = .update ch sc)) →
            (loadPatchesState (step env w op).1.disk).booting.map (·.number) = some n := by
          intro hg hne
          rw [step_keeps_booting env w op pre hshow hsd hrs hne]
          exact hl n hg
        cases hw : w.config with
        | none =>
          simp only [hw] at hn'
          cases op with
          | init p =>
            simp only [] at hn'
            cases he : entersWith (none : Option Config) (.init p) with
            | some c => simp [he] at hn'
            | none =>
              simp only [he] at hn'
              exact keep hn' (by intro c hc; rw [hw, he] at hc; cases hc)
          | start => exact keep hn' (by intro c hc; simp [hw, entersWith] at hc)
          | success => exact keep hn' (by intro c hc; simp [hw, entersWith] at hc)
          | failure => exact keep hn' (by intro c hc; simp [hw, entersWith] at hc)
          | nextN => exact keep hn' (fun _ _ => Or.inl rfl)
          | nextP => exact keep hn' (fun _ _ => Or.inr (Or.inl rfl))
          | curN => exact keep hn' (fun _ _ => Or.inr (Or.inr (Or.inl rfl)))
          | check ch r => exact keep hn' (fun _ _ => Or.inr (Or.inr (Or.inr (Or.inl ⟨ch, r, rfl⟩))))
          | update ch sc => exact keep hn' (fun _ _ => Or.inr (Or.inr (Or.inr (Or.inr ⟨ch, sc, rfl⟩))))
          | restart => exact keep hn' (by intro c' hc; simp [entersWith] at hc)
          | auto => exact keep hn' (by intro c' hc; simp [entersWith] at hc)
          | damage dm => exact keep hn' (by intro c' hc; simp [entersWith] at hc)
        | some c =>
          simp only [hw] at hn'
          cases op with
          | start =>
            simp only [] at hn'
            rw [← hn']; rfl
          | success => simp at hn'
          | failure => simp at hn'
          | init p =>
            simp only [] at hn'
            have he : entersWith (some c) (.init p) = none := by simp [entersWith]
            simp only [he] at hn'
            exact keep hn' (by intro c' hc; rw [hw, he] at hc; cases hc)
          | nextN => exact keep hn' (fun _ _ => Or.inl rfl)
          | nextP => exact keep hn' (fun _ _ => Or.inr (Or.inl rfl))
          | curN => exact keep hn' (fun _ _ => Or.inr (Or.inr (Or.inl rfl)))
          | check ch r => exact keep hn' (fun _ _ => Or.inr (Or.inr (Or.inr (Or.inl ⟨ch, r, rfl⟩))))
          | update ch sc => exact keep hn' (fun _ _ => Or.inr (Or.inr (Or.inr (Or.inr ⟨ch, sc, rfl⟩))))
          | restart => exact keep hn' (by intro c' hc; simp [entersWith] at hc)
          | auto => exact keep hn' (by intro c' hc; simp [entersWith] at hc)
          | damage dm => exact keep hn' (by intro c' hc; simp [entersWith] at hc)

end Updater
