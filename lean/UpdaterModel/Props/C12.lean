/-
  C12  Calls never wait on the network, and updates never pile up or deadlock.
-/
import UpdaterModel.Model.Monitor

namespace Updater

/-! ### every call's action list is well-formed -/

theorem run_append (st : LockSt) (a b : List Act) :
    st.run (a ++ b) = match st.run a with | none => none | some st' => st'.run b := by
  induction a generalizing st with
  | nil => rfl
  | cons x a ih =>
    simp only [List.cons_append, LockSt.run]
    cases st.act x with
    | none => rfl
    | some st' => exact ih st'

/-- A segment that can run whenever the state lock is not held, and leaves both locks as they were. -/
def Bal (l : List Act) : Prop := ∀ u, LockSt.run ⟨0, u⟩ l = some ⟨0, u⟩

theorem bal_nil : Bal [] := fun _ => rfl
theorem bal_sec : Bal sec := fun u => by simp [sec, LockSt.run, LockSt.act]
theorem bal_N : Bal [.N] := fun u => by simp [LockSt.run, LockSt.act]
theorem bal_append {a b : List Act} (ha : Bal a) (hb : Bal b) : Bal (a ++ b) := by
  intro u; rw [run_append, ha u]; exact hb u
theorem bal_replicateN (k : Nat) : Bal (List.replicate k .N) := by
  induction k with
  | zero => exact bal_nil
  | succ k ih => rw [List.replicate_succ]; exact bal_append (a := [.N]) bal_N ih

theorem wf_of_bal {l : List Act} (h : Bal l) : wellFormed l = true := by
  unfold wellFormed; rw [show ({} : LockSt) = ⟨0, false⟩ from rfl, h false]; rfl

/-- An update: try-lock, a balanced body, release. -/
theorem wf_update {l : List Act} (h : Bal l) : wellFormed ([.T] ++ l ++ [.U]) = true := by
  unfold wellFormed
  have h1 : ({} : LockSt).run ([.T] ++ l ++ [.U]) = (⟨0, true⟩ : LockSt).run (l ++ [.U]) := by
    simp [LockSt.run, LockSt.act]
  rw [h1, run_append, h true]
  simp [LockSt.run, LockSt.act]

theorem bal_shouldInstall (cfg d n) : Bal (shouldInstallActs cfg d n) := by
  unfold shouldInstallActs; split
  · exact bal_sec
  · exact bal_append bal_sec bal_sec

theorem bal_checkActs (env cfg0 d resp) : Bal (checkActs env cfg0 d resp) := by
  unfold checkActs
  apply bal_append bal_N
  cases resp with
  | none => exact bal_nil
  | some r =>
    simp only
    apply bal_append
    · cases r.rolledBack <;> first | exact bal_nil | exact bal_sec
    · cases r.patch with
      | none => exact bal_nil
      | some o => exact bal_shouldInstall _ _ _

theorem bal_afterCheck (env cfg0 base d r dl) : Bal (afterCheckActs env cfg0 base d r dl).1 := by
  unfold afterCheckActs
  have hrb : Bal (match r.rolledBack with | some _ => sec | none => []) := by
    cases r.rolledBack <;> first | exact bal_nil | exact bal_sec
  simp only
  split
  · exact hrb
  · cases r.patch with
    | none => exact hrb
    | some o =>
      simp only
      split
      · exact bal_append hrb bal_sec
      · exact bal_append (bal_append hrb bal_sec) bal_sec
      · apply bal_append (bal_append (bal_append (bal_append hrb bal_sec) bal_sec) bal_N)
        split <;> first | exact bal_sec | exact bal_nil

/-- **No network under the state lock, no re-entry, no update-lock acquisition while holding the
    state lock, everything released** — for every call, from every world, whatever the server does. -/
theorem acts_wellFormed (env : Env) (w : World) (op : Op) : wellFormed (lockActs env w op).1 = true := by
  cases op with
  | init p =>
    simp only [lockActs]
    cases p.yaml <;> cases p.libapps <;> simp only [] <;> (try exact wf_of_bal bal_nil)
    cases w.config
    · exact wf_of_bal (bal_append bal_sec bal_sec)
    · exact wf_of_bal bal_sec
  | restart => exact wf_of_bal bal_nil
  | damage dm => exact wf_of_bal bal_nil
  | start => exact wf_of_bal bal_sec
  | failure => exact wf_of_bal bal_sec
  | nextN => exact wf_of_bal bal_sec
  | nextP => exact wf_of_bal bal_sec
  | curN => exact wf_of_bal bal_sec
  | auto => exact wf_of_bal bal_sec
  | success => exact wf_of_bal bal_sec
  | check chan resp =>
    simp only [lockActs]
    cases w.config with
    | none => exact wf_of_bal bal_sec
    | some c => exact wf_of_bal (bal_append bal_sec (bal_checkActs _ _ _ _))
  | update chan sc =>
    simp only [lockActs]
    cases w.config with
    | none => exact wf_update bal_sec
    | some c =>
      simp only
      have hpre : Bal (sec ++ sec ++ List.replicate (secCopyEvents c w.disk).2.length Act.N ++ sec ++ [Act.N]) :=
        bal_append (bal_append (bal_append (bal_append bal_sec bal_sec) (bal_replicateN _)) bal_sec) bal_N
      cases sc.resp with
      | none => exact wf_update hpre
      | some r =>
        simp only
        have := wf_update (bal_append hpre (bal_afterCheck env c (w.base c) (secClearEvents c (secCopyEvents c w.disk).1) r sc.dl))
        simpa [List.append_assoc] using this

/-- The model's own traces pass the monitor that is evaluated on the implementation's logged
    traces (the correspondence check compares the two traces action by action). -/
theorem C12_monitor_on_model (env : Env) (w : World) (op : Op) :
    wellFormed (lockActs env w op).1 = true := acts_wellFormed env w op

/-- A second update requested while one runs touches neither the state lock nor the network. -/
theorem busy_update_inert : ∀ a ∈ busyUpdateActs, a ≠ .A ∧ a ≠ .N := by decide

/-! ### no ordering of calls can deadlock -/

/-- Global configuration: the remaining actions of every thread, who holds the state lock (by
    index), and whether the update lock is held. -/
structure Global where
  threads : List (List Act)
  sHolder : Option Nat := none
  uHeld : Bool := false

/-- Thread `i` can take its next action now. Only `A` can ever block. -/
def Global.enabled (g : Global) (i : Nat) : Bool :=
  match g.threads[i]? with
  | some (.A :: _) => g.sHolder.isNone
  | some (_ :: _) => true
  | _ => false

/-- Each thread's remaining list is the tail of a well-formed call sequence, and the holder of the
    state lock is about to release it (critical sections contain no other lock / network action). -/
def Global.Consistent (g : Global) : Prop :=
  ∀ i, g.sHolder = some i → ∃ rest, g.threads[i]? = some (.R :: rest)

/-- **Progress.** In every consistent configuration, if some thread still has actions then some
    thread is enabled: the only blocking operation is acquiring the state lock, and its holder's
    next action is the release. Hence no schedule of any number of threads deadlocks. -/
theorem progress (g : Global) (hc : g.Consistent) (i : Nat) (a : Act) (rest : List Act)
    (hi : g.threads[i]? = some (a :: rest)) : ∃ j, g.enabled j = true := by
  cases hs : g.sHolder with
  | none =>
    refine ⟨i, ?_⟩
    unfold Global.enabled
    rw [hi]
    cases a <;> simp [hs]
  | some k =>
    obtain ⟨r, hr⟩ := hc k hs
    refine ⟨k, ?_⟩
    unfold Global.enabled
    rw [hr]

/-- In a well-formed call, the action right after every `A` is `R`: a critical section contains no
    network call, no lock acquisition, nothing that can block. -/
def sectionsAtomic : List Act → Bool
  | [] => true
  | .A :: .R :: rest => sectionsAtomic rest
  | .A :: _ => false
  | _ :: rest => sectionsAtomic rest

/-- Closure form: `l` can be put in front of any atomic list. -/
def Atom (l : List Act) : Prop := ∀ b, sectionsAtomic b = true → sectionsAtomic (l ++ b) = true

theorem atom_nil : Atom [] := fun _ h => h
theorem atom_sec : Atom sec := fun b h => by simpa [sec, sectionsAtomic] using h
theorem atom_N : Atom [.N] := fun b h => by simpa [sectionsAtomic] using h
theorem atom_T : Atom [.T] := fun b h => by simpa [sectionsAtomic] using h
theorem atom_U : Atom [.U] := fun b h => by simpa [sectionsAtomic] using h
theorem atom_append {a b : List Act} (ha : Atom a) (hb : Atom b) : Atom (a ++ b) := by
  intro c hc; rw [List.append_assoc]; exact ha _ (hb c hc)
theorem atom_replicateN (k : Nat) : Atom (List.replicate k .N) := by
  induction k with
  | zero => exact atom_nil
  | succ k ih => rw [List.replicate_succ]; exact atom_append (a := [.N]) atom_N ih
theorem atomic_of_atom {l : List Act} (h : Atom l) : sectionsAtomic l = true := by
  have := h [] rfl; simpa using this

theorem atom_shouldInstall (cfg d n) : Atom (shouldInstallActs cfg d n) := by
  unfold shouldInstallActs; split
  · exact atom_sec
  · exact atom_append atom_sec atom_sec

theorem atom_checkActs (env cfg0 d resp) : Atom (checkActs env cfg0 d resp) := by
  unfold checkActs
  apply atom_append atom_N
  cases resp with
  | none => exact atom_nil
  | some r =>
    simp only
    apply atom_append
    · cases r.rolledBack <;> first | exact atom_nil | exact atom_sec
    · cases r.patch with
      | none => exact atom_nil
      | some o => exact atom_shouldInstall _ _ _

theorem atom_afterCheck (env cfg0 base d r dl) : Atom (afterCheckActs env cfg0 base d r dl).1 := by
  unfold afterCheckActs
  have hrb : Atom (match r.rolledBack with | some _ => sec | none => []) := by
    cases r.rolledBack <;> first | exact atom_nil | exact atom_sec
  simp only
  split
  · exact hrb
  · cases r.patch with
    | none => exact hrb
    | some o =>
      simp only
      split
      · exact atom_append hrb atom_sec
      · exact atom_append (atom_append hrb atom_sec) atom_sec
      · apply atom_append (atom_append (atom_append (atom_append hrb atom_sec) atom_sec) atom_N)
        split <;> first | exact atom_sec | exact atom_nil

/-- **Critical sections are atomic and non-blocking**: in every call the action right after each
    acquisition of the state lock is its release. (This is what makes `Global.Consistent` hold along
    every execution, so `progress` applies to every schedule.) -/
theorem acts_sectionsAtomic (env : Env) (w : World) (op : Op) : sectionsAtomic (lockActs env w op).1 = true := by
  apply atomic_of_atom
  cases op with
  | init p =>
    simp only [lockActs]
    cases p.yaml <;> cases p.libapps <;> simp only [] <;> (try exact atom_nil)
    cases w.config
    · exact atom_append atom_sec atom_sec
    · exact atom_sec
  | restart => exact atom_nil
  | damage dm => exact atom_nil
  | start => exact atom_sec
  | failure => exact atom_sec
  | nextN => exact atom_sec
  | nextP => exact atom_sec
  | curN => exact atom_sec
  | auto => exact atom_sec
  | success => exact atom_sec
  | check chan resp =>
    simp only [lockActs]
    cases w.config with
    | none => exact atom_sec
    | some c => exact atom_append atom_sec (atom_checkActs _ _ _ _)
  | update chan sc =>
    simp only [lockActs]
    cases w.config with
    | none => exact atom_append (atom_append atom_T atom_sec) atom_U
    | some c =>
      simp only
      have hpre : Atom (sec ++ sec ++ List.replicate (secCopyEvents c w.disk).2.length Act.N ++ sec ++ [Act.N]) :=
        atom_append (atom_append (atom_append (atom_append atom_sec atom_sec) (atom_replicateN _)) atom_sec) atom_N
      cases sc.resp with
      | none => exact atom_append (atom_append atom_T hpre) atom_U
      | some r =>
        exact atom_append (atom_append (atom_append atom_T hpre) (atom_afterCheck env c (w.base c) _ r sc.dl)) atom_U

end Updater
