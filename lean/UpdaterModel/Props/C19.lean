/-
  C19  Superseded, failed and rolled-back artifacts are reclaimed.

  After a patch boots successfully no artifact with a lower number remains, other than a patch that
  is selected to boot next; the artifact of a patch that failed to boot or was rolled back is
  removed at that moment; a downloaded patch that is replaced by another install before it ever
  booted, while an earlier patch is the last good one, is removed at that install; and after a
  release change no artifact of the old release remains.
-/
import UpdaterModel.Props.C10

namespace Updater

/-! ### (i) after a successful boot -/

/-- Success sweep: every remaining entry is not lower than the booted patch, or is the selection. -/
theorem success_sweeps (env : Env) (cfg : Config) (d : Disk) (bp : Meta)
    (hst : Settled d cfg.version) (hb : (loadPatchesState d).booting = some bp) :
    ∀ e ∈ (secLaunchSuccess env cfg d).1.artsList,
      ¬ e.1 < bp.number ∨ (loadPatchesState (secLaunchSuccess env cfg d).1).next.map (·.number) = some e.1 := by
  obtain ⟨s, hs, hv⟩ := hst
  have hb' : (PM.new d).ps.booting = some bp := hb
  have hdisk : (secLaunchSuccess env cfg d).1 = (PM.new d).recordBootSuccess.1.disk := by
    simp only [secLaunchSuccess, loadOrNew_settled d _ s hs hv, hb']
    split <;> (try split) <;> rfl
  rw [hdisk]
  have hc := recordBootSuccess_coherent (PM.new d) (PM.new_coherent d)
  rw [hc, recordBootSuccess_ps_next]
  intro e he
  unfold PM.recordBootSuccess at he
  simp only [hb'] at he
  unfold PM.deleteOlderThan Disk.artsList at he
  cases hp : (PM.new d).disk.patches with
  | none => simp [hp, PM.save] at he
  | some p =>
    simp only [hp, PM.save, List.mem_filter, decide_eq_true_eq] at he
    have h2 := he.2
    by_cases hlt : e.1 < bp.number
    · right
      have : ¬ (some e.1 ≠ Option.map (fun x => x.number) (PM.new d).ps.next) := fun hne => h2 ⟨hlt, hne⟩
      exact (Classical.not_not.1 this).symm
    · exact Or.inl hlt

end Updater

namespace Updater

/-! ### (ii) a failed patch's artifact is removed at that moment -/

theorem failure_removes (env : Env) (cfg : Config) (d : Disk) (p : Meta)
    (hst : Settled d cfg.version) (hb : (loadPatchesState d).booting = some p) :
    (secLaunchFailure env cfg d).art p.number = none ∧ (secHandlePriorBootFailure env cfg d).art p.number = none := by
  obtain ⟨s, hs, hv⟩ := hst
  have hb' : (PM.new d).ps.booting = some p := hb
  constructor
  · simp only [secLaunchFailure, loadOrNew_settled d _ s hs hv, hb']
    show ((PM.new d).recordBootFailure env cfg.key p.number).disk.art p.number = none
    unfold PM.recordBootFailure; exact art_tryFallBack_self _ _ _ _
  · simp only [secHandlePriorBootFailure, loadOrNew_settled d _ s hs hv, hb']
    show ((PM.new d).recordBootFailure env cfg.key p.number).disk.art p.number = none
    unfold PM.recordBootFailure; exact art_tryFallBack_self _ _ _ _

/-! ### (iii) rolled-back artifacts are removed, unless re-installed by the same update -/

theorem artSub_none {d' d : Disk} (h : ArtSub d' d) (n : Nat) (hn : d.art n = none) : d'.art n = none := by
  rcases h n with h' | h'
  · exact h'
  · rw [h', hn]

theorem check_rollback_removes (env : Env) (cfg : Config) (d : Disk) (r : CheckResp) (n : Nat)
    (hst : Settled d cfg.version) (hn : n ∈ r.rolledBack.getD []) :
    (checkCore env cfg d (some r)).1.art n = none := by
  cases hrb : r.rolledBack with
  | none => simp [hrb] at hn
  | some ns =>
    simp only [hrb, Option.getD] at hn
    unfold checkCore
    simp only [hrb]
    have h1 := rollBackIfNeeded_settled env cfg d (some ns) hst
    have a1 := art_rollBack_mem env cfg d ns n hn hst
    cases r.patch with
    | none => exact a1
    | some o => exact artSub_none (artSub_shouldInstall env cfg _ o.number h1) n a1

theorem art_secInstall (cfg : Config) (d : Disk) (o : Offer) (out : Bytes) (hst : Settled d cfg.version) (k : Nat) :
    (secInstall cfg d o out).art k = ((PM.new d).addPatch o.number out o.hash o.sig).disk.art k := by
  obtain ⟨s, hs, hv⟩ := hst
  simp only [secInstall, loadOrNew_settled d _ s hs hv]

theorem art_secInstall_other_none (cfg : Config) (d : Disk) (o : Offer) (out : Bytes) (hst : Settled d cfg.version)
    (k : Nat) (hk : k ≠ o.number) (hn : d.art k = none) : (secInstall cfg d o out).art k = none := by
  rw [art_secInstall cfg d o out hst, art_addPatch]
  simp only [hk, if_false]
  have hn' : (PM.new d).disk.art k = none := hn
  cases (PM.new d).ps.last <;> cases (PM.new d).ps.next <;> simp only [] <;> (try split) <;> (try split) <;>
    first | rfl | exact hn'

theorem afterCheck_rollback_removes (env : Env) (cfg : Config) (base) (d : Disk) (r : CheckResp) (dl) (n : Nat)
    (hst : Settled d cfg.version) (hn : n ∈ r.rolledBack.getD []) :
    (afterCheck env cfg base d r dl).1.art n = none ∨
    ((afterCheck env cfg base d r dl).2.1 = .installed ∧ ∃ o, r.patch = some o ∧ o.number = n) := by
  cases hrb : r.rolledBack with
  | none => simp [hrb] at hn
  | some ns =>
    simp only [hrb, Option.getD] at hn
    have h1 := rollBackIfNeeded_settled env cfg d (some ns) hst
    have a1 := art_rollBack_mem env cfg d ns n hn hst
    rcases afterCheck_cases env cfg base d r dl with ⟨_, hd⟩ | ⟨o, stream, b, out, hp, _, _, _, _, _, _, _, e6⟩
    · left
      rw [hrb] at hd
      rcases hd with hd | ⟨o, _, hd⟩
      · rw [hd]; exact a1
      · rw [hd]; exact artSub_none (artSub_shouldInstall env cfg _ o.number h1) n a1
    · rw [hrb] at e6
      by_cases hno : n = o.number
      · right; rw [e6]; exact ⟨rfl, o, hp, hno.symm⟩
      · left
        rw [e6]
        exact art_secInstall_other_none cfg _ o out (shouldInstall_settled env cfg _ o.number h1) n hno
          (artSub_none (artSub_shouldInstall env cfg _ o.number h1) n a1)

/-! ### (v) nothing of the old release remains after a release change -/

section
variable (env : Env) (c : Config) (d : Disk) (hu : ¬ Settled d c.version)
include hu

theorem secHandlePrior_clean : secHandlePriorBootFailure env c d = secHandlePriorBootFailure env c (cleanDisk c.version) := by
  simp only [secHandlePriorBootFailure, loadOrNew_clean d c.version hu]
theorem secLaunchStart_clean : secLaunchStart env c d = secLaunchStart env c (cleanDisk c.version) := by
  simp only [secLaunchStart, loadOrNew_clean d c.version hu]
theorem secLaunchSuccess_clean : secLaunchSuccess env c d = secLaunchSuccess env c (cleanDisk c.version) := by
  simp only [secLaunchSuccess, loadOrNew_clean d c.version hu]
theorem secLaunchFailure_clean : secLaunchFailure env c d = secLaunchFailure env c (cleanDisk c.version) := by
  simp only [secLaunchFailure, loadOrNew_clean d c.version hu]
theorem secNextBootPatch_clean : secNextBootPatch env c d = secNextBootPatch env c (cleanDisk c.version) := by
  simp only [secNextBootPatch, loadOrNew_clean d c.version hu]
theorem secCurrentBootPatch_clean : secCurrentBootPatch c d = secCurrentBootPatch c (cleanDisk c.version) := by
  simp only [secCurrentBootPatch, loadOrNew_clean d c.version hu]
theorem secCopyEvents_clean : secCopyEvents c d = secCopyEvents c (cleanDisk c.version) := by
  simp only [secCopyEvents, loadOrNew_clean d c.version hu]
theorem secRollBack_clean (ns : List Nat) : secRollBack env c d ns = secRollBack env c (cleanDisk c.version) ns := by
  simp only [secRollBack, loadOrNew_clean d c.version hu]
theorem secIsKnownBad_clean (n : Nat) : secIsKnownBad c d n = secIsKnownBad c (cleanDisk c.version) n := by
  simp only [secIsKnownBad, loadOrNew_clean d c.version hu]
theorem shouldInstall_clean (n : Nat) : shouldInstall env c d n = shouldInstall env c (cleanDisk c.version) n := by
  unfold shouldInstall; rw [secIsKnownBad_clean c d hu n]

theorem checkCore_clean (r : CheckResp) (hen : (r.rolledBack.isSome || r.patch.isSome) = true) :
    checkCore env c d (some r) = checkCore env c (cleanDisk c.version) (some r) := by
  unfold checkCore rollBackIfNeeded
  cases hrb : r.rolledBack with
  | some ns => simp only [hrb]; rw [secRollBack_clean env c d hu ns]
  | none =>
    cases hp : r.patch with
    | none => simp [hrb, hp] at hen
    | some o => simp only [hrb, hp]; rw [shouldInstall_clean env c d hu o.number]

theorem updateCore_clean (base) (sc : UpdateScript) :
    updateCore env c base d sc = updateCore env c base (cleanDisk c.version) sc := by
  unfold updateCore; rw [secCopyEvents_clean c d hu]

end

/-- Every call that enters on an unsettled disk acts on the clean disk of the new release. -/
theorem opDisk_unsettled (env : Env) (c : Config) (w : World) (op : Op)
    (he : entersWith w.config op = some c) (hu : ¬ Settled w.disk c.version) :
    opDisk env c w op = opDisk env c { w with disk := cleanDisk c.version } op := by
  cases op with
  | restart => simp [entersWith] at he
  | auto => simp [entersWith] at he
  | damage dm => simp [entersWith] at he
  | init p => simp only [opDisk]; exact secHandlePrior_clean env c w.disk hu
  | start => simp only [opDisk]; exact secLaunchStart_clean env c w.disk hu
  | success => simp only [opDisk]; rw [secLaunchSuccess_clean env c w.disk hu]
  | failure => simp only [opDisk]; exact secLaunchFailure_clean env c w.disk hu
  | nextN => simp only [opDisk]; rw [secNextBootPatch_clean env c w.disk hu]
  | nextP => simp only [opDisk]; rw [secNextBootPatch_clean env c w.disk hu]
  | curN => simp only [opDisk]; rw [secCurrentBootPatch_clean c w.disk hu]
  | check chan resp =>
    cases resp with
    | none => simp [entersWith] at he
    | some r =>
      simp only [opDisk]
      have hen : (r.rolledBack.isSome || r.patch.isSome) = true := by
        simp only [entersWith] at he
        split at he
        · assumption
        · cases he
      rw [checkCore_clean env c w.disk hu r hen]
  | update chan sc =>
    simp only [opDisk]
    rw [updateCore_clean env c w.disk hu]
    rfl

end Updater

namespace Updater

theorem arts_nil_of_lookup_none (l : Arts) (h : ∀ k, l.lookup k = none) : l = [] := by
  cases l with
  | nil => rfl
  | cons e l => have := h e.1; simp [List.lookup_cons] at this

theorem artsList_nil_of_art_none (d : Disk) (h : ∀ k, d.art k = none) : d.artsList = [] := by
  unfold Disk.artsList
  cases hp : d.patches with
  | none => rfl
  | some p =>
    apply arts_nil_of_lookup_none
    intro k; have := h k; simpa [Disk.art, hp] using this

theorem artSub_updateCore_noinstall (env : Env) (cfg : Config) (base) (d : Disk) (sc : UpdateScript)
    (hst : Settled d cfg.version) (hni : (updateCore env cfg base d sc).2.1 ≠ .installed) :
    ArtSub (updateCore env cfg base d sc).1 d := by
  unfold updateCore at hni ⊢
  simp only [] at hni ⊢
  rw [secCopyEvents_disk cfg d hst] at hni ⊢
  have h1 := secClearEvents_settled cfg d hst
  have a1 := artSub_secClearEvents cfg d hst
  cases hresp : sc.resp with
  | none => simpa [hresp] using a1
  | some r =>
    simp only [hresp] at hni ⊢
    have h2 := rollBackIfNeeded_settled env cfg _ r.rolledBack h1
    have a2 := (artSub_rollBackIfNeeded env cfg _ r.rolledBack h1).trans a1
    rcases afterCheck_cases env cfg base (secClearEvents cfg d) r sc.dl with ⟨_, hd⟩ | ⟨o, stream, b, out, _, _, _, _, _, _, _, _, e6⟩
    · rcases hd with hd | ⟨o, _, hd⟩
      · rw [hd]; exact a2
      · rw [hd]; exact (artSub_shouldInstall env cfg _ o.number h2).trans a2
    · rw [e6] at hni; exact absurd rfl hni

/-- A call that does not install creates no artifact. -/
theorem artSub_opDisk (env : Env) (c : Config) (w : World) (op : Op) (hst : Settled w.disk c.version)
    (hni : ∀ chan sc, op = .update chan sc → (updateCore env c (w.base c) w.disk sc).2.1 ≠ .installed) :
    ArtSub (opDisk env c w op) w.disk := by
  cases op with
  | init p => exact artSub_secHandlePrior env c w.disk hst
  | start => exact artSub_secLaunchStart env c w.disk hst
  | success => exact artSub_secLaunchSuccess env c w.disk hst
  | failure => exact artSub_secLaunchFailure env c w.disk hst
  | nextN => exact artSub_secNextBootPatch env c w.disk hst
  | nextP => exact artSub_secNextBootPatch env c w.disk hst
  | curN => simp only [opDisk]; rw [secCurrentBootPatch_disk c w.disk hst]; exact ArtSub.refl _
  | check chan resp => exact artSub_checkCore env c w.disk resp hst
  | update chan sc => exact artSub_updateCore_noinstall env c (w.base c) w.disk sc hst (hni chan sc rfl)
  | restart => exact ArtSub.refl _
  | auto => exact ArtSub.refl _
  | damage dm => exact ArtSub.refl _

end Updater

namespace Updater

/-! ### (iv) a never-booted patch replaced by another install is removed at that install -/

/-- Stage invariant for (iv): either `p`'s artifact is already gone, or `p` is still the pending
    selection, not the booting patch, and the last good patch is still the original one (or was
    dropped). -/
def Pending (d : Disk) (p : Meta) (lnum : Nat) : Prop :=
  d.art p.number = none ∨
  ((loadPatchesState d).next = some p ∧ (loadPatchesState d).booting.map (·.number) ≠ some p.number ∧
    ((loadPatchesState d).last = none ∨ ∃ l, (loadPatchesState d).last = some l ∧ l.number = lnum))

theorem pending_of_coherent (pm : PM) (p : Meta) (lnum : Nat) (hc : pm.Coherent)
    (h : pm.disk.art p.number = none ∨
      (pm.ps.next = some p ∧ pm.ps.booting.map (·.number) ≠ some p.number ∧
        (pm.ps.last = none ∨ ∃ l, pm.ps.last = some l ∧ l.number = lnum))) : Pending pm.disk p lnum := by
  unfold Pending; rw [hc]; exact h

theorem fallBackPS_pending (ps : PatchesState) (x : Nat) (v : Bool) (p : Meta) (lnum : Nat)
    (hx : x ≠ p.number)
    (h : ps.next = some p ∧ ps.booting.map (·.number) ≠ some p.number ∧
      (ps.last = none ∨ ∃ l, ps.last = some l ∧ l.number = lnum)) :
    (fallBackPS ps x v).next = some p ∧ (fallBackPS ps x v).booting.map (·.number) ≠ some p.number ∧
      ((fallBackPS ps x v).last = none ∨ ∃ l, (fallBackPS ps x v).last = some l ∧ l.number = lnum) := by
  obtain ⟨hn, hb, hl⟩ := h
  refine ⟨?_, by simpa using hb, ?_⟩
  · unfold fallBackPS
    have : ¬ p.number = x := fun e => hx e.symm
    cases hls : ps.last <;> simp only [hn, this, if_false] <;> (try split) <;> rfl
  · unfold fallBackPS
    cases hls : ps.last with
    | none => simp
    | some lb =>
      simp only
      split
      · right
        rcases hl with hl | ⟨l, hl, hln⟩
        · rw [hls] at hl; cases hl
        · rw [hls] at hl; cases hl; exact ⟨lb, rfl, hln⟩
      · left; rfl

theorem tryFallBack_pending (env key) (pm : PM) (x : Nat) (p : Meta) (lnum : Nat) (hx : x ≠ p.number)
    (h : pm.disk.art p.number = none ∨
      (pm.ps.next = some p ∧ pm.ps.booting.map (·.number) ≠ some p.number ∧
        (pm.ps.last = none ∨ ∃ l, pm.ps.last = some l ∧ l.number = lnum))) :
    (pm.tryFallBack env key x).disk.art p.number = none ∨
      ((pm.tryFallBack env key x).ps.next = some p ∧ (pm.tryFallBack env key x).ps.booting.map (·.number) ≠ some p.number ∧
        ((pm.tryFallBack env key x).ps.last = none ∨ ∃ l, (pm.tryFallBack env key x).ps.last = some l ∧ l.number = lnum)) := by
  rcases h with h | h
  · left; exact artSub_none (artSub_tryFallBack env key pm x) _ h
  · right; rw [tryFallBack_ps]; exact fallBackPS_pending _ _ _ _ _ hx h

theorem foldFallBack_pending (env key) (ns : List Nat) (pm : PM) (p : Meta) (lnum : Nat) (hx : p.number ∉ ns)
    (h : pm.disk.art p.number = none ∨
      (pm.ps.next = some p ∧ pm.ps.booting.map (·.number) ≠ some p.number ∧
        (pm.ps.last = none ∨ ∃ l, pm.ps.last = some l ∧ l.number = lnum))) :
    let pm' := ns.foldl (fun pm n => pm.tryFallBack env key n) pm
    pm'.disk.art p.number = none ∨
      (pm'.ps.next = some p ∧ pm'.ps.booting.map (·.number) ≠ some p.number ∧
        (pm'.ps.last = none ∨ ∃ l, pm'.ps.last = some l ∧ l.number = lnum)) := by
  induction ns generalizing pm with
  | nil => exact h
  | cons n ns ih =>
    simp only [List.foldl]
    apply ih
    · exact fun hm => hx (List.mem_cons_of_mem _ hm)
    · exact tryFallBack_pending env key pm n p lnum (fun e => hx (by rw [e]; exact List.mem_cons_self)) h

theorem nextBootPatch_pending (env key) (pm : PM) (p : Meta) (lnum : Nat)
    (h : pm.disk.art p.number = none ∨
      (pm.ps.next = some p ∧ pm.ps.booting.map (·.number) ≠ some p.number ∧
        (pm.ps.last = none ∨ ∃ l, pm.ps.last = some l ∧ l.number = lnum))) :
    let pm' := (pm.nextBootPatch env key).1
    pm'.disk.art p.number = none ∨
      (pm'.ps.next = some p ∧ pm'.ps.booting.map (·.number) ≠ some p.number ∧
        (pm'.ps.last = none ∨ ∃ l, pm'.ps.last = some l ∧ l.number = lnum)) := by
  rcases h with h | h
  · left; exact artSub_none (artSub_nextBootPatch env key pm) _ h
  · unfold PM.nextBootPatch
    simp only [h.1]
    split
    · right; exact h
    · left; exact art_tryFallBack_self _ _ _ _

section
variable (env : Env) (cfg : Config) (d : Disk) (p : Meta) (lnum : Nat)

theorem secClearEvents_pending (hst : Settled d cfg.version) (h : Pending d p lnum) : Pending (secClearEvents cfg d) p lnum := by
  obtain ⟨s, hs, hv⟩ := hst
  simp only [secClearEvents, loadOrNew_settled d _ s hs hv]
  exact h

theorem rollBackIfNeeded_pending (rb : Option (List Nat)) (hst : Settled d cfg.version) (hx : p.number ∉ rb.getD [])
    (h : Pending d p lnum) : Pending (rollBackIfNeeded env cfg d rb) p lnum := by
  cases rb with
  | none => exact h
  | some ns =>
    obtain ⟨s, hs, hv⟩ := hst
    simp only [rollBackIfNeeded, secRollBack, loadOrNew_settled d _ s hs hv]
    exact pending_of_coherent _ _ _ (foldFallBack_ban env cfg.key ns (PM.new d) [] (PM.new_coherent d) (BanPS_nil _)).1
      (foldFallBack_pending env cfg.key ns (PM.new d) p lnum (by simpa using hx) h)

theorem shouldInstall_pending (n : Nat) (hst : Settled d cfg.version) (h : Pending d p lnum) :
    Pending (shouldInstall env cfg d n).1 p lnum := by
  unfold shouldInstall
  rw [secIsKnownBad_eq cfg d n hst]
  simp only
  have key : Pending (secNextBootPatch env cfg d).1 p lnum := by
    obtain ⟨s, hs, hv⟩ := hst
    simp only [secNextBootPatch, loadOrNew_settled d _ s hs hv]
    exact pending_of_coherent _ _ _ (nextBootPatch_coherent env cfg.key (PM.new d) (PM.new_coherent d))
      (nextBootPatch_pending env cfg.key (PM.new d) p lnum h)
  split
  · exact h
  · split <;> exact key

/-- The install removes the artifact of the pending patch it replaces. -/
theorem secInstall_supersedes (o : Offer) (out : Bytes) (hst : Settled d cfg.version) (h : Pending d p lnum)
    (hpn : p.number ≠ o.number) (hpl : p.number ≠ lnum)
    (hlast : ∃ l, (loadPatchesState (secInstall cfg d o out)).last = some l ∧ l.number = lnum) :
    (secInstall cfg d o out).art p.number = none := by
  rw [art_secInstall cfg d o out hst, art_addPatch]
  simp only [hpn, if_false]
  obtain ⟨s, hs, hv⟩ := hst
  have hlast' : ∃ l, (PM.new d).ps.last = some l ∧ l.number = lnum := by
    simp only [secInstall, loadOrNew_settled d _ s hs hv] at hlast
    rw [addPatch_coherent, addPatch_ps] at hlast
    exact hlast
  obtain ⟨l, hl, hln⟩ := hlast'
  rcases h with h | ⟨hn, hb, _⟩
  · have h' : (PM.new d).disk.art p.number = none := h
    simp only [hl]
    cases (PM.new d).ps.next <;> simp only [] <;> (try split) <;> (try split) <;> first | rfl | exact h'
  · have hn' : (PM.new d).ps.next = some p := hn
    have hb' : ¬ ((PM.new d).ps.booting.map (·.number) = some p.number) := hb
    simp only [hl, hn']
    have : l.number ≠ p.number := by rw [hln]; exact fun e => hpl e.symm
    simp [this, hpn, hb']

end

end Updater

namespace Updater

theorem update_ret (env : Env) (w : World) (c : Config) (hc : w.config = some c) (chan sc) :
    (postView env w (.update chan sc)).ret = .upd (updateCore env c (w.base c) w.disk sc).2.1 := by
  simp [postView, step, update, hc, World.view]

theorem installedBy_update (env : Env) (w : World) (c : Config) (hc : w.config = some c) (chan sc) :
    installedBy (.update chan sc) (postView env w (.update chan sc)) =
      if (updateCore env c (w.base c) w.disk sc).2.1 = .installed then (Op.update chan sc).offer.map (·.number) else none := by
  simp only [installedBy, update_ret env w c hc]
  cases (updateCore env c (w.base c) w.disk sc).2.1 <;> simp

theorem installedBy_nonupdate (op : Op) (post : View) (h : ∀ chan sc, op ≠ .update chan sc) : installedBy op post = none := by
  cases op <;> simp [installedBy] <;> exact absurd rfl (h _ _)

/-- The disk a call enters with, normalised: itself if settled, the clean disk of the release if not. -/
def normDisk (d : Disk) (v : String) : Disk := if Settled d v then d else cleanDisk v

theorem normDisk_settled (d : Disk) (v : String) : Settled (normDisk d v) v := by
  unfold normDisk; split
  · assumption
  · exact settled_clean v

theorem opDisk_norm (env : Env) (c : Config) (w : World) (op : Op) (he : entersWith w.config op = some c) :
    opDisk env c w op = opDisk env c { w with disk := normDisk w.disk c.version } op := by
  unfold normDisk
  split
  · rfl
  · rename_i hu; exact opDisk_unsettled env c w op he hu

theorem entersWith_config (w : World) (op : Op) (c : Config) (he : entersWith w.config op = some c)
    (hop : ∀ p, op ≠ .init p) : w.config = some c := by
  cases op with
  | init p => exact absurd rfl (hop p)
  | restart => simp [entersWith] at he
  | auto => simp [entersWith] at he
  | damage dm => simp [entersWith] at he
  | check chan resp =>
    cases resp with
    | none => simp [entersWith] at he
    | some r =>
      simp only [entersWith] at he
      split at he
      · exact he
      · simp at he
  | start => simpa [entersWith] using he
  | success => simpa [entersWith] using he
  | failure => simpa [entersWith] using he
  | nextN => simpa [entersWith] using he
  | nextP => simpa [entersWith] using he
  | curN => simpa [entersWith] using he
  | update chan sc => simpa [entersWith] using he

end Updater

namespace Updater

section
variable (env : Env) (w : World) (op : Op) (pre : View) (hshow : ShowsDisk w pre)
include hshow

theorem pre_bootingNum : pre.bootingNum = (loadPatchesState w.disk).booting.map (·.number) := by
  unfold View.bootingNum; rw [ps_of_shows hshow]

theorem c19_group1 :
    firstFail ((match succeededBy w.config op pre with
      | some m => (postView env w op).arts.map fun e =>
          ((decide (¬ e.1 < m ∨ (postView env w op).nextNum = some e.1), s!"C19: artifact {e.1} older than successfully booted patch {m} remains and is not the next boot patch") : Bool × String)
      | none => []) : Checks) = none := by
  cases hsb : succeededBy w.config op pre with
  | none => rfl
  | some m =>
    simp only
    rw [firstFail_none_iff]
    intro ck hck
    simp only [List.mem_map] at hck
    obtain ⟨e, he, rfl⟩ := hck
    simp only [decide_eq_true_eq]
    -- the op is a success report with a configuration, on a settled disk, with `m` booting
    unfold succeededBy at hsb
    split at hsb
    · cases hsb
    · rename_i hnr
      cases op
      case success =>
        cases hc : w.config with
        | none => simp [hc] at hsb
        | some c =>
          simp only [hc] at hsb
          have hen : entersWith w.config .success = some c := by simp [entersWith, hc]
          have hst : Settled w.disk c.version := by
            by_cases hu : Settled w.disk c.version
            · exact hu
            · exact absurd (resets_of_unsettled w pre hshow .success c hen hu) hnr
          rw [pre_bootingNum w pre hshow] at hsb
          cases hb : (loadPatchesState w.disk).booting with
          | none => simp [hb] at hsb
          | some bp =>
            simp only [hb, Option.map, Option.some.injEq] at hsb
            have hd : (step env w .success).1.disk = (secLaunchSuccess env c w.disk).1 := by
              rw [step_disk_enter env w .success c hen]; rfl
            have := success_sweeps env c w.disk bp hst hb e (by
              have : (postView env w .success).arts = (step env w .success).1.disk.artsList := rfl
              rw [this, hd] at he; exact he)
            rw [← hsb]
            simp only [View.nextNum, post_ps, hd]
            exact this
      all_goals simp at hsb

theorem c19_group2 :
    firstFail ((match failedBy w.config op pre with
      | some n => [((postView env w op).art n = none, s!"C19: artifact of failed patch {n} remains")]
      | none => []) : Checks) = none := by
  cases hfb : failedBy w.config op pre with
  | none => rfl
  | some n =>
    simp only [firstFail]
    have goal : (postView env w op).art n = none := by
      rw [postView_art]
      unfold failedBy at hfb
      split at hfb
      · cases hfb
      · rename_i hnr
        cases op
        case failure =>
          cases hc : w.config with
          | none => simp [hc] at hfb
          | some c =>
            simp only [hc] at hfb
            have hen : entersWith w.config .failure = some c := by simp [entersWith, hc]
            have hst : Settled w.disk c.version := by
              by_cases hu : Settled w.disk c.version
              · exact hu
              · have := resets_of_unsettled w pre hshow .failure c hen hu
                exact absurd this hnr
            rw [pre_bootingNum w pre hshow] at hfb
            cases hb : (loadPatchesState w.disk).booting with
            | none => simp [hb] at hfb
            | some bp =>
              simp only [hb, Option.map, Option.some.injEq] at hfb
              rw [step_disk_enter env w .failure c hen, ← hfb]
              exact (failure_removes env c w.disk bp hst hb).1
        case init p =>
          cases hen : entersWith w.config (.init p) with
          | none => simp [hen] at hfb
          | some c =>
            simp only [hen] at hfb
            have hst : Settled w.disk c.version := by
              by_cases hu : Settled w.disk c.version
              · exact hu
              · exact absurd (resets_of_unsettled w pre hshow (.init p) c hen hu) hnr
            rw [pre_bootingNum w pre hshow] at hfb
            cases hb : (loadPatchesState w.disk).booting with
            | none => simp [hb] at hfb
            | some bp =>
              simp only [hb, Option.map, Option.some.injEq] at hfb
              rw [step_disk_enter env w (.init p) c hen, ← hfb]
              exact (failure_removes env c w.disk bp hst hb).2
        all_goals simp at hfb
    have : decide ((postView env w op).art n = none) = true := decide_eq_true goal
    rw [this]; rfl

end

end Updater

namespace Updater

section
variable (env : Env) (w : World) (op : Op) (pre : View) (hshow : ShowsDisk w pre)
include hshow

theorem c19_group3 :
    firstFail (((rolledBackBy w.config op).map fun n =>
      ((decide (installedBy op (postView env w op) = some n ∨ (postView env w op).art n = none), s!"C19: artifact of rolled-back patch {n} remains") : Bool × String)) : Checks) = none := by
  rw [firstFail_none_iff]
  intro ck hck
  simp only [List.mem_map] at hck
  obtain ⟨n, hn, rfl⟩ := hck
  simp only [decide_eq_true_eq]
  rw [postView_art]
  -- a rollback list is only processed by an initialised check / update with a response
  unfold rolledBackBy at hn
  cases hc : w.config with
  | none => simp [hc] at hn
  | some c =>
    cases hr : op.respOf with
    | none => simp [hc, hr] at hn
    | some r =>
      simp only [hc, hr] at hn
      have hsome : r.rolledBack.isSome = true := by cases h : r.rolledBack <;> simp [h] at hn ⊢
      cases op with
      | check chan resp =>
        simp only [Op.respOf] at hr; subst hr
        have hen : entersWith w.config (.check chan (some r)) = some c := by simp [entersWith, hc, hsome]
        right
        rw [step_disk_enter env w _ c hen, opDisk_norm env c w _ hen]
        exact check_rollback_removes env c _ r n (normDisk_settled _ _) hn
      | update chan sc =>
        simp only [Op.respOf] at hr
        have hen : entersWith w.config (.update chan sc) = some c := by simp [entersWith, hc]
        rw [step_disk_enter env w _ c hen, opDisk_norm env c w _ hen, installedBy_update env w c hc]
        simp only [opDisk]
        have hnorm : updateCore env c (w.base c) w.disk sc =
            updateCore env c (w.base c) (normDisk w.disk c.version) sc := by
          unfold normDisk; split
          · rfl
          · rename_i hu; exact updateCore_clean env c w.disk hu _ sc
        rw [hnorm]
        have hst := normDisk_settled w.disk c.version
        unfold updateCore
        simp only [hr]
        rw [secCopyEvents_disk c _ hst]
        rcases afterCheck_rollback_removes env c (w.base c) (secClearEvents c (normDisk w.disk c.version)) r sc.dl n
          (secClearEvents_settled c _ hst) hn with h | ⟨hi, o, hp, hon⟩
        · right; exact h
        · left
          simp [hi, Op.offer, Op.respOf, hr, hp, hon]
      | _ => simp [Op.respOf] at hr

theorem c19_group5 (hg : True) :
    firstFail ((if resetsState w.config op pre then
      [(installedBy op (postView env w op) ≠ none ∨ (postView env w op).arts = [], "C19: artifacts remain after a release change")]
     else []) : Checks) = none := by
  cases hrs : resetsState w.config op pre with
  | false => rfl
  | true =>
    simp only [if_true, firstFail]
    have goal : installedBy op (postView env w op) ≠ none ∨ (postView env w op).arts = [] := by
      unfold resetsState at hrs
      cases hen : entersWith w.config op with
      | none => simp [hen] at hrs
      | some c =>
        simp only [hen, decide_eq_true_eq] at hrs
        have hu : ¬ Settled w.disk c.version := (resets_iff w pre hshow c).1 hrs
        have harts : (postView env w op).arts = (step env w op).1.disk.artsList := rfl
        rw [harts, step_disk_enter env w op c hen, opDisk_unsettled env c w op hen hu]
        -- on the clean disk nothing exists; only an install creates an artifact
        have hclean : ∀ k, (cleanDisk c.version).art k = none := fun k => rfl
        by_cases hinst : ∃ chan sc, op = .update chan sc ∧
            (updateCore env c (w.base c) (cleanDisk c.version) sc).2.1 = .installed
        · left
          obtain ⟨chan, sc, rfl, hi⟩ := hinst
          have hc : w.config = some c := by simpa [entersWith] using hen
          rw [installedBy_update env w c hc, updateCore_clean env c w.disk hu, hi]
          simp only [if_true]
          -- an install only happens for an offered patch
          unfold updateCore at hi
          simp only [] at hi
          cases hr : sc.resp with
          | none => simp [hr] at hi
          | some r =>
            simp only [hr] at hi
            rcases afterCheck_cases env c (w.base c) _ r sc.dl with ⟨hni, _⟩ | ⟨o, _, _, _, hp, _⟩
            · exact absurd hi hni
            · simp [Op.offer, Op.respOf, hr, hp]
        · right
          apply artsList_nil_of_art_none
          intro k
          have := artSub_opDisk env c { w with disk := cleanDisk c.version } op (settled_clean _)
            (by intro chan sc hop hi; exact hinst ⟨chan, sc, hop, hi⟩)
          exact artSub_none this k (hclean k)
    have : decide (installedBy op (postView env w op) ≠ none ∨ (postView env w op).arts = []) = true := decide_eq_true goal
    rw [this]; rfl

end

end Updater

namespace Updater

section
variable (env : Env) (w : World) (op : Op) (pre : View) (hshow : ShowsDisk w pre)
include hshow

theorem c19_group4 :
    firstFail ((match installedBy op (postView env w op), pre.ps.next, (postView env w op).ps.last with
      | some n, some p, some l =>
        if p.number ≠ l.number ∧ p.number ≠ n ∧ pre.bootingNum ≠ some p.number ∧ ¬ resetsState w.config op pre
           ∧ pre.lastNum = some l.number
           ∧ ¬ (rolledBackBy w.config op).contains p.number ∧ ¬ (rolledBackBy w.config op).contains l.number then
          [((postView env w op).art p.number = none, s!"C19: never-booted patch {p.number} replaced by install of {n} but its artifact remains")]
        else []
      | _, _, _ => []) : Checks) = none := by
  cases hi : installedBy op (postView env w op) with
  | none => rfl
  | some n =>
    cases hp : pre.ps.next with
    | none => rfl
    | some p =>
      cases hl : (postView env w op).ps.last with
      | none => rfl
      | some l =>
        simp only
        split
        · rename_i hcond
          obtain ⟨hpl, hpn, hboot, hnr, hlast, hrbp, hrbl⟩ := hcond
          simp only [firstFail]
          have goal : (postView env w op).art p.number = none := by
            rw [postView_art]
            -- only an initialised update installs
            cases op with
            | update chan sc =>
              cases hc : w.config with
              | none => simp [installedBy, postView, step, update, hc, World.view] at hi
              | some c =>
                have hen : entersWith w.config (.update chan sc) = some c := by simp [entersWith, hc]
                have hst : Settled w.disk c.version := by
                  by_cases hu : Settled w.disk c.version
                  · exact hu
                  · exact absurd (resets_of_unsettled w pre hshow _ c hen hu) (by simpa using hnr)
                rw [installedBy_update env w c hc] at hi
                have hinst : (updateCore env c (w.base c) w.disk sc).2.1 = .installed := by
                  by_cases h : (updateCore env c (w.base c) w.disk sc).2.1 = .installed
                  · exact h
                  · simp [h] at hi
                rw [step_disk_enter env w _ c hen]
                simp only [opDisk]
                -- the pending patch at entry
                have hps := ps_of_shows hshow
                have hpend0 : Pending w.disk p l.number := by
                  right
                  refine ⟨by rw [← hps]; exact hp, ?_, ?_⟩
                  · rw [← hps]; exact hboot
                  · right
                    have : pre.lastNum = some l.number := hlast
                    unfold View.lastNum at this
                    rw [hps] at this
                    cases hl0 : (loadPatchesState w.disk).last with
                    | none => simp [hl0] at this
                    | some l0 => exact ⟨l0, rfl, by simpa [hl0] using this⟩
                -- follow the stages
                unfold updateCore at hinst ⊢
                simp only [] at hinst ⊢
                rw [secCopyEvents_disk c w.disk hst] at hinst ⊢
                have h1 := secClearEvents_settled c w.disk hst
                have p1 := secClearEvents_pending c w.disk p l.number hst hpend0
                cases hr : sc.resp with
                | none => simp [hr] at hinst
                | some r =>
                  simp only [hr] at hinst ⊢
                  have hrb : rolledBackBy w.config (.update chan sc) = r.rolledBack.getD [] := by
                    simp [rolledBackBy, hc, Op.respOf, hr]
                  have hpnot : p.number ∉ r.rolledBack.getD [] := by
                    rw [hrb] at hrbp; simpa using hrbp
                  rcases afterCheck_cases env c (w.base c) (secClearEvents c w.disk) r sc.dl with
                    ⟨hni, _⟩ | ⟨o, stream, b, out, hpo, _, _, _, _, _, _, _, e6⟩
                  · exact absurd hinst hni
                  · rw [e6]
                    have h2 := rollBackIfNeeded_settled env c _ r.rolledBack h1
                    have p2 := rollBackIfNeeded_pending env c _ p l.number r.rolledBack h1 hpnot p1
                    have h3 := shouldInstall_settled env c _ o.number h2
                    have p3 := shouldInstall_pending env c _ p l.number o.number h2 p2
                    have hno : n = o.number := by
                      simp [Op.offer, Op.respOf, hr, hpo] at hi; exact hi.2.symm
                    apply secInstall_supersedes c _ p l.number o out h3 p3 (by rw [← hno]; exact hpn) hpl
                    -- the last good patch recorded after the call is what the install section left
                    have hd : (step env w (.update chan sc)).1.disk =
                        secInstall c (shouldInstall env c (rollBackIfNeeded env c (secClearEvents c w.disk) r.rolledBack) o.number).1 o out := by
                      rw [step_disk_enter env w _ c hen]
                      simp only [opDisk, updateCore, hr]
                      rw [secCopyEvents_disk c w.disk hst, e6]
                    rw [post_ps, hd] at hl
                    exact ⟨l, hl, rfl⟩
            | _ => simp [installedBy] at hi
          have : decide ((postView env w op).art p.number = none) = true := decide_eq_true goal
          rw [this]; rfl
        · rfl

end

/-- **C19.** Every model history is accepted by the C19 monitor:
    (i) after a successful boot of `m` every remaining artifact is not lower than `m` or is the
    next-boot patch; (ii) the artifact of a patch whose boot failure is recorded (report, or crash
    detection at init) is gone after that call; (iii) so is the artifact of every number in a
    rollback list, unless that same update re-installs it; (iv) an install that replaces a
    never-booted pending patch `p`, while another patch is the last good one and `p` is not booting,
    removes `p`'s artifact; (v) after a release change (or unreadable state) no artifact remains
    unless that very call installed one. Arbitrary histories, damage included. -/
theorem C19_holds (env : Env) (libs : List (String × Bytes)) (ops : List Op) :
    mon19.accepts env (viewTrace env (World.fresh libs) ops) = true := by
  apply Monitor.accepts_of_inv mon19 env libs (fun w g => g.cfg = w.config)
  · rfl
  · intro w g op pre hinv hshow
    refine ⟨?_, ?_⟩
    · simp only [mon19, hinv]
      rw [firstFail_append, firstFail_append, firstFail_append, firstFail_append]
      exact ⟨⟨⟨⟨c19_group1 env w op pre hshow, c19_group2 env w op pre hshow⟩, c19_group3 env w op pre hshow⟩,
        c19_group4 env w op pre hshow⟩, c19_group5 env w op pre hshow trivial⟩
    · simp only [mon19]
      rw [step_config, hinv]

end Updater
