/-
  C17  Install, failure and download events are sent at the promised moments, once.
-/
import UpdaterModel.Lemmas.Events
import UpdaterModel.Props.C08
import UpdaterModel.Gen.Consts

namespace Updater

theorem netEvents_map_event (l : List Event) : netEvents (l.map NetAct.event) = l := by
  induction l with
  | nil => rfl
  | cons e l ih => simp [netEvents, List.filterMap_cons] at ih ⊢; exact ih

theorem netBeforeCheck_events (l : List Event) (r : CheckReq) (rest : List NetAct) :
    netBeforeCheck (l.map NetAct.event ++ [NetAct.check r] ++ rest) = l.map NetAct.event := by
  induction l with
  | nil => simp [netBeforeCheck]
  | cons e l ih => simp [netBeforeCheck] at ih ⊢; exact ih

theorem netAfterCheck_events (l : List Event) (r : CheckReq) (rest : List NetAct) :
    netAfterCheck (l.map NetAct.event ++ [NetAct.check r] ++ rest) = rest := by
  induction l with
  | nil => simp [netAfterCheck]
  | cons e l ih => simp [netAfterCheck] at ih ⊢; exact ih

/-- The stored state a call enters with, after normalisation, as the observer sees it. -/
theorem norm_state (w : World) (pre : View) (hshow : ShowsDisk w pre) (op : Op) (c : Config)
    (he : entersWith w.config op = some c) :
    ∃ s0, (normDisk w.disk c.version).stateJson = .ok s0 ∧ s0.version = c.version ∧
      s0.events = (if resetsState w.config op pre then [] else pre.events) ∧
      loadPatchesState (normDisk w.disk c.version) = (if resetsState w.config op pre then {} else pre.ps) := by
  unfold normDisk
  by_cases hst : Settled w.disk c.version
  · obtain ⟨s, hs, hv⟩ := hst
    have hnr := not_resets_of_settled w pre hshow op c he ⟨s, hs, hv⟩
    refine ⟨s, by simp [show Settled w.disk c.version from ⟨s, hs, hv⟩, hs], hv, ?_, ?_⟩
    · simp only [hnr, Bool.false_eq_true, if_false, View.events]; rw [hshow.1, hs]
    · simp only [hnr, Bool.false_eq_true, if_false, show Settled w.disk c.version from ⟨s, hs, hv⟩, if_true]
      exact (ps_of_shows hshow).symm
  · have hrs := resets_of_unsettled w pre hshow op c he hst
    exact ⟨{ version := c.version, events := [] }, by simp [hst, cleanDisk], rfl, by simp [hrs], by simp [hst, hrs, cleanDisk, loadPatchesState, JFile.getD]⟩

end Updater

namespace Updater

theorem secLaunchSuccess_norm (env : Env) (c : Config) (d : Disk) :
    secLaunchSuccess env c d = secLaunchSuccess env c (normDisk d c.version) := by
  unfold normDisk; split
  · rfl
  · rename_i hu; exact secLaunchSuccess_clean env c d hu

theorem updateCore_norm (env : Env) (c : Config) (base) (d : Disk) (sc) :
    updateCore env c base d sc = updateCore env c base (normDisk d c.version) sc := by
  unfold normDisk; split
  · rfl
  · rename_i hu; exact updateCore_clean env c d hu base sc

theorem post_events_eq (env : Env) (w : World) (op : Op) (s : SState)
    (h : (step env w op).1.disk.stateJson = .ok s) : (postView env w op).events = s.events := by
  rw [view_events, h]

theorem eventOk_mk (env : Env) (c : Config) (k : EventKind) (n : Nat) (m : Option String) :
    eventOk env c k n (mkEvent env c k n m) = true := by
  simp [eventOk, mkEvent]

theorem mkEvent_withChannel (env : Env) (c : Config) (chan) (k n m) :
    mkEvent env (withChannel c chan) k n m = mkEvent env c k n m := by
  cases chan <;> rfl

/-- **C17.** Every model history is accepted by the C17 monitor:
    a success report sends exactly one install-success event (with the configured app id, release,
    platform, architecture and the booted patch's number) iff a patch was booting and it differs
    from the previous last good patch, and none otherwise, and does not touch the queue; a reported
    or crash-detected boot failure appends exactly one failure event to the persisted queue and
    sends nothing; an update first sends the first three queued events in order, before the patch
    check, leaves the queue empty, and sends exactly one download event after — and only after — a
    successful install; every other call neither sends an event nor changes the queue (a release
    change empties it). Arbitrary histories. -/
theorem C17_holds (env : Env) (libs : List (String × Bytes)) (ops : List Op) :
    mon17.accepts env (viewTrace env (World.fresh libs) ops) = true := by
  apply Monitor.accepts_of_inv mon17 env libs (fun w g => g.cfg = w.config)
  · rfl
  · intro w g op pre hinv hshow
    refine ⟨?_, by simp only [mon17]; rw [step_config, hinv]⟩
    simp only [mon17, hinv]
    cases hen : entersWith w.config op with
    | none =>
      simp only [firstFail]
      have : netEvents (postView env w op).net = [] := by
        cases op with
        | init p =>
          cases hc : w.config with
          | some c0 => simp [postView, step, init_configured env w p c0 hc, World.view, netEvents]
          | none =>
            have hm : mkConfig p = none := by simpa [entersWith, hc] using hen
            simp [postView, step, init_ineffective env w p hm, World.view, netEvents]
        | restart => simp [postView, step, World.view, netEvents]
        | auto => simp [postView, step, World.view, netEvents]
        | damage dm => simp [postView, step, World.view, netEvents]
        | start => simp [entersWith] at hen; simp [postView, step, launchStart, hen, World.view, netEvents]
        | success => simp [entersWith] at hen; simp [postView, step, launchSuccess, hen, World.view, netEvents]
        | failure => simp [entersWith] at hen; simp [postView, step, launchFailure, hen, World.view, netEvents]
        | nextN => simp [entersWith] at hen; simp [postView, step, nextBootPatch, hen, World.view, netEvents]
        | nextP => simp [entersWith] at hen; simp [postView, step, nextBootPatch, hen, World.view, netEvents]
        | curN => simp [entersWith] at hen; simp [postView, step, currentBootPatch, hen, World.view, netEvents]
        | update chan sc => simp [entersWith] at hen; simp [postView, step, update, hen, World.view, netEvents]
        | check chan resp =>
          cases hc : w.config with
          | none => simp [postView, step, check, hc, World.view, netEvents]
          | some c => simp [postView, step, check, hc, World.view, netEvents]
      simp [this]
    | some c =>
      obtain ⟨s0, hs0, hv0, hev0, hps0⟩ := norm_state w pre hshow op c hen
      have hd : (step env w op).1.disk = opDisk env c { w with disk := normDisk w.disk c.version } op := by
        rw [step_disk_enter env w op c hen, opDisk_norm env c w op hen]
      simp only []
      rw [← hev0]
      cases op with
      | restart => simp [entersWith] at hen
      | auto => simp [entersWith] at hen
      | damage dm => simp [entersWith] at hen
      | success =>
        have hc : w.config = some c := entersWith_config w _ c hen (by intro p h; cases h)
        have hnet : (postView env w .success).net =
            evList (secLaunchSuccess env c (normDisk w.disk c.version)).2 := by
          simp only [postView, step, launchSuccess, hc, World.view]
          rw [secLaunchSuccess_norm env c w.disk]
        have hpe : (postView env w .success).events = s0.events :=
          post_events_eq env w _ s0 (by rw [hd]; exact sj_secLaunchSuccess env c _ s0 hs0 hv0)
        rw [ev_secLaunchSuccess env c _ s0 hs0 hv0, hps0] at hnet
        rw [firstFail_append]
        refine ⟨?_, by simp [firstFail, hpe]⟩
        cases hrs : resetsState w.config .success pre with
        | true =>
          simp only [hrs, if_true] at hnet ⊢
          simp [firstFail, hnet, netEvents, evList]
        | false =>
          simp only [hrs, Bool.false_eq_true, if_false] at hnet ⊢
          cases hb : pre.bootingNum with
          | none =>
            have : pre.ps.booting = none := by
              unfold View.bootingNum at hb; cases h : pre.ps.booting <;> simp [h] at hb ⊢
            simp [firstFail, hnet, this, netEvents, evList]
          | some n =>
            obtain ⟨bp, hbp, hbn⟩ : ∃ bp, pre.ps.booting = some bp ∧ bp.number = n := by
              unfold View.bootingNum at hb
              cases h : pre.ps.booting with
              | none => simp [h] at hb
              | some bp => exact ⟨bp, rfl, by simpa [h] using hb⟩
            simp only [hbp] at hnet
            simp only
            by_cases hl : pre.lastNum = some n
            · have : pre.ps.last.map (·.number) = some bp.number := by rw [hbn]; exact hl
              simp [firstFail, hl, hnet, this, netEvents, evList]
            · have : ¬ (pre.ps.last.map (·.number) = some bp.number) := by rw [hbn]; exact hl
              simp only [hl, if_false, hnet, this]
              simp [firstFail, netEvents, evList, ← hbn, eventOk_mk]
      | failure =>
        have hc : w.config = some c := entersWith_config w _ c hen (by intro p h; cases h)
        have hnet : (postView env w .failure).net = [] := by simp [postView, step, World.view]
        have hsj := sj_secLaunchFailure env c _ s0 hs0 hv0
        rw [hps0] at hsj
        have hdd : (step env w .failure).1.disk.stateJson = (secLaunchFailure env c (normDisk w.disk c.version)).stateJson := by
          rw [hd]; rfl
        rw [← hdd] at hsj
        rw [firstFail_append]
        refine ⟨?_, by simp [firstFail, hnet, netEvents]⟩
        cases hrs : resetsState w.config .failure pre with
        | true =>
          simp only [hrs, if_true] at hsj
          have hpe := post_events_eq env w _ _ hsj
          simp [failedBy, hrs, firstFail, hpe]
        | false =>
          simp only [hrs, Bool.false_eq_true, if_false] at hsj
          have hrs' : resetsState (some c) .failure pre = false := by rw [← hc]; exact hrs
          simp only [failedBy, hrs, hrs', Bool.false_eq_true, if_false, hc, View.bootingNum]
          cases hb : pre.ps.booting with
          | none =>
            simp only [hb] at hsj
            have hpe := post_events_eq env w _ _ hsj
            simp [firstFail, hpe]
          | some bp =>
            simp only [hb] at hsj
            have hpe := post_events_eq env w _ _ hsj
            simp [firstFail, hpe, eventOk_mk]
      | init p =>
        have hnet : (postView env w (.init p)).net = [] := by simp [postView, step, World.view]
        have hsj := sj_secHandlePrior env c _ s0 hs0 hv0
        rw [hps0] at hsj
        have hdd : (step env w (.init p)).1.disk.stateJson = (secHandlePriorBootFailure env c (normDisk w.disk c.version)).stateJson := by
          rw [hd]; rfl
        rw [← hdd] at hsj
        rw [firstFail_append]
        refine ⟨?_, by simp [firstFail, hnet, netEvents]⟩
        cases hrs : resetsState w.config (.init p) pre with
        | true =>
          simp only [hrs, if_true] at hsj
          have hpe := post_events_eq env w _ _ hsj
          simp [failedBy, hrs, firstFail, hpe]
        | false =>
          simp only [hrs, Bool.false_eq_true, if_false] at hsj
          simp only [failedBy, hrs, Bool.false_eq_true, if_false, hen, View.bootingNum]
          cases hb : pre.ps.booting with
          | none =>
            simp only [hb] at hsj
            have hpe := post_events_eq env w _ _ hsj
            simp [firstFail, hpe]
          | some bp =>
            simp only [hb] at hsj
            have hpe := post_events_eq env w _ _ hsj
            simp [firstFail, hpe, eventOk_mk]
      | start =>
        have hnet : (postView env w .start).net = [] := by simp [postView, step, World.view]
        have hpe := post_events_eq env w .start s0 (by rw [hd]; exact sj_secLaunchStart env c _ s0 hs0 hv0)
        simp [firstFail, hnet, hpe, netEvents]
      | nextN =>
        have hnet : (postView env w .nextN).net = [] := by simp [postView, step, World.view]
        have hpe := post_events_eq env w .nextN s0 (by rw [hd]; exact sj_secNextBootPatch env c _ s0 hs0 hv0)
        simp [firstFail, hnet, hpe, netEvents]
      | nextP =>
        have hnet : (postView env w .nextP).net = [] := by simp [postView, step, World.view]
        have hpe := post_events_eq env w .nextP s0 (by rw [hd]; exact sj_secNextBootPatch env c _ s0 hs0 hv0)
        simp [firstFail, hnet, hpe, netEvents]
      | curN =>
        have hnet : (postView env w .curN).net = [] := by simp [postView, step, World.view]
        have hpe := post_events_eq env w .curN s0 (by
          rw [hd]; simp only [opDisk]; rw [secCurrentBootPatch_disk c _ ⟨s0, hs0, hv0⟩]; exact hs0)
        simp [firstFail, hnet, hpe, netEvents]
      | check chan resp =>
        have hc : w.config = some c := entersWith_config w _ c hen (by intro p h; cases h)
        have hnet : netEvents (postView env w (.check chan resp)).net = [] := by
          simp [postView, step, check, hc, World.view, netEvents]
        have hpe := post_events_eq env w (.check chan resp) s0 (by rw [hd]; exact sj_checkCore env c _ s0 hs0 hv0 resp)
        simp [firstFail, hnet, hpe]
      | update chan sc =>
        have hc : w.config = some c := entersWith_config w _ c hen (by intro p h; cases h)
        have hpe := post_events_eq env w (.update chan sc) _ (by
          rw [hd]; exact sj_updateCore env c _ s0 hs0 hv0 (w.base c) sc)
        have hnet : (postView env w (.update chan sc)).net =
            updateActs env (withChannel c chan) sc (updateCore env c (w.base c) (normDisk w.disk c.version) sc).2.1
              (s0.events.take 3) (updateCore env c (w.base c) (normDisk w.disk c.version) sc).2.2.2 := by
          simp only [postView, step, update, hc, World.view]
          rw [updateCore_norm env c (w.base c) w.disk sc, sent_updateCore env c _ s0 hs0 hv0]
        have hib := installedBy_update env w c hc chan sc
        rw [updateCore_norm env c (w.base c) w.disk sc] at hib
        rw [hnet, hib]
        unfold updateActs
        simp only [netBeforeCheck_events, netAfterCheck_events, netEvents_map_event, hpe]
        -- what follows the patch check
        have hlater : ∀ out dlr, (updateCore env c (w.base c) (normDisk w.disk c.version) sc).2.1 = out →
            (updateCore env c (w.base c) (normDisk w.disk c.version) sc).2.2.2 = dlr →
            (out = .installed → dlr = true ∧ ∃ o, (Op.update chan sc).offer = some o) := by
          intro out dlr h1 h2 hi
          subst h1 h2
          unfold updateCore at hi ⊢
          simp only [] at hi ⊢
          cases hr : sc.resp with
          | none => simp [hr] at hi
          | some r =>
            simp only [hr] at hi ⊢
            rcases afterCheck_cases env c (w.base c) _ r sc.dl with ⟨hni, _⟩ | ⟨o, _, _, _, hp, _, _, _, _, _, _, _, e6⟩
            · exact absurd hi hni
            · rw [e6]; exact ⟨rfl, o, by simp [Op.offer, Op.respOf, hr, hp]⟩
        by_cases hi : (updateCore env c (w.base c) (normDisk w.disk c.version) sc).2.1 = .installed
        · obtain ⟨hdl, o, ho⟩ := hlater _ _ rfl rfl hi
          have ho' : sc.resp.bind (·.patch) = some o := by simpa [Op.offer, Op.respOf] using ho
          simp [firstFail, hi, hdl, ho, ho', netEvents, mkEvent_withChannel, eventOk_mk]
        · cases hdl : (updateCore env c (w.base c) (normDisk w.disk c.version) sc).2.2.2 <;>
            cases ho : sc.resp.bind (·.patch) <;> simp [firstFail, hi, netEvents]

/-! ### "at most three": the batch size is the one in the sources (regenerated from /repo on every run) -/

theorem event_batch_agrees (cfg : Config) (d : Disk) :
    (secCopyEvents cfg d).2 = (loadOrNew d cfg.version).copyEvents Gen.eventBatch := rfl

end Updater
