/-
  C08  Patch state never crosses release versions.

  When the app starts with a release version different from the one its stored state was written
  for, everything tied to the old release is discarded before anything is reported: no current and
  no next-boot patch, no old artifact selectable, queued events dropped, bans forgotten.
-/
import UpdaterModel.Props.C19

namespace Updater

/-! ### every non-installing call leaves the clean disk exactly as it is -/

section
variable (env : Env) (c : Config)

theorem loadOrNew_cleanDisk : loadOrNew (cleanDisk c.version) c.version =
    { pm := { disk := cleanDisk c.version, ps := {} }, ss := { version := c.version, events := [] } } := by
  rw [loadOrNew_settled (cleanDisk c.version) c.version { version := c.version, events := [] } rfl rfl]
  rfl

theorem tryFallBack_cleanPM (n : Nat) :
    ({ disk := cleanDisk c.version, ps := {} } : PM).tryFallBack env c.key n = { disk := cleanDisk c.version, ps := {} } := by
  simp [PM.tryFallBack, PM.deleteArtifacts, Disk.deleteArtifacts, cleanDisk, PM.save]

theorem foldFallBack_cleanPM (ns : List Nat) :
    ns.foldl (fun pm n => pm.tryFallBack env c.key n) ({ disk := cleanDisk c.version, ps := {} } : PM) =
      { disk := cleanDisk c.version, ps := {} } := by
  induction ns with
  | nil => rfl
  | cons n ns ih => simp only [List.foldl, tryFallBack_cleanPM, ih]

theorem secHandlePrior_cleanDisk : secHandlePriorBootFailure env c (cleanDisk c.version) = cleanDisk c.version := by
  simp [secHandlePriorBootFailure, loadOrNew_cleanDisk, US.disk]
theorem secLaunchStart_cleanDisk : secLaunchStart env c (cleanDisk c.version) = cleanDisk c.version := by
  simp [secLaunchStart, loadOrNew_cleanDisk, PM.nextBootPatch]
theorem secLaunchSuccess_cleanDisk : secLaunchSuccess env c (cleanDisk c.version) = (cleanDisk c.version, none) := by
  simp [secLaunchSuccess, loadOrNew_cleanDisk, US.disk]
theorem secLaunchFailure_cleanDisk : secLaunchFailure env c (cleanDisk c.version) = cleanDisk c.version := by
  simp [secLaunchFailure, loadOrNew_cleanDisk, US.disk]
theorem secNextBootPatch_cleanDisk : secNextBootPatch env c (cleanDisk c.version) = (cleanDisk c.version, none) := by
  simp [secNextBootPatch, loadOrNew_cleanDisk, PM.nextBootPatch]
theorem secCurrentBootPatch_cleanDisk : secCurrentBootPatch c (cleanDisk c.version) = (cleanDisk c.version, none) := by
  simp [secCurrentBootPatch, loadOrNew_cleanDisk, US.disk, US.currentBootPatch]
theorem secClearEvents_cleanDisk : secClearEvents c (cleanDisk c.version) = cleanDisk c.version := by
  simp only [secClearEvents, loadOrNew_cleanDisk]
  rfl
theorem secCopyEvents_cleanDisk : secCopyEvents c (cleanDisk c.version) = (cleanDisk c.version, []) := by
  simp [secCopyEvents, loadOrNew_cleanDisk, US.disk, US.copyEvents]
theorem rollBack_cleanDisk (rb) : rollBackIfNeeded env c (cleanDisk c.version) rb = cleanDisk c.version := by
  cases rb with
  | none => rfl
  | some ns => simp [rollBackIfNeeded, secRollBack, loadOrNew_cleanDisk, foldFallBack_cleanPM]
theorem shouldInstall_cleanDisk (n : Nat) : shouldInstall env c (cleanDisk c.version) n = (cleanDisk c.version, .ok) := by
  simp [shouldInstall, secIsKnownBad, loadOrNew_cleanDisk, PM.isKnownBad, US.disk, secNextBootPatch_cleanDisk]

theorem checkCore_cleanDisk (resp) : (checkCore env c (cleanDisk c.version) resp).1 = cleanDisk c.version := by
  unfold checkCore
  cases resp with
  | none => rfl
  | some r =>
    simp only [rollBack_cleanDisk]
    cases r.patch with
    | none => rfl
    | some o => simp [shouldInstall_cleanDisk]

/-- An update on the clean disk that does not install leaves it clean. -/
theorem updateCore_cleanDisk (base) (sc : UpdateScript)
    (hni : (updateCore env c base (cleanDisk c.version) sc).2.1 ≠ .installed) :
    (updateCore env c base (cleanDisk c.version) sc).1 = cleanDisk c.version := by
  unfold updateCore at hni ⊢
  simp only [secCopyEvents_cleanDisk, secClearEvents_cleanDisk] at hni ⊢
  cases hr : sc.resp with
  | none => rfl
  | some r =>
    simp only [hr] at hni ⊢
    rcases afterCheck_cases env c base (cleanDisk c.version) r sc.dl with ⟨_, hd⟩ | ⟨o, _, _, _, _, _, _, _, _, _, _, _, e6⟩
    · rcases hd with hd | ⟨o, _, hd⟩
      · rw [hd, rollBack_cleanDisk]
      · rw [hd, rollBack_cleanDisk, shouldInstall_cleanDisk]
    · rw [e6] at hni; exact absurd rfl hni

/-- Non-installing calls fix the clean disk. -/
theorem opDisk_cleanDisk (w : World) (op : Op)
    (hni : ∀ chan sc, op = .update chan sc → (updateCore env c (w.base c) (cleanDisk c.version) sc).2.1 ≠ .installed) :
    opDisk env c { w with disk := cleanDisk c.version } op = cleanDisk c.version := by
  cases op with
  | init p => exact secHandlePrior_cleanDisk env c
  | start => exact secLaunchStart_cleanDisk env c
  | success => simp only [opDisk, secLaunchSuccess_cleanDisk]
  | failure => exact secLaunchFailure_cleanDisk env c
  | nextN => simp only [opDisk, secNextBootPatch_cleanDisk]
  | nextP => simp only [opDisk, secNextBootPatch_cleanDisk]
  | curN => simp only [opDisk, secCurrentBootPatch_cleanDisk]
  | check chan resp => exact checkCore_cleanDisk env c resp
  | update chan sc => exact updateCore_cleanDisk env c (w.base c) sc (hni chan sc rfl)
  | restart => rfl
  | auto => rfl
  | damage dm => rfl

end

end Updater

namespace Updater

theorem view_events (env : Env) (w : World) (op : Op) :
    (postView env w op).events = (match (step env w op).1.disk.stateJson with | .ok s => s.events | _ => []) := rfl

theorem view_release (env : Env) (w : World) (op : Op) :
    (postView env w op).release = (match (step env w op).1.disk.stateJson with | .ok s => some s.version | _ => none) := rfl

/-- **C08.** Every model history is accepted by the C08 monitor: the first call that loads the stored
    state under a release version different from the one it was written for (or finds it unreadable)
    leaves no selected / last good / booting patch, an empty ban set, no artifact, an empty event
    queue and the state re-keyed to the new release — unless that very call is an update that
    installs a patch of the new release, in which case only that patch exists; queries in that
    call report no patch. Arbitrary old-release state, arbitrary version strings. -/
theorem C08_holds (env : Env) (libs : List (String × Bytes)) (ops : List Op) :
    mon08.accepts env (viewTrace env (World.fresh libs) ops) = true := by
  apply Monitor.accepts_of_inv mon08 env libs (fun w g => g.cfg = w.config)
  · rfl
  · intro w g op pre hinv hshow
    refine ⟨?_, by simp only [mon08]; rw [step_config, hinv]⟩
    simp only [mon08, hinv]
    cases hen : entersWith w.config op with
    | none => rfl
    | some c =>
      simp only
      cases hrs : resetsState w.config op pre with
      | false => rfl
      | true =>
        simp only [if_true]
        have hu : ¬ Settled w.disk c.version := by
          unfold resetsState at hrs; simp only [hen, decide_eq_true_eq] at hrs
          exact (resets_iff w pre hshow c).1 hrs
        have hdisk : (step env w op).1.disk = opDisk env c { w with disk := cleanDisk c.version } op := by
          rw [step_disk_enter env w op c hen, opDisk_unsettled env c w op hen hu]
        by_cases hinst : ∃ chan sc, op = .update chan sc ∧
            (updateCore env c (w.base c) (cleanDisk c.version) sc).2.1 = .installed
        · -- an update that installs a patch of the new release
          obtain ⟨chan, sc, rfl, hi⟩ := hinst
          have hc : w.config = some c := by simpa [entersWith] using hen
          have hib : installedBy (.update chan sc) (postView env w (.update chan sc)) ≠ none := by
            have := c19_group5 env w (.update chan sc) pre hshow trivial
            rw [hrs] at this
            simp only [if_true, firstFail] at this
            rw [installedBy_update env w c hc, updateCore_clean env c w.disk hu, hi]
            simp only [if_true]
            unfold updateCore at hi
            simp only [] at hi
            cases hr : sc.resp with
            | none => simp [hr] at hi
            | some r =>
              simp only [hr] at hi
              rcases afterCheck_cases env c (w.base c) _ r sc.dl with ⟨hni, _⟩ | ⟨o, _, _, _, hp, _⟩
              · exact absurd hi hni
              · simp [Op.offer, Op.respOf, hr, hp]
          -- the post disk is the install section run on the clean disk
          have hpost : ∃ o out, (step env w (.update chan sc)).1.disk = secInstall c (cleanDisk c.version) o out := by
            rw [hdisk]
            simp only [opDisk]
            have hbase : World.base { disk := cleanDisk c.version, config := w.config, libs := w.libs } c = w.base c := rfl
            rw [hbase]
            unfold updateCore at hi ⊢
            simp only [secCopyEvents_cleanDisk, secClearEvents_cleanDisk] at hi ⊢
            cases hr : sc.resp with
            | none => simp [hr] at hi
            | some r =>
              simp only [hr] at hi ⊢
              rcases afterCheck_cases env c (w.base c) (cleanDisk c.version) r sc.dl with ⟨hni, _⟩ | ⟨o, _, _, out, _, _, _, _, _, _, _, _, e6⟩
              · exact absurd hi hni
              · rw [e6, rollBack_cleanDisk, shouldInstall_cleanDisk]; exact ⟨o, out, rfl⟩
          obtain ⟨o, out, hd⟩ := hpost
          have hps : loadPatchesState (secInstall c (cleanDisk c.version) o out) =
              { next := some { number := o.number, size := out.length, hash := o.hash, sig := o.sig } } := by
            simp only [secInstall, loadOrNew_cleanDisk]
            rw [addPatch_coherent, addPatch_ps]
          have hsj : (secInstall c (cleanDisk c.version) o out).stateJson = .ok { version := c.version, events := [] } := by
            simp only [secInstall, loadOrNew_cleanDisk]
            rw [addPatch_sj]; rfl
          rw [firstFail_none_iff]
          intro ck hck
          simp only [List.mem_cons, List.mem_nil_iff, or_false] at hck
          rcases hck with rfl | rfl | rfl | rfl | rfl | rfl
          · simp [hib]
          · simp only [post_ps, hd, hps]; rfl
          · simp [hib]
          · simp only [view_events, hd, hsj]; rfl
          · simp only [view_release, hd, hsj]; simp
          · rfl
        · -- nothing installed: the disk is exactly the clean disk of the new release
          have hd : (step env w op).1.disk = cleanDisk c.version := by
            rw [hdisk]
            exact opDisk_cleanDisk env c w op (by intro chan sc hop hi; exact hinst ⟨chan, sc, hop, hi⟩)
          rw [firstFail_none_iff]
          intro ck hck
          simp only [List.mem_cons, List.mem_nil_iff, or_false] at hck
          rcases hck with rfl | rfl | rfl | rfl | rfl | rfl
          · simp only [post_ps, hd]; simp [loadPatchesState, cleanDisk, JFile.getD]
          · simp only [post_ps, hd]; rfl
          · have : (postView env w op).arts = (step env w op).1.disk.artsList := rfl
            simp only [this, hd]; simp [cleanDisk, Disk.artsList]
          · simp only [view_events, hd]; rfl
          · simp only [view_release, hd]; simp [cleanDisk]
          · -- queries report no patch
            cases op with
            | nextN =>
              have hc : w.config = some c := by simpa [entersWith] using hen
              simp [postView, step, nextBootPatch, hc, World.view, secNextBootPatch_clean env c w.disk hu, secNextBootPatch_cleanDisk]
            | nextP =>
              have hc : w.config = some c := by simpa [entersWith] using hen
              simp [postView, step, nextBootPatch, hc, World.view, secNextBootPatch_clean env c w.disk hu, secNextBootPatch_cleanDisk]
            | curN =>
              have hc : w.config = some c := by simpa [entersWith] using hen
              simp [postView, step, currentBootPatch, hc, World.view, secCurrentBootPatch_clean c w.disk hu, secCurrentBootPatch_cleanDisk]
            | _ => rfl

end Updater
