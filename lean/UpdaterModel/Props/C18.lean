/-
  C18  The reported current patch tracks what is actually running.

  From launch start until the process ends or the launch is reported failed, if a patch was handed
  to the engine for this launch then the reported current patch is that patch; installing, checking
  or rolling back other patches never changes it. After a restart and before the new launch start it
  is the last good patch.
-/
import UpdaterModel.Lemmas.Running
import UpdaterModel.Props.C03

namespace Updater

/-! ### observer and disk -/

/-- What `current_boot_patch` computes from a record. -/
def curOf (ps : PatchesState) : Option Nat :=
  match ps.booting with
  | some m => some m.number
  | none => ps.last.map (·.number)

theorem curNum_eq (v : View) : v.curNum = curOf v.ps := by
  unfold View.curNum curOf View.lastNum; cases v.ps.booting <;> rfl

theorem currentBootPatch_eq (us : US) : us.currentBootPatch = curOf us.pm.ps := by
  unfold US.currentBootPatch curOf; cases us.pm.ps.booting <;> rfl

/-- The establishment condition at a launch start, read off the disk. -/
theorem runD_of_view (env key) {w : World} {v : View} (hs : ShowsDisk w v) (n : Nat)
    (h : handedOut env key v = some n) : RunD env key w.disk n := by
  unfold handedOut at h
  cases hnx : v.nextNum with
  | none => simp [hnx] at h
  | some k =>
    simp only [hnx] at h
    split at h
    · rename_i hc
      have hkn : k = n := by simpa using h
      subst hkn
      have hps := ps_of_shows hs
      have hv := hc.2
      simp only [View.slotsValid, Bool.and_eq_true, slotOk_iff env key hs, hps] at hv
      have hb := hc.1
      simp only [View.bootingNum, hps] at hb
      refine ⟨Or.inl ?_, ?_⟩
      · cases hx : (loadPatchesState w.disk).booting with
        | none => simp [hx] at hb
        | some m => exact ⟨m, rfl, by simpa [hx] using hb⟩
      · intro x hx hxn
        rcases hx with h' | h' | h'
        · exact hv.1.1 x h' hxn
        · exact hv.1.2 x h' hxn
        · exact hv.2 x h' hxn
    · cases h

theorem RunD_congr (env key) (d d' : Disk) (n : Nat) (hpj : d'.patchesJson = d.patchesJson)
    (hart : d'.art n = d.art n) (h : RunD env key d n) : RunD env key d' n := by
  have hps : loadPatchesState d' = loadPatchesState d := by unfold loadPatchesState; rw [hpj]
  obtain ⟨hc, hall⟩ := h
  refine ⟨by rw [hps]; exact hc, ?_⟩
  intro x hx hxn
  rw [hps] at hx
  rw [validate_congr env key d d' x (by rw [hxn]; exact hart)]
  exact hall x hx hxn

theorem RunD_cur (env key) (d : Disk) (n : Nat) (h : RunD env key d n) : curOf (loadPatchesState d) = some n := by
  unfold curOf
  rcases h.1 with ⟨m, hm, hmn⟩ | ⟨hb, m, hm, hmn⟩
  · simp [hm, hmn]
  · simp [hb, hm, hmn]

/-! ### the booting record across one call -/

theorem opDisk_boot (env : Env) (c : Config) (w : World) (op : Op) (hst : Settled w.disk c.version) (hns : op ≠ .start) :
    BootSubD w.disk (opDisk env c w op) := by
  cases op with
  | init p => exact Or.inr (secHandlePrior_boot_none env c w.disk hst)
  | start => exact absurd rfl hns
  | success => exact boot_secLaunchSuccess env c w.disk hst
  | failure => exact boot_secLaunchFailure env c w.disk hst
  | nextN => exact boot_secNextBootPatch env c w.disk hst
  | nextP => exact boot_secNextBootPatch env c w.disk hst
  | curN => simp only [opDisk]; rw [secCurrentBootPatch_disk c w.disk hst]; exact BootSubD.refl _
  | check chan resp => exact boot_checkCore env c w.disk resp hst
  | update chan sc => exact boot_updateCore env c w.disk (w.base c) sc hst
  | restart => exact BootSubD.refl _
  | auto => exact BootSubD.refl _
  | damage dm => exact BootSubD.refl _

theorem secLaunchSuccess_boot_none (env : Env) (c : Config) (d : Disk) (hst : Settled d c.version) :
    (loadPatchesState (secLaunchSuccess env c d).1).booting = none := by
  cases hb : (loadPatchesState d).booting with
  | none => rw [secLaunchSuccess_nobooting env c d hst hb]; exact hb
  | some bp =>
    obtain ⟨s, hs, hv⟩ := hst
    have hb' : (PM.new d).ps.booting = some bp := hb
    simp only [secLaunchSuccess, loadOrNew_settled d _ s hs hv, hb']
    have h1 : (loadPatchesState (PM.new d).recordBootSuccess.1.disk).booting = none := by
      rw [recordBootSuccess_coherent _ (PM.new_coherent d)]
      unfold PM.recordBootSuccess; simp [hb', PM.save, deleteOlderThan_ps]
    split <;> (try split) <;> exact h1

theorem clean_booting (v : String) : (loadPatchesState (cleanDisk v)).booting = none := by
  simp [loadPatchesState, cleanDisk, JFile.getD]

/-- Every call on an unreadable / other-release state leaves nothing marked as booting. -/
theorem unsettled_boot_none (env : Env) (c : Config) (w : World) (op : Op)
    (he : entersWith w.config op = some c) (hu : ¬ Settled w.disk c.version) :
    (loadPatchesState (opDisk env c w op)).booting = none := by
  rw [opDisk_unsettled env c w op he hu]
  by_cases hst : op = .start
  · subst hst
    simp only [opDisk]
    rw [secLaunchStart_cleanDisk]; exact clean_booting _
  · rcases opDisk_boot env c { w with disk := cleanDisk c.version } op (settled_clean c.version) hst with h | h
    · rw [h]; exact clean_booting _
    · exact h

/-! ### when the C03 tracker stops being blind -/

theorem G03_blind_cases (env : Env) (g : G03) (op : Op) (pre post : View)
    (h : (G03.next env g op pre post).blind = false) :
    resetsState g.cfg op pre = true ∨ (succeededBy g.cfg op pre).isSome = true ∨
      (g.blind = false ∧ op.isStateDamage = false) := by
  unfold G03.next at h
  split at h
  · exact Or.inl (by assumption)
  · split at h
    · rename_i n hn; right; left; rw [hn]; rfl
    · split at h
      · cases h
      · rename_i hsd
        have hsd' : op.isStateDamage = false := by simpa using hsd
        split at h
        · exact Or.inr (Or.inr ⟨h, hsd'⟩)
        · split at h
          · cases h
          · split at h
            · cases h
            · split at h
              · exact Or.inr (Or.inr ⟨h, hsd'⟩)
              · split at h <;> exact Or.inr (Or.inr ⟨h, hsd'⟩)

/-! ### the invariant -/

def Inv18 (env : Env) (K : Option String) (w : World) (g : G18) : Prop :=
  g.cfg = w.config ∧ Inv03 env K w g.g3 ∧
  (∀ n, g.running = some n → w.config ≠ none ∧ RunD env K w.disk n) ∧
  (w.config ≠ none → g.started = false → g.g3.blind = false → (loadPatchesState w.disk).booting = none)

def Adm18 (K : Option String) (g : G18) (op : Op) : Prop := Adm03 K g.g3 op

/-- The C03 part of the step. -/
theorem step03 (env : Env) (K : Option String) (w : World) (g : G03) (op : Op) (pre : View)
    (hadm : Adm03 K g op) (hinv : Inv03 env K w g) (hshow : ShowsDisk w pre) :
    Step03 env K w g op pre (G03.next env g op pre (postView env w op)) := by
  have hop : InitKey K op := hadm
  cases he : entersWith w.config op with
  | none => exact step03_noenter env K w g op pre hinv he
  | some c =>
    by_cases hst : Settled w.disk c.version
    · by_cases hsu : op = .success
      · subst hsu; exact step03_success env K w g pre c hinv hshow he hst
      · exact step03_enter env K w g op pre c hinv hshow he (entersWith_key K w op c hinv.2.1 hop he) hst hsu
    · exact step03_unsettled env K w g op pre c hinv hshow he hst

theorem startsNow_iff (cfg : Option Config) (op : Op) : startsNow cfg op = true ↔ op = .start ∧ cfg ≠ none := by
  cases op <;> cases cfg <;> simp [startsNow]

/-- The running patch across one call. -/
theorem step_run (env : Env) (K : Option String) (w : World) (op : Op) (run : Option Nat) (pre : View)
    (hs : ShowsDisk w pre) (hK : ∀ c, w.config = some c → c.key = K) (hop : InitKey K op)
    (hrun : ∀ n, run = some n → w.config ≠ none ∧ RunD env K w.disk n) :
    ∀ n, runningAfter env w.config run op pre (postView env w op) = some n →
      w.config ≠ none ∧ RunD env K (step env w op).1.disk n := by
  intro n hn
  unfold runningAfter at hn
  split at hn
  · cases hn
  · rename_i hflags0
    simp only [Bool.or_eq_true, not_or, Bool.not_eq_true] at hflags0
    obtain ⟨hnr, hnsd⟩ := hflags0
    split at hn
    · -- a launch start of a configured process: read off the view
      rename_i hstart
      obtain ⟨_, hc⟩ := (startsNow_iff _ _).1 hstart
      refine ⟨hc, ?_⟩
      have hkey : (w.config.bind (·.key)) = K := by
        cases hcc : w.config with
        | none => exact absurd hcc hc
        | some c => exact hK c hcc
      rw [hkey] at hn
      exact runD_of_view env K (showsDisk_view _ _ _) n hn
    · rename_i hnstart
      cases hr : run with
      | none => simp [hr] at hn
      | some m =>
        simp only [hr] at hn
        split at hn
        · cases hn
        · rename_i hflags
          have hmn : m = n := by simpa using hn
          subst hmn
          simp only [Bool.or_eq_true, not_or, Bool.not_eq_true, decide_eq_false_iff_not] at hflags
          obtain ⟨⟨⟨hnfail, hnrb⟩, hnhit⟩, hninst⟩ := hflags
          obtain ⟨hcne, h0⟩ := hrun m hr
          refine ⟨hcne, ?_⟩
          cases he : entersWith w.config op with
          | none =>
            rw [step_disk_noenter env w op he]
            cases op <;> try exact h0
            case damage dm =>
              simp only [noenterDisk]
              exact RunD_congr env K _ _ m (damage_pj _ _ (by simpa [Op.isStateDamage] using hnsd))
                (damage_art_other _ _ _ (by simpa [Op.hitsArt] using hnhit)) h0
          | some c =>
            rw [step_disk_enter env w op c he]
            have hck := entersWith_key K w op c hK hop he
            have hst : Settled w.disk c.version := by
              by_cases hst : Settled w.disk c.version
              · exact hst
              · rw [resets_of_unsettled w pre hs op c he hst] at hnr; cases hnr
            rw [← hck] at h0 ⊢
            have hboot : ∀ (hfb : failedBy w.config op pre = pre.bootingNum),
                (loadPatchesState w.disk).booting.map (·.number) ≠ some m := by
              intro hfb; rw [← bootingNum_of_shows hs, ← hfb]; exact hnfail
            cases op with
            | restart => simp [entersWith] at he
            | auto => simp [entersWith] at he
            | damage dm => simp [entersWith] at he
            | start =>
              exfalso
              have hc : w.config = some c := he
              have : startsNow w.config .start = true := by simp [startsNow, hc]
              rw [this] at hnstart; exact hnstart rfl
            | init p =>
              simp only [opDisk]
              rw [secHandlePrior_run env c w.disk m hst h0 (hboot (by simp only [failedBy, hnr, Bool.false_eq_true, if_false, he]))]
              exact h0
            | success => exact secLaunchSuccess_run env c w.disk m hst h0
            | failure =>
              simp only [opDisk]
              have hc : w.config = some c := he
              rw [hc] at hnr
              rw [secLaunchFailure_run env c w.disk m hst h0 (hboot (by simp only [failedBy, hc, hnr, Bool.false_eq_true, if_false]))]
              exact h0
            | nextN => exact secNextBootPatch_run env c w.disk m hst h0
            | nextP => exact secNextBootPatch_run env c w.disk m hst h0
            | curN => simp only [opDisk]; rw [secCurrentBootPatch_disk c w.disk hst]; exact h0
            | check chan resp =>
              cases resp with
              | none => simp [entersWith] at he
              | some r =>
                have hc : w.config = some c := by
                  simp only [entersWith] at he; split at he <;> first | exact he | cases he
                refine checkCore_run env c w.disk m r hst ?_ h0
                intro hmem
                have : (rolledBackBy w.config (.check chan (some r))).contains m = true := by
                  simp [rolledBackBy, hc, Op.respOf, hmem]
                rw [this] at hnrb; cases hnrb
            | update chan sc =>
              have hc : w.config = some c := he
              refine updateCore_run env c w.disk m (w.base c) sc hst ?_ ?_ h0
              · intro r hr' hmem
                have : (rolledBackBy w.config (.update chan sc)).contains m = true := by
                  simp [rolledBackBy, hc, Op.respOf, hr', hmem]
                rw [this] at hnrb; cases hnrb
              · intro hi o ho hom
                apply hninst
                have hret : (postView env w (.update chan sc)).ret = .upd .installed := by
                  simp [postView, step, update, hc, World.view, hi]
                simp [installedBy, hret, Op.offer, Op.respOf, ho, hom]


theorem G18_next_eq (env : Env) (g : G18) (op : Op) (pre post : View) (h : op ≠ .restart) :
    G18.next env g op pre post =
      { cfg := trackCfg g.cfg op, started := g.started || startsNow g.cfg op,
        running := runningAfter env g.cfg g.running op pre post, g3 := g.g3.next env op pre post } := by
  cases op <;> first | rfl | exact absurd rfl h

theorem trackCfg_ne_none (cfg : Option Config) (op : Op) (h : op ≠ .restart) (hc : cfg ≠ none) : trackCfg cfg op ≠ none := by
  cases op <;> simp only [trackCfg] <;> first | exact hc | exact absurd rfl h | skip
  case init p => cases cfg with
    | none => exact absurd rfl hc
    | some c => simp

theorem trackCfg_noenter (cfg : Option Config) (op : Op) (h : op ≠ .restart) (he : entersWith cfg op = none) :
    trackCfg cfg op = cfg := by
  cases op <;> simp only [trackCfg] <;> try exact absurd rfl h
  case init p =>
    cases cfg with
    | none => simpa [entersWith] using he
    | some c => rfl

theorem config_of_enters (cfg : Option Config) (op : Op) (c : Config) (he : entersWith cfg op = some c)
    (hni : ∀ p, op ≠ .init p) : cfg = some c := by
  cases op with
  | init p => exact absurd rfl (hni p)
  | restart => simp [entersWith] at he
  | auto => simp [entersWith] at he
  | damage d => simp [entersWith] at he
  | check chan resp =>
    cases resp with
    | none => simp [entersWith] at he
    | some r => simp only [entersWith] at he; split at he <;> first | exact he | cases he
  | start => exact he
  | success => exact he
  | failure => exact he
  | nextN => exact he
  | nextP => exact he
  | curN => exact he
  | update chan sc => exact he

/-- "Nothing is booting before the launch start", re-established after one call. -/
theorem step_idle (env : Env) (K : Option String) (w : World) (g : G18) (op : Op) (pre : View)
    (hinv : Inv18 env K w g) (hs : ShowsDisk w pre) (hnre : op ≠ .restart)
    (hst' : (g.started || startsNow g.cfg op) = false)
    (hbl : (G03.next env g.g3 op pre (postView env w op)).blind = false)
    (hc' : trackCfg w.config op ≠ none) :
    (loadPatchesState (step env w op).1.disk).booting = none := by
  obtain ⟨hcfg, hI3, hrun, hidle⟩ := hinv
  have h3cfg : g.g3.cfg = w.config := hI3.1
  simp only [Bool.or_eq_false_iff] at hst'
  obtain ⟨hstarted, hnow⟩ := hst'
  have hcases := G03_blind_cases env g.g3 op pre _ hbl
  rw [h3cfg] at hcases
  cases he : entersWith w.config op with
  | none =>
    rw [step_disk_noenter env w op he]
    have hcw : w.config ≠ none := by rw [← trackCfg_noenter w.config op hnre he]; exact hc'
    rcases hcases with h | h | ⟨hb, hsd⟩
    · simp [resetsState, he] at h
    · rw [succeededBy_noenter w op pre he] at h; cases h
    · unfold loadPatchesState; rw [noenter_pj w op hsd]
      exact hidle hcw hstarted hb
  | some c =>
    rw [step_disk_enter env w op c he]
    by_cases hst : Settled w.disk c.version
    · by_cases hin : ∃ p, op = .init p
      · obtain ⟨p, rfl⟩ := hin
        exact secHandlePrior_boot_none env c w.disk hst
      · have hc : w.config = some c := config_of_enters w.config op c he (fun p hp => hin ⟨p, hp⟩)
        have hnstart : op ≠ .start := by
          intro e; subst e
          rw [hcfg, hc] at hnow; simp [startsNow] at hnow
        rcases hcases with h | h | ⟨hb, _⟩
        · rw [not_resets_of_settled w pre hs op c he hst] at h; cases h
        · by_cases hsu : op = .success
          · subst hsu; exact secLaunchSuccess_boot_none env c w.disk hst
          · rw [succeededBy_ne_success _ _ _ hsu] at h; cases h
        · rcases opDisk_boot env c w op hst hnstart with h | h
          · rw [h]; exact hidle (by rw [hc]; simp) hstarted hb
          · exact h
    · exact unsettled_boot_none env c w op he hst

theorem ret_curN (env : Env) (w : World) (c : Config) (hc : w.config = some c) :
    (postView env w .curN).ret = .num ((secCurrentBootPatch c w.disk).2.getD 0) := by
  simp [postView, step, currentBootPatch, hc, World.view]

theorem secCurrentBootPatch_settled (c : Config) (d : Disk) (hst : Settled d c.version) :
    (secCurrentBootPatch c d).2 = curOf (loadPatchesState d) := by
  obtain ⟨s, hs, hv⟩ := hst
  simp only [secCurrentBootPatch, loadOrNew_settled d _ s hs hv, currentBootPatch_eq]
  rfl

/-- One step of the C18 monitor on the model. -/
theorem step18 (env : Env) (K : Option String) (w : World) (g : G18) (op : Op) (pre : View)
    (hadm : Adm18 K g op) (hinv : Inv18 env K w g) (hs : ShowsDisk w pre) :
    firstFail (mon18.checks env g op pre (postView env w op)) = none ∧
    Inv18 env K (step env w op).1 (mon18.next env g op pre (postView env w op)) := by
  have hinv0 := hinv
  obtain ⟨hcfg, hI3, hrun, hidle⟩ := hinv
  have hop : InitKey K op := hadm
  have hK := hI3.2.1
  have S3 := step03 env K w g.g3 op pre hadm hI3 hs
  have hI3' : Inv03 env K (step env w op).1 (G03.next env g.g3 op pre (postView env w op)) :=
    ⟨S3.cfg.trans (step_config env w op).symm, key_step env K w op hK hop, S3.good, S3.nolast⟩
  have hshow' := showsDisk_view (step env w op).1 (step env w op).2.1 (step env w op).2.2
  simp only [mon18]
  by_cases hre : op = .restart
  · subst hre
    have hg' : G18.next env g .restart pre (postView env w .restart) =
        { cfg := trackCfg g.cfg .restart, started := false, running := none,
          g3 := g.g3.next env .restart pre (postView env w .restart) } := rfl
    rw [hg']
    refine ⟨?_, ?_, hI3', (by intro n h; cases h), ?_⟩
    · simp [runChecks, idleChecks, startChecks, startsNow, firstFail]
    · rw [hcfg]; exact (step_config env w .restart).symm
    · intro hc; exfalso; apply hc; rw [step_config]; rfl
  · rw [G18_next_eq env g op pre _ hre]
    have hrun' : ∀ n, runningAfter env g.cfg g.running op pre (postView env w op) = some n →
        w.config ≠ none ∧ RunD env K (step env w op).1.disk n := by
      rw [hcfg]; exact step_run env K w op g.running pre hs hK hop hrun
    have hc'_of : w.config ≠ none → (step env w op).1.config ≠ none := by
      intro h; rw [step_config]; exact trackCfg_ne_none _ _ hre h
    have hidle' : (step env w op).1.config ≠ none → (g.started || startsNow g.cfg op) = false →
        (G03.next env g.g3 op pre (postView env w op)).blind = false →
        (loadPatchesState (step env w op).1.disk).booting = none := by
      intro hc' hst' hbl
      rw [step_config] at hc'
      exact step_idle env K w g op pre hinv0 hs hre hst' hbl hc'
    refine ⟨?_, ?_, hI3', ?_, hidle'⟩
    · rw [firstFail_append, firstFail_append]
      refine ⟨⟨?_, ?_⟩, ?_⟩
      · -- the running patch is the current patch
        cases hr : runningAfter env g.cfg g.running op pre (postView env w op) with
        | none => rfl
        | some n =>
          obtain ⟨hcne, hR⟩ := hrun' n hr
          have hcur : (postView env w op).curNum = some n := by
            rw [curNum_eq]
            show curOf (loadPatchesState (step env w op).1.disk) = some n
            exact RunD_cur env K _ n hR
          simp only [runChecks, firstFail_none_iff, List.mem_cons, List.mem_nil_iff, or_false]
          rintro chk (rfl | rfl)
          · simp only [decide_eq_true_eq]; exact hcur
          · cases op <;> try rfl
            case curN =>
              simp only [decide_eq_true_eq]
              cases hc : w.config with
              | none => exact absurd hc hcne
              | some c =>
                have he : entersWith w.config .curN = some c := hc
                have hst : Settled w.disk c.version := by
                  by_cases hst : Settled w.disk c.version
                  · exact hst
                  · have hrs := resets_of_unsettled w pre hs .curN c he hst
                    rw [← hcfg] at hrs
                    simp [runningAfter, hrs] at hr
                have hd : (step env w .curN).1.disk = w.disk := by
                  rw [step_disk_enter env w _ c he]; simp only [opDisk]; exact secCurrentBootPatch_disk c w.disk hst
                rw [ret_curN env w c hc, secCurrentBootPatch_settled c w.disk hst, ← hd, RunD_cur env K _ n hR]
                rfl
      · -- before the launch start the current patch is the last good patch
        cases op <;> try rfl
        case curN =>
          simp only [idleChecks, trackCfg, startsNow, Bool.or_false]
          cases hc : g.cfg with
          | none => rfl
          | some c =>
            have hwc : w.config = some c := by rw [← hcfg]; exact hc
            have he : entersWith w.config .curN = some c := hwc
            cases hstd : g.started with
            | true => rfl
            | false =>
              cases hbl : (G03.next env g.g3 .curN pre (postView env w .curN)).blind with
              | true => rfl
              | false =>
                simp only [firstFail_none_iff, List.mem_cons, List.mem_nil_iff, or_false]
                rintro chk rfl
                simp only [decide_eq_true_eq]
                have hboot := hidle' (hc'_of (by rw [hwc]; simp)) (by simp [hstd, startsNow]) hbl
                rw [ret_curN env w c hwc]
                by_cases hst : Settled w.disk c.version
                · have hd : (step env w .curN).1.disk = w.disk := by
                    rw [step_disk_enter env w _ c he]; simp only [opDisk]; exact secCurrentBootPatch_disk c w.disk hst
                  rw [secCurrentBootPatch_settled c w.disk hst, ← hd]
                  unfold curOf; rw [hboot]; simp only
                  cases hgd : (G03.next env g.g3 .curN pre (postView env w .curN)).good with
                  | none => rw [S3.nolast hgd hbl]; rfl
                  | some nb =>
                    obtain ⟨n, b⟩ := nb
                    obtain ⟨_, ⟨m, hm, hmn⟩, _⟩ := S3.good n b hgd
                    rw [hm]; simp [hmn]
                · have hd : (step env w .curN).1.disk = cleanDisk c.version := by
                    rw [step_disk_enter env w _ c he, opDisk_unsettled env c w _ he hst]
                    simp only [opDisk, secCurrentBootPatch_cleanDisk]
                  rw [secCurrentBootPatch_clean c w.disk hst, secCurrentBootPatch_cleanDisk]
                  cases hgd : (G03.next env g.g3 .curN pre (postView env w .curN)).good with
                  | none => rfl
                  | some nb =>
                    obtain ⟨n, b⟩ := nb
                    obtain ⟨_, ⟨m, hm, _⟩, _⟩ := S3.good n b hgd
                    rw [hd, clean_last] at hm; cases hm
      · -- a launch start records what it hands out
        unfold startChecks
        split
        · rename_i hstart
          obtain ⟨rfl, hcn⟩ := (startsNow_iff _ _).1 hstart
          simp only [firstFail_none_iff, List.mem_cons, List.mem_nil_iff, or_false]
          rintro chk rfl
          cases hc : w.config with
          | none => rw [hcfg] at hcn; exact absurd hc hcn
          | some c =>
            have he : entersWith w.config .start = some c := hc
            have hd := step_disk_enter env w .start c he
            simp only [opDisk] at hd
            cases hnx : (postView env w .start).nextNum with
            | none => simp
            | some n =>
              simp only [decide_eq_true_eq]
              rw [post_nextNum] at hnx
              by_cases hst : Settled w.disk c.version
              · cases hm : (loadPatchesState (step env w .start).1.disk).next with
                | none => rw [hm] at hnx; cases hnx
                | some m =>
                  have hb := secLaunchStart_records env c w.disk hst m (by rw [← hd]; exact hm)
                  rw [← hd] at hb
                  show (loadPatchesState (step env w .start).1.disk).booting.map (·.number) = some n
                  rw [hb]; rw [hm] at hnx; exact hnx
              · exfalso
                rw [hd, secLaunchStart_clean env c w.disk hst, secLaunchStart_cleanDisk, clean_next] at hnx
                cases hnx
        · rfl
    · rw [hcfg]; exact (step_config env w op).symm
    · intro n hn
      obtain ⟨hcne, hR⟩ := hrun' n hn
      exact ⟨hc'_of hcne, hR⟩

/-- **C18.** For every model history with one configured key and a server that does not re-issue the
    last good number with other bytes, the C18 monitor accepts: (1) from a launch start that handed
    patch `n` to the engine (every record of `n` matching its artifact), the recorded and reported
    current patch is `n` after every later call of that process — installs, checks and rollbacks of
    other patches, the success report, damage elsewhere — until the launch is reported failed, `n` is
    rolled back, re-issued or damaged from outside, the release changes or the process ends;
    (2) after a restart and before the next launch start, `current_boot_patch` reports the last good
    patch (0 if none); (3) a launch start records the patch it selected as booting. -/
theorem C18_holds (env : Env) (K : Option String) (libs : List (String × Bytes)) (ops : List Op)
    (hadm : mon18.admissible env (Adm18 K) mon18.init View.empty (viewTrace env (World.fresh libs) ops)) :
    mon18.accepts env (viewTrace env (World.fresh libs) ops) = true := by
  apply Monitor.accepts_of_inv_adm mon18 env libs (Inv18 env K) (Adm18 K) _ _ ops hadm
  · refine ⟨rfl, ?_, (by intro n h; simp [mon18] at h), ?_⟩
    · refine ⟨rfl, (by intro c hc; simp [World.fresh] at hc), (by intro n b h; simp [mon18] at h), ?_⟩
      intro _ _
      simp [World.fresh, Disk.empty, loadPatchesState, JFile.getD]
    · intro hc; simp [World.fresh] at hc
  · intro w g op pre hadm hinv hshow
    exact step18 env K w g op pre hadm hinv hshow

end Updater
