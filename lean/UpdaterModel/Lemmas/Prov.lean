/-
  Provenance: every record in a slot was put there by `add_patch` (or was in a slot before).
-/
import UpdaterModel.Lemmas.Valid
import UpdaterModel.Lemmas.Events

namespace Updater

def InSlot (ps : PatchesState) (m : Meta) : Prop := ps.next = some m ∨ ps.last = some m ∨ ps.booting = some m

/-- Every record of `ps'` is a record of `ps`. -/
def SlotsSub (ps' ps : PatchesState) : Prop := ∀ m, InSlot ps' m → InSlot ps m

theorem SlotsSub.refl (ps) : SlotsSub ps ps := fun _ h => h
theorem SlotsSub.trans {a b c} (h1 : SlotsSub a b) (h2 : SlotsSub b c) : SlotsSub a c := fun m h => h2 m (h1 m h)

theorem fallBackPS_slots (ps n v) : SlotsSub (fallBackPS ps n v) ps := by
  intro m hm
  unfold InSlot at hm ⊢
  rw [fallBackPS_booting] at hm
  unfold fallBackPS at hm
  cases hnx : ps.next <;> cases hls : ps.last <;> simp only [hnx, hls] at hm <;>
    (try split at hm) <;> (try split at hm) <;> simp_all <;> grind

theorem tryFallBack_slots (env key) (pm : PM) (n : Nat) : SlotsSub (pm.tryFallBack env key n).ps pm.ps := by
  rw [tryFallBack_ps]; exact fallBackPS_slots _ _ _

theorem nextBootPatch_slots (env key) (pm : PM) : SlotsSub (pm.nextBootPatch env key).1.ps pm.ps := by
  unfold PM.nextBootPatch
  cases pm.ps.next with
  | none => exact SlotsSub.refl _
  | some nx => simp only; split <;> first | exact SlotsSub.refl _ | exact tryFallBack_slots _ _ _ _

theorem recordBootStart_slots (pm : PM) (n : Nat) : SlotsSub (pm.recordBootStart n).1.ps pm.ps := by
  unfold PM.recordBootStart
  cases hnx : pm.ps.next with
  | none => exact SlotsSub.refl _
  | some nx =>
    simp only; split
    · exact SlotsSub.refl _
    · intro m hm; simp only [PM.save, InSlot] at hm ⊢; rcases hm with h | h | h
      · exact Or.inl h
      · exact Or.inr (Or.inl h)
      · left; rw [hnx]; exact h

theorem recordBootSuccess_slots (pm : PM) : SlotsSub pm.recordBootSuccess.1.ps pm.ps := by
  unfold PM.recordBootSuccess
  cases hb : pm.ps.booting with
  | none => exact SlotsSub.refl _
  | some bp =>
    intro m hm
    simp only [PM.save, deleteOlderThan_ps, InSlot] at hm ⊢
    rcases hm with h | h | h
    · exact Or.inl h
    · right; right; rw [hb]; exact h
    · simp at h

theorem recordBootFailure_slots (env key) (pm : PM) (n : Nat) : SlotsSub (pm.recordBootFailure env key n).ps pm.ps := by
  unfold PM.recordBootFailure
  refine (tryFallBack_slots env key _ n).trans ?_
  intro m hm; simp only [InSlot] at hm ⊢
  rcases hm with h | h | h
  · exact Or.inl h
  · exact Or.inr (Or.inl h)
  · simp at h

theorem foldFallBack_slots (env key) (ns : List Nat) (pm : PM) :
    SlotsSub (ns.foldl (fun pm n => pm.tryFallBack env key n) pm).ps pm.ps := by
  induction ns generalizing pm with
  | nil => exact SlotsSub.refl _
  | cons n ns ih => simp only [List.foldl]; exact (ih _).trans (tryFallBack_slots _ _ _ _)

/-- Slots read off the disk. -/
def SlotsSubD (d' d : Disk) : Prop := SlotsSub (loadPatchesState d') (loadPatchesState d)

theorem SlotsSubD.refl (d) : SlotsSubD d d := SlotsSub.refl _
theorem SlotsSubD.trans {a b c} (h1 : SlotsSubD a b) (h2 : SlotsSubD b c) : SlotsSubD a c := SlotsSub.trans h1 h2

theorem slotsSubD_of_pm (pm : PM) (d : Disk) (hc : pm.Coherent) (h : SlotsSub pm.ps (loadPatchesState d)) :
    SlotsSubD pm.disk d := by unfold SlotsSubD; rw [hc]; exact h

section
variable (env : Env) (cfg : Config) (d : Disk)

theorem slots_secNextBootPatch (h : Settled d cfg.version) : SlotsSubD (secNextBootPatch env cfg d).1 d := by
  obtain ⟨s, hs, hv⟩ := h
  simp only [secNextBootPatch, loadOrNew_settled d _ s hs hv]
  exact slotsSubD_of_pm _ _ (nextBootPatch_coherent env cfg.key (PM.new d) (PM.new_coherent d)) (nextBootPatch_slots env cfg.key (PM.new d))

theorem slots_secLaunchStart (h : Settled d cfg.version) : SlotsSubD (secLaunchStart env cfg d) d := by
  obtain ⟨s, hs, hv⟩ := h
  simp only [secLaunchStart, loadOrNew_settled d _ s hs hv]
  have hc := nextBootPatch_coherent env cfg.key (PM.new d) (PM.new_coherent d)
  have hn := nextBootPatch_slots env cfg.key (PM.new d)
  split
  · exact slotsSubD_of_pm _ _ (recordBootStart_coherent _ _ hc) ((recordBootStart_slots _ _).trans hn)
  · exact slotsSubD_of_pm _ _ hc hn

theorem slots_secLaunchSuccess (h : Settled d cfg.version) : SlotsSubD (secLaunchSuccess env cfg d).1 d := by
  obtain ⟨s, hs, hv⟩ := h
  simp only [secLaunchSuccess, loadOrNew_settled d _ s hs hv]
  split
  · exact SlotsSubD.refl _
  · have : SlotsSubD (PM.new d).recordBootSuccess.1.disk d :=
      slotsSubD_of_pm _ _ (recordBootSuccess_coherent _ (PM.new_coherent d)) (recordBootSuccess_slots _)
    split <;> (try split) <;> exact this

theorem slots_secLaunchFailure (h : Settled d cfg.version) : SlotsSubD (secLaunchFailure env cfg d) d := by
  obtain ⟨s, hs, hv⟩ := h
  simp only [secLaunchFailure, loadOrNew_settled d _ s hs hv]
  split
  · exact SlotsSubD.refl _
  · exact slotsSubD_of_pm _ _ (recordBootFailure_coherent _ _ _ _) (recordBootFailure_slots _ _ _ _)

theorem slots_secHandlePrior (h : Settled d cfg.version) : SlotsSubD (secHandlePriorBootFailure env cfg d) d := by
  obtain ⟨s, hs, hv⟩ := h
  simp only [secHandlePriorBootFailure, loadOrNew_settled d _ s hs hv]
  split
  · exact slotsSubD_of_pm _ _ (recordBootFailure_coherent _ _ _ _) (recordBootFailure_slots _ _ _ _)
  · exact SlotsSubD.refl _

theorem slots_secClearEvents (h : Settled d cfg.version) : SlotsSubD (secClearEvents cfg d) d := by
  unfold SlotsSubD loadPatchesState; rw [secClearEvents_pj cfg d h]; exact SlotsSub.refl _

theorem slots_rollBackIfNeeded (rb) (h : Settled d cfg.version) : SlotsSubD (rollBackIfNeeded env cfg d rb) d := by
  cases rb with
  | none => exact SlotsSubD.refl _
  | some ns =>
    obtain ⟨s, hs, hv⟩ := h
    simp only [rollBackIfNeeded, secRollBack, loadOrNew_settled d _ s hs hv]
    exact slotsSubD_of_pm _ _ (foldFallBack_ban env cfg.key ns (PM.new d) [] (PM.new_coherent d) (BanPS_nil _)).1
      (foldFallBack_slots env cfg.key ns (PM.new d))

theorem slots_shouldInstall (n : Nat) (h : Settled d cfg.version) : SlotsSubD (shouldInstall env cfg d n).1 d := by
  unfold shouldInstall
  rw [secIsKnownBad_eq cfg d n h]
  simp only
  split
  · exact SlotsSubD.refl _
  · split <;> exact slots_secNextBootPatch env cfg d h

theorem slots_checkCore (resp) (h : Settled d cfg.version) : SlotsSubD (checkCore env cfg d resp).1 d := by
  unfold checkCore
  cases resp with
  | none => exact SlotsSubD.refl _
  | some r =>
    simp only
    have h1 := rollBackIfNeeded_settled env cfg d r.rolledBack h
    have a1 := slots_rollBackIfNeeded env cfg d r.rolledBack h
    cases r.patch with
    | none => exact a1
    | some o => exact (slots_shouldInstall env cfg _ o.number h1).trans a1

/-- The records after the install section: the new one, or old ones. -/
theorem slots_secInstall (o : Offer) (out : Bytes) (h : Settled d cfg.version) :
    ∀ m, InSlot (loadPatchesState (secInstall cfg d o out)) m →
      m = { number := o.number, size := out.length, hash := o.hash, sig := o.sig } ∨ InSlot (loadPatchesState d) m := by
  obtain ⟨s, hs, hv⟩ := h
  simp only [secInstall, loadOrNew_settled d _ s hs hv]
  rw [addPatch_coherent, addPatch_ps]
  intro m hm
  simp only [InSlot] at hm ⊢
  rcases hm with h | h | h
  · left; simpa using h.symm
  · exact Or.inr (Or.inr (Or.inl h))
  · exact Or.inr (Or.inr (Or.inr h))

end

end Updater
