/-
  Frame facts: which calls can create artifacts (only an install), and what the sections do to the
  directory listing.
-/
import UpdaterModel.Lemmas.Arts
import UpdaterModel.Lemmas.Steps

namespace Updater

/-- `d'` has no artifact that `d` did not have (same content where present). -/
def ArtSub (d' d : Disk) : Prop := ∀ k, d'.art k = none ∨ d'.art k = d.art k

theorem ArtSub.refl (d : Disk) : ArtSub d d := fun _ => Or.inr rfl

theorem ArtSub.trans {a b c : Disk} (h1 : ArtSub a b) (h2 : ArtSub b c) : ArtSub a c := by
  intro k
  rcases h1 k with h | h
  · exact Or.inl h
  · rcases h2 k with h' | h'
    · exact Or.inl (h.trans h')
    · exact Or.inr (h.trans h')

theorem ArtSub.of_art_eq {a b : Disk} (h : ∀ k, a.art k = b.art k) : ArtSub a b := fun k => Or.inr (h k)

theorem artSub_tryFallBack (env key) (pm : PM) (n : Nat) : ArtSub (pm.tryFallBack env key n).disk pm.disk :=
  fun k => art_tryFallBack_sub env key pm n k

theorem artSub_nextBootPatch (env key) (pm : PM) : ArtSub (pm.nextBootPatch env key).1.disk pm.disk := by
  unfold PM.nextBootPatch
  cases pm.ps.next with
  | none => exact ArtSub.refl _
  | some nx => simp only; split <;> first | exact ArtSub.refl _ | exact artSub_tryFallBack _ _ _ _

theorem art_recordBootStart (pm : PM) (n k : Nat) : (pm.recordBootStart n).1.disk.art k = pm.disk.art k := by
  unfold PM.recordBootStart
  cases pm.ps.next with
  | none => rfl
  | some nx => simp only; split <;> rfl

theorem artSub_recordBootSuccess (pm : PM) : ArtSub pm.recordBootSuccess.1.disk pm.disk := by
  intro k
  cases hb : pm.ps.booting with
  | none => right; unfold PM.recordBootSuccess; simp [hb]
  | some bp => rw [art_recordBootSuccess pm bp hb k]; split <;> simp

theorem artSub_recordBootFailure (env key) (pm : PM) (n : Nat) : ArtSub (pm.recordBootFailure env key n).disk pm.disk := by
  unfold PM.recordBootFailure
  exact artSub_tryFallBack env key _ n

theorem artSub_foldFallBack (env key) (ns : List Nat) (pm : PM) :
    ArtSub (ns.foldl (fun pm n => pm.tryFallBack env key n) pm).disk pm.disk := by
  induction ns generalizing pm with
  | nil => exact ArtSub.refl _
  | cons n ns ih => simp only [List.foldl]; exact (ih _).trans (artSub_tryFallBack _ _ _ _)

/-- After rolling back a list, none of its numbers has an artifact. -/
theorem art_foldFallBack_mem (env key) (ns : List Nat) (pm : PM) (n : Nat) (hn : n ∈ ns) :
    (ns.foldl (fun pm n => pm.tryFallBack env key n) pm).disk.art n = none := by
  induction ns generalizing pm with
  | nil => cases hn
  | cons m ns ih =>
    simp only [List.foldl]
    rcases List.mem_cons.1 hn with rfl | h
    · rcases artSub_foldFallBack env key ns (pm.tryFallBack env key n) n with h | h
      · exact h
      · rw [h, art_tryFallBack_self]
    · exact ih _ h

section
variable (env : Env) (cfg : Config) (d : Disk)

theorem artSub_secNextBootPatch (h : Settled d cfg.version) : ArtSub (secNextBootPatch env cfg d).1 d := by
  obtain ⟨s, hs, hv⟩ := h
  simp only [secNextBootPatch, loadOrNew_settled d _ s hs hv]
  exact artSub_nextBootPatch env cfg.key (PM.new d)

theorem artSub_secLaunchStart (h : Settled d cfg.version) : ArtSub (secLaunchStart env cfg d) d := by
  obtain ⟨s, hs, hv⟩ := h
  simp only [secLaunchStart, loadOrNew_settled d _ s hs hv]
  split
  · exact (ArtSub.of_art_eq (art_recordBootStart _ _)).trans (artSub_nextBootPatch env cfg.key (PM.new d))
  · exact artSub_nextBootPatch env cfg.key (PM.new d)

theorem artSub_secLaunchSuccess (h : Settled d cfg.version) : ArtSub (secLaunchSuccess env cfg d).1 d := by
  obtain ⟨s, hs, hv⟩ := h
  simp only [secLaunchSuccess, loadOrNew_settled d _ s hs hv]
  split
  · exact ArtSub.refl _
  · have := artSub_recordBootSuccess (PM.new d)
    split <;> (try split) <;> exact this

theorem artSub_secLaunchFailure (h : Settled d cfg.version) : ArtSub (secLaunchFailure env cfg d) d := by
  obtain ⟨s, hs, hv⟩ := h
  simp only [secLaunchFailure, loadOrNew_settled d _ s hs hv]
  split
  · exact ArtSub.refl _
  · exact artSub_recordBootFailure env cfg.key (PM.new d) _

theorem artSub_secHandlePrior (h : Settled d cfg.version) : ArtSub (secHandlePriorBootFailure env cfg d) d := by
  obtain ⟨s, hs, hv⟩ := h
  simp only [secHandlePriorBootFailure, loadOrNew_settled d _ s hs hv]
  split
  · exact artSub_recordBootFailure env cfg.key (PM.new d) _
  · exact ArtSub.refl _

theorem artSub_secClearEvents (h : Settled d cfg.version) : ArtSub (secClearEvents cfg d) d := by
  obtain ⟨s, hs, hv⟩ := h
  simp only [secClearEvents, loadOrNew_settled d _ s hs hv]
  exact ArtSub.refl _

theorem artSub_rollBackIfNeeded (rb) (h : Settled d cfg.version) : ArtSub (rollBackIfNeeded env cfg d rb) d := by
  cases rb with
  | none => exact ArtSub.refl _
  | some ns =>
    obtain ⟨s, hs, hv⟩ := h
    simp only [rollBackIfNeeded, secRollBack, loadOrNew_settled d _ s hs hv]
    exact artSub_foldFallBack env cfg.key ns (PM.new d)

theorem art_rollBack_mem (ns : List Nat) (n : Nat) (hn : n ∈ ns) (h : Settled d cfg.version) :
    (rollBackIfNeeded env cfg d (some ns)).art n = none := by
  obtain ⟨s, hs, hv⟩ := h
  simp only [rollBackIfNeeded, secRollBack, loadOrNew_settled d _ s hs hv]
  exact art_foldFallBack_mem env cfg.key ns (PM.new d) n hn

theorem artSub_shouldInstall (n : Nat) (h : Settled d cfg.version) : ArtSub (shouldInstall env cfg d n).1 d := by
  unfold shouldInstall
  rw [secIsKnownBad_eq cfg d n h]
  simp only
  split
  · exact ArtSub.refl _
  · split <;> exact artSub_secNextBootPatch env cfg d h

theorem artSub_checkCore (resp) (h : Settled d cfg.version) : ArtSub (checkCore env cfg d resp).1 d := by
  unfold checkCore
  cases resp with
  | none => exact ArtSub.refl _
  | some r =>
    simp only
    have h1 := rollBackIfNeeded_settled env cfg d r.rolledBack h
    have a1 := artSub_rollBackIfNeeded env cfg d r.rolledBack h
    cases r.patch with
    | none => exact a1
    | some o => exact (artSub_shouldInstall env cfg _ o.number h1).trans a1

end

end Updater
