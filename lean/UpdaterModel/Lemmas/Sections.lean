/-
  Sections on a settled disk: `load_or_new_on_error` is a plain read there, every section keeps
  the disk settled, and each section's effect on patches_state.json goes through the patch manager.
-/
import UpdaterModel.Lemmas.Ban

namespace Updater

/-- The ban invariant read off the disk. -/
def BanD (d : Disk) (F : List Nat) : Prop := BanPS (loadPatchesState d) F

theorem BanD_nil (d : Disk) : BanD d [] := BanPS_nil _

theorem BanD_of_coherent (pm : PM) (F) (hc : pm.Coherent) (h : BanPS pm.ps F) : BanD pm.disk F := by
  unfold BanD; rw [hc]; exact h

/-- Saving state.json does not touch patches_state.json or the patches directory. -/
theorem US.save_pj (us : US) : us.save.disk.patchesJson = us.disk.patchesJson := rfl
theorem US.save_patches (us : US) : us.save.disk.patches = us.disk.patches := rfl
theorem loadPS_save (us : US) : loadPatchesState us.save.disk = loadPatchesState us.disk := rfl

theorem Settled_save (us : US) (v : String) (h : us.ss.version = v) : Settled us.save.disk v :=
  ⟨us.ss, rfl, h⟩


theorem Settled_of_sj {d d' : Disk} {v : String} (h : Settled d v) (e : d'.stateJson = d.stateJson) : Settled d' v := by
  obtain ⟨s, hs, hv⟩ := h; exact ⟨s, by rw [e, hs], hv⟩

/-! ### each section: stays settled, keeps the ban invariant -/

section
variable (env : Env) (cfg : Config) (d : Disk) (F : List Nat)

theorem secNextBootPatch_settled (h : Settled d cfg.version) : Settled (secNextBootPatch env cfg d).1 cfg.version := by
  obtain ⟨s, hs, hv⟩ := h
  simp only [secNextBootPatch, loadOrNew_settled d _ s hs hv]
  exact Settled_of_sj ⟨s, hs, hv⟩ (by rw [nextBootPatch_sj]; rfl)

theorem secNextBootPatch_ban (h : Settled d cfg.version) (hb : BanD d F) :
    BanD (secNextBootPatch env cfg d).1 F ∧
    (secNextBootPatch env cfg d).2 = (loadPatchesState (secNextBootPatch env cfg d).1).next.map (·.number) := by
  obtain ⟨s, hs, hv⟩ := h
  simp only [secNextBootPatch, loadOrNew_settled d _ s hs hv]
  have hc := nextBootPatch_coherent env cfg.key (PM.new d) (PM.new_coherent d)
  refine ⟨BanD_of_coherent _ _ hc (nextBootPatch_ban _ _ _ _ hb), ?_⟩
  rw [hc, nextBootPatch_ret]

theorem secCurrentBootPatch_disk (h : Settled d cfg.version) : (secCurrentBootPatch cfg d).1 = d := by
  obtain ⟨s, hs, hv⟩ := h
  simp [secCurrentBootPatch, loadOrNew_settled d _ s hs hv, US.disk, PM.new]

theorem secLaunchStart_settled (h : Settled d cfg.version) : Settled (secLaunchStart env cfg d) cfg.version := by
  obtain ⟨s, hs, hv⟩ := h
  simp only [secLaunchStart, loadOrNew_settled d _ s hs hv]
  split
  · exact Settled_of_sj ⟨s, hs, hv⟩ (by rw [recordBootStart_sj, nextBootPatch_sj]; rfl)
  · exact Settled_of_sj ⟨s, hs, hv⟩ (by rw [nextBootPatch_sj]; rfl)

theorem secLaunchStart_ban (h : Settled d cfg.version) (hb : BanD d F) : BanD (secLaunchStart env cfg d) F := by
  obtain ⟨s, hs, hv⟩ := h
  simp only [secLaunchStart, loadOrNew_settled d _ s hs hv]
  have hc := nextBootPatch_coherent env cfg.key (PM.new d) (PM.new_coherent d)
  have hn := nextBootPatch_ban env cfg.key (PM.new d) F hb
  split
  · exact BanD_of_coherent _ _ (recordBootStart_coherent _ _ hc) (recordBootStart_ban _ _ _ hn)
  · exact BanD_of_coherent _ _ hc hn

theorem queueEvent_sj (us : US) (e : Event) : ∃ s, (us.queueEvent e).disk.stateJson = .ok s ∧ s.version = us.ss.version :=
  ⟨_, rfl, rfl⟩

theorem secLaunchFailure_settled (h : Settled d cfg.version) : Settled (secLaunchFailure env cfg d) cfg.version := by
  obtain ⟨s, hs, hv⟩ := h
  simp only [secLaunchFailure, loadOrNew_settled d _ s hs hv]
  split
  · exact ⟨s, hs, hv⟩
  · exact ⟨_, rfl, hv⟩

theorem secLaunchFailure_ban (h : Settled d cfg.version) (hb : BanD d F) :
    BanD (secLaunchFailure env cfg d)
      (match (loadPatchesState d).booting with | some p => p.number :: F | none => F) := by
  obtain ⟨s, hs, hv⟩ := h
  simp only [secLaunchFailure, loadOrNew_settled d _ s hs hv]
  cases hbt : (PM.new d).ps.booting with
  | none => simp only [PM.new] at hbt; simp [hbt]; exact hb
  | some p =>
    simp only [PM.new] at hbt
    simp only [hbt]
    exact BanD_of_coherent _ _ (recordBootFailure_coherent _ _ _ _) (recordBootFailure_ban _ _ _ _ _ hb)

theorem secHandlePrior_settled (h : Settled d cfg.version) : Settled (secHandlePriorBootFailure env cfg d) cfg.version := by
  obtain ⟨s, hs, hv⟩ := h
  simp only [secHandlePriorBootFailure, loadOrNew_settled d _ s hs hv]
  split
  · exact ⟨_, rfl, hv⟩
  · exact ⟨s, hs, hv⟩

theorem secHandlePrior_ban (h : Settled d cfg.version) (hb : BanD d F) :
    BanD (secHandlePriorBootFailure env cfg d)
      (match (loadPatchesState d).booting with | some p => p.number :: F | none => F) := by
  obtain ⟨s, hs, hv⟩ := h
  simp only [secHandlePriorBootFailure, loadOrNew_settled d _ s hs hv]
  cases hbt : (PM.new d).ps.booting with
  | none => simp only [PM.new] at hbt; simp [hbt]; exact hb
  | some p =>
    simp only [PM.new] at hbt
    simp only [hbt]
    exact BanD_of_coherent _ _ (recordBootFailure_coherent _ _ _ _) (recordBootFailure_ban _ _ _ _ _ hb)

theorem secLaunchSuccess_settled (h : Settled d cfg.version) : Settled (secLaunchSuccess env cfg d).1 cfg.version := by
  obtain ⟨s, hs, hv⟩ := h
  simp only [secLaunchSuccess, loadOrNew_settled d _ s hs hv]
  split
  · exact ⟨s, hs, hv⟩
  · have : Settled (PM.new d).recordBootSuccess.1.disk cfg.version :=
      Settled_of_sj ⟨s, hs, hv⟩ (by rw [recordBootSuccess_sj]; rfl)
    split <;> (try split) <;> exact this

theorem secLaunchSuccess_ban (h : Settled d cfg.version) (hb : BanD d F) : BanD (secLaunchSuccess env cfg d).1 F := by
  obtain ⟨s, hs, hv⟩ := h
  simp only [secLaunchSuccess, loadOrNew_settled d _ s hs hv]
  split
  · exact hb
  · have : BanD (PM.new d).recordBootSuccess.1.disk F :=
      BanD_of_coherent _ _ (recordBootSuccess_coherent _ (PM.new_coherent d)) (recordBootSuccess_ban _ _ hb)
    split <;> (try split) <;> exact this

theorem secCopyEvents_disk (h : Settled d cfg.version) : (secCopyEvents cfg d).1 = d := by
  obtain ⟨s, hs, hv⟩ := h
  simp [secCopyEvents, loadOrNew_settled d _ s hs hv, US.disk, PM.new]

theorem secClearEvents_settled (h : Settled d cfg.version) : Settled (secClearEvents cfg d) cfg.version := by
  obtain ⟨s, hs, hv⟩ := h
  simp only [secClearEvents, loadOrNew_settled d _ s hs hv]
  exact ⟨_, rfl, hv⟩

theorem secClearEvents_pj (h : Settled d cfg.version) : (secClearEvents cfg d).patchesJson = d.patchesJson := by
  obtain ⟨s, hs, hv⟩ := h
  simp only [secClearEvents, loadOrNew_settled d _ s hs hv]
  rfl

theorem secClearEvents_ban (h : Settled d cfg.version) (hb : BanD d F) : BanD (secClearEvents cfg d) F := by
  unfold BanD loadPatchesState; rw [secClearEvents_pj cfg d h]; exact hb

theorem foldFallBack_sj (env key) (ns : List Nat) (pm : PM) :
    (ns.foldl (fun pm n => pm.tryFallBack env key n) pm).disk.stateJson = pm.disk.stateJson := by
  induction ns generalizing pm with
  | nil => rfl
  | cons n ns ih => simp only [List.foldl]; rw [ih, tryFallBack_sj]

theorem foldFallBack_ban (env key) (ns : List Nat) (pm : PM) (F) (hc : pm.Coherent) (hb : BanPS pm.ps F) :
    (ns.foldl (fun pm n => pm.tryFallBack env key n) pm).Coherent ∧
    BanPS (ns.foldl (fun pm n => pm.tryFallBack env key n) pm).ps F := by
  induction ns generalizing pm with
  | nil => exact ⟨hc, hb⟩
  | cons n ns ih =>
    simp only [List.foldl]
    exact ih _ (tryFallBack_coherent _ _ _ _) (tryFallBack_ban _ _ _ _ _ hb)

theorem secRollBack_settled (ns : List Nat) (h : Settled d cfg.version) : Settled (secRollBack env cfg d ns) cfg.version := by
  obtain ⟨s, hs, hv⟩ := h
  simp only [secRollBack, loadOrNew_settled d _ s hs hv]
  exact Settled_of_sj ⟨s, hs, hv⟩ (by rw [foldFallBack_sj]; rfl)

theorem secRollBack_ban (ns : List Nat) (h : Settled d cfg.version) (hb : BanD d F) : BanD (secRollBack env cfg d ns) F := by
  obtain ⟨s, hs, hv⟩ := h
  simp only [secRollBack, loadOrNew_settled d _ s hs hv]
  have := foldFallBack_ban env cfg.key ns (PM.new d) F (PM.new_coherent d) hb
  exact BanD_of_coherent _ _ this.1 this.2

theorem rollBackIfNeeded_settled (rb) (h : Settled d cfg.version) : Settled (rollBackIfNeeded env cfg d rb) cfg.version := by
  cases rb with
  | none => exact h
  | some ns => exact secRollBack_settled env cfg d ns h

theorem rollBackIfNeeded_ban (rb) (h : Settled d cfg.version) (hb : BanD d F) : BanD (rollBackIfNeeded env cfg d rb) F := by
  cases rb with
  | none => exact hb
  | some ns => exact secRollBack_ban env cfg d F ns h hb

theorem secIsKnownBad_eq (n : Nat) (h : Settled d cfg.version) :
    secIsKnownBad cfg d n = (d, decide (n ∈ (loadPatchesState d).bad)) := by
  obtain ⟨s, hs, hv⟩ := h
  simp [secIsKnownBad, loadOrNew_settled d _ s hs hv, US.disk, PM.new, PM.isKnownBad]

theorem shouldInstall_settled (n : Nat) (h : Settled d cfg.version) : Settled (shouldInstall env cfg d n).1 cfg.version := by
  unfold shouldInstall
  rw [secIsKnownBad_eq cfg d n h]
  simp only
  split
  · exact h
  · split <;> exact secNextBootPatch_settled env cfg d h

theorem shouldInstall_ban (n : Nat) (h : Settled d cfg.version) (hb : BanD d F) : BanD (shouldInstall env cfg d n).1 F := by
  unfold shouldInstall
  rw [secIsKnownBad_eq cfg d n h]
  simp only
  split
  · exact hb
  · split <;> exact (secNextBootPatch_ban env cfg d F h hb).1

/-- A banned number is recognised: `should_install_patch` answers "known bad". -/
theorem shouldInstall_knownBad (n : Nat) (h : Settled d cfg.version) (hn : n ∈ (loadPatchesState d).bad) :
    (shouldInstall env cfg d n).2 = .knownBad := by
  unfold shouldInstall
  rw [secIsKnownBad_eq cfg d n h]
  simp [hn]

theorem shouldInstall_ok_notBad (n : Nat) (h : Settled d cfg.version) (hok : (shouldInstall env cfg d n).2 = .ok) :
    n ∉ (loadPatchesState d).bad := by
  intro hn
  rw [shouldInstall_knownBad env cfg d n h hn] at hok
  cases hok

theorem secInstall_settled (o : Offer) (out : Bytes) (h : Settled d cfg.version) : Settled (secInstall cfg d o out) cfg.version := by
  obtain ⟨s, hs, hv⟩ := h
  simp only [secInstall, loadOrNew_settled d _ s hs hv]
  exact Settled_of_sj ⟨s, hs, hv⟩ (by rw [addPatch_sj]; rfl)

theorem secInstall_ban (o : Offer) (out : Bytes) (h : Settled d cfg.version) (hb : BanD d F) (hn : o.number ∉ F) :
    BanD (secInstall cfg d o out) F := by
  obtain ⟨s, hs, hv⟩ := h
  simp only [secInstall, loadOrNew_settled d _ s hs hv]
  exact BanD_of_coherent _ _ (addPatch_coherent _ _ _ _ _) (addPatch_ban _ _ _ _ _ _ hb hn)


/-! ### the composed calls -/

theorem checkCore_settled (resp) (h : Settled d cfg.version) : Settled (checkCore env cfg d resp).1 cfg.version := by
  unfold checkCore
  cases resp with
  | none => exact h
  | some r =>
    simp only
    have h1 := rollBackIfNeeded_settled env cfg d r.rolledBack h
    cases r.patch with
    | none => exact h1
    | some o => exact shouldInstall_settled env cfg _ o.number h1

theorem checkCore_ban (resp) (h : Settled d cfg.version) (hb : BanD d F) : BanD (checkCore env cfg d resp).1 F := by
  unfold checkCore
  cases resp with
  | none => exact hb
  | some r =>
    simp only
    have h1 := rollBackIfNeeded_settled env cfg d r.rolledBack h
    have hb1 := rollBackIfNeeded_ban env cfg d F r.rolledBack h hb
    cases r.patch with
    | none => exact hb1
    | some o => exact shouldInstall_ban env cfg _ F o.number h1 hb1

/-- A check that is offered a banned number answers "nothing to download". -/
theorem checkCore_banned (r : CheckResp) (o : Offer) (hp : r.patch = some o) (h : Settled d cfg.version)
    (hb : BanD d F) (hn : o.number ∈ F) : (checkCore env cfg d (some r)).2 = false := by
  unfold checkCore
  simp only [hp]
  have h1 := rollBackIfNeeded_settled env cfg d r.rolledBack h
  have hb1 := rollBackIfNeeded_ban env cfg d F r.rolledBack h hb
  rw [shouldInstall_knownBad env cfg _ o.number h1 (hb1.1 _ hn)]
  rfl

theorem installStage_settled (base o dl) (h : Settled d cfg.version) :
    Settled (installStage env cfg base d o dl).1 cfg.version := by
  unfold installStage
  cases dl with
  | none => exact h
  | some stream =>
    cases base with
    | none => exact h
    | some b =>
      simp only
      cases bipatchDecode stream b with
      | error e => exact h
      | ok out =>
        simp only
        split
        · exact h
        · split
          · exact h
          · exact secInstall_settled cfg d o out h

theorem installStage_ban (base o dl) (h : Settled d cfg.version) (hb : BanD d F) (hn : o.number ∉ F) :
    BanD (installStage env cfg base d o dl).1 F := by
  unfold installStage
  cases dl with
  | none => exact hb
  | some stream =>
    cases base with
    | none => exact hb
    | some b =>
      simp only
      cases bipatchDecode stream b with
      | error e => exact hb
      | ok out =>
        simp only
        split
        · exact hb
        · split
          · exact hb
          · exact secInstall_ban cfg d F o out h hb hn

theorem afterCheck_settled (base r dl) (h : Settled d cfg.version) :
    Settled (afterCheck env cfg base d r dl).1 cfg.version := by
  unfold afterCheck
  have h1 := rollBackIfNeeded_settled env cfg d r.rolledBack h
  simp only
  split
  · exact h1
  · cases r.patch with
    | none => exact h1
    | some o =>
      simp only
      have h2 := shouldInstall_settled env cfg _ o.number h1
      split
      · exact h2
      · exact h2
      · exact installStage_settled env cfg _ base o dl h2

theorem afterCheck_ban (base r dl) (h : Settled d cfg.version) (hb : BanD d F) :
    BanD (afterCheck env cfg base d r dl).1 F := by
  unfold afterCheck
  have h1 := rollBackIfNeeded_settled env cfg d r.rolledBack h
  have hb1 := rollBackIfNeeded_ban env cfg d F r.rolledBack h hb
  simp only
  split
  · exact hb1
  · cases r.patch with
    | none => exact hb1
    | some o =>
      simp only
      have h2 := shouldInstall_settled env cfg _ o.number h1
      have hb2 := shouldInstall_ban env cfg _ F o.number h1 hb1
      split
      · exact hb2
      · exact hb2
      · rename_i hok
        have hnb := shouldInstall_ok_notBad env cfg _ o.number h1 hok
        exact installStage_ban env cfg _ F base o dl h2 hb2 (fun hn => hnb (hb1.1 _ hn))

/-- An update that is offered a banned number: no download, "bad patch" (or "no update" when the
    response says nothing is available). -/
theorem afterCheck_banned (base) (r : CheckResp) (dl) (o : Offer) (hp : r.patch = some o)
    (h : Settled d cfg.version) (hb : BanD d F) (hn : o.number ∈ F) :
    (afterCheck env cfg base d r dl).2.2 = false ∧
    (afterCheck env cfg base d r dl).2.1 = (if r.available then .badPatch else .noUpdate) := by
  unfold afterCheck
  have h1 := rollBackIfNeeded_settled env cfg d r.rolledBack h
  have hb1 := rollBackIfNeeded_ban env cfg d F r.rolledBack h hb
  simp only [hp]
  by_cases ha : r.available
  · simp [ha, shouldInstall_knownBad env cfg _ o.number h1 (hb1.1 _ hn)]
  · simp [ha]

theorem updateCore_settled (base sc) (h : Settled d cfg.version) : Settled (updateCore env cfg base d sc).1 cfg.version := by
  unfold updateCore
  simp only []
  rw [secCopyEvents_disk cfg d h]
  have h1 := secClearEvents_settled cfg d h
  cases sc.resp with
  | none => exact h1
  | some r => exact afterCheck_settled env cfg _ base r sc.dl h1

theorem updateCore_ban (base sc) (h : Settled d cfg.version) (hb : BanD d F) : BanD (updateCore env cfg base d sc).1 F := by
  unfold updateCore
  simp only []
  rw [secCopyEvents_disk cfg d h]
  have h1 := secClearEvents_settled cfg d h
  have hb1 := secClearEvents_ban cfg d F h hb
  cases sc.resp with
  | none => exact hb1
  | some r => exact afterCheck_ban env cfg _ F base r sc.dl h1 hb1

theorem updateCore_banned (base) (sc : UpdateScript) (r : CheckResp) (o : Offer) (hr : sc.resp = some r) (hp : r.patch = some o)
    (h : Settled d cfg.version) (hb : BanD d F) (hn : o.number ∈ F) :
    (updateCore env cfg base d sc).2.2.2 = false ∧
    (updateCore env cfg base d sc).2.1 = (if r.available then .badPatch else .noUpdate) := by
  unfold updateCore
  simp only []
  rw [secCopyEvents_disk cfg d h]
  have h1 := secClearEvents_settled cfg d h
  have hb1 := secClearEvents_ban cfg d F h hb
  simp only [hr]
  exact afterCheck_banned env cfg _ F base r sc.dl o hp h1 hb1 hn

end

end Updater
