/-
  LEB128 / zig-zag round trips.
-/
import UpdaterModel.Model.Codec

namespace Updater

theorem UInt8_ofNat_toNat (x : Nat) : (UInt8.ofNat x).toNat = x % 256 := by
  simp [UInt8.ofNat, UInt8.toNat]

theorem encodeVarU_lt (n : Nat) (h : n < 128) : encodeVarU n = [UInt8.ofNat n] := by
  rw [encodeVarU]; simp [h]

theorem encodeVarU_ge (n : Nat) (h : ¬ n < 128) :
    encodeVarU n = UInt8.ofNat (128 + n % 128) :: encodeVarU (n / 128) := by
  rw [encodeVarU]; simp [h]

/-- Reading back an encoded varint that is followed by anything. -/
theorem readVarintAux_encode (k : Nat) : ∀ (n i acc : Nat) (rest : Bytes), n < 128 ^ k → 1 ≤ k → i + k ≤ 10 →
    readVarintAux (encodeVarU n ++ rest) i acc = .ok ((acc + n * 128 ^ i) % 2 ^ 64) rest := by
  induction k with
  | zero => intro n i acc rest _ hk; omega
  | succ k ih =>
    intro n i acc rest hn _ hik
    by_cases hlt : n < 128
    · rw [encodeVarU_lt n hlt]
      simp only [List.singleton_append, readVarintAux]
      have hi : ¬ i ≥ 10 := by omega
      have hb : (UInt8.ofNat n).toNat = n := by rw [UInt8_ofNat_toNat]; omega
      simp only [hi, if_false, hb]
      have : n % 128 = n := Nat.mod_eq_of_lt hlt
      simp [this, hlt]
    · rw [encodeVarU_ge n hlt]
      simp only [List.cons_append, readVarintAux]
      have hi : ¬ i ≥ 10 := by omega
      have hb : (UInt8.ofNat (128 + n % 128)).toNat = 128 + n % 128 := by
        rw [UInt8_ofNat_toNat]; have := Nat.mod_lt n (by decide : 128 > 0); omega
      have hge : ¬ (128 + n % 128 < 128) := by omega
      simp only [hi, if_false, hb, hge]
      have hk1 : 1 ≤ k := by
        cases k with
        | zero => simp at hn; omega
        | succ k => omega
      have hdiv : n / 128 < 128 ^ k := by
        rw [Nat.div_lt_iff_lt_mul (by decide)]; rw [Nat.pow_succ] at hn; exact hn
      rw [ih (n / 128) (i + 1) _ rest hdiv hk1 (by omega)]
      congr 2
      have h1 : (128 + n % 128) % 128 = n % 128 := by omega
      rw [h1, Nat.pow_succ]
      have h2 : n = 128 * (n / 128) + n % 128 := (Nat.div_add_mod n 128).symm
      calc acc + n % 128 * 128 ^ i + n / 128 * (128 ^ i * 128)
          = acc + (128 * (n / 128) + n % 128) * 128 ^ i := by
            rw [Nat.add_mul, Nat.mul_comm 128 (n / 128), Nat.mul_assoc, Nat.mul_comm 128 (128 ^ i)]; omega
        _ = acc + n * 128 ^ i := by rw [← h2]

theorem readVarint_encode (n : Nat) (rest : Bytes) (h : n < 2 ^ 64) :
    readVarint (encodeVarU n ++ rest) = .ok n rest := by
  unfold readVarint
  have h70 : n < 128 ^ 10 := Nat.lt_of_lt_of_le h (by decide)
  rw [readVarintAux_encode 10 n 0 0 rest h70 (by decide) (by decide)]
  simp [Nat.mod_eq_of_lt h]

/-- Every encoded varint is at least one byte long. -/
theorem encodeVarU_ne_nil (n : Nat) : encodeVarU n ≠ [] := by
  by_cases h : n < 128
  · rw [encodeVarU_lt n h]; simp
  · rw [encodeVarU_ge n h]; simp

theorem zigzag_roundtrip (v : Int) : zigzagDecode (zigzagEncode v) = v := by
  unfold zigzagDecode zigzagEncode
  by_cases h : v ≥ 0
  · simp only [h, if_true]
    have : (2 * v).toNat % 2 = 0 := by omega
    simp only [this, if_true]
    omega
  · simp only [h, if_false]
    have : (-2 * v - 1).toNat % 2 = 1 := by omega
    have h1 : ¬ ((-2 * v - 1).toNat % 2 = 0) := by omega
    simp only [h1, if_false]
    omega

theorem zigzagEncode_lt (v : Int) (h1 : -(2 ^ 63 : Int) ≤ v) (h2 : v < 2 ^ 63) : zigzagEncode v < 2 ^ 64 := by
  unfold zigzagEncode
  split <;> omega

theorem readVarint_encodeI (v : Int) (rest : Bytes) (h1 : -(2 ^ 63 : Int) ≤ v) (h2 : v < 2 ^ 63) :
    readVarint (encodeVarI v ++ rest) = .ok (zigzagEncode v) rest := by
  unfold encodeVarI
  exact readVarint_encode _ rest (zigzagEncode_lt v h1 h2)

end Updater
