/-
  The patches directory as an association list: lookup after erase / set / filter, and the
  artifact-level effect of each patch-manager function.
-/
import UpdaterModel.Lemmas.Core

namespace Updater

theorem lookup_filter_key (l : Arts) (q : Nat → Bool) (k : Nat) :
    (l.filter (fun e => q e.1)).lookup k = if q k then l.lookup k else none := by
  induction l with
  | nil => simp [List.lookup]
  | cons e l ih =>
    obtain ⟨n, a⟩ := e
    by_cases hq : q n = true
    · simp only [List.filter_cons, hq, if_true, List.lookup_cons]
      by_cases hk : k = n
      · subst hk; simp [hq]
      · have : (k == n) = false := by simpa using hk
        simp [this, ih]
    · have hq' : q n = false := by simpa using hq
      simp only [List.filter_cons, hq', List.lookup_cons]
      by_cases hk : k = n
      · subst hk; simp [hq', ih]
      · have : (k == n) = false := by simpa using hk
        simp [this, ih]

theorem lookup_eraseArt (l : Arts) (n k : Nat) :
    (eraseArt l n).lookup k = if k = n then none else l.lookup k := by
  unfold eraseArt
  have := lookup_filter_key l (fun x => decide (x ≠ n)) k
  simp only [decide_not] at this ⊢
  rw [this]
  by_cases hk : k = n <;> simp [hk]

theorem lookup_setArt (l : Arts) (n k : Nat) (a : Art) :
    (setArt l n a).lookup k = if k = n then some a else l.lookup k := by
  unfold setArt
  by_cases hk : k = n
  · subst hk; simp [List.lookup_cons]
  · have : (k == n) = false := by simpa using hk
    simp [List.lookup_cons, this, lookup_eraseArt, hk]

/-! ### `Disk.art` after the disk primitives -/

theorem art_deleteArtifacts (d : Disk) (n k : Nat) :
    (d.deleteArtifacts n).art k = if k = n then none else d.art k := by
  unfold Disk.deleteArtifacts Disk.art
  cases hp : d.patches with
  | none => simp [hp]
  | some p => simp [lookup_eraseArt]

theorem art_placeArtifact (d : Disk) (n k : Nat) (b : Bytes) :
    (d.placeArtifact n b).art k = if k = n then some (.file b) else d.art k := by
  unfold Disk.placeArtifact Disk.art
  cases hp : d.patches with
  | none =>
    by_cases hk : k = n
    · subst hk; simp [List.lookup_cons]
    · have : (k == n) = false := by simpa using hk
      simp [List.lookup_cons, this, hk]
  | some p => simp [lookup_setArt]

@[simp] theorem art_save (pm : PM) (k : Nat) : pm.save.disk.art k = pm.disk.art k := rfl

theorem art_usave (us : US) (k : Nat) : us.save.disk.art k = us.disk.art k := rfl

/-- `validate` only looks at the artifact of the patch itself. -/
theorem validate_congr (env key) (d d' : Disk) (m : Meta) (h : d'.art m.number = d.art m.number) :
    validate env key d' m = validate env key d m := by
  unfold validate; rw [h]

end Updater

namespace Updater

/-! ### artifact-level effect of the patch-manager functions -/

theorem art_fallBackDisk (env key) (pm : PM) (n k : Nat) :
    (fallBackDisk env key pm n).art k =
      if k = n then none else
      match pm.ps.last with
      | some lb =>
        if lb.number ≠ n ∧ validate env key (pm.disk.deleteArtifacts n) lb then pm.disk.art k
        else if k = lb.number then none else pm.disk.art k
      | none => pm.disk.art k := by
  unfold fallBackDisk
  cases pm.ps.last with
  | none => simp [art_deleteArtifacts]
  | some lb =>
    simp only
    split
    · simp [art_deleteArtifacts]
    · simp only [art_deleteArtifacts]
      by_cases h1 : k = n <;> by_cases h2 : k = lb.number <;> simp [h1, h2]

theorem art_tryFallBack (env key) (pm : PM) (n k : Nat) :
    (pm.tryFallBack env key n).disk.art k = (fallBackDisk env key pm n).art k := by
  rw [tryFallBack_disk]; rfl

/-- Falling back never creates an artifact, and removes that of the bad patch. -/
theorem art_tryFallBack_self (env key) (pm : PM) (n : Nat) : (pm.tryFallBack env key n).disk.art n = none := by
  rw [art_tryFallBack, art_fallBackDisk]; simp

theorem art_tryFallBack_sub (env key) (pm : PM) (n k : Nat) :
    (pm.tryFallBack env key n).disk.art k = none ∨ (pm.tryFallBack env key n).disk.art k = pm.disk.art k := by
  rw [art_tryFallBack, art_fallBackDisk]
  by_cases h1 : k = n
  · simp [h1]
  · simp only [h1, if_false]
    cases pm.ps.last with
    | none => simp
    | some lb => simp only; split <;> (try split) <;> simp

theorem art_deleteOlderThan (pm : PM) (n k : Nat) :
    (pm.deleteOlderThan n).1.disk.art k =
      if k < n ∧ some k ≠ pm.ps.next.map (·.number) then none else pm.disk.art k := by
  unfold PM.deleteOlderThan Disk.art
  cases hp : pm.disk.patches with
  | none => simp [hp]
  | some p =>
    simp only [hp]
    have := lookup_filter_key p.arts (fun x => decide (¬ (x < n ∧ some x ≠ pm.ps.next.map (·.number)))) k
    simp only [decide_not] at this
    simp only [decide_not]
    rw [this]
    by_cases hc : k < n ∧ some k ≠ pm.ps.next.map (·.number) <;> simp [hc]

theorem art_recordBootSuccess (pm : PM) (bp : Meta) (hb : pm.ps.booting = some bp) (k : Nat) :
    pm.recordBootSuccess.1.disk.art k =
      if k < bp.number ∧ some k ≠ pm.ps.next.map (·.number) then none else pm.disk.art k := by
  unfold PM.recordBootSuccess
  simp only [hb, art_save]
  rw [art_deleteOlderThan]

theorem art_addPatch (pm : PM) (n : Nat) (b : Bytes) (hs : String) (s : Option String) (k : Nat) :
    (pm.addPatch n b hs s).disk.art k =
      if k = n then some (.file b) else
      match pm.ps.last, pm.ps.next with
      | some lb, some nx =>
        if lb.number ≠ nx.number ∧ nx.number ≠ n ∧ ¬ (pm.ps.booting.map (·.number) = some nx.number) then
          (if k = nx.number then none else pm.disk.art k)
        else pm.disk.art k
      | _, _ => pm.disk.art k := by
  obtain ⟨disk, ⟨last, next, booting, bad⟩⟩ := pm
  unfold PM.addPatch
  cases last <;> cases next <;> simp only [art_save, PM.deleteArtifacts] <;> (try split) <;>
    simp only [art_deleteArtifacts, art_placeArtifact] <;>
    by_cases h1 : k = n <;> simp_all <;> omega

/-- The artifact installed by `add_patch` is in place afterwards. -/
theorem art_addPatch_self (pm : PM) (n : Nat) (b : Bytes) (hs : String) (s : Option String) :
    (pm.addPatch n b hs s).disk.art n = some (.file b) := by
  rw [art_addPatch]; simp

end Updater
