/-
  The disk after each operation, factored: an operation either does not load the stored state
  (disk unchanged, or external damage), or enters with a configuration and applies one function.
-/
import UpdaterModel.Lemmas.Sections

namespace Updater

theorem init_effective (env : Env) (w : World) (p : InitParams) (cfg : Config)
    (hn : w.config = none) (hm : mkConfig p = some cfg) :
    init env w p = ({ w with config := some cfg, disk := secHandlePriorBootFailure env cfg w.disk }, true) := by
  unfold init
  unfold mkConfig at hm
  cases hy : p.yaml with
  | none => simp [hy] at hm
  | some y =>
    cases hl : p.libapps with
    | nil => simp [hy, hl] at hm
    | cons lib rest =>
      simp [hy, hl] at hm
      simp [hn, hm]

theorem init_ineffective (env : Env) (w : World) (p : InitParams) (hm : mkConfig p = none) :
    init env w p = (w, false) := by
  unfold init
  unfold mkConfig at hm
  cases hy : p.yaml with
  | none => rfl
  | some y =>
    cases hl : p.libapps with
    | nil => rfl
    | cons lib rest => simp [hy, hl] at hm

/-- A check that neither rolls back nor is offered a patch does not touch the disk. -/
theorem checkCore_noenter (env cfg d) (r : CheckResp) (h : (r.rolledBack.isSome || r.patch.isSome) = false) :
    checkCore env cfg d (some r) = (d, false) := by
  unfold checkCore rollBackIfNeeded
  cases hrb : r.rolledBack <;> cases hp : r.patch <;> simp_all

/-- What an operation that enters with configuration `c` does to the disk. -/
def opDisk (env : Env) (c : Config) (w : World) : Op → Disk
  | .init _ => secHandlePriorBootFailure env c w.disk
  | .start => secLaunchStart env c w.disk
  | .success => (secLaunchSuccess env c w.disk).1
  | .failure => secLaunchFailure env c w.disk
  | .nextN => (secNextBootPatch env c w.disk).1
  | .nextP => (secNextBootPatch env c w.disk).1
  | .curN => (secCurrentBootPatch c w.disk).1
  | .check _ resp => (checkCore env c w.disk resp).1
  | .update _ sc => (updateCore env c (w.base c) w.disk sc).1
  | _ => w.disk

theorem step_disk_enter (env : Env) (w : World) (op : Op) (c : Config) (he : entersWith w.config op = some c) :
    (step env w op).1.disk = opDisk env c w op := by
  cases op with
  | init p =>
    simp only [entersWith] at he
    cases hc : w.config with
    | some c0 => simp [hc] at he
    | none =>
      simp only [hc] at he
      simp [step, init_effective env w p c hc he, opDisk]
  | restart => simp [entersWith] at he
  | auto => simp [entersWith] at he
  | damage d => simp [entersWith] at he
  | start => simp only [entersWith] at he; simp [step, launchStart, he, opDisk]
  | success => simp only [entersWith] at he; simp [step, launchSuccess, he, opDisk]
  | failure => simp only [entersWith] at he; simp [step, launchFailure, he, opDisk]
  | nextN => simp only [entersWith] at he; simp [step, nextBootPatch, he, opDisk]
  | nextP => simp only [entersWith] at he; simp [step, nextBootPatch, he, opDisk]
  | curN => simp only [entersWith] at he; simp [step, currentBootPatch, he, opDisk]
  | check chan resp =>
    cases resp with
    | none => simp [entersWith] at he
    | some r =>
      simp only [entersWith] at he
      split at he
      · simp [step, check, he, opDisk]
      · cases he
  | update chan sc => simp only [entersWith] at he; simp [step, update, he, opDisk]

/-- The disk after an operation that does not load the stored state. -/
def noenterDisk (w : World) : Op → Disk
  | .damage dm => w.disk.damage dm
  | _ => w.disk

theorem step_disk_noenter (env : Env) (w : World) (op : Op) (he : entersWith w.config op = none) :
    (step env w op).1.disk = noenterDisk w op := by
  cases op with
  | init p =>
    simp only [entersWith] at he
    cases hc : w.config with
    | some c0 => simp [step, init_configured env w p c0 hc, noenterDisk]
    | none =>
      simp only [hc] at he
      simp [step, init_ineffective env w p he, noenterDisk]
  | restart => simp [step, restart, noenterDisk]
  | auto => simp [step, noenterDisk]
  | damage d => simp [step, noenterDisk]
  | start => simp only [entersWith] at he; simp [step, launchStart, he, noenterDisk]
  | success => simp only [entersWith] at he; simp [step, launchSuccess, he, noenterDisk]
  | failure => simp only [entersWith] at he; simp [step, launchFailure, he, noenterDisk]
  | nextN => simp only [entersWith] at he; simp [step, nextBootPatch, he, noenterDisk]
  | nextP => simp only [entersWith] at he; simp [step, nextBootPatch, he, noenterDisk]
  | curN => simp only [entersWith] at he; simp [step, currentBootPatch, he, noenterDisk]
  | check chan resp =>
    cases hc : w.config with
    | none => simp [step, check, hc, noenterDisk]
    | some c =>
      cases resp with
      | none => simp [step, check, hc, checkCore, noenterDisk]
      | some r =>
        simp only [entersWith, hc] at he
        split at he
        · cases he
        · rename_i hen
          simp [step, check, hc, checkCore_noenter env c w.disk r (by simpa using hen), noenterDisk]
  | update chan sc => simp only [entersWith] at he; simp [step, update, he, noenterDisk]

/-- An operation that enters on an unsettled disk behaves as on the clean disk of its release. -/
theorem loadOrNew_clean (d : Disk) (v : String) (h : ¬ Settled d v) : loadOrNew d v = loadOrNew (cleanDisk v) v := by
  rw [loadOrNew_unsettled d v h, loadOrNew_settled (cleanDisk v) v { version := v, events := [] } rfl rfl]
  rfl

theorem settled_clean (v : String) : Settled (cleanDisk v) v := ⟨_, rfl, rfl⟩


/-! ### outcome case lemmas for the update path -/

/-- The install stage either leaves the disk alone (and does not answer "installed"), or the
    download decoded against the base, matched the advertised hash, passed the signature gate, and
    the install section ran on exactly those bytes. -/
theorem installStage_cases (env : Env) (cfg : Config) (base : Option Bytes) (d : Disk) (o : Offer) (dl : Option Bytes) :
    (installStage env cfg base d o dl = (d, (installStage env cfg base d o dl).2) ∧
      (installStage env cfg base d o dl).2 ≠ .installed) ∨
    (∃ stream b out, dl = some stream ∧ base = some b ∧ bipatchDecode stream b = .ok out ∧
      checkHash out o.hash = true ∧ signatureOk env cfg.key o.sig out = true ∧
      installStage env cfg base d o dl = (secInstall cfg d o out, .installed)) := by
  unfold installStage
  cases dl with
  | none => left; simp
  | some stream =>
    cases base with
    | none => left; simp
    | some b =>
      simp only
      cases hdec : bipatchDecode stream b with
      | error e => left; simp
      | ok out =>
        simp only
        by_cases hh : checkHash out o.hash = true
        · by_cases hsg : signatureOk env cfg.key o.sig out = true
          · right; exact ⟨stream, b, out, rfl, rfl, hdec, hh, hsg, by simp [hh, hsg]⟩
          · left; simp [hh, hsg]
        · left; simp [hh]

/-- After the patch check: either nothing is installed and the disk only went through the rollbacks
    and (if a patch was offered) the install decision; or the offered patch was installed. -/
theorem afterCheck_cases (env : Env) (cfg : Config) (base : Option Bytes) (d : Disk) (r : CheckResp) (dl : Option Bytes) :
    ((afterCheck env cfg base d r dl).2.1 ≠ .installed ∧
      ((afterCheck env cfg base d r dl).1 = rollBackIfNeeded env cfg d r.rolledBack ∨
       ∃ o, r.patch = some o ∧
        (afterCheck env cfg base d r dl).1 = (shouldInstall env cfg (rollBackIfNeeded env cfg d r.rolledBack) o.number).1)) ∨
    (∃ o stream b out, r.patch = some o ∧ r.available = true ∧
      (shouldInstall env cfg (rollBackIfNeeded env cfg d r.rolledBack) o.number).2 = .ok ∧
      dl = some stream ∧ base = some b ∧ bipatchDecode stream b = .ok out ∧
      checkHash out o.hash = true ∧ signatureOk env cfg.key o.sig out = true ∧
      afterCheck env cfg base d r dl =
        (secInstall cfg (shouldInstall env cfg (rollBackIfNeeded env cfg d r.rolledBack) o.number).1 o out, .installed, true)) := by
  unfold afterCheck
  simp only
  by_cases ha : r.available = true
  · simp only [ha, not_true_eq_false, if_false]
    cases hp : r.patch with
    | none => left; simp
    | some o =>
      simp only
      cases hs : (shouldInstall env cfg (rollBackIfNeeded env cfg d r.rolledBack) o.number).2 with
      | knownBad => left; simp
      | alreadyInstalled => left; simp
      | ok =>
        simp only
        rcases installStage_cases env cfg base
          (shouldInstall env cfg (rollBackIfNeeded env cfg d r.rolledBack) o.number).1 o dl with ⟨h1, h2⟩ | ⟨stream, b, out, e1, e2, e3, e4, e5, e6⟩
        · left
          refine ⟨h2, Or.inr ⟨o, rfl, ?_⟩⟩
          rw [h1]
        · right
          exact ⟨o, stream, b, out, rfl, by first | trivial | exact ha, hs, e1, e2, e3, e4, e5, by rw [e6]⟩
  · left; simp [ha]

end Updater
