/-
  The last good patch.

  * `RelPS`: how the selection and the last-good record may move in any call other than a
    success report or an install: the last good record is kept or dropped; the selection is kept,
    cleared, or replaced by the last good record; and whenever the selection changed, "nothing
    selected" implies "no last good patch" (the fallback was tried).
  * `GoodD`: patch `n` with bytes `b` is the last good patch and every record numbered `n`
    validates against exactly those bytes.
-/
import UpdaterModel.Lemmas.Sel

namespace Updater

/-! ### movement of selection and last-good record -/

def RelPS (a b : PatchesState) : Prop :=
  (b.last = a.last ∨ b.last = none) ∧
  (b.next = a.next ∨ b.next = none ∨ b.next = a.last) ∧
  (b.next = a.next ∨ (b.next = none → b.last = none))

theorem RelPS.refl (a : PatchesState) : RelPS a a := ⟨Or.inl rfl, Or.inl rfl, Or.inl rfl⟩

theorem RelPS.of_eq {a b : PatchesState} (hl : b.last = a.last) (hn : b.next = a.next) : RelPS a b :=
  ⟨Or.inl hl, Or.inl hn, Or.inl hn⟩

theorem RelPS.trans {a b c : PatchesState} (h1 : RelPS a b) (h2 : RelPS b c) : RelPS a c := by
  obtain ⟨l1, n1, f1⟩ := h1
  obtain ⟨l2, n2, f2⟩ := h2
  refine ⟨?_, ?_, ?_⟩
  · rcases l2 with h | h
    · rw [h]; exact l1
    · exact Or.inr h
  · rcases n2 with h | h | h
    · rw [h]; exact n1
    · exact Or.inr (Or.inl h)
    · rw [h]; rcases l1 with h' | h'
      · exact Or.inr (Or.inr h')
      · exact Or.inr (Or.inl h')
  · rcases f2 with h | h
    · rcases f1 with h' | h'
      · left; rw [h, h']
      · right; intro hc; rw [h] at hc
        have := h' hc
        rcases l2 with h2 | h2
        · rw [h2]; exact this
        · exact h2
    · exact Or.inr h

theorem fallBackPS_rel (ps : PatchesState) (x : Nat) (v : Bool) : RelPS ps (fallBackPS ps x v) := by
  obtain ⟨last, next, booting, bad⟩ := ps
  unfold fallBackPS RelPS
  cases next with
  | none =>
    cases last with
    | none => simp
    | some lb => simp only; split <;> simp
  | some nx =>
    cases last with
    | none => simp only; split <;> simp
    | some lb => simp only; split <;> split <;> simp_all

theorem tryFallBack_rel (env key) (pm : PM) (x : Nat) : RelPS pm.ps (pm.tryFallBack env key x).ps := by
  rw [tryFallBack_ps]; exact fallBackPS_rel _ _ _

theorem nextBootPatch_rel (env key) (pm : PM) : RelPS pm.ps (pm.nextBootPatch env key).1.ps := by
  unfold PM.nextBootPatch
  cases pm.ps.next with
  | none => exact RelPS.refl _
  | some nx => simp only; split <;> first | exact RelPS.refl _ | exact tryFallBack_rel _ _ _ _

theorem recordBootStart_rel (pm : PM) (n : Nat) : RelPS pm.ps (pm.recordBootStart n).1.ps := by
  unfold PM.recordBootStart
  cases pm.ps.next with
  | none => exact RelPS.refl _
  | some nx => simp only; split <;> first | exact RelPS.refl _ | exact RelPS.of_eq rfl rfl

theorem recordBootFailure_rel (env key) (pm : PM) (n : Nat) : RelPS pm.ps (pm.recordBootFailure env key n).ps := by
  obtain ⟨v, hv⟩ := recordBootFailure_ps env key pm n
  rw [hv]
  exact (RelPS.of_eq (a := pm.ps) rfl rfl).trans (fallBackPS_rel _ _ _)

theorem foldFallBack_rel (env key) (ns : List Nat) (pm : PM) :
    RelPS pm.ps (ns.foldl (fun pm x => pm.tryFallBack env key x) pm).ps := by
  induction ns generalizing pm with
  | nil => exact RelPS.refl _
  | cons x ns ih => simp only [List.foldl]; exact (tryFallBack_rel env key pm x).trans (ih _)

def RelD (d d' : Disk) : Prop := RelPS (loadPatchesState d) (loadPatchesState d')

theorem RelD.refl (d : Disk) : RelD d d := RelPS.refl _
theorem RelD.trans {a b c : Disk} (h1 : RelD a b) (h2 : RelD b c) : RelD a c := RelPS.trans h1 h2

theorem relD_of_pm (pm : PM) (d : Disk) (hc : pm.Coherent) (h : RelPS (loadPatchesState d) pm.ps) : RelD d pm.disk := by
  unfold RelD; rw [hc]; exact h

section
variable (env : Env) (cfg : Config) (d : Disk)

theorem rel_secNextBootPatch (h : Settled d cfg.version) : RelD d (secNextBootPatch env cfg d).1 := by
  obtain ⟨s, hs, hv⟩ := h
  simp only [secNextBootPatch, loadOrNew_settled d _ s hs hv]
  exact relD_of_pm _ d (nextBootPatch_coherent _ _ _ (PM.new_coherent d)) (nextBootPatch_rel env cfg.key (PM.new d))

theorem rel_secLaunchStart (h : Settled d cfg.version) : RelD d (secLaunchStart env cfg d) := by
  obtain ⟨s, hs, hv⟩ := h
  simp only [secLaunchStart, loadOrNew_settled d _ s hs hv]
  have c1 := nextBootPatch_coherent env cfg.key _ (PM.new_coherent d)
  have r1 := nextBootPatch_rel env cfg.key (PM.new d)
  split
  · exact relD_of_pm _ d (recordBootStart_coherent _ _ c1) (r1.trans (recordBootStart_rel _ _))
  · exact relD_of_pm _ d c1 r1

theorem rel_secLaunchFailure (h : Settled d cfg.version) : RelD d (secLaunchFailure env cfg d) := by
  obtain ⟨s, hs, hv⟩ := h
  simp only [secLaunchFailure, loadOrNew_settled d _ s hs hv]
  cases (PM.new d).ps.booting with
  | none => exact RelD.refl d
  | some p => exact relD_of_pm _ d (recordBootFailure_coherent _ _ _ _) (recordBootFailure_rel env cfg.key (PM.new d) p.number)

theorem rel_secHandlePrior (h : Settled d cfg.version) : RelD d (secHandlePriorBootFailure env cfg d) := by
  obtain ⟨s, hs, hv⟩ := h
  simp only [secHandlePriorBootFailure, loadOrNew_settled d _ s hs hv]
  cases (PM.new d).ps.booting with
  | none => exact RelD.refl d
  | some p => exact relD_of_pm _ d (recordBootFailure_coherent _ _ _ _) (recordBootFailure_rel env cfg.key (PM.new d) p.number)

theorem rel_secClearEvents (h : Settled d cfg.version) : RelD d (secClearEvents cfg d) := by
  unfold RelD loadPatchesState; rw [secClearEvents_pj cfg d h]; exact RelPS.refl _

theorem rel_rollBackIfNeeded (rb : Option (List Nat)) (h : Settled d cfg.version) : RelD d (rollBackIfNeeded env cfg d rb) := by
  cases rb with
  | none => exact RelD.refl d
  | some ns =>
    obtain ⟨s, hs, hv⟩ := h
    simp only [rollBackIfNeeded, secRollBack, loadOrNew_settled d _ s hs hv]
    exact relD_of_pm _ d (foldFallBack_ban env cfg.key ns (PM.new d) [] (PM.new_coherent d) (BanPS_nil _)).1
      (foldFallBack_rel env cfg.key ns (PM.new d))

theorem rel_shouldInstall (n : Nat) (h : Settled d cfg.version) : RelD d (shouldInstall env cfg d n).1 := by
  unfold shouldInstall
  rw [secIsKnownBad_eq cfg d n h]
  simp only
  split
  · exact RelD.refl d
  · split <;> exact rel_secNextBootPatch env cfg d h

theorem rel_checkCore (resp) (h : Settled d cfg.version) : RelD d (checkCore env cfg d resp).1 := by
  unfold checkCore
  cases resp with
  | none => exact RelD.refl d
  | some r =>
    simp only
    have h1 := rollBackIfNeeded_settled env cfg d r.rolledBack h
    have a1 := rel_rollBackIfNeeded env cfg d r.rolledBack h
    cases r.patch with
    | none => exact a1
    | some o => exact a1.trans (rel_shouldInstall env cfg _ o.number h1)

/-- An update that does not install. -/
theorem rel_updateCore (base) (sc : UpdateScript) (h : Settled d cfg.version)
    (hni : (updateCore env cfg base d sc).2.1 ≠ .installed) : RelD d (updateCore env cfg base d sc).1 := by
  unfold updateCore at hni ⊢
  simp only [] at hni ⊢
  rw [secCopyEvents_disk cfg d h] at hni ⊢
  have h1 := secClearEvents_settled cfg d h
  have a1 := rel_secClearEvents cfg d h
  cases hresp : sc.resp with
  | none => exact a1
  | some r =>
    simp only [hresp] at hni ⊢
    have h2 := rollBackIfNeeded_settled env cfg _ r.rolledBack h1
    have a2 := a1.trans (rel_rollBackIfNeeded env cfg _ r.rolledBack h1)
    rcases afterCheck_cases env cfg base (secClearEvents cfg d) r sc.dl with ⟨_, hd⟩ | ⟨o, stream, b, out, _, _, _, _, _, _, _, _, e6⟩
    · rcases hd with hd | ⟨o, _, hd⟩
      · rw [hd]; exact a2
      · rw [hd]; exact a2.trans (rel_shouldInstall env cfg _ o.number h2)
    · rw [e6] at hni; exact absurd rfl hni

/-- The install section does not touch the last-good record. -/
theorem secInstall_last (o : Offer) (out : Bytes) (h : Settled d cfg.version) :
    (loadPatchesState (secInstall cfg d o out)).last = (loadPatchesState d).last := by
  obtain ⟨s, hs, hv⟩ := h
  simp only [secInstall, loadOrNew_settled d _ s hs hv]
  rw [addPatch_coherent, addPatch_ps]
  rfl

/-- Any update keeps or drops the last-good record. -/
theorem last_updateCore (base) (sc : UpdateScript) (h : Settled d cfg.version) :
    (loadPatchesState (updateCore env cfg base d sc).1).last = (loadPatchesState d).last ∨
    (loadPatchesState (updateCore env cfg base d sc).1).last = none := by
  by_cases hni : (updateCore env cfg base d sc).2.1 = .installed
  · unfold updateCore at hni ⊢
    simp only [] at hni ⊢
    rw [secCopyEvents_disk cfg d h] at hni ⊢
    have h1 := secClearEvents_settled cfg d h
    have a1 := rel_secClearEvents cfg d h
    cases hresp : sc.resp with
    | none => simp [hresp] at hni
    | some r =>
      simp only [hresp] at hni ⊢
      have h2 := rollBackIfNeeded_settled env cfg _ r.rolledBack h1
      have a2 := a1.trans (rel_rollBackIfNeeded env cfg _ r.rolledBack h1)
      rcases afterCheck_cases env cfg base (secClearEvents cfg d) r sc.dl with ⟨hn, _⟩ | ⟨o, stream, b, out, _, _, _, _, _, _, _, _, e6⟩
      · exact absurd hni hn
      · rw [e6]
        have h3 := shouldInstall_settled env cfg _ o.number h2
        have a3 := a2.trans (rel_shouldInstall env cfg _ o.number h2)
        simp only [secInstall_last cfg _ o out h3]
        exact a3.1
  · exact (rel_updateCore env cfg d base sc h hni).1

end

/-! ### the last good patch and its artifact -/

def GoodPM (env : Env) (key : Option String) (pm : PM) (n : Nat) (b : Bytes) : Prop :=
  pm.disk.art n = some (.file b) ∧ (∃ m, pm.ps.last = some m ∧ m.number = n) ∧
  ∀ x, InSlot pm.ps x → x.number = n → validate env key pm.disk x = true

def GoodD (env : Env) (key : Option String) (d : Disk) (n : Nat) (b : Bytes) : Prop :=
  d.art n = some (.file b) ∧ (∃ m, (loadPatchesState d).last = some m ∧ m.number = n) ∧
  ∀ x, InSlot (loadPatchesState d) x → x.number = n → validate env key d x = true

theorem GoodD_of_pm (env key) (pm : PM) (n b) (hc : pm.Coherent) (h : GoodPM env key pm n b) : GoodD env key pm.disk n b := by
  unfold GoodD; rw [hc]; exact h

theorem GoodPM_of_frame (env key) (pm pm' : PM) (n : Nat) (b : Bytes) (h : GoodPM env key pm n b)
    (hlast : pm'.ps.last = pm.ps.last) (hslots : SlotsSub pm'.ps pm.ps) (hart : pm'.disk.art n = pm.disk.art n) :
    GoodPM env key pm' n b := by
  obtain ⟨ha, ⟨m, hm, hmn⟩, hall⟩ := h
  refine ⟨by rw [hart]; exact ha, ⟨m, by rw [hlast]; exact hm, hmn⟩, ?_⟩
  intro x hx hxn
  rw [validate_congr env key pm.disk pm'.disk x (by rw [hxn]; exact hart)]
  exact hall x (hslots x hx) hxn

theorem fallBackPS_last_keep (ps : PatchesState) (x : Nat) (m : Meta) (hm : ps.last = some m) (hne : m.number ≠ x) :
    (fallBackPS ps x true).last = some m := by
  unfold fallBackPS
  simp [hm, hne]

/-- Falling back from another number keeps the last good patch and its artifact. -/
theorem tryFallBack_good (env key) (pm : PM) (x n : Nat) (b : Bytes) (hx : x ≠ n) (h : GoodPM env key pm n b) :
    GoodPM env key (pm.tryFallBack env key x) n b := by
  obtain ⟨ha, ⟨m, hm, hmn⟩, hall⟩ := h
  have hnx : ¬ n = x := fun e => hx e.symm
  have hval : validate env key (pm.disk.deleteArtifacts x) m = true := by
    rw [validate_congr env key pm.disk _ m (by rw [art_deleteArtifacts]; simp [hmn, hnx])]
    exact hall m (Or.inr (Or.inl hm)) hmn
  have hlv : lastValidAfter env key pm x = true := by
    unfold lastValidAfter; rw [hm]; exact hval
  apply GoodPM_of_frame env key pm _ n b ⟨ha, ⟨m, hm, hmn⟩, hall⟩
  · rw [tryFallBack_ps, hlv, fallBackPS_last_keep pm.ps x m hm (by rw [hmn]; exact hnx), hm]
  · exact tryFallBack_slots env key pm x
  · rw [art_tryFallBack, art_fallBackDisk]
    simp only [hnx, if_false, hm]
    have : m.number ≠ x ∧ validate env key (pm.disk.deleteArtifacts x) m = true := ⟨by rw [hmn]; exact hnx, hval⟩
    simp [this]

theorem nextBootPatch_good (env key) (pm : PM) (n : Nat) (b : Bytes) (h : GoodPM env key pm n b) :
    GoodPM env key (pm.nextBootPatch env key).1 n b := by
  unfold PM.nextBootPatch
  cases hnx : pm.ps.next with
  | none => exact h
  | some nx =>
    simp only
    split
    · exact h
    · rename_i hinv
      apply tryFallBack_good env key pm nx.number n b _ h
      intro e
      exact hinv (h.2.2 nx (Or.inl hnx) e)

theorem recordBootStart_good (env key) (pm : PM) (k n : Nat) (b : Bytes) (h : GoodPM env key pm n b) :
    GoodPM env key (pm.recordBootStart k).1 n b := by
  apply GoodPM_of_frame env key pm _ n b h _ (recordBootStart_slots pm k) (art_recordBootStart pm k n)
  unfold PM.recordBootStart
  cases pm.ps.next with
  | none => rfl
  | some nx => simp only; split <;> rfl

theorem recordBootFailure_good (env key) (pm : PM) (x n : Nat) (b : Bytes) (hx : x ≠ n) (h : GoodPM env key pm n b) :
    GoodPM env key (pm.recordBootFailure env key x) n b := by
  unfold PM.recordBootFailure
  apply tryFallBack_good env key _ x n b hx
  obtain ⟨ha, hl, hall⟩ := h
  refine ⟨ha, hl, ?_⟩
  intro y hy hyn
  apply hall y _ hyn
  simp only [InSlot] at hy ⊢
  rcases hy with h' | h' | h'
  · exact Or.inl h'
  · exact Or.inr (Or.inl h')
  · simp at h'

theorem foldFallBack_good (env key) (ns : List Nat) (pm : PM) (n : Nat) (b : Bytes) (hn : n ∉ ns) (h : GoodPM env key pm n b) :
    GoodPM env key (ns.foldl (fun pm x => pm.tryFallBack env key x) pm) n b := by
  induction ns generalizing pm with
  | nil => exact h
  | cons x ns ih =>
    simp only [List.foldl]
    apply ih
    · exact fun hm => hn (List.mem_cons_of_mem _ hm)
    · exact tryFallBack_good env key pm x n b (fun e => hn (by rw [e]; exact List.mem_cons_self)) h

/-- Installing `k`: another number, or the same number with the same bytes and a verifying signature. -/
theorem addPatch_good (env key) (pm : PM) (k n : Nat) (b out : Bytes) (hs : String) (sg : Option String)
    (h : GoodPM env key pm n b)
    (hsame : k = n → out = b ∧ validate env key (pm.addPatch k out hs sg).disk { number := k, size := out.length, hash := hs, sig := sg } = true) :
    GoodPM env key (pm.addPatch k out hs sg) n b := by
  obtain ⟨ha, ⟨m, hm, hmn⟩, hall⟩ := h
  have hart : (pm.addPatch k out hs sg).disk.art n = some (.file b) := by
    rw [art_addPatch]
    by_cases hk : n = k
    · simp only [hk, if_true]; rw [(hsame hk.symm).1]
    · simp only [hk, if_false, hm]
      cases hnx : pm.ps.next with
      | none => exact ha
      | some nx =>
        simp only
        split
        · rename_i hc
          have : ¬ n = nx.number := by rw [← hmn]; exact hc.1
          simp only [this, if_false]; exact ha
        · exact ha
  refine ⟨hart, ⟨m, by rw [addPatch_ps]; exact hm, hmn⟩, ?_⟩
  intro x hx hxn
  rw [addPatch_ps] at hx
  simp only [InSlot] at hx
  rcases hx with h' | h' | h'
  · have hxe : x = { number := k, size := out.length, hash := hs, sig := sg } := by simpa using h'.symm
    have hkn : k = n := by rw [hxe] at hxn; exact hxn
    rw [hxe]; exact (hsame hkn).2
  · rw [validate_congr env key pm.disk _ x (by rw [hxn, hart, ha])]
    exact hall x (Or.inr (Or.inl h')) hxn
  · rw [validate_congr env key pm.disk _ x (by rw [hxn, hart, ha])]
    exact hall x (Or.inr (Or.inr h')) hxn

section
variable (env : Env) (cfg : Config) (d : Disk) (n : Nat) (b : Bytes)

theorem GoodPM_new (h : GoodD env cfg.key d n b) : GoodPM env cfg.key (PM.new d) n b := h

theorem secNextBootPatch_good (hst : Settled d cfg.version) (h : GoodD env cfg.key d n b) :
    GoodD env cfg.key (secNextBootPatch env cfg d).1 n b := by
  obtain ⟨s, hs, hv⟩ := hst
  simp only [secNextBootPatch, loadOrNew_settled d _ s hs hv]
  exact GoodD_of_pm env cfg.key _ n b (nextBootPatch_coherent _ _ _ (PM.new_coherent d)) (nextBootPatch_good env cfg.key _ n b h)

theorem secLaunchStart_good (hst : Settled d cfg.version) (h : GoodD env cfg.key d n b) :
    GoodD env cfg.key (secLaunchStart env cfg d) n b := by
  obtain ⟨s, hs, hv⟩ := hst
  simp only [secLaunchStart, loadOrNew_settled d _ s hs hv]
  have c1 := nextBootPatch_coherent env cfg.key _ (PM.new_coherent d)
  have g1 := nextBootPatch_good env cfg.key (PM.new d) n b h
  split
  · exact GoodD_of_pm env cfg.key _ n b (recordBootStart_coherent _ _ c1) (recordBootStart_good env cfg.key _ _ n b g1)
  · exact GoodD_of_pm env cfg.key _ n b c1 g1

theorem secLaunchFailure_good (hst : Settled d cfg.version) (h : GoodD env cfg.key d n b)
    (hb : (loadPatchesState d).booting.map (·.number) ≠ some n) : GoodD env cfg.key (secLaunchFailure env cfg d) n b := by
  obtain ⟨s, hs, hv⟩ := hst
  simp only [secLaunchFailure, loadOrNew_settled d _ s hs hv]
  cases hbt : (PM.new d).ps.booting with
  | none => exact h
  | some p =>
    simp only
    have hpn : p.number ≠ n := by
      intro e; apply hb
      have : (loadPatchesState d).booting = some p := hbt
      rw [this]; simp [e]
    exact GoodD_of_pm env cfg.key _ n b (recordBootFailure_coherent _ _ _ _) (recordBootFailure_good env cfg.key _ _ n b hpn h)

theorem secHandlePrior_good (hst : Settled d cfg.version) (h : GoodD env cfg.key d n b)
    (hb : (loadPatchesState d).booting.map (·.number) ≠ some n) : GoodD env cfg.key (secHandlePriorBootFailure env cfg d) n b := by
  obtain ⟨s, hs, hv⟩ := hst
  simp only [secHandlePriorBootFailure, loadOrNew_settled d _ s hs hv]
  cases hbt : (PM.new d).ps.booting with
  | none => exact h
  | some p =>
    simp only
    have hpn : p.number ≠ n := by
      intro e; apply hb
      have : (loadPatchesState d).booting = some p := hbt
      rw [this]; simp [e]
    exact GoodD_of_pm env cfg.key _ n b (recordBootFailure_coherent _ _ _ _) (recordBootFailure_good env cfg.key _ _ n b hpn h)

theorem secClearEvents_good (hst : Settled d cfg.version) (h : GoodD env cfg.key d n b) : GoodD env cfg.key (secClearEvents cfg d) n b := by
  obtain ⟨s, hs, hv⟩ := hst
  simp only [secClearEvents, loadOrNew_settled d _ s hs hv]
  exact h

theorem rollBackIfNeeded_good (rb : Option (List Nat)) (hst : Settled d cfg.version) (hn : n ∉ rb.getD [])
    (h : GoodD env cfg.key d n b) : GoodD env cfg.key (rollBackIfNeeded env cfg d rb) n b := by
  cases rb with
  | none => exact h
  | some ns =>
    obtain ⟨s, hs, hv⟩ := hst
    simp only [rollBackIfNeeded, secRollBack, loadOrNew_settled d _ s hs hv]
    exact GoodD_of_pm env cfg.key _ n b (foldFallBack_ban env cfg.key ns (PM.new d) [] (PM.new_coherent d) (BanPS_nil _)).1
      (foldFallBack_good env cfg.key ns (PM.new d) n b (by simpa using hn) h)

theorem shouldInstall_good (k : Nat) (hst : Settled d cfg.version) (h : GoodD env cfg.key d n b) :
    GoodD env cfg.key (shouldInstall env cfg d k).1 n b := by
  unfold shouldInstall
  rw [secIsKnownBad_eq cfg d k hst]
  simp only
  split
  · exact h
  · split <;> exact secNextBootPatch_good env cfg d n b hst h

theorem checkCore_good (r : CheckResp) (hst : Settled d cfg.version) (hn : n ∉ r.rolledBack.getD [])
    (h : GoodD env cfg.key d n b) : GoodD env cfg.key (checkCore env cfg d (some r)).1 n b := by
  unfold checkCore
  simp only
  have h1 := rollBackIfNeeded_good env cfg d n b r.rolledBack hst hn h
  cases r.patch with
  | none => exact h1
  | some o => exact shouldInstall_good env cfg _ n b o.number (rollBackIfNeeded_settled env cfg d r.rolledBack hst) h1

end

end Updater
