/-
  Validation on read: what `next_boot_patch` hands out validates on the disk it leaves behind.
-/
import UpdaterModel.Lemmas.Frame

namespace Updater

/-- `validate` does not depend on the two JSON files. -/
theorem validate_of_patches (env key) (d d' : Disk) (m : Meta) (h : d'.patches = d.patches) :
    validate env key d' m = validate env key d m := by
  apply validate_congr; unfold Disk.art; rw [h]

theorem validate_save (env key) (pm : PM) (m : Meta) : validate env key pm.save.disk m = validate env key pm.disk m :=
  validate_of_patches env key pm.disk pm.save.disk m rfl

/-- The selection that `try_fall_back_from_patch` leaves validates, when it fell back to the last
    good patch. -/
theorem tryFallBack_next_valid (env key) (pm : PM) (n : Nat) (nx : Meta) (hnx : pm.ps.next = some nx) (hn : nx.number = n) :
    ∀ m, (pm.tryFallBack env key n).ps.next = some m → validate env key (pm.tryFallBack env key n).disk m = true := by
  intro m hm
  rw [tryFallBack_ps] at hm
  rw [tryFallBack_disk]
  unfold fallBackPS at hm
  simp only [hnx, hn, if_true] at hm
  cases hl : pm.ps.last with
  | none => simp [hl] at hm
  | some lb =>
    simp only [hl] at hm
    split at hm
    · rename_i hc
      simp only [Option.some.injEq] at hm
      subst hm
      unfold lastValidAfter at hc
      rw [hl] at hc
      have hv : validate env key (pm.disk.deleteArtifacts n) lb = true := hc.2
      have e1 : validate env key
          { fallBackDisk env key pm n with patchesJson := JFile.ok (PM.tryFallBack env key pm n).ps } lb =
          validate env key (fallBackDisk env key pm n) lb :=
        validate_of_patches env key (fallBackDisk env key pm n) _ lb rfl
      rw [e1]
      unfold fallBackDisk
      simp only [hl]
      have hne : lb.number ≠ n := hc.1
      simp [hne, hv]
    · simp at hm

/-- **Validate on read.** Whatever `next_boot_patch` returns is the recorded selection and it
    validates on the resulting disk — for every disk and record, reachable or not. -/
theorem nextBootPatch_valid (env key) (pm : PM) :
    ∀ m, (pm.nextBootPatch env key).1.ps.next = some m → validate env key (pm.nextBootPatch env key).1.disk m = true := by
  intro m hm
  unfold PM.nextBootPatch at hm ⊢
  cases hnx : pm.ps.next with
  | none => simp [hnx] at hm
  | some nx =>
    simp only [hnx] at hm ⊢
    by_cases hv : validate env key pm.disk nx = true
    · simp only [hv, if_true] at hm ⊢
      rw [hnx] at hm; cases hm; exact hv
    · simp only [hv] at hm ⊢
      exact tryFallBack_next_valid env key pm nx.number nx hnx rfl m hm

/-- What validation guarantees about the artifact. -/
theorem validate_spec (env : Env) (key : Option String) (d : Disk) (m : Meta) (h : validate env key d m = true) :
    ∃ b, d.art m.number = some (.file b) ∧ b.length = m.size ∧
      (∀ k, key = some k → ∃ s, m.sig = some s ∧ env.verify k (hashFile b) s = true) := by
  unfold validate at h
  cases ha : d.art m.number with
  | none => simp [ha] at h
  | some a =>
    cases a with
    | emptyDir => simp [ha] at h
    | file b =>
      simp only [ha] at h
      by_cases hsz : b.length = m.size
      · refine ⟨b, rfl, hsz, ?_⟩
        intro k hk
        subst hk
        simp only [hsz, ne_eq, not_true_eq_false, if_false] at h
        cases hs : m.sig with
        | none => simp [hs] at h
        | some s => exact ⟨s, rfl, by simpa [hs] using h⟩
      · simp [hsz] at h

end Updater
