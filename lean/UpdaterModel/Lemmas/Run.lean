/-
  Generic lifting: a monitor accepts every model trace if an invariant relating the model world to
  the monitor's ghost state holds initially and every step passes the checks and re-establishes it.
-/
import UpdaterModel.Model.Monitor

namespace Updater

/-- `v` shows exactly the storage directory of `w` (its outputs are irrelevant). -/
def ShowsDisk (w : World) (v : View) : Prop :=
  v.sj = w.disk.stateJson ∧ v.pj = w.disk.patchesJson ∧ v.pdir = w.disk.patches.isSome ∧
  v.arts = w.disk.artsList ∧ v.junk = w.disk.junkList

theorem showsDisk_view (w : World) (r : Ret) (n : List NetAct) : ShowsDisk w (w.view r n) :=
  ⟨rfl, rfl, rfl, rfl, rfl⟩

theorem showsDisk_empty (libs) : ShowsDisk (World.fresh libs) View.empty := by
  simp [ShowsDisk, World.fresh, View.empty, Disk.empty, Disk.artsList, Disk.junkList]

/-- The view after `op` from `w`. -/
def postView (env : Env) (w : World) (op : Op) : View :=
  let r := step env w op
  r.1.view r.2.1 r.2.2

theorem Monitor.run_none_of_inv {σ} (m : Monitor σ) (env : Env) (Inv : World → σ → Prop)
    (hstep : ∀ w g op pre, Inv w g → ShowsDisk w pre →
      firstFail (m.checks env g op pre (postView env w op)) = none ∧
      Inv (step env w op).1 (m.next env g op pre (postView env w op))) :
    ∀ (ops : List Op) (w : World) (g : σ) (k : Nat) (pre : View), Inv w g → ShowsDisk w pre →
      m.run env g k pre (viewTrace env w ops) = none := by
  intro ops
  induction ops with
  | nil => intro w g k pre _ _; simp [viewTrace, Monitor.run]
  | cons op ops ih =>
    intro w g k pre hinv hshow
    have h := hstep w g op pre hinv hshow
    simp only [viewTrace, Monitor.run]
    have h1 : firstFail (m.checks env g op pre ((step env w op).1.view (step env w op).2.1 (step env w op).2.2)) = none := h.1
    rw [h1]
    exact ih (step env w op).1 _ (k + 1) _ h.2 (showsDisk_view _ _ _)

/-- Acceptance of every trace from the fresh world. -/
theorem Monitor.accepts_of_inv {σ} (m : Monitor σ) (env : Env) (libs : List (String × Bytes))
    (Inv : World → σ → Prop) (h0 : Inv (World.fresh libs) m.init)
    (hstep : ∀ w g op pre, Inv w g → ShowsDisk w pre →
      firstFail (m.checks env g op pre (postView env w op)) = none ∧
      Inv (step env w op).1 (m.next env g op pre (postView env w op)))
    (ops : List Op) : m.accepts env (viewTrace env (World.fresh libs) ops) = true := by
  unfold Monitor.accepts
  rw [Monitor.run_none_of_inv m env Inv hstep ops _ _ 0 View.empty h0 (showsDisk_empty libs)]
  rfl

/-- All checks pass iff none fails first. -/
theorem firstFail_none_iff (cs : Checks) : firstFail cs = none ↔ ∀ c ∈ cs, c.1 = true := by
  induction cs with
  | nil => simp [firstFail]
  | cons c cs ih =>
    obtain ⟨b, msg⟩ := c
    cases b <;> simp [firstFail, ih]

theorem firstFail_append (a b : Checks) :
    firstFail (a ++ b) = none ↔ firstFail a = none ∧ firstFail b = none := by
  simp only [firstFail_none_iff, List.mem_append]
  constructor
  · intro h; exact ⟨fun c hc => h c (Or.inl hc), fun c hc => h c (Or.inr hc)⟩
  · intro h c hc; cases hc with
    | inl hc => exact h.1 c hc
    | inr hc => exact h.2 c hc

/-- The process configuration evolves exactly as an observer tracks it from the calls alone. -/
theorem step_config (env : Env) (w : World) (op : Op) :
    (step env w op).1.config = trackCfg w.config op := by
  cases op with
  | init p =>
    simp only [step, init, trackCfg, mkConfig]
    cases hy : p.yaml <;> cases hl : p.libapps <;> cases hc : w.config <;> simp [hc]
  | restart => simp [step, restart, trackCfg]
  | start => simp only [step, launchStart, trackCfg]; cases h : w.config <;> simp [h]
  | success => simp only [step, launchSuccess, trackCfg]; cases h : w.config <;> simp [h]
  | failure => simp only [step, launchFailure, trackCfg]; cases h : w.config <;> simp [h]
  | nextN => simp only [step, nextBootPatch, trackCfg]; cases h : w.config <;> simp [h]
  | nextP => simp only [step, nextBootPatch, trackCfg]; cases h : w.config <;> simp [h]
  | curN => simp only [step, currentBootPatch, trackCfg]; cases h : w.config <;> simp [h]
  | auto => simp [step, trackCfg]
  | check c r => simp only [step, check, trackCfg]; cases h : w.config <;> simp [h]
  | update c sc => simp only [step, update, trackCfg]; cases h : w.config <;> simp [h]
  | damage d => simp [step, trackCfg]

end Updater

namespace Updater

/-- Variant with a hypothesis on every operation of the history. -/
theorem Monitor.run_none_of_inv' {σ} (m : Monitor σ) (env : Env) (Inv : World → σ → Prop) (P : Op → Prop)
    (hstep : ∀ w g op pre, P op → Inv w g → ShowsDisk w pre →
      firstFail (m.checks env g op pre (postView env w op)) = none ∧
      Inv (step env w op).1 (m.next env g op pre (postView env w op))) :
    ∀ (ops : List Op) (w : World) (g : σ) (k : Nat) (pre : View), (∀ op ∈ ops, P op) → Inv w g → ShowsDisk w pre →
      m.run env g k pre (viewTrace env w ops) = none := by
  intro ops
  induction ops with
  | nil => intro w g k pre _ _ _; simp [viewTrace, Monitor.run]
  | cons op ops ih =>
    intro w g k pre hP hinv hshow
    have h := hstep w g op pre (hP op List.mem_cons_self) hinv hshow
    simp only [viewTrace, Monitor.run]
    have h1 : firstFail (m.checks env g op pre ((step env w op).1.view (step env w op).2.1 (step env w op).2.2)) = none := h.1
    rw [h1]
    exact ih (step env w op).1 _ (k + 1) _ (fun o ho => hP o (List.mem_cons_of_mem _ ho)) h.2 (showsDisk_view _ _ _)

theorem Monitor.accepts_of_inv' {σ} (m : Monitor σ) (env : Env) (libs : List (String × Bytes))
    (Inv : World → σ → Prop) (P : Op → Prop) (h0 : Inv (World.fresh libs) m.init)
    (hstep : ∀ w g op pre, P op → Inv w g → ShowsDisk w pre →
      firstFail (m.checks env g op pre (postView env w op)) = none ∧
      Inv (step env w op).1 (m.next env g op pre (postView env w op)))
    (ops : List Op) (hP : ∀ op ∈ ops, P op) : m.accepts env (viewTrace env (World.fresh libs) ops) = true := by
  unfold Monitor.accepts
  rw [Monitor.run_none_of_inv' m env Inv P hstep ops _ _ 0 View.empty hP h0 (showsDisk_empty libs)]
  rfl

end Updater

namespace Updater

/-- A hypothesis on histories that may refer to the monitor's ghost state at each point:
    `P g op` must hold for every operation, with `g` the ghost state reached so far. -/
def Monitor.admissible {σ} (m : Monitor σ) (env : Env) (P : σ → Op → Prop) : σ → View → List (Op × View) → Prop
  | _, _, [] => True
  | s, pre, (op, post) :: rest => P s op ∧ m.admissible env P (m.next env s op pre post) post rest

theorem Monitor.run_none_of_inv_adm {σ} (m : Monitor σ) (env : Env) (Inv : World → σ → Prop) (P : σ → Op → Prop)
    (hstep : ∀ w g op pre, P g op → Inv w g → ShowsDisk w pre →
      firstFail (m.checks env g op pre (postView env w op)) = none ∧
      Inv (step env w op).1 (m.next env g op pre (postView env w op))) :
    ∀ (ops : List Op) (w : World) (g : σ) (k : Nat) (pre : View),
      m.admissible env P g pre (viewTrace env w ops) → Inv w g → ShowsDisk w pre →
      m.run env g k pre (viewTrace env w ops) = none := by
  intro ops
  induction ops with
  | nil => intro w g k pre _ _ _; simp [viewTrace, Monitor.run]
  | cons op ops ih =>
    intro w g k pre hadm hinv hshow
    simp only [viewTrace, Monitor.admissible] at hadm
    have h := hstep w g op pre hadm.1 hinv hshow
    simp only [viewTrace, Monitor.run]
    have h1 : firstFail (m.checks env g op pre ((step env w op).1.view (step env w op).2.1 (step env w op).2.2)) = none := h.1
    rw [h1]
    exact ih (step env w op).1 _ (k + 1) _ hadm.2 h.2 (showsDisk_view _ _ _)

theorem Monitor.accepts_of_inv_adm {σ} (m : Monitor σ) (env : Env) (libs : List (String × Bytes))
    (Inv : World → σ → Prop) (P : σ → Op → Prop) (h0 : Inv (World.fresh libs) m.init)
    (hstep : ∀ w g op pre, P g op → Inv w g → ShowsDisk w pre →
      firstFail (m.checks env g op pre (postView env w op)) = none ∧
      Inv (step env w op).1 (m.next env g op pre (postView env w op)))
    (ops : List Op) (hadm : m.admissible env P m.init View.empty (viewTrace env (World.fresh libs) ops)) :
    m.accepts env (viewTrace env (World.fresh libs) ops) = true := by
  unfold Monitor.accepts
  rw [Monitor.run_none_of_inv_adm m env Inv P hstep ops _ _ 0 View.empty hadm h0 (showsDisk_empty libs)]
  rfl

end Updater
