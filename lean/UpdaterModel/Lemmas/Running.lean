/-
  The running patch.

  `RunD d n`: patch `n` is what `current_boot_patch` reports from disk `d` (the booting record, or
  the last good record once the boot succeeded), and every record numbered `n` validates.
  `BootSub`: calls other than a launch start keep or clear the booting record.
-/
import UpdaterModel.Lemmas.Good

namespace Updater

/-! ### the booting record -/

def BootSub (a b : PatchesState) : Prop := b.booting = a.booting ∨ b.booting = none

theorem BootSub.refl (a : PatchesState) : BootSub a a := Or.inl rfl

theorem BootSub.trans {a b c : PatchesState} (h1 : BootSub a b) (h2 : BootSub b c) : BootSub a c := by
  rcases h2 with h | h
  · rw [BootSub, h]; exact h1
  · exact Or.inr h

theorem tryFallBack_boot (env key) (pm : PM) (x : Nat) : (pm.tryFallBack env key x).ps.booting = pm.ps.booting := by
  rw [tryFallBack_ps, fallBackPS_booting]

theorem nextBootPatch_boot (env key) (pm : PM) : (pm.nextBootPatch env key).1.ps.booting = pm.ps.booting := by
  unfold PM.nextBootPatch
  cases pm.ps.next with
  | none => rfl
  | some nx => simp only; split <;> first | rfl | exact tryFallBack_boot _ _ _ _

theorem foldFallBack_boot (env key) (ns : List Nat) (pm : PM) :
    (ns.foldl (fun pm x => pm.tryFallBack env key x) pm).ps.booting = pm.ps.booting := by
  induction ns generalizing pm with
  | nil => rfl
  | cons x ns ih => simp only [List.foldl]; rw [ih, tryFallBack_boot]

theorem recordBootFailure_boot (env key) (pm : PM) (x : Nat) : (pm.recordBootFailure env key x).ps.booting = none := by
  obtain ⟨v, hv⟩ := recordBootFailure_ps env key pm x
  rw [hv, fallBackPS_booting]

theorem recordBootSuccess_boot (pm : PM) : BootSub pm.ps pm.recordBootSuccess.1.ps := by
  unfold PM.recordBootSuccess
  cases pm.ps.booting with
  | none => exact BootSub.refl _
  | some bp => right; simp [PM.save, deleteOlderThan_ps]

def BootSubD (d d' : Disk) : Prop := BootSub (loadPatchesState d) (loadPatchesState d')

theorem BootSubD.refl (d : Disk) : BootSubD d d := BootSub.refl _
theorem BootSubD.trans {a b c : Disk} (h1 : BootSubD a b) (h2 : BootSubD b c) : BootSubD a c := BootSub.trans h1 h2

theorem bootSubD_of_pm (pm : PM) (d : Disk) (hc : pm.Coherent) (h : BootSub (loadPatchesState d) pm.ps) : BootSubD d pm.disk := by
  unfold BootSubD; rw [hc]; exact h

section
variable (env : Env) (cfg : Config) (d : Disk)

theorem boot_secNextBootPatch (h : Settled d cfg.version) : BootSubD d (secNextBootPatch env cfg d).1 := by
  obtain ⟨s, hs, hv⟩ := h
  simp only [secNextBootPatch, loadOrNew_settled d _ s hs hv]
  exact bootSubD_of_pm _ d (nextBootPatch_coherent _ _ _ (PM.new_coherent d)) (Or.inl (nextBootPatch_boot env cfg.key (PM.new d)))

theorem boot_secLaunchSuccess (h : Settled d cfg.version) : BootSubD d (secLaunchSuccess env cfg d).1 := by
  obtain ⟨s, hs, hv⟩ := h
  simp only [secLaunchSuccess, loadOrNew_settled d _ s hs hv]
  cases hb : (PM.new d).ps.booting with
  | none => exact BootSubD.refl d
  | some bp =>
    have h1 : BootSubD d (PM.new d).recordBootSuccess.1.disk :=
      bootSubD_of_pm _ d (recordBootSuccess_coherent _ (PM.new_coherent d)) (recordBootSuccess_boot (PM.new d))
    simp only
    split <;> (try split) <;> exact h1

theorem boot_secLaunchFailure (h : Settled d cfg.version) : BootSubD d (secLaunchFailure env cfg d) := by
  obtain ⟨s, hs, hv⟩ := h
  simp only [secLaunchFailure, loadOrNew_settled d _ s hs hv]
  cases (PM.new d).ps.booting with
  | none => exact BootSubD.refl d
  | some p => exact bootSubD_of_pm _ d (recordBootFailure_coherent _ _ _ _) (Or.inr (recordBootFailure_boot env cfg.key (PM.new d) p.number))

/-- After crash detection at an effective init, nothing is marked as booting. -/
theorem secHandlePrior_boot_none (h : Settled d cfg.version) :
    (loadPatchesState (secHandlePriorBootFailure env cfg d)).booting = none := by
  obtain ⟨s, hs, hv⟩ := h
  simp only [secHandlePriorBootFailure, loadOrNew_settled d _ s hs hv]
  cases hb : (PM.new d).ps.booting with
  | none => exact hb
  | some p =>
    simp only
    have : (loadPatchesState ((PM.new d).recordBootFailure env cfg.key p.number).disk) = ((PM.new d).recordBootFailure env cfg.key p.number).ps :=
      recordBootFailure_coherent _ _ _ _
    show (loadPatchesState ((PM.new d).recordBootFailure env cfg.key p.number).disk).booting = none
    rw [this]; exact recordBootFailure_boot _ _ _ _

theorem boot_secClearEvents (h : Settled d cfg.version) : BootSubD d (secClearEvents cfg d) := by
  unfold BootSubD loadPatchesState; rw [secClearEvents_pj cfg d h]; exact BootSub.refl _

theorem boot_rollBackIfNeeded (rb : Option (List Nat)) (h : Settled d cfg.version) : BootSubD d (rollBackIfNeeded env cfg d rb) := by
  cases rb with
  | none => exact BootSubD.refl d
  | some ns =>
    obtain ⟨s, hs, hv⟩ := h
    simp only [rollBackIfNeeded, secRollBack, loadOrNew_settled d _ s hs hv]
    exact bootSubD_of_pm _ d (foldFallBack_ban env cfg.key ns (PM.new d) [] (PM.new_coherent d) (BanPS_nil _)).1
      (Or.inl (foldFallBack_boot env cfg.key ns (PM.new d)))

theorem boot_shouldInstall (n : Nat) (h : Settled d cfg.version) : BootSubD d (shouldInstall env cfg d n).1 := by
  unfold shouldInstall
  rw [secIsKnownBad_eq cfg d n h]
  simp only
  split
  · exact BootSubD.refl d
  · split <;> exact boot_secNextBootPatch env cfg d h

theorem boot_checkCore (resp) (h : Settled d cfg.version) : BootSubD d (checkCore env cfg d resp).1 := by
  unfold checkCore
  cases resp with
  | none => exact BootSubD.refl d
  | some r =>
    simp only
    have h1 := rollBackIfNeeded_settled env cfg d r.rolledBack h
    have a1 := boot_rollBackIfNeeded env cfg d r.rolledBack h
    cases r.patch with
    | none => exact a1
    | some o => exact a1.trans (boot_shouldInstall env cfg _ o.number h1)

theorem boot_secInstall (o : Offer) (out : Bytes) (h : Settled d cfg.version) : BootSubD d (secInstall cfg d o out) := by
  obtain ⟨s, hs, hv⟩ := h
  simp only [secInstall, loadOrNew_settled d _ s hs hv]
  apply bootSubD_of_pm _ d (addPatch_coherent _ _ _ _ _)
  rw [addPatch_ps]; exact Or.inl rfl

theorem boot_updateCore (base) (sc : UpdateScript) (h : Settled d cfg.version) : BootSubD d (updateCore env cfg base d sc).1 := by
  unfold updateCore
  simp only []
  rw [secCopyEvents_disk cfg d h]
  have h1 := secClearEvents_settled cfg d h
  have a1 := boot_secClearEvents cfg d h
  cases hresp : sc.resp with
  | none => exact a1
  | some r =>
    simp only
    have h2 := rollBackIfNeeded_settled env cfg _ r.rolledBack h1
    have a2 := a1.trans (boot_rollBackIfNeeded env cfg _ r.rolledBack h1)
    rcases afterCheck_cases env cfg base (secClearEvents cfg d) r sc.dl with ⟨_, hd⟩ | ⟨o, stream, b, out, _, _, _, _, _, _, _, _, e6⟩
    · rcases hd with hd | ⟨o, _, hd⟩
      · rw [hd]; exact a2
      · rw [hd]; exact a2.trans (boot_shouldInstall env cfg _ o.number h2)
    · rw [e6]
      have h3 := shouldInstall_settled env cfg _ o.number h2
      exact (a2.trans (boot_shouldInstall env cfg _ o.number h2)).trans (boot_secInstall cfg _ o out h3)

/-- A launch start records the selection it hands out as booting. -/
theorem secLaunchStart_records (h : Settled d cfg.version) :
    ∀ m, (loadPatchesState (secLaunchStart env cfg d)).next = some m → (loadPatchesState (secLaunchStart env cfg d)).booting = some m := by
  obtain ⟨s, hs, hv⟩ := h
  simp only [secLaunchStart, loadOrNew_settled d _ s hs hv]
  have c1 := nextBootPatch_coherent env cfg.key _ (PM.new_coherent d)
  have hr := nextBootPatch_ret env cfg.key (PM.new d)
  cases h2 : ((PM.new d).nextBootPatch env cfg.key).2 with
  | none =>
    simp only
    intro m hm
    rw [c1] at hm
    rw [h2, hm] at hr; simp at hr
  | some n =>
    simp only
    rw [h2] at hr
    cases hnx : ((PM.new d).nextBootPatch env cfg.key).1.ps.next with
    | none => rw [hnx] at hr; simp at hr
    | some nx =>
      have hn : nx.number = n := by rw [hnx] at hr; simpa using hr.symm
      have hc2 := recordBootStart_coherent ((PM.new d).nextBootPatch env cfg.key).1 n c1
      rw [hc2]
      unfold PM.recordBootStart
      simp only [hnx, hn, ne_eq, not_true_eq_false, if_false, save_ps]
      intro m hm; exact hm

end

/-! ### the running patch -/

def RunPM (env : Env) (key : Option String) (pm : PM) (n : Nat) : Prop :=
  ((∃ m, pm.ps.booting = some m ∧ m.number = n) ∨ (pm.ps.booting = none ∧ ∃ m, pm.ps.last = some m ∧ m.number = n)) ∧
  ∀ x, InSlot pm.ps x → x.number = n → validate env key pm.disk x = true

def RunD (env : Env) (key : Option String) (d : Disk) (n : Nat) : Prop :=
  ((∃ m, (loadPatchesState d).booting = some m ∧ m.number = n) ∨
   ((loadPatchesState d).booting = none ∧ ∃ m, (loadPatchesState d).last = some m ∧ m.number = n)) ∧
  ∀ x, InSlot (loadPatchesState d) x → x.number = n → validate env key d x = true

theorem RunD_of_pm (env key) (pm : PM) (n) (hc : pm.Coherent) (h : RunPM env key pm n) : RunD env key pm.disk n := by
  unfold RunD; rw [hc]; exact h

/-- What `current_boot_patch` computes from a record with a running patch. -/
theorem RunPM_cur (env key) (pm : PM) (n : Nat) (h : RunPM env key pm n) :
    (match pm.ps.booting with | some m => some m.number | none => pm.ps.last.map (·.number)) = some n := by
  rcases h.1 with ⟨m, hm, hmn⟩ | ⟨hb, m, hm, hmn⟩
  · simp [hm, hmn]
  · simp [hb, hm, hmn]

theorem RunPM_of_frame (env key) (pm pm' : PM) (n : Nat) (h : RunPM env key pm n)
    (hboot : pm'.ps.booting = pm.ps.booting) (hlast : pm.ps.booting = none → pm'.ps.last = pm.ps.last)
    (hslots : SlotsSub pm'.ps pm.ps) (hart : pm'.disk.art n = pm.disk.art n) : RunPM env key pm' n := by
  obtain ⟨hcur, hall⟩ := h
  refine ⟨?_, ?_⟩
  · rcases hcur with ⟨m, hm, hmn⟩ | ⟨hb, m, hm, hmn⟩
    · exact Or.inl ⟨m, by rw [hboot]; exact hm, hmn⟩
    · exact Or.inr ⟨by rw [hboot]; exact hb, m, by rw [hlast hb]; exact hm, hmn⟩
  · intro x hx hxn
    rw [validate_congr env key pm.disk pm'.disk x (by rw [hxn]; exact hart)]
    exact hall x (hslots x hx) hxn

/-- Falling back from another number leaves the running patch, its record and its artifact alone. -/
theorem tryFallBack_run (env key) (pm : PM) (x n : Nat) (hx : x ≠ n) (h : RunPM env key pm n) :
    RunPM env key (pm.tryFallBack env key x) n := by
  have hnx : ¬ n = x := fun e => hx e.symm
  obtain ⟨hcur, hall⟩ := h
  -- a last-good record numbered n validates, also once x's artifact is gone
  have hlv : ∀ lb, pm.ps.last = some lb → lb.number = n →
      validate env key (pm.disk.deleteArtifacts x) lb = true := by
    intro lb hl hln
    rw [validate_congr env key pm.disk _ lb (by rw [art_deleteArtifacts]; simp [hln, hnx])]
    exact hall lb (Or.inr (Or.inl hl)) hln
  apply RunPM_of_frame env key pm _ n ⟨hcur, hall⟩ (tryFallBack_boot env key pm x)
  · intro hb
    rcases hcur with ⟨m, hm, _⟩ | ⟨_, m, hm, hmn⟩
    · rw [hb] at hm; cases hm
    · have : lastValidAfter env key pm x = true := by unfold lastValidAfter; rw [hm]; exact hlv m hm hmn
      rw [tryFallBack_ps, this, fallBackPS_last_keep pm.ps x m hm (by rw [hmn]; exact hnx), hm]
  · exact tryFallBack_slots env key pm x
  · rw [art_tryFallBack, art_fallBackDisk]
    simp only [hnx, if_false]
    cases hl : pm.ps.last with
    | none => rfl
    | some lb =>
      simp only
      split
      · rfl
      · rename_i hc
        by_cases hln : n = lb.number
        · exfalso; exact hc ⟨by rw [← hln]; exact hnx, hlv lb hl hln.symm⟩
        · simp [hln]

theorem nextBootPatch_run (env key) (pm : PM) (n : Nat) (h : RunPM env key pm n) :
    RunPM env key (pm.nextBootPatch env key).1 n := by
  unfold PM.nextBootPatch
  cases hnx : pm.ps.next with
  | none => exact h
  | some nx =>
    simp only
    split
    · exact h
    · rename_i hinv
      apply tryFallBack_run env key pm nx.number n _ h
      intro e
      exact hinv (h.2 nx (Or.inl hnx) e)

theorem foldFallBack_run (env key) (ns : List Nat) (pm : PM) (n : Nat) (hn : n ∉ ns) (h : RunPM env key pm n) :
    RunPM env key (ns.foldl (fun pm x => pm.tryFallBack env key x) pm) n := by
  induction ns generalizing pm with
  | nil => exact h
  | cons x ns ih =>
    simp only [List.foldl]
    apply ih
    · exact fun hm => hn (List.mem_cons_of_mem _ hm)
    · exact tryFallBack_run env key pm x n (fun e => hn (by rw [e]; exact List.mem_cons_self)) h

/-- A success report moves the booting record to "last good": the current patch stays the same. -/
theorem recordBootSuccess_run (env key) (pm : PM) (n : Nat) (h : RunPM env key pm n) :
    RunPM env key pm.recordBootSuccess.1 n := by
  obtain ⟨hcur, hall⟩ := h
  cases hb : pm.ps.booting with
  | none =>
    have : pm.recordBootSuccess.1 = pm := by unfold PM.recordBootSuccess; simp [hb]
    rw [this]; exact ⟨hcur, hall⟩
  | some bp =>
    have hbn : bp.number = n := by
      rcases hcur with ⟨m, hm, hmn⟩ | ⟨hb', _⟩
      · rw [hb] at hm; cases hm; exact hmn
      · rw [hb] at hb'; cases hb'
    have hps : pm.recordBootSuccess.1.ps = { pm.ps with booting := none, last := some bp } := by
      unfold PM.recordBootSuccess; simp [hb, PM.save, deleteOlderThan_ps]
    have hart : pm.recordBootSuccess.1.disk.art n = pm.disk.art n := by
      rw [art_recordBootSuccess pm bp hb n]
      have : ¬ (n < bp.number ∧ some n ≠ pm.ps.next.map (·.number)) := by rw [hbn]; omega
      simp [this]
    refine ⟨Or.inr ⟨by rw [hps], bp, by rw [hps], hbn⟩, ?_⟩
    intro x hx hxn
    rw [validate_congr env key pm.disk _ x (by rw [hxn]; exact hart)]
    apply hall x _ hxn
    rw [hps] at hx
    simp only [InSlot] at hx ⊢
    rcases hx with h' | h' | h'
    · exact Or.inl h'
    · right; right; rw [hb]; exact h'
    · cases h'

/-- Installing another number leaves the running patch alone (the pending-patch clean-up spares a
    patch that is booting and the last good patch). -/
theorem addPatch_run (env key) (pm : PM) (k n : Nat) (out : Bytes) (hs : String) (sg : Option String)
    (hk : k ≠ n) (h : RunPM env key pm n) : RunPM env key (pm.addPatch k out hs sg) n := by
  obtain ⟨hcur, hall⟩ := h
  have hnk : ¬ n = k := fun e => hk e.symm
  have hart : (pm.addPatch k out hs sg).disk.art n = pm.disk.art n := by
    rw [art_addPatch]
    simp only [hnk, if_false]
    cases hl : pm.ps.last with
    | none => rfl
    | some lb =>
      cases hnx : pm.ps.next with
      | none => rfl
      | some nx =>
        simp only
        split
        · rename_i hc
          have : ¬ n = nx.number := by
            intro e
            rcases hcur with ⟨m, hm, hmn⟩ | ⟨_, m, hm, hmn⟩
            · apply hc.2.2; rw [hm]; simp [hmn, e]
            · rw [hl] at hm; cases hm; exact hc.1 (by rw [hmn, e])
          simp [this]
        · rfl
  refine ⟨?_, ?_⟩
  · rw [addPatch_ps]; exact hcur
  · intro x hx hxn
    rw [addPatch_ps] at hx
    simp only [InSlot] at hx
    rcases hx with h' | h' | h'
    · exfalso
      have hxe : x = { number := k, size := out.length, hash := hs, sig := sg } := by simpa using h'.symm
      rw [hxe] at hxn; exact hk hxn
    · rw [validate_congr env key pm.disk _ x (by rw [hxn]; exact hart)]
      exact hall x (Or.inr (Or.inl h')) hxn
    · rw [validate_congr env key pm.disk _ x (by rw [hxn]; exact hart)]
      exact hall x (Or.inr (Or.inr h')) hxn

section
variable (env : Env) (cfg : Config) (d : Disk) (n : Nat)

theorem RunPM_new (h : RunD env cfg.key d n) : RunPM env cfg.key (PM.new d) n := h

theorem secNextBootPatch_run (hst : Settled d cfg.version) (h : RunD env cfg.key d n) :
    RunD env cfg.key (secNextBootPatch env cfg d).1 n := by
  obtain ⟨s, hs, hv⟩ := hst
  simp only [secNextBootPatch, loadOrNew_settled d _ s hs hv]
  exact RunD_of_pm env cfg.key _ n (nextBootPatch_coherent _ _ _ (PM.new_coherent d)) (nextBootPatch_run env cfg.key _ n h)

theorem secLaunchSuccess_run (hst : Settled d cfg.version) (h : RunD env cfg.key d n) :
    RunD env cfg.key (secLaunchSuccess env cfg d).1 n := by
  obtain ⟨s, hs, hv⟩ := hst
  simp only [secLaunchSuccess, loadOrNew_settled d _ s hs hv]
  split
  · exact h
  · have : RunD env cfg.key (PM.new d).recordBootSuccess.1.disk n :=
      RunD_of_pm env cfg.key _ n (recordBootSuccess_coherent _ (PM.new_coherent d)) (recordBootSuccess_run env cfg.key _ n h)
    split <;> (try split) <;> exact this

/-- A failure report (or crash detection) for another patch: with `n` running, nothing is booting. -/
theorem secLaunchFailure_run (hst : Settled d cfg.version) (h : RunD env cfg.key d n)
    (hb : (loadPatchesState d).booting.map (·.number) ≠ some n) : secLaunchFailure env cfg d = d := by
  obtain ⟨s, hs, hv⟩ := hst
  simp only [secLaunchFailure, loadOrNew_settled d _ s hs hv]
  rcases h.1 with ⟨m, hm, hmn⟩ | ⟨hbn, _⟩
  · exfalso; apply hb; rw [hm]; simp [hmn]
  · have : (PM.new d).ps.booting = none := hbn
    simp only [this]; rfl

theorem secHandlePrior_run (hst : Settled d cfg.version) (h : RunD env cfg.key d n)
    (hb : (loadPatchesState d).booting.map (·.number) ≠ some n) : secHandlePriorBootFailure env cfg d = d := by
  obtain ⟨s, hs, hv⟩ := hst
  simp only [secHandlePriorBootFailure, loadOrNew_settled d _ s hs hv]
  rcases h.1 with ⟨m, hm, hmn⟩ | ⟨hbn, _⟩
  · exfalso; apply hb; rw [hm]; simp [hmn]
  · have : (PM.new d).ps.booting = none := hbn
    simp only [this]; rfl

theorem secClearEvents_run (hst : Settled d cfg.version) (h : RunD env cfg.key d n) : RunD env cfg.key (secClearEvents cfg d) n := by
  obtain ⟨s, hs, hv⟩ := hst
  simp only [secClearEvents, loadOrNew_settled d _ s hs hv]
  exact h

theorem rollBackIfNeeded_run (rb : Option (List Nat)) (hst : Settled d cfg.version) (hn : n ∉ rb.getD [])
    (h : RunD env cfg.key d n) : RunD env cfg.key (rollBackIfNeeded env cfg d rb) n := by
  cases rb with
  | none => exact h
  | some ns =>
    obtain ⟨s, hs, hv⟩ := hst
    simp only [rollBackIfNeeded, secRollBack, loadOrNew_settled d _ s hs hv]
    exact RunD_of_pm env cfg.key _ n (foldFallBack_ban env cfg.key ns (PM.new d) [] (PM.new_coherent d) (BanPS_nil _)).1
      (foldFallBack_run env cfg.key ns (PM.new d) n (by simpa using hn) h)

theorem shouldInstall_run (k : Nat) (hst : Settled d cfg.version) (h : RunD env cfg.key d n) :
    RunD env cfg.key (shouldInstall env cfg d k).1 n := by
  unfold shouldInstall
  rw [secIsKnownBad_eq cfg d k hst]
  simp only
  split
  · exact h
  · split <;> exact secNextBootPatch_run env cfg d n hst h

theorem checkCore_run (r : CheckResp) (hst : Settled d cfg.version) (hn : n ∉ r.rolledBack.getD [])
    (h : RunD env cfg.key d n) : RunD env cfg.key (checkCore env cfg d (some r)).1 n := by
  unfold checkCore
  simp only
  have h1 := rollBackIfNeeded_run env cfg d n r.rolledBack hst hn h
  cases r.patch with
  | none => exact h1
  | some o => exact shouldInstall_run env cfg _ n o.number (rollBackIfNeeded_settled env cfg d r.rolledBack hst) h1

theorem secInstall_run (o : Offer) (out : Bytes) (hst : Settled d cfg.version) (hk : o.number ≠ n)
    (h : RunD env cfg.key d n) : RunD env cfg.key (secInstall cfg d o out) n := by
  obtain ⟨s, hs, hv⟩ := hst
  simp only [secInstall, loadOrNew_settled d _ s hs hv]
  exact RunD_of_pm env cfg.key _ n (addPatch_coherent _ _ _ _ _) (addPatch_run env cfg.key (PM.new d) o.number n out o.hash o.sig hk h)

/-- An update keeps the running patch unless its response rolls it back or it installs that number. -/
theorem updateCore_run (base) (sc : UpdateScript) (hst : Settled d cfg.version)
    (hn : ∀ r, sc.resp = some r → n ∉ r.rolledBack.getD [])
    (hk : (updateCore env cfg base d sc).2.1 = .installed → ∀ o, sc.resp.bind (·.patch) = some o → o.number ≠ n)
    (h : RunD env cfg.key d n) : RunD env cfg.key (updateCore env cfg base d sc).1 n := by
  unfold updateCore at hk ⊢
  simp only [] at hk ⊢
  rw [secCopyEvents_disk cfg d hst] at hk ⊢
  have h1 := secClearEvents_settled cfg d hst
  have s1 := secClearEvents_run env cfg d n hst h
  cases hresp : sc.resp with
  | none => exact s1
  | some r =>
    simp only [hresp] at hk ⊢
    have h2 := rollBackIfNeeded_settled env cfg _ r.rolledBack h1
    have s2 := rollBackIfNeeded_run env cfg _ n r.rolledBack h1 (hn r hresp) s1
    rcases afterCheck_cases env cfg base (secClearEvents cfg d) r sc.dl with ⟨_, hd⟩ | ⟨o, stream, bb, out, hp, _, _, _, _, _, _, _, e6⟩
    · rcases hd with hd | ⟨o, _, hd⟩
      · rw [hd]; exact s2
      · rw [hd]; exact shouldInstall_run env cfg _ n o.number h2 s2
    · rw [e6] at hk ⊢
      have h3 := shouldInstall_settled env cfg _ o.number h2
      exact secInstall_run env cfg _ n o out h3 (hk rfl o (by simp [hp])) (shouldInstall_run env cfg _ n o.number h2 s2)

end

end Updater
