/-
  Core lemmas about the model: the normal form of `load_or_new_on_error`, and frame facts.
-/
import UpdaterModel.Lemmas.Run

namespace Updater

/-- The stored state belongs to release `v` and is readable. -/
def Settled (d : Disk) (v : String) : Prop := ∃ s, d.stateJson = .ok s ∧ s.version = v

instance (d : Disk) (v : String) : Decidable (Settled d v) := by
  unfold Settled
  cases h : d.stateJson with
  | missing => exact isFalse (by simp)
  | garbage => exact isFalse (by simp)
  | ok s =>
    by_cases hv : s.version = v
    · exact isTrue ⟨s, rfl, hv⟩
    · exact isFalse (by simp [hv])

/-- The storage directory right after a release change / first launch. -/
def cleanDisk (v : String) : Disk :=
  { stateJson := .ok { version := v, events := [] }, patchesJson := .ok {}, patches := none }

theorem loadOrNew_settled (d : Disk) (v : String) (s : SState) (h : d.stateJson = .ok s) (hv : s.version = v) :
    loadOrNew d v = { pm := PM.new d, ss := s } := by
  simp [loadOrNew, h, hv]

theorem createNewAndSave_eq (d : Disk) (v : String) :
    createNewAndSave d v = { pm := { disk := cleanDisk v, ps := {} }, ss := { version := v, events := [] } } := by
  simp only [createNewAndSave, US.save, PM.new, PM.reset, PM.save, cleanDisk]
  cases d.patches <;> rfl

theorem loadOrNew_unsettled (d : Disk) (v : String) (h : ¬ Settled d v) :
    loadOrNew d v = { pm := { disk := cleanDisk v, ps := {} }, ss := { version := v, events := [] } } := by
  unfold loadOrNew
  cases hs : d.stateJson with
  | missing => simp [createNewAndSave_eq]
  | garbage => simp [createNewAndSave_eq]
  | ok s =>
    have : s.version ≠ v := fun hv => h ⟨s, hs, hv⟩
    simp [this, createNewAndSave_eq]

/-- `release` as the observer computes it agrees with `Settled`. -/
theorem resets_iff (w : World) (pre : View) (hs : ShowsDisk w pre) (c : Config) :
    (pre.release ≠ some c.version) ↔ ¬ Settled w.disk c.version := by
  obtain ⟨h1, _⟩ := hs
  unfold View.release Settled
  rw [h1]
  cases w.disk.stateJson <;> simp

end Updater

namespace Updater

/-! ### frame lemmas for the disk primitives -/

@[simp] theorem deleteArtifacts_sj (d : Disk) (n : Nat) : (d.deleteArtifacts n).stateJson = d.stateJson := by
  unfold Disk.deleteArtifacts; cases d.patches <;> rfl
@[simp] theorem deleteArtifacts_pj (d : Disk) (n : Nat) : (d.deleteArtifacts n).patchesJson = d.patchesJson := by
  unfold Disk.deleteArtifacts; cases d.patches <;> rfl
@[simp] theorem placeArtifact_sj (d : Disk) (n : Nat) (b : Bytes) : (d.placeArtifact n b).stateJson = d.stateJson := by
  unfold Disk.placeArtifact; cases d.patches <;> rfl
@[simp] theorem placeArtifact_pj (d : Disk) (n : Nat) (b : Bytes) : (d.placeArtifact n b).patchesJson = d.patchesJson := by
  unfold Disk.placeArtifact; cases d.patches <;> rfl

@[simp] theorem PM.save_sj (pm : PM) : pm.save.disk.stateJson = pm.disk.stateJson := rfl
@[simp] theorem PM.save_pj (pm : PM) : pm.save.disk.patchesJson = .ok pm.ps := rfl
@[simp] theorem PM.save_patches (pm : PM) : pm.save.disk.patches = pm.disk.patches := rfl
@[simp] theorem PM.deleteArtifacts_disk (pm : PM) (n : Nat) : (pm.deleteArtifacts n).disk = pm.disk.deleteArtifacts n := rfl

/-- `try_fall_back_from_patch` on the patches directory. -/
def fallBackDisk (env : Env) (key : Option String) (pm : PM) (n : Nat) : Disk :=
  let d1 := pm.disk.deleteArtifacts n
  match pm.ps.last with
  | some lb => if lb.number ≠ n ∧ validate env key d1 lb then d1 else d1.deleteArtifacts lb.number
  | none => d1

theorem tryFallBack_disk (env key) (pm : PM) (n : Nat) :
    (pm.tryFallBack env key n).disk =
      { fallBackDisk env key pm n with patchesJson := .ok (pm.tryFallBack env key n).ps } := by
  obtain ⟨disk, ⟨last, next, booting, bad⟩⟩ := pm
  unfold PM.tryFallBack fallBackDisk
  cases next with
  | none =>
    cases last with
    | none => simp [PM.save, PM.deleteArtifacts]
    | some lb =>
      by_cases hc : lb.number ≠ n ∧ validate env key (disk.deleteArtifacts n) lb = true
      · simp [PM.save, PM.deleteArtifacts, hc]
      · simp only [PM.save, PM.deleteArtifacts]; simp [hc]
  | some nx =>
    by_cases hx : nx.number = n
    · cases last with
      | none => simp [PM.save, PM.deleteArtifacts, hx]
      | some lb =>
        by_cases hc : lb.number ≠ n ∧ validate env key (disk.deleteArtifacts n) lb = true
        · simp [PM.save, PM.deleteArtifacts, hc, hx]
        · simp only [PM.save, PM.deleteArtifacts]; simp [hc, hx]
    · cases last with
      | none => simp [PM.save, PM.deleteArtifacts, hx]
      | some lb =>
        by_cases hc : lb.number ≠ n ∧ validate env key (disk.deleteArtifacts n) lb = true
        · simp [PM.save, PM.deleteArtifacts, hc, hx]
        · simp only [PM.save, PM.deleteArtifacts]; simp [hc, hx]

@[simp] theorem fallBackDisk_sj (env key) (pm : PM) (n : Nat) : (fallBackDisk env key pm n).stateJson = pm.disk.stateJson := by
  unfold fallBackDisk; cases pm.ps.last <;> simp <;> split <;> simp

theorem tryFallBack_sj (env key) (pm : PM) (n : Nat) :
    (pm.tryFallBack env key n).disk.stateJson = pm.disk.stateJson := by
  rw [tryFallBack_disk]; simp

theorem deleteOlderThan_sj (pm : PM) (n : Nat) : (pm.deleteOlderThan n).1.disk.stateJson = pm.disk.stateJson := by
  unfold PM.deleteOlderThan; cases pm.disk.patches <;> rfl

theorem addPatch_sj (pm : PM) (n b h s) : (pm.addPatch n b h s).disk.stateJson = pm.disk.stateJson := by
  obtain ⟨disk, ⟨last, next, booting, bad⟩⟩ := pm
  unfold PM.addPatch
  cases next <;> cases last <;> simp [PM.save, PM.deleteArtifacts] <;> split <;> simp

theorem nextBootPatch_sj (env key) (pm : PM) : (pm.nextBootPatch env key).1.disk.stateJson = pm.disk.stateJson := by
  unfold PM.nextBootPatch
  cases pm.ps.next with
  | none => rfl
  | some nx => simp only; split <;> simp [tryFallBack_sj]

theorem recordBootStart_sj (pm : PM) (n : Nat) : (pm.recordBootStart n).1.disk.stateJson = pm.disk.stateJson := by
  unfold PM.recordBootStart
  cases pm.ps.next with
  | none => rfl
  | some nx => simp only; split <;> simp

theorem recordBootSuccess_sj (pm : PM) : pm.recordBootSuccess.1.disk.stateJson = pm.disk.stateJson := by
  unfold PM.recordBootSuccess
  cases pm.ps.booting with
  | none => rfl
  | some bp => simp [deleteOlderThan_sj]

theorem recordBootFailure_sj (env key) (pm : PM) (n : Nat) :
    (pm.recordBootFailure env key n).disk.stateJson = pm.disk.stateJson := by
  unfold PM.recordBootFailure; rw [tryFallBack_sj]

/-- A second `init` returns `false` and leaves the whole world (configuration, disk) untouched,
    for EVERY world (reachable or not) and every parameter set. -/
theorem init_configured (env : Env) (w : World) (p : InitParams) (c : Config)
    (h : w.config = some c) : init env w p = (w, false) := by
  unfold init
  cases p.yaml with
  | none => rfl
  | some y =>
    cases p.libapps with
    | nil => rfl
    | cons lib rest => simp [h]


end Updater
