/-
  The selection invariant: patch `n` is selected, and every record of number `n` validates
  against the artifact now on disk.
-/
import UpdaterModel.Lemmas.Prov
import UpdaterModel.Lemmas.Roll
import UpdaterModel.Props.C05

namespace Updater

/-- `n` is the selection and every record (next / last good / booting) numbered `n` validates. -/
def SelPM (env : Env) (key : Option String) (pm : PM) (n : Nat) : Prop :=
  (∃ m, pm.ps.next = some m ∧ m.number = n) ∧
  ∀ x, InSlot pm.ps x → x.number = n → validate env key pm.disk x = true

def SelD (env : Env) (key : Option String) (d : Disk) (n : Nat) : Prop :=
  (∃ m, (loadPatchesState d).next = some m ∧ m.number = n) ∧
  ∀ x, InSlot (loadPatchesState d) x → x.number = n → validate env key d x = true

theorem SelD_of_pm (env key) (pm : PM) (n : Nat) (hc : pm.Coherent) (h : SelPM env key pm n) : SelD env key pm.disk n := by
  unfold SelD; rw [hc]; exact h

/-- Generic preservation: the selection record is untouched, no new record appears, and the
    artifact of `n` is the same file. -/
theorem SelPM_of_frame (env key) (pm pm' : PM) (n : Nat) (h : SelPM env key pm n)
    (hnext : pm'.ps.next = pm.ps.next) (hslots : SlotsSub pm'.ps pm.ps) (hart : pm'.disk.art n = pm.disk.art n) :
    SelPM env key pm' n := by
  obtain ⟨⟨m, hm, hmn⟩, hall⟩ := h
  refine ⟨⟨m, by rw [hnext]; exact hm, hmn⟩, ?_⟩
  intro x hx hxn
  rw [validate_congr env key pm.disk pm'.disk x (by rw [hxn]; exact hart)]
  exact hall x (hslots x hx) hxn

theorem fallBackPS_next_keep (ps : PatchesState) (x : Nat) (v : Bool) (m : Meta) (hm : ps.next = some m) (hne : m.number ≠ x) :
    (fallBackPS ps x v).next = some m := by
  unfold fallBackPS
  cases hls : ps.last <;> simp only [hm, hne, if_false] <;> (try split) <;> rfl

/-- Falling back from another number leaves the selection and its artifact alone. -/
theorem tryFallBack_sel (env key) (pm : PM) (x n : Nat) (hx : x ≠ n) (h : SelPM env key pm n) :
    SelPM env key (pm.tryFallBack env key x) n := by
  obtain ⟨⟨m, hm, hmn⟩, hall⟩ := h
  apply SelPM_of_frame env key pm _ n ⟨⟨m, hm, hmn⟩, hall⟩
  · rw [tryFallBack_ps, fallBackPS_next_keep pm.ps x _ m hm (by rw [hmn]; exact fun e => hx e.symm), hm]
  · exact tryFallBack_slots env key pm x
  · rw [art_tryFallBack, art_fallBackDisk]
    have hnx : ¬ n = x := fun e => hx e.symm
    simp only [hnx, if_false]
    cases hl : pm.ps.last with
    | none => rfl
    | some lb =>
      simp only
      split
      · rfl
      · rename_i hc
        by_cases hln : n = lb.number
        · -- the last good patch has number n: it validates, so it is not dropped
          exfalso
          apply hc
          refine ⟨by rw [← hln]; exact hnx, ?_⟩
          have hv := hall lb (Or.inr (Or.inl hl)) hln.symm
          rw [validate_congr env key pm.disk _ lb (by rw [art_deleteArtifacts]; simp [← hln, hnx])]
          exact hv
        · simp [hln]

theorem nextBootPatch_sel (env key) (pm : PM) (n : Nat) (h : SelPM env key pm n) :
    (pm.nextBootPatch env key).1 = pm := by
  obtain ⟨⟨m, hm, hmn⟩, hall⟩ := h
  exact nextBootPatch_noop env key pm (Or.inr ⟨m, hm, hall m (Or.inl hm) hmn⟩)

theorem recordBootStart_sel (env key) (pm : PM) (k n : Nat) (h : SelPM env key pm n) :
    SelPM env key (pm.recordBootStart k).1 n := by
  apply SelPM_of_frame env key pm _ n h (recordBootStart_ps_next pm k) (recordBootStart_slots pm k)
  exact art_recordBootStart pm k n

theorem recordBootSuccess_sel (env key) (pm : PM) (n : Nat) (h : SelPM env key pm n) :
    SelPM env key pm.recordBootSuccess.1 n := by
  apply SelPM_of_frame env key pm _ n h (recordBootSuccess_ps_next pm) (recordBootSuccess_slots pm)
  cases hb : pm.ps.booting with
  | none => unfold PM.recordBootSuccess; simp [hb]
  | some bp =>
    rw [art_recordBootSuccess pm bp hb n]
    obtain ⟨⟨m, hm, hmn⟩, _⟩ := h
    have : ¬ (n < bp.number ∧ some n ≠ pm.ps.next.map (·.number)) := by
      intro hc; apply hc.2; rw [hm]; simp [hmn]
    simp [this]

theorem recordBootFailure_sel (env key) (pm : PM) (x n : Nat) (hx : x ≠ n) (h : SelPM env key pm n) :
    SelPM env key (pm.recordBootFailure env key x) n := by
  unfold PM.recordBootFailure
  apply tryFallBack_sel env key _ x n hx
  obtain ⟨hn, hall⟩ := h
  refine ⟨hn, ?_⟩
  intro y hy hyn
  apply hall y _ hyn
  simp only [InSlot] at hy ⊢
  rcases hy with h' | h' | h'
  · exact Or.inl h'
  · exact Or.inr (Or.inl h')
  · simp at h'

theorem foldFallBack_sel (env key) (ns : List Nat) (pm : PM) (n : Nat) (hn : n ∉ ns) (h : SelPM env key pm n) :
    SelPM env key (ns.foldl (fun pm x => pm.tryFallBack env key x) pm) n := by
  induction ns generalizing pm with
  | nil => exact h
  | cons x ns ih =>
    simp only [List.foldl]
    apply ih
    · exact fun hm => hn (List.mem_cons_of_mem _ hm)
    · exact tryFallBack_sel env key pm x n (fun e => hn (by rw [e]; exact List.mem_cons_self)) h

section
variable (env : Env) (cfg : Config) (d : Disk) (n : Nat)

theorem SelPM_new (h : SelD env cfg.key d n) : SelPM env cfg.key (PM.new d) n := h

theorem secNextBootPatch_sel (hst : Settled d cfg.version) (h : SelD env cfg.key d n) :
    secNextBootPatch env cfg d = (d, some n) := by
  obtain ⟨s, hs, hv⟩ := hst
  simp only [secNextBootPatch, loadOrNew_settled d _ s hs hv]
  have hp := nextBootPatch_sel env cfg.key (PM.new d) n h
  have hr := nextBootPatch_ret env cfg.key (PM.new d)
  rw [hp] at hr
  obtain ⟨⟨m, hm, hmn⟩, _⟩ := h
  have : (PM.new d).ps.next = some m := hm
  rw [Prod.ext_iff]
  exact ⟨by rw [hp]; rfl, by rw [hr, this]; simp [hmn]⟩

theorem secLaunchStart_sel (hst : Settled d cfg.version) (h : SelD env cfg.key d n) :
    SelD env cfg.key (secLaunchStart env cfg d) n := by
  obtain ⟨s, hs, hv⟩ := hst
  simp only [secLaunchStart, loadOrNew_settled d _ s hs hv]
  rw [nextBootPatch_sel env cfg.key (PM.new d) n h]
  have hr := nextBootPatch_ret env cfg.key (PM.new d)
  rw [nextBootPatch_sel env cfg.key (PM.new d) n h] at hr
  split
  · exact SelD_of_pm env cfg.key _ n (recordBootStart_coherent _ _ (PM.new_coherent d)) (recordBootStart_sel env cfg.key _ _ n h)
  · exact h

theorem secLaunchSuccess_sel (hst : Settled d cfg.version) (h : SelD env cfg.key d n) :
    SelD env cfg.key (secLaunchSuccess env cfg d).1 n := by
  obtain ⟨s, hs, hv⟩ := hst
  simp only [secLaunchSuccess, loadOrNew_settled d _ s hs hv]
  split
  · exact h
  · have : SelD env cfg.key (PM.new d).recordBootSuccess.1.disk n :=
      SelD_of_pm env cfg.key _ n (recordBootSuccess_coherent _ (PM.new_coherent d)) (recordBootSuccess_sel env cfg.key _ n h)
    split <;> (try split) <;> exact this

theorem secLaunchFailure_sel (hst : Settled d cfg.version) (h : SelD env cfg.key d n)
    (hb : (loadPatchesState d).booting.map (·.number) ≠ some n) : SelD env cfg.key (secLaunchFailure env cfg d) n := by
  obtain ⟨s, hs, hv⟩ := hst
  simp only [secLaunchFailure, loadOrNew_settled d _ s hs hv]
  cases hbt : (PM.new d).ps.booting with
  | none => exact h
  | some p =>
    simp only
    have hpn : p.number ≠ n := by
      intro e; apply hb
      have : (loadPatchesState d).booting = some p := hbt
      rw [this]; simp [e]
    exact SelD_of_pm env cfg.key _ n (recordBootFailure_coherent _ _ _ _) (recordBootFailure_sel env cfg.key _ _ n hpn h)

theorem secHandlePrior_sel (hst : Settled d cfg.version) (h : SelD env cfg.key d n)
    (hb : (loadPatchesState d).booting.map (·.number) ≠ some n) : SelD env cfg.key (secHandlePriorBootFailure env cfg d) n := by
  obtain ⟨s, hs, hv⟩ := hst
  simp only [secHandlePriorBootFailure, loadOrNew_settled d _ s hs hv]
  cases hbt : (PM.new d).ps.booting with
  | none => exact h
  | some p =>
    simp only
    have hpn : p.number ≠ n := by
      intro e; apply hb
      have : (loadPatchesState d).booting = some p := hbt
      rw [this]; simp [e]
    exact SelD_of_pm env cfg.key _ n (recordBootFailure_coherent _ _ _ _) (recordBootFailure_sel env cfg.key _ _ n hpn h)

theorem secClearEvents_sel (hst : Settled d cfg.version) (h : SelD env cfg.key d n) : SelD env cfg.key (secClearEvents cfg d) n := by
  obtain ⟨s, hs, hv⟩ := hst
  simp only [secClearEvents, loadOrNew_settled d _ s hs hv]
  exact h

theorem rollBackIfNeeded_sel (rb : Option (List Nat)) (hst : Settled d cfg.version) (hn : n ∉ rb.getD [])
    (h : SelD env cfg.key d n) : SelD env cfg.key (rollBackIfNeeded env cfg d rb) n := by
  cases rb with
  | none => exact h
  | some ns =>
    obtain ⟨s, hs, hv⟩ := hst
    simp only [rollBackIfNeeded, secRollBack, loadOrNew_settled d _ s hs hv]
    exact SelD_of_pm env cfg.key _ n (foldFallBack_ban env cfg.key ns (PM.new d) [] (PM.new_coherent d) (BanPS_nil _)).1
      (foldFallBack_sel env cfg.key ns (PM.new d) n (by simpa using hn) h)

theorem shouldInstall_sel (k : Nat) (hst : Settled d cfg.version) (h : SelD env cfg.key d n) :
    (shouldInstall env cfg d k).1 = d := by
  obtain ⟨⟨m, hm, hmn⟩, hall⟩ := h
  exact shouldInstall_noop env cfg d k hst (Or.inr ⟨m, hm, hall m (Or.inl hm) hmn⟩)

end

end Updater
