/-
  The ban invariant: numbers in `F` are banned and occupy none of the three slots.
-/
import UpdaterModel.Lemmas.Core

namespace Updater

def slotFree (m : Option Meta) (F : List Nat) : Prop := ∀ x, m = some x → x.number ∉ F

/-- Every number of `F` is in the ban set and none is next / last good / booting. -/
def BanPS (ps : PatchesState) (F : List Nat) : Prop :=
  (∀ n ∈ F, n ∈ ps.bad) ∧ slotFree ps.next F ∧ slotFree ps.last F ∧ slotFree ps.booting F

/-- The in-memory copy is what is on disk. -/
def PM.Coherent (pm : PM) : Prop := loadPatchesState pm.disk = pm.ps

theorem PM.new_coherent (d : Disk) : (PM.new d).Coherent := rfl

@[simp] theorem slotFree_none (F) : slotFree none F := by intro x h; cases h
@[simp] theorem slotFree_nil (m) : slotFree m [] := by intro x _; simp

theorem BanPS_nil (ps : PatchesState) : BanPS ps [] := by simp [BanPS]

theorem mem_insertBad (bad : List Nat) (n k : Nat) : k ∈ insertBad bad n ↔ k = n ∨ k ∈ bad := by
  unfold insertBad
  split <;> simp_all

/-! ### effect of the patch-manager functions on the record -/

theorem save_ps (pm : PM) : pm.save.ps = pm.ps := rfl
theorem save_coherent (pm : PM) : pm.save.Coherent := by simp [PM.Coherent, PM.save, loadPatchesState, JFile.getD]
theorem deleteArtifacts_ps (pm : PM) (n : Nat) : (pm.deleteArtifacts n).ps = pm.ps := rfl

/-- `try_fall_back_from_patch` on the record alone; `lastValid` = the last good patch validates
    (after the bad patch's artifacts were removed). -/
def fallBackPS (ps : PatchesState) (n : Nat) (lastValid : Bool) : PatchesState :=
  let next1 : Option Meta := match ps.next with
    | some nx => if nx.number = n then none else some nx
    | none => none
  match ps.last with
  | none => { ps with next := next1 }
  | some lb =>
    if lb.number ≠ n ∧ lastValid then
      { ps with next := (match next1 with | none => some lb | some x => some x) }
    else { ps with next := next1, last := none }

/-- Does the last good patch validate once `n`'s artifacts are gone? -/
def lastValidAfter (env : Env) (key : Option String) (pm : PM) (n : Nat) : Bool :=
  match pm.ps.last with
  | some lb => validate env key (pm.disk.deleteArtifacts n) lb
  | none => false

theorem tryFallBack_ps (env key) (pm : PM) (n : Nat) :
    (pm.tryFallBack env key n).ps = fallBackPS pm.ps n (lastValidAfter env key pm n) := by
  obtain ⟨disk, ⟨last, next, booting, bad⟩⟩ := pm
  unfold PM.tryFallBack fallBackPS lastValidAfter
  cases next with
  | none =>
    cases last with
    | none => simp [PM.save, PM.deleteArtifacts]
    | some lb =>
      by_cases hc : lb.number ≠ n ∧ validate env key (disk.deleteArtifacts n) lb = true
      · simp [PM.save, PM.deleteArtifacts, hc]
      · simp only [PM.save, PM.deleteArtifacts]; simp [hc]
  | some nx =>
    by_cases hx : nx.number = n
    · cases last with
      | none => simp [PM.save, PM.deleteArtifacts, hx]
      | some lb =>
        by_cases hc : lb.number ≠ n ∧ validate env key (disk.deleteArtifacts n) lb = true
        · simp [PM.save, PM.deleteArtifacts, hc, hx]
        · simp only [PM.save, PM.deleteArtifacts]; simp [hc, hx]
    · cases last with
      | none => simp [PM.save, PM.deleteArtifacts, hx]
      | some lb =>
        by_cases hc : lb.number ≠ n ∧ validate env key (disk.deleteArtifacts n) lb = true
        · simp [PM.save, PM.deleteArtifacts, hc, hx]
        · simp only [PM.save, PM.deleteArtifacts]; simp [hc, hx]

theorem tryFallBack_coherent (env key) (pm : PM) (n : Nat) : (pm.tryFallBack env key n).Coherent := by
  unfold PM.tryFallBack; exact save_coherent _

@[simp] theorem fallBackPS_bad (ps n v) : (fallBackPS ps n v).bad = ps.bad := by
  unfold fallBackPS; cases ps.last <;> simp only [] <;> (try split) <;> rfl
@[simp] theorem fallBackPS_booting (ps n v) : (fallBackPS ps n v).booting = ps.booting := by
  unfold fallBackPS; cases ps.last <;> simp only [] <;> (try split) <;> rfl

theorem fallBackPS_ban (ps : PatchesState) (n : Nat) (v : Bool) (F : List Nat) (h : BanPS ps F) :
    BanPS (fallBackPS ps n v) F := by
  obtain ⟨hb, hn, hl, hbo⟩ := h
  refine ⟨by simpa using hb, ?_, ?_, by simpa using hbo⟩
  all_goals
    unfold fallBackPS
    cases hnx : ps.next <;> cases hls : ps.last <;> simp only [] <;> (try split) <;> (try split) <;>
      simp_all [slotFree]

theorem tryFallBack_ban (env key) (pm : PM) (n : Nat) (F : List Nat) (h : BanPS pm.ps F) :
    BanPS (pm.tryFallBack env key n).ps F := by
  rw [tryFallBack_ps]; exact fallBackPS_ban _ _ _ _ h

/-- After falling back from `n`, `n` is neither selected nor the last good patch. -/
theorem fallBackPS_free (ps : PatchesState) (n : Nat) (v : Bool) :
    slotFree (fallBackPS ps n v).next [n] ∧ slotFree (fallBackPS ps n v).last [n] := by
  unfold fallBackPS
  cases hnx : ps.next <;> cases hls : ps.last <;> simp only [] <;> (try split) <;> (try split) <;>
    simp_all [slotFree] <;> grind


theorem recordBootFailure_coherent (env key) (pm : PM) (n : Nat) : (pm.recordBootFailure env key n).Coherent := by
  unfold PM.recordBootFailure; exact tryFallBack_coherent _ _ _ _

theorem recordBootFailure_ps (env key) (pm : PM) (n : Nat) :
    ∃ v, (pm.recordBootFailure env key n).ps =
      fallBackPS { pm.ps with booting := none, bad := insertBad pm.ps.bad n } n v := by
  unfold PM.recordBootFailure
  exact ⟨_, tryFallBack_ps _ _ _ _⟩

/-- After a boot failure of `n` is recorded, `n` is banned and in no slot; earlier bans persist. -/
theorem recordBootFailure_ban (env key) (pm : PM) (n : Nat) (F : List Nat) (h : BanPS pm.ps F) :
    BanPS (pm.recordBootFailure env key n).ps (n :: F) := by
  obtain ⟨v, hv⟩ := recordBootFailure_ps env key pm n
  rw [hv]
  have h1 : BanPS (fallBackPS { pm.ps with booting := none, bad := insertBad pm.ps.bad n } n v) F := by
    apply fallBackPS_ban
    obtain ⟨hb, hn, hl, hbo⟩ := h
    exact ⟨fun k hk => (mem_insertBad _ _ _).2 (Or.inr (hb k hk)), hn, hl, by simp⟩
  have h2 := fallBackPS_free { pm.ps with booting := none, bad := insertBad pm.ps.bad n } n v
  obtain ⟨hb, hn, hl, hbo⟩ := h1
  refine ⟨?_, ?_, ?_, ?_⟩
  · intro k hk
    simp only [fallBackPS_bad]
    rcases List.mem_cons.1 hk with rfl | hk
    · exact (mem_insertBad _ _ _).2 (Or.inl rfl)
    · simpa using hb k hk
  · intro x hx; have := hn x hx; have := h2.1 x hx; simp_all
  · intro x hx; have := hl x hx; have := h2.2 x hx; simp_all
  · intro x hx; simp at hx

theorem addPatch_coherent (pm : PM) (n : Nat) (b : Bytes) (h : String) (s : Option String) :
    (pm.addPatch n b h s).Coherent := by
  unfold PM.addPatch; exact save_coherent _

theorem addPatch_ps (pm : PM) (n : Nat) (b : Bytes) (hs : String) (s : Option String) :
    (pm.addPatch n b hs s).ps = { pm.ps with next := some { number := n, size := b.length, hash := hs, sig := s } } := by
  obtain ⟨disk, ⟨last, next, booting, bad⟩⟩ := pm
  unfold PM.addPatch
  cases last <;> cases next <;> simp [PM.save, PM.deleteArtifacts] <;> split <;> simp

theorem addPatch_ban (pm : PM) (n : Nat) (b : Bytes) (hs : String) (s : Option String) (F : List Nat)
    (h : BanPS pm.ps F) (hn : n ∉ F) : BanPS (pm.addPatch n b hs s).ps F := by
  rw [addPatch_ps]
  obtain ⟨hb, hnx, hl, hbo⟩ := h
  exact ⟨hb, by intro x hx; simp at hx; subst hx; exact hn, hl, hbo⟩

theorem nextBootPatch_coherent (env key) (pm : PM) (hc : pm.Coherent) : (pm.nextBootPatch env key).1.Coherent := by
  unfold PM.nextBootPatch
  cases pm.ps.next with
  | none => exact hc
  | some nx => simp only; split <;> first | exact hc | exact tryFallBack_coherent _ _ _ _

theorem nextBootPatch_ban (env key) (pm : PM) (F : List Nat) (h : BanPS pm.ps F) :
    BanPS (pm.nextBootPatch env key).1.ps F := by
  unfold PM.nextBootPatch
  cases pm.ps.next with
  | none => exact h
  | some nx => simp only; split <;> first | exact h | exact tryFallBack_ban _ _ _ _ _ h

/-- What `next_boot_patch` returns is the selection it leaves behind. -/
theorem nextBootPatch_ret (env key) (pm : PM) :
    (pm.nextBootPatch env key).2 = (pm.nextBootPatch env key).1.ps.next.map (·.number) := by
  unfold PM.nextBootPatch
  cases h : pm.ps.next with
  | none => simp [h]
  | some nx => rfl

theorem recordBootStart_coherent (pm : PM) (n : Nat) (hc : pm.Coherent) : (pm.recordBootStart n).1.Coherent := by
  unfold PM.recordBootStart
  cases pm.ps.next with
  | none => exact hc
  | some nx => simp only; split <;> first | exact hc | exact save_coherent _

theorem recordBootStart_ban (pm : PM) (n : Nat) (F : List Nat) (h : BanPS pm.ps F) :
    BanPS (pm.recordBootStart n).1.ps F := by
  obtain ⟨hb, hnx, hl, hbo⟩ := h
  unfold PM.recordBootStart
  cases hne : pm.ps.next with
  | none => simp_all [BanPS]
  | some nx => simp only; split <;> simp_all [BanPS, slotFree, save_ps]

theorem deleteOlderThan_ps (pm : PM) (n : Nat) : (pm.deleteOlderThan n).1.ps = pm.ps := by
  unfold PM.deleteOlderThan; cases pm.disk.patches <;> rfl

theorem recordBootSuccess_coherent (pm : PM) (hc : pm.Coherent) : pm.recordBootSuccess.1.Coherent := by
  unfold PM.recordBootSuccess
  cases pm.ps.booting with
  | none => exact hc
  | some bp => exact save_coherent _

theorem recordBootSuccess_ban (pm : PM) (F : List Nat) (h : BanPS pm.ps F) :
    BanPS pm.recordBootSuccess.1.ps F := by
  obtain ⟨hb, hnx, hl, hbo⟩ := h
  unfold PM.recordBootSuccess
  cases hbt : pm.ps.booting with
  | none => simp_all [BanPS]
  | some bp => simp_all [BanPS, slotFree, save_ps, deleteOlderThan_ps]

end Updater
