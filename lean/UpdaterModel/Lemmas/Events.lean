/-
  What each section does to state.json (the event queue), on a settled disk.
-/
import UpdaterModel.Lemmas.Frame

namespace Updater

section
variable (env : Env) (cfg : Config) (d : Disk) (s : SState) (hs : d.stateJson = .ok s) (hv : s.version = cfg.version)
include hs hv

theorem sj_secNextBootPatch : (secNextBootPatch env cfg d).1.stateJson = .ok s := by
  simp only [secNextBootPatch, loadOrNew_settled d _ s hs hv]
  rw [nextBootPatch_sj]; exact hs

theorem sj_secLaunchStart : (secLaunchStart env cfg d).stateJson = .ok s := by
  simp only [secLaunchStart, loadOrNew_settled d _ s hs hv]
  split
  · rw [recordBootStart_sj, nextBootPatch_sj]; exact hs
  · rw [nextBootPatch_sj]; exact hs

theorem sj_secLaunchSuccess : (secLaunchSuccess env cfg d).1.stateJson = .ok s := by
  simp only [secLaunchSuccess, loadOrNew_settled d _ s hs hv]
  split
  · exact hs
  · have : (PM.new d).recordBootSuccess.1.disk.stateJson = .ok s := by rw [recordBootSuccess_sj]; exact hs
    split <;> (try split) <;> exact this

/-- The event handed to the success thread. -/
theorem ev_secLaunchSuccess :
    (secLaunchSuccess env cfg d).2 =
      match (loadPatchesState d).booting with
      | none => none
      | some bp =>
        if (loadPatchesState d).last.map (·.number) = some bp.number then none
        else some (mkEvent env cfg .installSuccess bp.number none) := by
  simp only [secLaunchSuccess, loadOrNew_settled d _ s hs hv]
  have hb : (PM.new d).ps.booting = (loadPatchesState d).booting := rfl
  cases hbt : (loadPatchesState d).booting with
  | none => simp [hb, hbt]
  | some bp =>
    simp only [hb, hbt]
    have hl : (PM.new d).recordBootSuccess.1.ps.last = some bp := by
      unfold PM.recordBootSuccess; simp [hb, hbt, PM.save, deleteOlderThan_ps]
    have hpl : (PM.new d).ps.last = (loadPatchesState d).last := rfl
    cases hlast : (loadPatchesState d).last with
    | none => simp [hpl, hlast, hl]
    | some l =>
      simp only [hpl, hlast, hl, Option.map]
      by_cases he : l.number = bp.number <;> simp [he]

theorem sj_secLaunchFailure :
    (secLaunchFailure env cfg d).stateJson =
      match (loadPatchesState d).booting with
      | none => .ok s
      | some p => .ok { s with events := s.events ++ [mkEvent env cfg .installFailure p.number
          (some s!"Install failure reported from engine for patch {p.number}")] } := by
  simp only [secLaunchFailure, loadOrNew_settled d _ s hs hv]
  have hb : (PM.new d).ps.booting = (loadPatchesState d).booting := rfl
  cases hbt : (loadPatchesState d).booting with
  | none => simp [hb, hbt, US.disk, PM.new, hs]
  | some p => simp only [hb, hbt]; rfl

theorem sj_secHandlePrior :
    (secHandlePriorBootFailure env cfg d).stateJson =
      match (loadPatchesState d).booting with
      | none => .ok s
      | some p => .ok { s with events := s.events ++ [mkEvent env cfg .installFailure p.number
          (some s!"Patch {p.number} was marked currently_booting in init")] } := by
  simp only [secHandlePriorBootFailure, loadOrNew_settled d _ s hs hv]
  have hb : (PM.new d).ps.booting = (loadPatchesState d).booting := rfl
  cases hbt : (loadPatchesState d).booting with
  | none => simp [hb, hbt, US.disk, PM.new, hs]
  | some p => simp only [hb, hbt]; rfl

theorem secCopyEvents_eq : secCopyEvents cfg d = (d, s.events.take 3) := by
  simp [secCopyEvents, loadOrNew_settled d _ s hs hv, US.disk, PM.new, US.copyEvents]

theorem sj_secClearEvents : (secClearEvents cfg d).stateJson = .ok { s with events := [] } := by
  simp only [secClearEvents, loadOrNew_settled d _ s hs hv]; rfl

theorem sj_rollBackIfNeeded (rb) : (rollBackIfNeeded env cfg d rb).stateJson = .ok s := by
  cases rb with
  | none => exact hs
  | some ns =>
    simp only [rollBackIfNeeded, secRollBack, loadOrNew_settled d _ s hs hv]
    rw [foldFallBack_sj]; exact hs

theorem sj_shouldInstall (n : Nat) : (shouldInstall env cfg d n).1.stateJson = .ok s := by
  unfold shouldInstall
  rw [secIsKnownBad_eq cfg d n ⟨s, hs, hv⟩]
  simp only
  split
  · exact hs
  · split <;> exact sj_secNextBootPatch env cfg d s hs hv

theorem sj_checkCore (resp) : (checkCore env cfg d resp).1.stateJson = .ok s := by
  unfold checkCore
  cases resp with
  | none => exact hs
  | some r =>
    simp only
    have h1 := sj_rollBackIfNeeded env cfg d s hs hv r.rolledBack
    cases r.patch with
    | none => exact h1
    | some o => exact sj_shouldInstall env cfg _ s h1 hv o.number

theorem sj_secInstall (o : Offer) (out : Bytes) : (secInstall cfg d o out).stateJson = .ok s := by
  simp only [secInstall, loadOrNew_settled d _ s hs hv]
  rw [addPatch_sj]; exact hs

theorem sj_afterCheck (base r dl) : (afterCheck env cfg base d r dl).1.stateJson = .ok s := by
  have h1 := sj_rollBackIfNeeded env cfg d s hs hv r.rolledBack
  rcases afterCheck_cases env cfg base d r dl with ⟨_, hd⟩ | ⟨o, _, _, out, _, _, _, _, _, _, _, _, e6⟩
  · rcases hd with hd | ⟨o, _, hd⟩
    · rw [hd]; exact h1
    · rw [hd]; exact sj_shouldInstall env cfg _ s h1 hv o.number
  · rw [e6]; exact sj_secInstall cfg _ s (sj_shouldInstall env cfg _ s h1 hv o.number) hv o out

theorem sj_updateCore (base sc) : (updateCore env cfg base d sc).1.stateJson = .ok { s with events := [] } := by
  unfold updateCore
  simp only [secCopyEvents_eq cfg d s hs hv]
  have h1 := sj_secClearEvents cfg d s hs hv
  cases sc.resp with
  | none => exact h1
  | some r => exact sj_afterCheck env cfg _ _ h1 hv base r sc.dl

theorem sent_updateCore (base sc) : (updateCore env cfg base d sc).2.2.1 = s.events.take 3 := by
  unfold updateCore
  simp only [secCopyEvents_eq cfg d s hs hv]
  cases sc.resp <;> rfl

end

end Updater
