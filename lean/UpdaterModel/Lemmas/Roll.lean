/-
  The rollback invariant: numbers in `R` have no artifact and are not selected.
-/
import UpdaterModel.Lemmas.Frame

namespace Updater

def RollPM (pm : PM) (R : List Nat) : Prop :=
  ∀ n ∈ R, pm.disk.art n = none ∧ pm.ps.next.map (·.number) ≠ some n

def RollD (d : Disk) (R : List Nat) : Prop :=
  ∀ n ∈ R, d.art n = none ∧ (loadPatchesState d).next.map (·.number) ≠ some n

theorem RollD_nil (d : Disk) : RollD d [] := by intro n hn; cases hn

theorem RollD_of_coherent (pm : PM) (R) (hc : pm.Coherent) (h : RollPM pm R) : RollD pm.disk R := by
  intro n hn; rw [hc]; exact h n hn

theorem RollPM_new (d : Disk) (R) (h : RollD d R) : RollPM (PM.new d) R := h

/-- A patch that validates has an artifact file. -/
theorem validate_art (env key) (d : Disk) (m : Meta) (h : validate env key d m = true) :
    ∃ b, d.art m.number = some (.file b) := by
  unfold validate at h
  cases ha : d.art m.number with
  | none => simp [ha] at h
  | some a =>
    cases a with
    | emptyDir => simp [ha] at h
    | file b => exact ⟨b, rfl⟩

theorem fallBackPS_next (ps : PatchesState) (n : Nat) (v : Bool) :
    (fallBackPS ps n v).next = none ∨
    ((fallBackPS ps n v).next = ps.next ∧ ps.next.map (·.number) ≠ some n) ∨
    (∃ lb, ps.last = some lb ∧ (fallBackPS ps n v).next = some lb ∧ lb.number ≠ n ∧ v = true) := by
  unfold fallBackPS
  cases hnx : ps.next <;> cases hls : ps.last <;> simp only [] <;> (try split) <;> (try split) <;> simp_all <;> grind

theorem tryFallBack_roll (env key) (pm : PM) (k : Nat) (R : List Nat) (h : RollPM pm R) :
    RollPM (pm.tryFallBack env key k) (k :: R) := by
  intro n hn
  refine ⟨?_, ?_⟩
  · rcases List.mem_cons.1 hn with rfl | hn
    · exact art_tryFallBack_self _ _ _ _
    · rcases artSub_tryFallBack env key pm k n with h' | h'
      · exact h'
      · rw [h']; exact (h n hn).1
  · rw [tryFallBack_ps]
    rcases fallBackPS_next pm.ps k (lastValidAfter env key pm k) with h0 | ⟨h1, h2⟩ | ⟨lb, hl, h3, h4, h5⟩
    · rw [h0]; simp
    · rw [h1]
      rcases List.mem_cons.1 hn with rfl | hn
      · exact h2
      · exact (h n hn).2
    · rw [h3]
      simp only [Option.map]
      intro heq
      have heq' : lb.number = n := by simpa using heq
      rcases List.mem_cons.1 hn with rfl | hn
      · exact h4 heq'
      · -- the last good patch validated, so it has an artifact; rolled-back numbers have none
        unfold lastValidAfter at h5
        rw [hl] at h5
        obtain ⟨b, hb⟩ := validate_art _ _ _ _ h5
        rw [art_deleteArtifacts] at hb
        split at hb
        · cases hb
        · rw [heq', (h n hn).1] at hb; cases hb

theorem RollPM_mono {pm : PM} {R R' : List Nat} (hsub : ∀ x ∈ R', x ∈ R) (h : RollPM pm R) : RollPM pm R' :=
  fun n hn => h n (hsub n hn)

theorem nextBootPatch_roll (env key) (pm : PM) (R : List Nat) (h : RollPM pm R) :
    RollPM (pm.nextBootPatch env key).1 R := by
  unfold PM.nextBootPatch
  cases pm.ps.next with
  | none => exact h
  | some nx =>
    simp only; split
    · exact h
    · exact RollPM_mono (fun x hx => List.mem_cons_of_mem _ hx) (tryFallBack_roll env key pm nx.number R h)

theorem recordBootStart_ps_next (pm : PM) (n : Nat) : (pm.recordBootStart n).1.ps.next = pm.ps.next := by
  unfold PM.recordBootStart
  cases h : pm.ps.next with
  | none => simp [h]
  | some nx => simp only; split <;> simp [PM.save, h]

theorem recordBootStart_roll (pm : PM) (n : Nat) (R) (h : RollPM pm R) : RollPM (pm.recordBootStart n).1 R := by
  intro k hk
  rw [art_recordBootStart, recordBootStart_ps_next]
  exact h k hk

theorem recordBootSuccess_ps_next (pm : PM) : pm.recordBootSuccess.1.ps.next = pm.ps.next := by
  unfold PM.recordBootSuccess
  cases pm.ps.booting with
  | none => rfl
  | some bp => simp [PM.save, deleteOlderThan_ps]

theorem recordBootSuccess_roll (pm : PM) (R) (h : RollPM pm R) : RollPM pm.recordBootSuccess.1 R := by
  intro k hk
  rw [recordBootSuccess_ps_next]
  refine ⟨?_, (h k hk).2⟩
  rcases artSub_recordBootSuccess pm k with h' | h'
  · exact h'
  · rw [h']; exact (h k hk).1

theorem recordBootFailure_roll (env key) (pm : PM) (n : Nat) (R) (h : RollPM pm R) :
    RollPM (pm.recordBootFailure env key n) R := by
  unfold PM.recordBootFailure
  exact RollPM_mono (fun x hx => List.mem_cons_of_mem _ hx) (tryFallBack_roll env key _ n R h)

theorem addPatch_roll (pm : PM) (n : Nat) (b hs s) (R) (h : RollPM pm R) :
    RollPM (pm.addPatch n b hs s) (R.filter (· ≠ n)) := by
  intro k hk
  simp only [List.mem_filter, decide_eq_true_eq] at hk
  obtain ⟨hk, hkn⟩ := hk
  refine ⟨?_, ?_⟩
  · rw [art_addPatch]
    simp only [hkn, if_false]
    cases pm.ps.last <;> cases pm.ps.next <;> simp only [] <;> (try split) <;> (try split) <;>
      first | rfl | exact (h k hk).1
  · rw [addPatch_ps]; simp; exact fun h => hkn h.symm

theorem foldFallBack_roll (env key) (ns : List Nat) (pm : PM) (R) (h : RollPM pm R) :
    RollPM (ns.foldl (fun pm n => pm.tryFallBack env key n) pm) (ns ++ R) := by
  induction ns generalizing pm R with
  | nil => simpa using h
  | cons n ns ih =>
    simp only [List.foldl]
    have := ih (pm.tryFallBack env key n) (n :: R) (tryFallBack_roll env key pm n R h)
    refine RollPM_mono ?_ this
    intro x hx
    simp only [List.cons_append, List.mem_cons, List.mem_append] at hx ⊢
    rcases hx with h1 | h2 | h3
    · exact Or.inr (Or.inl h1)
    · exact Or.inl h2
    · exact Or.inr (Or.inr h3)

end Updater

namespace Updater

theorem RollD_mono {d : Disk} {R R' : List Nat} (hsub : ∀ x ∈ R', x ∈ R) (h : RollD d R) : RollD d R' :=
  fun n hn => h n (hsub n hn)

section
variable (env : Env) (cfg : Config) (d : Disk) (R : List Nat)

theorem secNextBootPatch_roll (h : Settled d cfg.version) (hr : RollD d R) : RollD (secNextBootPatch env cfg d).1 R := by
  obtain ⟨s, hs, hv⟩ := h
  simp only [secNextBootPatch, loadOrNew_settled d _ s hs hv]
  exact RollD_of_coherent _ _ (nextBootPatch_coherent env cfg.key (PM.new d) (PM.new_coherent d))
    (nextBootPatch_roll env cfg.key (PM.new d) R hr)

theorem secLaunchStart_roll (h : Settled d cfg.version) (hr : RollD d R) : RollD (secLaunchStart env cfg d) R := by
  obtain ⟨s, hs, hv⟩ := h
  simp only [secLaunchStart, loadOrNew_settled d _ s hs hv]
  have hc := nextBootPatch_coherent env cfg.key (PM.new d) (PM.new_coherent d)
  have hn := nextBootPatch_roll env cfg.key (PM.new d) R hr
  split
  · exact RollD_of_coherent _ _ (recordBootStart_coherent _ _ hc) (recordBootStart_roll _ _ _ hn)
  · exact RollD_of_coherent _ _ hc hn

theorem secLaunchSuccess_roll (h : Settled d cfg.version) (hr : RollD d R) : RollD (secLaunchSuccess env cfg d).1 R := by
  obtain ⟨s, hs, hv⟩ := h
  simp only [secLaunchSuccess, loadOrNew_settled d _ s hs hv]
  split
  · exact hr
  · have : RollD (PM.new d).recordBootSuccess.1.disk R :=
      RollD_of_coherent _ _ (recordBootSuccess_coherent _ (PM.new_coherent d)) (recordBootSuccess_roll _ _ hr)
    split <;> (try split) <;> exact this

theorem queueEvent_roll (us : US) (e : Event) (hr : RollD us.disk R) : RollD (us.queueEvent e).disk R := hr

theorem secLaunchFailure_roll (h : Settled d cfg.version) (hr : RollD d R) : RollD (secLaunchFailure env cfg d) R := by
  obtain ⟨s, hs, hv⟩ := h
  simp only [secLaunchFailure, loadOrNew_settled d _ s hs hv]
  split
  · exact hr
  · exact RollD_of_coherent _ _ (recordBootFailure_coherent _ _ _ _) (recordBootFailure_roll _ _ _ _ _ hr)

theorem secHandlePrior_roll (h : Settled d cfg.version) (hr : RollD d R) : RollD (secHandlePriorBootFailure env cfg d) R := by
  obtain ⟨s, hs, hv⟩ := h
  simp only [secHandlePriorBootFailure, loadOrNew_settled d _ s hs hv]
  split
  · exact RollD_of_coherent _ _ (recordBootFailure_coherent _ _ _ _) (recordBootFailure_roll _ _ _ _ _ hr)
  · exact hr

theorem secClearEvents_roll (h : Settled d cfg.version) (hr : RollD d R) : RollD (secClearEvents cfg d) R := by
  obtain ⟨s, hs, hv⟩ := h
  simp only [secClearEvents, loadOrNew_settled d _ s hs hv]
  exact hr

theorem rollBackIfNeeded_roll (rb : Option (List Nat)) (h : Settled d cfg.version) (hr : RollD d R) :
    RollD (rollBackIfNeeded env cfg d rb) (rb.getD [] ++ R) := by
  cases rb with
  | none => simpa [rollBackIfNeeded] using hr
  | some ns =>
    obtain ⟨s, hs, hv⟩ := h
    simp only [rollBackIfNeeded, secRollBack, loadOrNew_settled d _ s hs hv, Option.getD]
    exact RollD_of_coherent _ _ (foldFallBack_ban env cfg.key ns (PM.new d) [] (PM.new_coherent d) (BanPS_nil _)).1
      (foldFallBack_roll env cfg.key ns (PM.new d) R hr)

theorem shouldInstall_roll (n : Nat) (h : Settled d cfg.version) (hr : RollD d R) : RollD (shouldInstall env cfg d n).1 R := by
  unfold shouldInstall
  rw [secIsKnownBad_eq cfg d n h]
  simp only
  split
  · exact hr
  · split <;> exact secNextBootPatch_roll env cfg d R h hr

theorem checkCore_roll (r : CheckResp) (h : Settled d cfg.version) (hr : RollD d R) :
    RollD (checkCore env cfg d (some r)).1 (r.rolledBack.getD [] ++ R) := by
  unfold checkCore
  simp only
  have h1 := rollBackIfNeeded_settled env cfg d r.rolledBack h
  have r1 := rollBackIfNeeded_roll env cfg d R r.rolledBack h hr
  cases r.patch with
  | none => exact r1
  | some o => exact shouldInstall_roll env cfg _ _ o.number h1 r1

theorem secInstall_roll (o : Offer) (out : Bytes) (h : Settled d cfg.version) (hr : RollD d R) :
    RollD (secInstall cfg d o out) (R.filter (· ≠ o.number)) := by
  obtain ⟨s, hs, hv⟩ := h
  simp only [secInstall, loadOrNew_settled d _ s hs hv]
  exact RollD_of_coherent _ _ (addPatch_coherent _ _ _ _ _) (addPatch_roll _ _ _ _ _ _ hr)

end

end Updater
