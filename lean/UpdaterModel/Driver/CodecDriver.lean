/-
  `model codec`: decoder / encoder / SHA-256 against the real crates.
-/
import UpdaterModel.Driver.Proto

namespace Updater.CodecDriver
open Updater Updater.Proto

def main (_h : IO.FS.Stream) : IO UInt32 := do
  IO.eprintln "codec mode not built yet"
  return 2

end Updater.CodecDriver
