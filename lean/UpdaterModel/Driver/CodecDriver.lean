/-
  `model codec`: the model's encoder / decoder / SHA-256 against the real crates, line by line.

    T <older> <newer> <matches a:b:c:d,...> <stream> <sha256 newer>   tool side
    D <stream> <older> <E | out>                                      decoder on arbitrary streams
    H <bytes> <sha256>                                                hash only
-/
import UpdaterModel.Driver.Proto

namespace Updater.CodecDriver
open Updater Updater.Proto

def parseMatch (s : String) : Option Match :=
  match s.splitOn ":" with
  | [a, b, c, d] => do
    let a ← a.toNat?; let b ← b.toNat?; let c ← c.toNat?; let d ← d.toNat?
    pure { addOldStart := a, addNewStart := b, addLength := c, copyEnd := d }
  | _ => none

/-- Executable version of `TilingFrom`. -/
def tilingFromB (older newer : Bytes) : Nat → List Match → Bool
  | np, [] => np == newer.length
  | np, m :: rest =>
    m.addNewStart == np && m.addOldStart + m.addLength ≤ older.length && m.copyStart ≤ m.copyEnd &&
    m.copyEnd ≤ newer.length && tilingFromB older newer m.copyEnd rest

def tilingB (older newer : Bytes) (ms : List Match) : Bool :=
  (match ms with | [] => true | m :: _ => m.addOldStart == 0) && tilingFromB older newer 0 ms

def handle (parts : List String) : String :=
  match parts with
  | ["T", o, n, ms, st, h] =>
    match decHex o, decHex n, mapM' parseMatch (splitList "," ms), decHex st with
    | some older, some newer, some mlist, some stream =>
      let matches_ := mlist
      let tiling := tilingB older newer matches_
      let enc := encodePatch older newer matches_
      let dec := bipatchDecode stream older
      let sha := hexEncode (sha256 newer)
      let okEnc := enc == stream
      let okDec := match dec with | .ok out => out == newer | .error _ => false
      if tiling && okEnc && okDec && sha == h then "OK T"
      else s!"DIFF T tiling={tiling} encode={okEnc} decode={okDec} sha={sha == h}"
    | _, _, _, _ => "BAD T"
  | ["D", st, o, res] =>
    match decHex st, decHex o with
    | some stream, some older =>
      let dec := bipatchDecode stream older
      let txt := match dec with | .ok out => encHex out | .error _ => "E"
      if txt == res then "OK D" else s!"DIFF D model={txt} impl={res}"
    | _, _ => "BAD D"
  | ["H", b, h] =>
    match decHex b with
    | some bytes => if hexEncode (sha256 bytes) == h then "OK H" else s!"DIFF H model={hexEncode (sha256 bytes)} impl={h}"
    | none => "BAD H"
  | _ => "BAD line"

partial def loop (h : IO.FS.Stream) (ok diff bad : Nat) : IO (Nat × Nat × Nat) := do
  let line ← h.getLine
  if line.isEmpty then return (ok, diff, bad)
  let parts := (line.trimAscii.toString.splitOn " ").filter (· ≠ "")
  if parts.isEmpty then loop h ok diff bad else
  let r := handle parts
  if r.startsWith "OK" then loop h (ok + 1) diff bad
  else if r.startsWith "DIFF" then do IO.println s!"{r} | {(line.trimAscii.toString.take 300)}"; loop h ok (diff + 1) bad
  else do IO.println s!"{r} | {(line.trimAscii.toString.take 200)}"; loop h ok diff (bad + 1)

def main (h : IO.FS.Stream) : IO UInt32 := do
  let (ok, diff, bad) ← loop h 0 0 0
  IO.println s!"STATS ok={ok} diffs={diff} bads={bad}"
  return 0

end Updater.CodecDriver
