/-
  `model abi`: prints the model's layout of every C-visible struct (from the regenerated tables),
  for comparison with sizeof/offsetof reported by a C program linked against the built library.
-/
import UpdaterModel.Gen.Abi

namespace Updater.AbiDump
open Updater.Abi Updater.Gen

def nameOf (i : Nat) : String := (names[i]?).getD s!"#{i}"

def main : IO UInt32 := do
  for s in rustStructs do
    match layout s with
    | none => IO.println s!"LAYOUT {nameOf s.name} none"
    | some (offs, size, al) =>
      let fields := " ".intercalate ((s.fields.zip offs).map fun ((f, _), o) => s!"{nameOf f}={o}")
      IO.println s!"LAYOUT {nameOf s.name} size={size} align={al} {fields}"
  for (c, v) in rustConsts do
    IO.println s!"CONST {nameOf c}={v}"
  IO.println s!"DARTFNS {" ".intercalate (dartFns.map fun f => nameOf f.name)}"
  IO.println s!"RUSTFNS {" ".intercalate (rustFns.map fun f => nameOf f.name)}"
  return 0

end Updater.AbiDump
