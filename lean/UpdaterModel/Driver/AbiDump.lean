/-
  `model abi`: prints the model's layout of every C-visible struct (from the regenerated tables),
  for comparison with sizeof/offsetof reported by a C program linked against the built library.
-/
import UpdaterModel.Gen.Abi

namespace Updater.AbiDump
open Updater.Abi Updater.Gen

def nameOf (i : Nat) : String := (names[i]?).getD s!"#{i}"

def main : IO UInt32 := do
  for s in rustStructs do
    match layout s with
    | none => IO.println s!"LAYOUT {nameOf s.name} none"
    | some (offs, size, al) =>
      let fields := " ".intercalate ((s.fields.zip offs).map fun ((f, _), o) => s!"{nameOf f}={o}")
      IO.println s!"LAYOUT {nameOf s.name} size={size} align={al} {fields}"
  for (c, v) in rustConsts do
    IO.println s!"CONST {nameOf c}={v}"
  -- witnesses: the declarations on which the sides disagree — the same membership tests as the theorems
  -- `header_agrees_with_rust`, `dart_agrees_with_rust`, `structs_agree` of Props/C15
  let showFn (f : Fn) : String := s!"{reprStr f.ret}({", ".intercalate (f.params.map reprStr)})"
  let showSt (s : Struct) : String := ", ".intercalate (s.fields.map fun (n, t) => s!"{nameOf n}:{reprStr t}")
  let other (l : List Fn) (n : Nat) : String := match l.find? (·.name == n) with | some g => showFn g | none => "<absent>"
  let otherS (l : List Struct) (n : Nat) : String := match l.find? (·.name == n) with | some g => showSt g | none => "<absent>"
  for f in rustFns do
    if !(headerFns.contains f) then
      IO.println s!"ABIDIFF function {nameOf f.name}: Rust {showFn f} | header {other headerFns f.name}"
  for f in headerFns do
    if !(rustFns.contains f) && (rustFns.find? (·.name == f.name)).isNone then
      IO.println s!"ABIDIFF function {nameOf f.name}: header {showFn f} | Rust <absent>"
  for f in dartFns do
    if !(rustFns.contains f) then
      IO.println s!"ABIDIFF function {nameOf f.name}: Dart {showFn f} | Rust {other rustFns f.name}"
  for s in rustStructs do
    if !(headerStructs.contains s) then
      IO.println s!"ABIDIFF struct {nameOf s.name}: Rust [{showSt s}] | header [{otherS headerStructs s.name}]"
  for s in headerStructs do
    if !(rustStructs.contains s) && (rustStructs.find? (·.name == s.name)).isNone then
      IO.println s!"ABIDIFF struct {nameOf s.name}: header [{showSt s}] | Rust <absent>"
  for s in dartStructs do
    if !(rustStructs.contains s) then
      IO.println s!"ABIDIFF struct {nameOf s.name}: Dart [{showSt s}] | Rust [{otherS rustStructs s.name}]"
  if dartStructs.length != rustStructs.length then
    IO.println s!"ABIDIFF structs: Dart declares {dartStructs.length}, Rust {rustStructs.length}"
  if statusVariants != documentedVariants then
    IO.println s!"ABIDIFF status codes: Rust enum order {reprStr statusVariants} | documented {reprStr documentedVariants}"
  IO.println s!"DARTFNS {" ".intercalate (dartFns.map fun f => nameOf f.name)}"
  IO.println s!"RUSTFNS {" ".intercalate (rustFns.map fun f => nameOf f.name)}"
  return 0

end Updater.AbiDump
